/*
 * vsbshim -- LD_PRELOAD interposer used by the vsb verification framework.
 *
 *   clang -O1 -shared -fPIC -o /verif/.cache/vsbshim.so /verif/shim/vsbshim.c -ldl -lpthread
 *
 * Features (all driven by VSBSHIM_* environment variables, see README.md):
 *   fake CLOCK_REALTIME, watched path prefixes with a global call counter, a call
 *   trace, errno injection, self-kill before/after the n-th call, in-shim
 *   "concurrent writer" actions, FIFO pauses, and an in-process control API.
 *
 * Design rules:
 *   - with no VSBSHIM_* variable the library only forwards calls;
 *   - all of the shim's own I/O uses raw syscall(2), never the interposed wrappers;
 *   - no malloc in wrappers (fixed buffers; the fd table is mmap'ed lazily);
 *   - one global mutex is held from "number the call" to "trace line written", i.e.
 *     across the real call, so sequence numbers are a true linearisation.
 */
#define _GNU_SOURCE
#undef _FORTIFY_SOURCE
#include <dirent.h>
#include <dlfcn.h>
#include <errno.h>
#include <fcntl.h>
#include <limits.h>
#include <pthread.h>
#include <signal.h>
#include <stdarg.h>
#include <stdio.h>
#include <stdlib.h>
#include <string.h>
#include <sys/file.h>
#include <sys/mman.h>
#include <sys/stat.h>
#include <sys/syscall.h>
#include <sys/time.h>
#include <sys/types.h>
#include <sys/uio.h>
#include <time.h>
#include <unistd.h>

#ifndef PATH_MAX
#define PATH_MAX 4096
#endif
#define PMAX 4096
#define MAXFD 65536
#define MAXSPEC 128
#define MAXWATCH 32
#define LINEMAX (3 * PMAX + 256)
#define EXPORT __attribute__((visibility("default")))

/* ------------------------------------------------------------------------- */
/* real functions                                                             */
/* ------------------------------------------------------------------------- */

static int (*real_open)(const char *, int, ...);
static int (*real_open64)(const char *, int, ...);
static int (*real_openat)(int, const char *, int, ...);
static int (*real_openat64)(int, const char *, int, ...);
static int (*real_creat)(const char *, mode_t);
static int (*real_creat64)(const char *, mode_t);
static int (*real_close)(int);
static ssize_t (*real_read)(int, void *, size_t);
static ssize_t (*real_write)(int, const void *, size_t);
static ssize_t (*real_readv)(int, const struct iovec *, int);
static ssize_t (*real_writev)(int, const struct iovec *, int);
static ssize_t (*real_pread64)(int, void *, size_t, off64_t);
static ssize_t (*real_pwrite64)(int, const void *, size_t, off64_t);
static ssize_t (*real_pread)(int, void *, size_t, off_t);
static ssize_t (*real_pwrite)(int, const void *, size_t, off_t);
static off_t (*real_lseek)(int, off_t, int);
static off64_t (*real_lseek64)(int, off64_t, int);
static int (*real_fsync)(int);
static int (*real_fdatasync)(int);
static int (*real_flock)(int, int);
static int (*real_ftruncate)(int, off_t);
static int (*real_ftruncate64)(int, off64_t);
static int (*real_stat)(const char *, struct stat *);
static int (*real_stat64)(const char *, struct stat64 *);
static int (*real_lstat)(const char *, struct stat *);
static int (*real_lstat64)(const char *, struct stat64 *);
static int (*real_fstat)(int, struct stat *);
static int (*real_fstat64)(int, struct stat64 *);
static int (*real_fstatat)(int, const char *, struct stat *, int);
static int (*real_fstatat64)(int, const char *, struct stat64 *, int);
static int (*real_statx)(int, const char *, int, unsigned, struct statx *);
static DIR *(*real_opendir)(const char *);
static DIR *(*real_fdopendir)(int);
static struct dirent *(*real_readdir)(DIR *);
static struct dirent64 *(*real_readdir64)(DIR *);
static int (*real_closedir)(DIR *);
static ssize_t (*real_readlink)(const char *, char *, size_t);
static ssize_t (*real_readlinkat)(int, const char *, char *, size_t);
static char *(*real_realpath)(const char *, char *);
static int (*real_mkdir)(const char *, mode_t);
static int (*real_mkdirat)(int, const char *, mode_t);
static int (*real_rmdir)(const char *);
static int (*real_unlink)(const char *);
static int (*real_unlinkat)(int, const char *, int);
static int (*real_rename)(const char *, const char *);
static int (*real_renameat)(int, const char *, int, const char *);
static int (*real_symlink)(const char *, const char *);
static int (*real_chmod)(const char *, mode_t);
static int (*real_fchmod)(int, mode_t);
static int (*real_chown)(const char *, uid_t, gid_t);
static int (*real_lchown)(const char *, uid_t, gid_t);
static int (*real_fchownat)(int, const char *, uid_t, gid_t, int);
static int (*real_utimensat)(int, const char *, const struct timespec *, int);
static int (*real_futimens)(int, const struct timespec *);
static int (*real_utimes)(const char *, const struct timeval *);
static int (*real_lutimes)(const char *, const struct timeval *);
static int (*real_clock_gettime)(clockid_t, struct timespec *);
static time_t (*real_time)(time_t *);
static int (*real_gettimeofday)(struct timeval *, void *);
static void (*real_exit)(int) __attribute__((noreturn));
static void (*real__exit)(int) __attribute__((noreturn));
static void (*real_abort)(void) __attribute__((noreturn));

#define RESOLVE(name) (*(void **)(&real_##name) = dlsym(RTLD_NEXT, #name))

/* ------------------------------------------------------------------------- */
/* state                                                                       */
/* ------------------------------------------------------------------------- */

enum { K_FAULT, K_ACTION, K_PAUSE, K_KILL };
enum { A_TRUNCATE, A_APPEND, A_UNLINK, A_REPLACE_DIR, A_REPLACE_SYMLINK, A_TOUCH, A_WRITE_AT, A_REPLACE_FILE, A_SLEEP };

struct spec {
    int kind;
    int by_seq;          /* 1: "#n" form, n below is the sequence number */
    long n;              /* sequence number, or k of a path spec (0 = every call) */
    long count;          /* per-(call,path) occurrence counter */
    int err;             /* K_FAULT */
    int after;           /* K_KILL: 0 before, 1 after */
    int act;             /* K_ACTION */
    long a, b;           /* K_ACTION numeric arguments */
    char call[32];       /* trace name, or "*" */
    char path[PMAX];     /* exact normalised absolute path */
    char arg[PMAX];      /* fifo path / symlink target / action text */
};

struct fdent {
    int used;
    char path[PMAX];
};

static pthread_once_t g_once = PTHREAD_ONCE_INIT;
static pthread_mutex_t g_mu = PTHREAD_MUTEX_INITIALIZER;   /* the big one */
static pthread_mutex_t g_fdmu = PTHREAD_MUTEX_INITIALIZER; /* fd table   */
static __thread int t_busy;

static volatile int g_enabled;      /* this process is allowed to act      */
static volatile int g_fs_on;        /* watch/trace/fault machinery needed  */
static int g_children;              /* VSBSHIM_CHILDREN=1                  */
static int g_readdir_numbered;      /* VSBSHIM_READDIR=1                   */
static int g_has_readdir_spec;
static long g_counter;
static int g_trace_fd = -1;
static int g_exit_logged;
static int g_claimed;               /* this process owns the run (see load_config) */
static char *g_owner_val;           /* in-environment slot of VSBSHIM_OWNER_PID     */
#define OWNER_WIDTH 10
#define OWNER_ZERO "0000000000"

static volatile int g_time_on;
static volatile long g_time_sec, g_time_nsec;
static volatile int g_time_spin;

static char g_watch[MAXWATCH][PMAX];
static int g_nwatch;
static struct spec g_spec[MAXSPEC];
static int g_nspec;
static struct fdent *g_fd[MAXFD];

/* ------------------------------------------------------------------------- */
/* raw helpers                                                                 */
/* ------------------------------------------------------------------------- */

static void raw_write_all(int fd, const char *b, size_t n)
{
    /* one write(2) per line; only loop on EINTR/short writes (which do not happen
     * on regular files in practice) */
    while (n > 0) {
        long r = syscall(SYS_write, fd, b, n);
        if (r < 0) {
            if (errno == EINTR) continue;
            return;
        }
        b += r;
        n -= (size_t)r;
    }
}

static void warnf(const char *fmt, ...)
{
    char b[768];
    int saved = errno;
    int n = snprintf(b, sizeof b, "vsbshim: ");
    va_list ap;
    va_start(ap, fmt);
    int m = vsnprintf(b + n, sizeof b - (size_t)n - 2, fmt, ap);
    va_end(ap);
    if (m < 0) m = 0;
    n += m;
    if (n > (int)sizeof b - 2) n = sizeof b - 2;
    b[n++] = '\n';
    raw_write_all(2, b, (size_t)n);
    errno = saved;
}

static const struct { const char *name; int val; } g_errtab[] = {
    {"EPERM", EPERM}, {"ENOENT", ENOENT}, {"ESRCH", ESRCH}, {"EINTR", EINTR}, {"EIO", EIO},
    {"ENXIO", ENXIO}, {"E2BIG", E2BIG}, {"ENOEXEC", ENOEXEC}, {"EBADF", EBADF},
    {"ECHILD", ECHILD}, {"EAGAIN", EAGAIN}, {"EWOULDBLOCK", EWOULDBLOCK}, {"ENOMEM", ENOMEM},
    {"EACCES", EACCES}, {"EFAULT", EFAULT}, {"ENOTBLK", ENOTBLK}, {"EBUSY", EBUSY},
    {"EEXIST", EEXIST}, {"EXDEV", EXDEV}, {"ENODEV", ENODEV}, {"ENOTDIR", ENOTDIR},
    {"EISDIR", EISDIR}, {"EINVAL", EINVAL}, {"ENFILE", ENFILE}, {"EMFILE", EMFILE},
    {"ENOTTY", ENOTTY}, {"ETXTBSY", ETXTBSY}, {"EFBIG", EFBIG}, {"ENOSPC", ENOSPC},
    {"ESPIPE", ESPIPE}, {"EROFS", EROFS}, {"EMLINK", EMLINK}, {"EPIPE", EPIPE},
    {"EDOM", EDOM}, {"ERANGE", ERANGE}, {"EDEADLK", EDEADLK}, {"ENAMETOOLONG", ENAMETOOLONG},
    {"ENOLCK", ENOLCK}, {"ENOSYS", ENOSYS}, {"ENOTEMPTY", ENOTEMPTY}, {"ELOOP", ELOOP},
    {"ENODATA", ENODATA}, {"EOVERFLOW", EOVERFLOW}, {"EOPNOTSUPP", EOPNOTSUPP},
    {"ENOTSUP", ENOTSUP}, {"EDQUOT", EDQUOT}, {"ESTALE", ESTALE}, {"ETIMEDOUT", ETIMEDOUT},
    {"ECANCELED", ECANCELED}, {"EILSEQ", EILSEQ}, {"ENOTCONN", ENOTCONN},
    {"ECONNRESET", ECONNRESET}, {"ECONNREFUSED", ECONNREFUSED}, {"EHOSTUNREACH", EHOSTUNREACH},
};
#define NERR ((int)(sizeof g_errtab / sizeof g_errtab[0]))

static int errno_by_name(const char *s, size_t len)
{
    if (len == 0 || len > 31) return -1;
    for (int i = 0; i < NERR; i++)
        if (strlen(g_errtab[i].name) == len && memcmp(g_errtab[i].name, s, len) == 0)
            return g_errtab[i].val;
    /* plain number */
    int v = 0;
    for (size_t i = 0; i < len; i++) {
        if (s[i] < '0' || s[i] > '9') return -1;
        v = v * 10 + (s[i] - '0');
        if (v > 4095) return -1;
    }
    return v > 0 ? v : -1;
}

static const char *errno_name(int e, char *tmp, size_t n)
{
    for (int i = 0; i < NERR; i++)
        if (g_errtab[i].val == e) return g_errtab[i].name;
    snprintf(tmp, n, "E%d", e);
    return tmp;
}

/* ------------------------------------------------------------------------- */
/* paths                                                                       */
/* ------------------------------------------------------------------------- */

/* NULL test that survives the headers' __nonnull annotations */
static __attribute__((noinline)) int nn(const void *volatile p) { return p != NULL; }

/* Lexically normalise an absolute path: collapse "//", "." and ".." (".." pops the
 * previous component, symlinks are not resolved), strip the trailing slash. */
static int norm_path(const char *in, char *out /* PMAX */)
{
    size_t o = 0;
    const char *p = in;
    if (*p != '/') return -1;
    while (*p) {
        while (*p == '/') p++;
        if (!*p) break;
        const char *q = p;
        while (*q && *q != '/') q++;
        size_t l = (size_t)(q - p);
        if (l == 1 && p[0] == '.') {
            /* skip */
        } else if (l == 2 && p[0] == '.' && p[1] == '.') {
            while (o > 0 && out[o - 1] != '/') o--;
            if (o > 0) o--; /* remove the slash too */
        } else {
            if (o + 1 + l >= PMAX) return -1;
            out[o++] = '/';
            memcpy(out + o, p, l);
            o += l;
        }
        p = q;
    }
    if (o == 0) out[o++] = '/';
    out[o] = 0;
    return 0;
}

static int fd_get(int fd, char *out)
{
    if (fd < 0 || fd >= MAXFD) return 0;
    struct fdent *e = g_fd[fd];
    if (!e || !e->used) return 0;
    int ok = 0;
    pthread_mutex_lock(&g_fdmu);
    if (e->used) {
        if (out) strcpy(out, e->path);
        ok = 1;
    }
    pthread_mutex_unlock(&g_fdmu);
    return ok;
}

static void fd_set_path(int fd, const char *path)
{
    if (fd < 0 || fd >= MAXFD) return;
    pthread_mutex_lock(&g_fdmu);
    struct fdent *e = g_fd[fd];
    if (!e) {
        void *m = mmap(NULL, sizeof(struct fdent), PROT_READ | PROT_WRITE,
                       MAP_PRIVATE | MAP_ANONYMOUS, -1, 0);
        if (m != MAP_FAILED) {
            e = m;
            g_fd[fd] = e;
        }
    }
    if (e) {
        strncpy(e->path, path, PMAX - 1);
        e->path[PMAX - 1] = 0;
        e->used = 1;
    }
    pthread_mutex_unlock(&g_fdmu);
}

static void fd_clear(int fd)
{
    if (fd < 0 || fd >= MAXFD) return;
    struct fdent *e = g_fd[fd];
    if (!e || !e->used) return;
    pthread_mutex_lock(&g_fdmu);
    e->used = 0;
    pthread_mutex_unlock(&g_fdmu);
}

/* Resolve (dirfd, path) to a normalised absolute path.  path may be NULL or ""
 * (AT_EMPTY_PATH style), in which case the result is the path of dirfd. */
static int resolve_at(int dirfd, const char *path, char *out)
{
    char tmp[2 * PMAX + 2];
    if (path && path[0] == '/') {
        if (strlen(path) >= 2 * PMAX) return -1;
        return norm_path(path, out);
    }
    char base[PMAX];
    if (dirfd == AT_FDCWD) {
        long r = syscall(SYS_getcwd, base, sizeof base);
        if (r < 0 || base[0] != '/') return -1;
    } else if (!fd_get(dirfd, base)) {
        char link[64];
        snprintf(link, sizeof link, "/proc/self/fd/%d", dirfd);
        long r = syscall(SYS_readlinkat, AT_FDCWD, link, base, sizeof base - 1);
        if (r <= 0) return -1;
        base[r] = 0;
        if (base[0] != '/') return -1;
    }
    if (!nn(path) || !path[0]) return norm_path(base, out);
    if (strlen(base) + 1 + strlen(path) >= sizeof tmp) return -1;
    strcpy(tmp, base);
    strcat(tmp, "/");
    strcat(tmp, path);
    return norm_path(tmp, out);
}

static int under(const char *path, const char *prefix)
{
    size_t l = strlen(prefix);
    if (l == 1 && prefix[0] == '/') return 1;
    if (strncmp(path, prefix, l) != 0) return 0;
    return path[l] == 0 || path[l] == '/';
}

static int is_watched(const char *path)
{
    for (int i = 0; i < g_nwatch; i++)
        if (under(path, g_watch[i])) return 1;
    for (int i = 0; i < g_nspec; i++)
        if (!g_spec[i].by_seq && strcmp(g_spec[i].path, path) == 0) return 1;
    return 0;
}

/* returns 1 and fills out when (dirfd,path) is a watched path */
static int watch_at(int dirfd, const char *path, char *out)
{
    int saved = errno;
    int r = resolve_at(dirfd, path, out) == 0 && is_watched(out);
    errno = saved;
    return r;
}

static int fd_isdir(int fd)
{
    struct statx sx;
    int saved = errno;
    long r = syscall(SYS_statx, fd, "", AT_EMPTY_PATH, STATX_TYPE, &sx);
    errno = saved;
    return r == 0 && S_ISDIR(sx.stx_mode);
}

/* ------------------------------------------------------------------------- */
/* configuration                                                               */
/* ------------------------------------------------------------------------- */

static void parse_short(void);
static int parse_long(const char *s, size_t len, long *out)
{
    if (len == 0 || len > 18) return -1;
    long v = 0;
    for (size_t i = 0; i < len; i++) {
        if (s[i] < '0' || s[i] > '9') return -1;
        v = v * 10 + (s[i] - '0');
    }
    *out = v;
    return 0;
}

/* "<call>@<abs path>" in s[0..len) */
static int parse_target(const char *s, size_t len, struct spec *sp)
{
    const char *at = memchr(s, '@', len);
    if (!at) return -1;
    size_t cl = (size_t)(at - s);
    if (cl == 0 || cl >= sizeof sp->call) return -1;
    memcpy(sp->call, s, cl);
    sp->call[cl] = 0;
    size_t pl = len - cl - 1;
    if (pl == 0 || pl >= PMAX || at[1] != '/') return -1;
    char tmp[PMAX];
    memcpy(tmp, at + 1, pl);
    tmp[pl] = 0;
    return norm_path(tmp, sp->path);
}

/* find the leftmost "@<digits><sep>" in s[0..len); returns index of '@' or -1 */
static long find_at_k(const char *s, size_t len, char sep, long *k, size_t *after)
{
    for (size_t i = 0; i + 2 < len + 1 && i < len; i++) {
        if (s[i] != '@') continue;
        size_t j = i + 1;
        while (j < len && s[j] >= '0' && s[j] <= '9') j++;
        if (j == i + 1 || j >= len || s[j] != sep) continue;
        if (parse_long(s + i + 1, j - i - 1, k) != 0) continue;
        *after = j + 1;
        return (long)i;
    }
    return -1;
}

static struct spec *new_spec(int kind)
{
    if (g_nspec >= MAXSPEC) {
        warnf("too many specs (max %d), ignoring the rest", MAXSPEC);
        return NULL;
    }
    struct spec *sp = &g_spec[g_nspec];
    memset(sp, 0, sizeof *sp);
    sp->kind = kind;
    return sp;
}

static int parse_fault(const char *s, size_t len)
{
    struct spec *sp = new_spec(K_FAULT);
    if (!sp) return 0;
    const char *eq = NULL;
    for (size_t i = len; i > 0; i--)
        if (s[i - 1] == '=') { eq = s + i - 1; break; }
    if (!eq) return -1;
    const char *e = eq + 1;
    size_t el = len - (size_t)(e - s);
    const char *at = memchr(e, '@', el);
    size_t nl = at ? (size_t)(at - e) : el;
    sp->err = errno_by_name(e, nl);
    if (sp->err < 0) return -1;
    long k = 0;
    if (at && parse_long(at + 1, el - nl - 1, &k) != 0) return -1;
    size_t hl = (size_t)(eq - s);
    if (hl > 1 && s[0] == '#') {
        if (at) return -1;
        sp->by_seq = 1;
        if (parse_long(s + 1, hl - 1, &sp->n) != 0 || sp->n < 1) return -1;
    } else {
        if (parse_target(s, hl, sp) != 0) return -1;
        sp->n = k;
    }
    g_nspec++;
    return 0;
}

static int parse_kill(const char *s, size_t len)
{
    struct spec *sp = new_spec(K_KILL);
    if (!sp) return 0;
    const char *c = NULL;
    for (size_t i = len; i > 0; i--)
        if (s[i - 1] == ':') { c = s + i - 1; break; }
    if (!c) return -1;
    size_t wl = len - (size_t)(c + 1 - s);
    if (wl == 6 && memcmp(c + 1, "before", 6) == 0) sp->after = 0;
    else if (wl == 5 && memcmp(c + 1, "after", 5) == 0) sp->after = 1;
    else return -1;
    size_t hl = (size_t)(c - s);
    if (hl > 1 && s[0] == '#') {
        sp->by_seq = 1;
        if (parse_long(s + 1, hl - 1, &sp->n) != 0 || sp->n < 1) return -1;
    } else {
        /* <call>@<path>@<k> : the k is after the last '@' */
        const char *at = NULL;
        for (size_t i = hl; i > 0; i--)
            if (s[i - 1] == '@') { at = s + i - 1; break; }
        if (!at) return -1;
        if (parse_long(at + 1, hl - (size_t)(at + 1 - s), &sp->n) != 0 || sp->n < 1) return -1;
        if (parse_target(s, (size_t)(at - s), sp) != 0) return -1;
    }
    g_nspec++;
    return 0;
}

static int parse_pause(const char *s, size_t len)
{
    struct spec *sp = new_spec(K_PAUSE);
    if (!sp) return 0;
    size_t after = 0;
    if (len > 1 && s[0] == '#') {
        const char *c = memchr(s, ':', len);
        if (!c) return -1;
        sp->by_seq = 1;
        if (parse_long(s + 1, (size_t)(c - s) - 1, &sp->n) != 0 || sp->n < 1) return -1;
        after = (size_t)(c + 1 - s);
    } else {
        long at = find_at_k(s, len, ':', &sp->n, &after);
        if (at < 0 || sp->n < 1) return -1;
        if (parse_target(s, (size_t)at, sp) != 0) return -1;
    }
    size_t fl = len - after;
    if (fl == 0 || fl >= PMAX) return -1;
    memcpy(sp->arg, s + after, fl);
    sp->arg[fl] = 0;
    g_nspec++;
    return 0;
}

static int parse_two_longs(const char *s, long *a, long *b)
{
    const char *c = strchr(s, ':');
    if (!c) return -1;
    if (parse_long(s, (size_t)(c - s), a) != 0) return -1;
    return parse_long(c + 1, strlen(c + 1), b);
}

static int parse_action_text(struct spec *sp)
{
    const char *a = sp->arg;
    if (strncmp(a, "truncate:", 9) == 0) {
        sp->act = A_TRUNCATE;
        return parse_long(a + 9, strlen(a + 9), &sp->a);
    } else if (strncmp(a, "append:", 7) == 0) {
        sp->act = A_APPEND;
        return parse_long(a + 7, strlen(a + 7), &sp->a);
    } else if (strcmp(a, "unlink") == 0) {
        sp->act = A_UNLINK;
        return 0;
    } else if (strcmp(a, "replace-dir") == 0) {
        sp->act = A_REPLACE_DIR;
        return 0;
    } else if (strncmp(a, "replace-symlink:", 16) == 0) {
        sp->act = A_REPLACE_SYMLINK;
        return a[16] ? 0 : -1;
    } else if (strcmp(a, "touch") == 0) {
        sp->act = A_TOUCH;
        return 0;
    } else if (strncmp(a, "replace-file:", 13) == 0) {
        /* a new file of N bytes ('R') is renamed over the path: new inode, new size, new mtime */
        sp->act = A_REPLACE_FILE;
        return parse_long(a + 13, strlen(a + 13), &sp->a);
    } else if (strncmp(a, "write-at:", 9) == 0) {
        sp->act = A_WRITE_AT;
        return parse_two_longs(a + 9, &sp->a, &sp->b);
    } else if (strncmp(a, "sleep:", 6) == 0) {
        /* the calling thread is held back for N ms before the call, other threads go on (the call is numbered and
         * traced when it is finally made) */
        sp->act = A_SLEEP;
        return parse_long(a + 6, strlen(a + 6), &sp->a);
    }
    return -1;
}

static int parse_action(const char *s, size_t len)
{
    struct spec *sp = new_spec(K_ACTION);
    if (!sp) return 0;
    /* leftmost "@<k>=" whose right-hand side is a valid action */
    size_t off = 0;
    for (;;) {
        size_t after = 0;
        long k = 0;
        long at = find_at_k(s + off, len - off, '=', &k, &after);
        if (at < 0) return -1;
        size_t al = len - off - after;
        if (al > 0 && al < PMAX) {
            memcpy(sp->arg, s + off + after, al);
            sp->arg[al] = 0;
            if (k >= 1 && parse_action_text(sp) == 0 &&
                parse_target(s, off + (size_t)at, sp) == 0) {
                sp->n = k;
                g_nspec++;
                return 0;
            }
        }
        off += (size_t)at + 1;
        if (off >= len) return -1;
    }
}

static void parse_list(const char *var, int (*fn)(const char *, size_t))
{
    const char *v = getenv(var);
    if (!v || !*v) return;
    const char *p = v;
    while (*p) {
        const char *q = strchr(p, ';');
        size_t l = q ? (size_t)(q - p) : strlen(p);
        if (l > 0 && fn(p, l) != 0)
            warnf("ignoring malformed %s entry '%.*s'", var, (int)(l > 300 ? 300 : l), p);
        if (!q) break;
        p = q + 1;
    }
}

static void parse_watch(void)
{
    const char *v = getenv("VSBSHIM_WATCH");
    g_nwatch = 0;
    if (!v || !*v) return;
    const char *p = v;
    while (*p) {
        /* entries are separated by ':' but only where the next entry starts with
         * '/', so that prefixes may contain ':' (backup names do) */
        const char *q = p;
        while (*q && !(*q == ':' && q[1] == '/')) q++;
        size_t l = (size_t)(q - p);
        char tmp[PMAX];
        if (l == 0) {
            /* empty entry */
        } else if (l >= PMAX || p[0] != '/') {
            warnf("ignoring malformed VSBSHIM_WATCH entry '%.*s' (must be an absolute path)",
                  (int)(l > 300 ? 300 : l), p);
        } else if (g_nwatch >= MAXWATCH) {
            warnf("too many VSBSHIM_WATCH entries (max %d)", MAXWATCH);
        } else {
            memcpy(tmp, p, l);
            tmp[l] = 0;
            if (norm_path(tmp, g_watch[g_nwatch]) == 0) g_nwatch++;
            else warnf("ignoring malformed VSBSHIM_WATCH entry '%s'", tmp);
        }
        if (!*q) break;
        p = q + 1;
    }
}

static void set_time_locked(long sec, long nsec)
{
    while (__atomic_exchange_n(&g_time_spin, 1, __ATOMIC_ACQUIRE)) { }
    if (nsec < 0) {
        g_time_on = 0;
    } else {
        g_time_sec = sec;
        g_time_nsec = nsec > 999999999 ? 999999999 : nsec;
        g_time_on = 1;
    }
    __atomic_store_n(&g_time_spin, 0, __ATOMIC_RELEASE);
}

static void parse_time(void)
{
    const char *v = getenv("VSBSHIM_TIME");
    if (!v || !*v) {
        set_time_locked(0, -1);
        return;
    }
    const char *p = v;
    int neg = 0;
    if (*p == '-') { neg = 1; p++; }
    const char *dot = strchr(p, '.');
    long sec = 0, nsec = 0;
    size_t sl = dot ? (size_t)(dot - p) : strlen(p);
    int bad = parse_long(p, sl, &sec) != 0;
    if (!bad && dot) {
        /* decimal fraction of a second, right-padded to nanoseconds */
        const char *f = dot + 1;
        size_t fl = strlen(f);
        if (fl == 0 || fl > 9) bad = 1;
        for (size_t i = 0; !bad && i < 9; i++) {
            int d = 0;
            if (i < fl) {
                if (f[i] < '0' || f[i] > '9') { bad = 1; break; }
                d = f[i] - '0';
            }
            nsec = nsec * 10 + d;
        }
    }
    if (bad) {
        warnf("ignoring malformed VSBSHIM_TIME '%.100s'", v);
        set_time_locked(0, -1);
        return;
    }
    set_time_locked(neg ? -sec : sec, nsec);
}

static void open_trace(void)
{
    if (g_trace_fd >= 0) {
        syscall(SYS_close, g_trace_fd);
        g_trace_fd = -1;
    }
    const char *v = getenv("VSBSHIM_TRACE");
    if (!v || !*v) return;
    long fd = syscall(SYS_openat, AT_FDCWD, v, O_WRONLY | O_CREAT | O_APPEND | O_CLOEXEC, 0644);
    if (fd < 0) {
        warnf("cannot open VSBSHIM_TRACE file '%.300s' (errno %d), tracing disabled", v, errno);
        return;
    }
    /* move the descriptor out of the way so the program sees its usual fd numbers */
    long hi = syscall(SYS_fcntl, fd, F_DUPFD_CLOEXEC, 1000);
    if (hi < 0) hi = syscall(SYS_fcntl, fd, F_DUPFD_CLOEXEC, 200);
    if (hi >= 0) {
        syscall(SYS_close, fd);
        fd = hi;
    }
    g_trace_fd = (int)fd;
}

static void rescan_fds(void)
{
    for (int fd = 0; fd < MAXFD; fd++)
        if (g_fd[fd]) g_fd[fd]->used = 0;
    if (!g_fs_on) return;
    for (int fd = 0; fd < 4096; fd++) {
        if (fd == g_trace_fd) continue;
        char link[64], p[PMAX], n[PMAX];
        snprintf(link, sizeof link, "/proc/self/fd/%d", fd);
        long r = syscall(SYS_readlinkat, AT_FDCWD, link, p, sizeof p - 1);
        if (r <= 0) continue;
        p[r] = 0;
        if (p[0] == '/' && norm_path(p, n) == 0 && is_watched(n)) fd_set_path(fd, n);
    }
}

static int any_vsbshim_env(void)
{
    extern char **environ;
    if (!environ) return 0;
    for (char **e = environ; *e; e++)
        if (strncmp(*e, "VSBSHIM_", 8) == 0 && strncmp(*e, "VSBSHIM_OWNER_PID=", 18) != 0)
            return 1;
    return 0;
}

static void claim_owner_slot(void)
{
    if (g_claimed) return;
    g_claimed = 1;
    if (g_owner_val && strlen(g_owner_val) == OWNER_WIDTH) {
        char buf[32];
        snprintf(buf, sizeof buf, "%0*ld", OWNER_WIDTH, (long)syscall(SYS_getpid));
        memcpy(g_owner_val, buf, OWNER_WIDTH);
    }
}

/* (re)load everything; caller holds g_mu or is single-threaded */
static void load_config(int claim_owner)
{
    int saved = errno;
    const char *c = getenv("VSBSHIM_CHILDREN");
    g_children = c && strcmp(c, "1") == 0;
    const char *rd = getenv("VSBSHIM_READDIR");
    g_readdir_numbered = rd && strcmp(rd, "1") == 0;

    int any = any_vsbshim_env();
    int enabled = 1;
    g_claimed = 0;
    g_owner_val = NULL;
    const char *only = getenv("VSBSHIM_ONLY");
    if (only && *only) {
        /* active exactly in processes whose executable has this basename */
        char exe[PMAX];
        long r = syscall(SYS_readlinkat, AT_FDCWD, "/proc/self/exe", exe, sizeof exe - 1);
        if (r > 0) {
            exe[r] = 0;
            const char *b = strrchr(exe, '/');
            b = b ? b + 1 : exe;
            enabled = strcmp(b, only) == 0;
        } else {
            enabled = 0;
        }
        g_claimed = enabled;
    } else if (any || claim_owner) {
        /* VSBSHIM_OWNER_PID is a fixed-width slot in the environment.  All zeros means
         * "nobody yet": the first process that performs a watched call writes its pid
         * into the slot IN PLACE (no setenv outside of single-threaded init), and every
         * process that later inherits a foreign pid stays inert. */
        char *ov = getenv("VSBSHIM_OWNER_PID");
        long v = ov ? strtol(ov, NULL, 10) : 0;
        if (!ov || (v == 0 && strlen(ov) != OWNER_WIDTH)) {
            setenv("VSBSHIM_OWNER_PID", OWNER_ZERO, 1);
            ov = getenv("VSBSHIM_OWNER_PID");
            v = 0;
        }
        long me = (long)syscall(SYS_getpid);
        if (v == 0) {
            g_owner_val = ov;
        } else if (v == me) {
            g_claimed = 1;
            g_owner_val = ov && strlen(ov) == OWNER_WIDTH ? ov : NULL;
        } else if (g_children) {
            g_claimed = 1; /* acts, but leaves the owner slot alone */
        } else if (claim_owner) {
            char buf[32];
            snprintf(buf, sizeof buf, "%0*ld", OWNER_WIDTH, me);
            setenv("VSBSHIM_OWNER_PID", buf, 1);
            g_claimed = 1;
        } else {
            enabled = 0;
        }
        if (claim_owner && enabled) claim_owner_slot();
    }

    g_nspec = 0;
    g_nwatch = 0;
    g_counter = 0;
    g_exit_logged = 0;
    g_has_readdir_spec = 0;
    if (enabled) {
        parse_time();
        parse_watch();
        parse_list("VSBSHIM_FAULT", parse_fault);
        parse_list("VSBSHIM_KILL", parse_kill);
        parse_list("VSBSHIM_ACTION", parse_action);
        parse_list("VSBSHIM_PAUSE", parse_pause);
        parse_short();
        for (int i = 0; i < g_nspec; i++)
            if (!g_spec[i].by_seq && strcmp(g_spec[i].call, "readdir") == 0)
                g_has_readdir_spec = 1;
        open_trace();
        if (g_nspec > 0 && g_nwatch == 0) {
            int byseq = 0;
            for (int i = 0; i < g_nspec; i++) byseq |= g_spec[i].by_seq;
            if (byseq) warnf("'#n' specs given but VSBSHIM_WATCH is empty: only exact spec paths are numbered");
        }
        g_fs_on = g_nwatch > 0 || g_nspec > 0;
        if (g_trace_fd >= 0 && !g_fs_on)
            g_fs_on = 1; /* EXIT line only */
    } else {
        set_time_locked(0, -1);
        if (g_trace_fd >= 0) { syscall(SYS_close, g_trace_fd); g_trace_fd = -1; }
        g_fs_on = 0;
    }
    g_enabled = enabled;
    rescan_fds();
    errno = saved;
}

static void atfork_child(void)
{
    pthread_mutex_t fresh = PTHREAD_MUTEX_INITIALIZER;
    memcpy(&g_mu, &fresh, sizeof fresh);
    memcpy(&g_fdmu, &fresh, sizeof fresh);
    t_busy = 0;
    g_time_spin = 0;
    if (!g_children) {
        g_claimed = 0;
        g_enabled = 0;
        g_fs_on = 0;
        g_time_on = 0;
    }
}

static void init_once(void)
{
    RESOLVE(open); RESOLVE(open64); RESOLVE(openat); RESOLVE(openat64);
    RESOLVE(creat); RESOLVE(creat64); RESOLVE(close);
    RESOLVE(read); RESOLVE(write); RESOLVE(readv); RESOLVE(writev);
    RESOLVE(pread); RESOLVE(pwrite); RESOLVE(pread64); RESOLVE(pwrite64);
    RESOLVE(lseek); RESOLVE(lseek64); RESOLVE(fsync); RESOLVE(fdatasync); RESOLVE(flock);
    RESOLVE(ftruncate); RESOLVE(ftruncate64);
    RESOLVE(stat); RESOLVE(stat64); RESOLVE(lstat); RESOLVE(lstat64);
    RESOLVE(fstat); RESOLVE(fstat64); RESOLVE(fstatat); RESOLVE(fstatat64); RESOLVE(statx);
    RESOLVE(opendir); RESOLVE(fdopendir); RESOLVE(readdir); RESOLVE(readdir64); RESOLVE(closedir);
    RESOLVE(readlink); RESOLVE(readlinkat); RESOLVE(realpath);
    RESOLVE(mkdir); RESOLVE(mkdirat); RESOLVE(rmdir); RESOLVE(unlink); RESOLVE(unlinkat);
    RESOLVE(rename); RESOLVE(renameat); RESOLVE(symlink);
    RESOLVE(chmod); RESOLVE(fchmod); RESOLVE(chown); RESOLVE(lchown); RESOLVE(fchownat);
    RESOLVE(utimensat); RESOLVE(futimens); RESOLVE(utimes); RESOLVE(lutimes);
    RESOLVE(clock_gettime); RESOLVE(time); RESOLVE(gettimeofday);
    RESOLVE(exit); RESOLVE(_exit); RESOLVE(abort);
    pthread_atfork(NULL, NULL, atfork_child);
    load_config(0);
}

static inline void ensure_init(void) { pthread_once(&g_once, init_once); }

__attribute__((constructor)) static void vsbshim_ctor(void) { ensure_init(); }

static inline int fs_on(void)
{
    ensure_init();
    return g_enabled && g_fs_on && !t_busy;
}

/* ------------------------------------------------------------------------- */
/* the engine                                                                  */
/* ------------------------------------------------------------------------- */

typedef struct {
    const char *call;
    const char *path;
    const char *extra;
    int unnumbered;      /* readdir in default mode */
    long seq;
    int kill_after;
    int fired;           /* something (fault/kill/action/pause) fired */
} ev_t;

static size_t put_esc(char *b, size_t o, size_t cap, const char *s)
{
    if (!s || !*s) s = "-";
    for (; *s && o + 2 < cap; s++) {
        unsigned char ch = (unsigned char)*s;
        if (ch == '\t') { b[o++] = '\\'; b[o++] = 't'; }
        else if (ch == '\n') { b[o++] = '\\'; b[o++] = 'n'; }
        else if (ch == '\\') { b[o++] = '\\'; b[o++] = '\\'; }
        else b[o++] = (char)ch;
    }
    return o;
}

/* "-" for ret when have_ret == 0 */
static void trace_line(long seq, const char *prefix, const char *call, const char *path,
                       const char *extra, int have_ret, long ret, int err)
{
    if (g_trace_fd < 0) return;
    char b[LINEMAX];
    char tmp[32];
    size_t o = (size_t)snprintf(b, 64, "%ld\t", seq);
    if (prefix) o = put_esc(b, o, sizeof b - 64, prefix);
    o = put_esc(b, o, sizeof b - 64, call);
    b[o++] = '\t';
    o = put_esc(b, o, sizeof b - 64, path);
    b[o++] = '\t';
    o = put_esc(b, o, sizeof b - 64, extra);
    b[o++] = '\t';
    if (have_ret) o += (size_t)snprintf(b + o, 32, "%ld", ret);
    else b[o++] = '-';
    b[o++] = '\t';
    o = put_esc(b, o, sizeof b, err ? errno_name(err, tmp, sizeof tmp) : "-");
    b[o++] = '\n';
    raw_write_all(g_trace_fd, b, o);
}

static void die_now(void)
{
    syscall(SYS_kill, syscall(SYS_getpid), SIGKILL);
    for (;;) syscall(SYS_pause);
}

static long fill_z(int fd, long off, long n, int use_off)
{
    char z[4096];
    memset(z, 'Z', sizeof z);
    while (n > 0) {
        long c = n > (long)sizeof z ? (long)sizeof z : n;
        long r = use_off ? syscall(SYS_pwrite64, fd, z, c, off) : syscall(SYS_write, fd, z, c);
        if (r < 0) {
            if (errno == EINTR) continue;
            return -1;
        }
        n -= r;
        off += r;
    }
    return 0;
}

static long raw_remove(const char *p)
{
    long r = syscall(SYS_unlinkat, AT_FDCWD, p, 0);
    if (r < 0 && (errno == EISDIR || errno == EPERM))
        r = syscall(SYS_unlinkat, AT_FDCWD, p, AT_REMOVEDIR);
    return r;
}

static void do_action(const ev_t *e, const struct spec *sp)
{
    const char *p = sp->path;
    long r = -1;
    errno = 0;
    switch (sp->act) {
    case A_TRUNCATE:
        r = syscall(SYS_truncate, p, sp->a);
        break;
    case A_APPEND:
    case A_WRITE_AT: {
        int app = sp->act == A_APPEND;
        long fd = syscall(SYS_openat, AT_FDCWD, p, O_WRONLY | O_CLOEXEC | (app ? O_APPEND : 0), 0);
        if (fd >= 0) {
            r = app ? fill_z((int)fd, 0, sp->a, 0) : fill_z((int)fd, sp->a, sp->b, 1);
            int se = errno;
            syscall(SYS_close, fd);
            errno = se;
        }
        break;
    }
    case A_UNLINK:
        r = raw_remove(p);
        break;
    case A_REPLACE_DIR:
        raw_remove(p);
        r = syscall(SYS_mkdirat, AT_FDCWD, p, 0755);
        break;
    case A_REPLACE_SYMLINK:
        raw_remove(p);
        r = syscall(SYS_symlinkat, sp->arg + 16, AT_FDCWD, p);
        break;
    case A_TOUCH:
        r = syscall(SYS_utimensat, AT_FDCWD, p, NULL, 0);
        break;
    case A_REPLACE_FILE: {
        char tmp[PMAX + 16];
        snprintf(tmp, sizeof tmp, "%s.vsbshim-new", p);
        long fd = syscall(SYS_openat, AT_FDCWD, tmp, O_WRONLY | O_CREAT | O_TRUNC | O_CLOEXEC, 0644);
        if (fd >= 0) {
            char blk[4096];
            memset(blk, 'R', sizeof blk);
            long left = sp->a;
            r = 0;
            while (left > 0 && r >= 0) {
                long w = syscall(SYS_write, fd, blk, left > (long)sizeof blk ? sizeof blk : (size_t)left);
                if (w <= 0) { r = -1; break; }
                left -= w;
            }
            syscall(SYS_close, fd);
            if (r >= 0) r = syscall(SYS_renameat, AT_FDCWD, tmp, AT_FDCWD, p);
        }
        break;
    }
    }
    trace_line(e->seq, NULL, "ACTION", p, sp->arg, 1, r, r < 0 ? errno : 0);
}

static void do_pause(const ev_t *e, const struct spec *sp)
{
    trace_line(e->seq, NULL, "PAUSE", e->path, sp->arg, 1, 0, 0);
    long fd;
    do {
        fd = syscall(SYS_openat, AT_FDCWD, sp->arg, O_RDONLY | O_CLOEXEC, 0);
    } while (fd < 0 && errno == EINTR);
    if (fd < 0) {
        warnf("cannot open pause fifo '%.300s' (errno %d), continuing", sp->arg, errno);
        return;
    }
    char c;
    long r;
    do {
        r = syscall(SYS_read, fd, &c, 1);
    } while (r < 0 && errno == EINTR);
    syscall(SYS_close, fd);
}

/*
 * Number the call, run pause/actions/kill-before, decide on a fault.
 * Returns 0 with g_mu HELD (caller performs the real call, then ev_end()),
 * or 1 with g_mu released and errno set when a fault was injected.
 */
static int ev_begin(ev_t *e)
{
    t_busy = 1;
    pthread_mutex_lock(&g_mu);
    if (!g_claimed) claim_owner_slot();
    e->seq = e->unnumbered ? 0 : ++g_counter;
    e->kill_after = 0;
    e->fired = 0;
    int fault = 0, kill_before = 0, nact = 0;
    struct spec *pause = NULL, *acts[8];
    for (int i = 0; i < g_nspec; i++) {
        struct spec *s = &g_spec[i];
        if (s->by_seq) {
            if (e->unnumbered || s->n != e->seq) continue;
        } else {
            int star = s->call[0] == '*' && s->call[1] == 0;
            if (e->unnumbered && star) continue;
            if (!star && strcmp(s->call, e->call) != 0) continue;
            if (strcmp(s->path, e->path) != 0) continue;
            s->count++;
            if (s->n != 0 && s->count != s->n) continue;
        }
        e->fired = 1;
        switch (s->kind) {
        case K_PAUSE: if (!pause) pause = s; break;
        case K_ACTION: if (nact < 8) acts[nact++] = s; break;
        case K_KILL: if (s->after) e->kill_after = 1; else kill_before = 1; break;
        case K_FAULT: if (!fault) fault = s->err; break;
        }
    }
    if (pause) do_pause(e, pause);
    for (int i = 0; i < nact; i++) {
        if (acts[i]->act == A_SLEEP) {
            long ms = acts[i]->a;
            pthread_mutex_unlock(&g_mu);
            usleep((useconds_t)(ms > 0 ? ms : 0) * 1000);
            pthread_mutex_lock(&g_mu);
            if (!e->unnumbered) e->seq = ++g_counter;
            continue;
        }
        do_action(e, acts[i]);
    }
    if (kill_before) {
        trace_line(e->seq, "KILL-BEFORE:", e->call, e->path, e->extra, 0, 0, 0);
        die_now();
    }
    if (fault) {
        trace_line(e->seq, NULL, e->call, e->path, e->extra, 1, -1, fault);
        if (e->kill_after) die_now();
        pthread_mutex_unlock(&g_mu);
        t_busy = 0;
        errno = fault;
        return 1;
    }
    return 0;
}

static void ev_end(ev_t *e, const char *extra, long ret, int failed, int err)
{
    if (!e->unnumbered || e->fired)
        trace_line(e->seq, NULL, e->call, e->path, extra ? extra : e->extra, 1, ret,
                   failed ? (err ? err : EIO) : 0);
    if (e->kill_after) die_now();
    pthread_mutex_unlock(&g_mu);
    t_busy = 0;
    errno = err;
}

#define EV(c, p, x) { (c), (p), (x), 0, 0, 0, 0 }

static void log_exit(const char *what, int status)
{
    ensure_init();
    if (!g_enabled || !g_claimed || !g_fs_on || g_trace_fd < 0 || t_busy) return;
    int saved = errno;
    t_busy = 1;
    /* do not hang in exit() when another thread sits in a blocking watched call */
    int locked = 0;
    for (int i = 0; i < 2000 && !locked; i++) {
        if (pthread_mutex_trylock(&g_mu) == 0) locked = 1;
        else syscall(SYS_sched_yield), usleep(1000);
    }
    if (!g_exit_logged) {
        g_exit_logged = 1;
        long seq = ++g_counter;
        if (status >= 0) trace_line(seq, NULL, what, "-", "-", 1, status, 0);
        else trace_line(seq, NULL, what, "-", "-", 0, 0, 0);
    }
    if (locked) pthread_mutex_unlock(&g_mu);
    t_busy = 0;
    errno = saved;
}

/* ------------------------------------------------------------------------- */
/* open / close                                                                */
/* ------------------------------------------------------------------------- */

static void flags_str(int flags, char *out, size_t n)
{
    const char *acc = (flags & O_ACCMODE) == O_WRONLY ? "WRONLY"
                    : (flags & O_ACCMODE) == O_RDWR ? "RDWR" : "RDONLY";
    snprintf(out, n, "%s%s%s%s%s%s%s", acc,
             (flags & O_CREAT) ? "|CREAT" : "",
             (flags & O_EXCL) ? "|EXCL" : "",
             (flags & O_TRUNC) ? "|TRUNC" : "",
             (flags & O_DIRECTORY) == O_DIRECTORY ? "|DIRECTORY" : "",
             (flags & O_NOFOLLOW) ? "|NOFOLLOW" : "",
             (flags & O_APPEND) ? "|APPEND" : "");
}

enum { W_OPEN, W_OPEN64, W_OPENAT, W_OPENAT64 };

static int call_real_open(int which, int dirfd, const char *path, int flags, mode_t mode)
{
    switch (which) {
    case W_OPEN: return real_open(path, flags, mode);
    case W_OPEN64: return real_open64(path, flags, mode);
    case W_OPENAT: return real_openat(dirfd, path, flags, mode);
    default: return real_openat64(dirfd, path, flags, mode);
    }
}

static int do_open(int which, int dirfd, const char *path, int flags, mode_t mode)
{
    if (!fs_on()) return call_real_open(which, dirfd, path, flags, mode);
    char p[PMAX];
    if (!nn(path) || !watch_at(dirfd, path, p)) {
        int r = call_real_open(which, dirfd, path, flags, mode);
        if (r >= 0) {
            int err = errno;
            fd_clear(r);
            errno = err;
        }
        return r;
    }
    char x[96];
    flags_str(flags, x, sizeof x);
    if (flags & O_CREAT) {          /* the requested permission bits of a created file: "...|m600" */
        size_t l = strlen(x);
        snprintf(x + l, sizeof x - l, "|m%o", (unsigned)mode);
    }
    ev_t e = EV("open", p, x);
    if (ev_begin(&e)) return -1;
    int r = call_real_open(which, dirfd, path, flags, mode);
    int err = errno;
    if (r >= 0) fd_set_path(r, p);
    ev_end(&e, NULL, r, r < 0, err);
    return r;
}

#define OPEN_MODE(flags, last)                                              \
    mode_t mode = 0;                                                        \
    if (((flags) & O_CREAT) || ((flags) & O_TMPFILE) == O_TMPFILE) {        \
        va_list ap;                                                         \
        va_start(ap, last);                                                 \
        mode = (mode_t)va_arg(ap, int);                                     \
        va_end(ap);                                                         \
    }

EXPORT int open(const char *path, int flags, ...)
{
    OPEN_MODE(flags, flags)
    ensure_init();
    return do_open(W_OPEN, AT_FDCWD, path, flags, mode);
}

EXPORT int open64(const char *path, int flags, ...)
{
    OPEN_MODE(flags, flags)
    ensure_init();
    return do_open(W_OPEN64, AT_FDCWD, path, flags, mode);
}

EXPORT int openat(int dirfd, const char *path, int flags, ...)
{
    OPEN_MODE(flags, flags)
    ensure_init();
    return do_open(W_OPENAT, dirfd, path, flags, mode);
}

EXPORT int openat64(int dirfd, const char *path, int flags, ...)
{
    OPEN_MODE(flags, flags)
    ensure_init();
    return do_open(W_OPENAT64, dirfd, path, flags, mode);
}

EXPORT int creat(const char *path, mode_t mode)
{
    ensure_init();
    return do_open(W_OPEN, AT_FDCWD, path, O_CREAT | O_WRONLY | O_TRUNC, mode);
}

EXPORT int creat64(const char *path, mode_t mode)
{
    ensure_init();
    return do_open(W_OPEN64, AT_FDCWD, path, O_CREAT | O_WRONLY | O_TRUNC, mode);
}

EXPORT int close(int fd)
{
    char p[PMAX];
    if (!fs_on() || !fd_get(fd, p)) return real_close(fd);
    ev_t e = EV("close", p, "-");
    if (ev_begin(&e)) return -1;
    int r = real_close(fd);
    int err = errno;
    fd_clear(fd);
    ev_end(&e, NULL, r, r < 0, err);
    return r;
}

/* ------------------------------------------------------------------------- */
/* fd based calls                                                              */
/* ------------------------------------------------------------------------- */

#define FD_CALL(rettype, NAME, TRACENAME, EXTRA_FMT, EXTRA_ARG, REALCALL)     \
    char p[PMAX];                                                             \
    if (!fs_on() || !fd_get(fd, p)) return REALCALL;                          \
    char x[64];                                                               \
    snprintf(x, sizeof x, EXTRA_FMT, EXTRA_ARG);                              \
    ev_t e = EV(TRACENAME, p, x);                                             \
    if (ev_begin(&e)) return -1;                                              \
    rettype r = REALCALL;                                                     \
    int err = errno;                                                          \
    ev_end(&e, NULL, (long)r, r < 0, err);                                    \
    return r;

/* VSBSHIM_SHORT=<path>=<N>: read(2) on that file returns at most N bytes per call (legal short reads) */
static char g_short_path[PMAX];
static size_t g_short_n;

static void parse_short(void)
{
    g_short_n = 0;
    const char *v = getenv("VSBSHIM_SHORT");
    if (!v || !*v) return;
    const char *eq = strrchr(v, '=');
    if (!eq || eq == v || (size_t)(eq - v) >= PMAX) return;
    long n = 0;
    if (parse_long(eq + 1, strlen(eq + 1), &n) != 0 || n < 1) return;
    memcpy(g_short_path, v, (size_t)(eq - v));
    g_short_path[eq - v] = 0;
    g_short_n = (size_t)n;
}

EXPORT ssize_t read(int fd, void *buf, size_t n)
{
    if (g_short_n && n > g_short_n && fs_on()) {
        char q[PMAX];
        if (fd_get(fd, q) && strcmp(q, g_short_path) == 0) n = g_short_n;
    }
    FD_CALL(ssize_t, read, "read", "%zu", n, real_read(fd, buf, n))
}

EXPORT ssize_t write(int fd, const void *buf, size_t n)
{
    FD_CALL(ssize_t, write, "write", "%zu", n, real_write(fd, buf, n))
}

static size_t iov_total(const struct iovec *iov, int cnt)
{
    size_t t = 0;
    for (int i = 0; iov && i < cnt; i++) t += iov[i].iov_len;
    return t;
}

EXPORT ssize_t readv(int fd, const struct iovec *iov, int cnt)
{
    FD_CALL(ssize_t, readv, "read", "%zu", iov_total(iov, cnt), real_readv(fd, iov, cnt))
}

EXPORT ssize_t writev(int fd, const struct iovec *iov, int cnt)
{
    FD_CALL(ssize_t, writev, "write", "%zu", iov_total(iov, cnt), real_writev(fd, iov, cnt))
}

EXPORT ssize_t pread(int fd, void *buf, size_t n, off_t off)
{
    FD_CALL(ssize_t, pread, "read", "%zu", n, real_pread(fd, buf, n, off))
}

EXPORT ssize_t pread64(int fd, void *buf, size_t n, off64_t off)
{
    FD_CALL(ssize_t, pread64, "read", "%zu", n, real_pread64(fd, buf, n, off))
}

EXPORT ssize_t pwrite(int fd, const void *buf, size_t n, off_t off)
{
    FD_CALL(ssize_t, pwrite, "write", "%zu", n, real_pwrite(fd, buf, n, off))
}

EXPORT ssize_t pwrite64(int fd, const void *buf, size_t n, off64_t off)
{
    FD_CALL(ssize_t, pwrite64, "write", "%zu", n, real_pwrite64(fd, buf, n, off))
}

static const char *whence_name(int w)
{
    return w == SEEK_SET ? "SET" : w == SEEK_CUR ? "CUR" : w == SEEK_END ? "END" : "OTHER";
}

EXPORT off_t lseek(int fd, off_t off, int whence)
{
    char p[PMAX];
    if (!fs_on() || !fd_get(fd, p)) return real_lseek(fd, off, whence);
    char x[64];
    snprintf(x, sizeof x, "%lld:%s", (long long)off, whence_name(whence));
    ev_t e = EV("lseek", p, x);
    if (ev_begin(&e)) return -1;
    off_t r = real_lseek(fd, off, whence);
    int err = errno;
    ev_end(&e, NULL, (long)r, r < 0, err);
    return r;
}

EXPORT off64_t lseek64(int fd, off64_t off, int whence)
{
    char p[PMAX];
    if (!fs_on() || !fd_get(fd, p)) return real_lseek64(fd, off, whence);
    char x[64];
    snprintf(x, sizeof x, "%lld:%s", (long long)off, whence_name(whence));
    ev_t e = EV("lseek", p, x);
    if (ev_begin(&e)) return -1;
    off64_t r = real_lseek64(fd, off, whence);
    int err = errno;
    ev_end(&e, NULL, (long)r, r < 0, err);
    return r;
}

EXPORT int fsync(int fd)
{
    char p[PMAX];
    if (!fs_on() || !fd_get(fd, p)) return real_fsync(fd);
    ev_t e = EV(fd_isdir(fd) ? "fsyncdir" : "fsync", p, "-");
    if (ev_begin(&e)) return -1;
    int r = real_fsync(fd);
    int err = errno;
    ev_end(&e, NULL, r, r < 0, err);
    return r;
}

EXPORT int fdatasync(int fd)
{
    char p[PMAX];
    if (!fs_on() || !fd_get(fd, p)) return real_fdatasync(fd);
    ev_t e = EV(fd_isdir(fd) ? "fsyncdir" : "fsync", p, "data");
    if (ev_begin(&e)) return -1;
    int r = real_fdatasync(fd);
    int err = errno;
    ev_end(&e, NULL, r, r < 0, err);
    return r;
}

EXPORT int flock(int fd, int op)
{
    char p[PMAX];
    if (!fs_on() || !fd_get(fd, p)) return real_flock(fd, op);
    char x[32];
    int base = op & ~LOCK_NB;
    snprintf(x, sizeof x, "%s%s",
             base == LOCK_SH ? "SH" : base == LOCK_EX ? "EX" : base == LOCK_UN ? "UN" : "OTHER",
             (op & LOCK_NB) ? "|NB" : "");
    ev_t e = EV("flock", p, x);
    if (ev_begin(&e)) return -1;
    int r = real_flock(fd, op);
    int err = errno;
    ev_end(&e, NULL, r, r < 0, err);
    return r;
}

EXPORT int ftruncate(int fd, off_t len)
{
    FD_CALL(int, ftruncate, "ftruncate", "%lld", (long long)len, real_ftruncate(fd, len))
}

EXPORT int ftruncate64(int fd, off64_t len)
{
    FD_CALL(int, ftruncate64, "ftruncate", "%lld", (long long)len, real_ftruncate64(fd, len))
}

EXPORT int fchmod(int fd, mode_t mode)
{
    FD_CALL(int, fchmod, "chmod", "%o", (unsigned)mode, real_fchmod(fd, mode))
}

/* ------------------------------------------------------------------------- */
/* stat family                                                                 */
/* ------------------------------------------------------------------------- */

static void stat_extra(char *x, size_t n, unsigned mode, long long size)
{
    const char *t = S_ISREG(mode) ? "REG" : S_ISDIR(mode) ? "DIR" : S_ISLNK(mode) ? "LNK"
                  : S_ISFIFO(mode) ? "FIFO" : S_ISSOCK(mode) ? "SOCK" : S_ISCHR(mode) ? "CHR"
                  : S_ISBLK(mode) ? "BLK" : "OTHER";
    snprintf(x, n, "%s:%lld", t, size);
}

#define STAT_BODY(TRACENAME, WATCHED, REALCALL, MODE, SIZE)                   \
    char p[PMAX];                                                             \
    if (!fs_on() || !(WATCHED)) return REALCALL;                              \
    ev_t e = EV(TRACENAME, p, "-");                                           \
    if (ev_begin(&e)) return -1;                                              \
    int r = REALCALL;                                                         \
    int err = errno;                                                          \
    char x[64];                                                               \
    if (r == 0) stat_extra(x, sizeof x, (unsigned)(MODE), (long long)(SIZE)); \
    ev_end(&e, r == 0 ? x : NULL, r, r < 0, err);                             \
    return r;

EXPORT int stat(const char *path, struct stat *st)
{
    STAT_BODY("stat", nn(path) && watch_at(AT_FDCWD, path, p), real_stat(path, st), st->st_mode, st->st_size)
}

EXPORT int stat64(const char *path, struct stat64 *st)
{
    STAT_BODY("stat", nn(path) && watch_at(AT_FDCWD, path, p), real_stat64(path, st), st->st_mode, st->st_size)
}

EXPORT int lstat(const char *path, struct stat *st)
{
    STAT_BODY("lstat", nn(path) && watch_at(AT_FDCWD, path, p), real_lstat(path, st), st->st_mode, st->st_size)
}

EXPORT int lstat64(const char *path, struct stat64 *st)
{
    STAT_BODY("lstat", nn(path) && watch_at(AT_FDCWD, path, p), real_lstat64(path, st), st->st_mode, st->st_size)
}

EXPORT int fstat(int fd, struct stat *st)
{
    STAT_BODY("fstat", fd_get(fd, p), real_fstat(fd, st), st->st_mode, st->st_size)
}

EXPORT int fstat64(int fd, struct stat64 *st)
{
    STAT_BODY("fstat", fd_get(fd, p), real_fstat64(fd, st), st->st_mode, st->st_size)
}

/* classify an *at() stat: returns the trace name and decides watchedness */
static const char *at_stat_kind(int dirfd, const char *path, int flags, char *p, int *watched)
{
    if ((!nn(path) || !path[0]) && (flags & AT_EMPTY_PATH) && dirfd != AT_FDCWD) {
        *watched = fd_get(dirfd, p);
        return "fstat";
    }
    *watched = nn(path) && watch_at(dirfd, path, p);
    return (flags & AT_SYMLINK_NOFOLLOW) ? "lstat" : "stat";
}

EXPORT int fstatat(int dirfd, const char *path, struct stat *st, int flags)
{
    if (!fs_on()) return real_fstatat(dirfd, path, st, flags);
    int w;
    char pp[PMAX];
    const char *name = at_stat_kind(dirfd, path, flags, pp, &w);
    STAT_BODY(name, (strcpy(p, w ? pp : ""), w), real_fstatat(dirfd, path, st, flags), st->st_mode, st->st_size)
}

EXPORT int fstatat64(int dirfd, const char *path, struct stat64 *st, int flags)
{
    if (!fs_on()) return real_fstatat64(dirfd, path, st, flags);
    int w;
    char pp[PMAX];
    const char *name = at_stat_kind(dirfd, path, flags, pp, &w);
    STAT_BODY(name, (strcpy(p, w ? pp : ""), w), real_fstatat64(dirfd, path, st, flags), st->st_mode, st->st_size)
}

EXPORT int statx(int dirfd, const char *path, int flags, unsigned mask, struct statx *sx)
{
    if (!fs_on()) return real_statx(dirfd, path, flags, mask, sx);
    int w;
    char pp[PMAX];
    const char *name = at_stat_kind(dirfd, path, flags, pp, &w);
    STAT_BODY(name, (strcpy(p, w ? pp : ""), w), real_statx(dirfd, path, flags, mask, sx), sx->stx_mode, sx->stx_size)
}

/* ------------------------------------------------------------------------- */
/* directories                                                                 */
/* ------------------------------------------------------------------------- */

EXPORT DIR *opendir(const char *path)
{
    char p[PMAX];
    if (!fs_on()) return real_opendir(path);
    if (!nn(path) || !watch_at(AT_FDCWD, path, p)) {
        DIR *d = real_opendir(path);
        if (d) {
            int err = errno;
            fd_clear(dirfd(d));
            errno = err;
        }
        return d;
    }
    ev_t e = EV("opendir", p, "-");
    if (ev_begin(&e)) return NULL;
    DIR *d = real_opendir(path);
    int err = errno;
    int fd = nn(d) ? dirfd(d) : -1;
    if (d) fd_set_path(fd, p);
    ev_end(&e, NULL, fd, d == NULL, err);
    return d;
}

EXPORT DIR *fdopendir(int fd)
{
    char p[PMAX];
    if (!fs_on() || !fd_get(fd, p)) return real_fdopendir(fd);
    ev_t e = EV("fdopendir", p, "-");
    if (ev_begin(&e)) return NULL;
    DIR *d = real_fdopendir(fd);
    int err = errno;
    ev_end(&e, NULL, d ? fd : -1, d == NULL, err);
    return d;
}

EXPORT int closedir(DIR *d)
{
    char p[PMAX];
    int fd = nn(d) ? dirfd(d) : -1;
    if (!fs_on() || !fd_get(fd, p)) return real_closedir(d);
    ev_t e = EV("closedir", p, "-");
    if (ev_begin(&e)) return -1;
    int r = real_closedir(d);
    int err = errno;
    fd_clear(fd);
    ev_end(&e, NULL, r, r < 0, err);
    return r;
}

#define READDIR_BODY(TYPE, REAL)                                              \
    char p[PMAX];                                                             \
    if (!fs_on() || !(g_readdir_numbered || g_has_readdir_spec) || !nn(d) ||      \
        !fd_get(dirfd(d), p))                                                 \
        return REAL(d);                                                       \
    ev_t e = EV("readdir", p, "-");                                           \
    e.unnumbered = !g_readdir_numbered;                                       \
    if (ev_begin(&e)) return NULL;                                            \
    int before = errno;                                                       \
    errno = 0;                                                                \
    TYPE *r = REAL(d);                                                        \
    int err = errno;                                                          \
    int failed = r == NULL && err != 0;                                       \
    ev_end(&e, r ? r->d_name : "(end)", r ? 1 : (failed ? -1 : 0), failed,    \
           failed ? err : before);                                            \
    return r;

EXPORT struct dirent *readdir(DIR *d)
{
    READDIR_BODY(struct dirent, real_readdir)
}

EXPORT struct dirent64 *readdir64(DIR *d)
{
    READDIR_BODY(struct dirent64, real_readdir64)
}

/* ------------------------------------------------------------------------- */
/* path based calls                                                            */
/* ------------------------------------------------------------------------- */

EXPORT ssize_t readlink(const char *path, char *buf, size_t n)
{
    char p[PMAX];
    if (!fs_on() || !nn(path) || !watch_at(AT_FDCWD, path, p)) return real_readlink(path, buf, n);
    ev_t e = EV("readlink", p, "-");
    if (ev_begin(&e)) return -1;
    ssize_t r = real_readlink(path, buf, n);
    int err = errno;
    char x[PMAX];
    if (r >= 0) {
        size_t l = (size_t)r < sizeof x - 1 ? (size_t)r : sizeof x - 1;
        memcpy(x, buf, l);
        x[l] = 0;
    }
    ev_end(&e, r >= 0 ? x : NULL, (long)r, r < 0, err);
    return r;
}

EXPORT ssize_t readlinkat(int dirfd, const char *path, char *buf, size_t n)
{
    char p[PMAX];
    if (!fs_on() || !nn(path) || !watch_at(dirfd, path, p)) return real_readlinkat(dirfd, path, buf, n);
    ev_t e = EV("readlink", p, "-");
    if (ev_begin(&e)) return -1;
    ssize_t r = real_readlinkat(dirfd, path, buf, n);
    int err = errno;
    char x[PMAX];
    if (r >= 0) {
        size_t l = (size_t)r < sizeof x - 1 ? (size_t)r : sizeof x - 1;
        memcpy(x, buf, l);
        x[l] = 0;
    }
    ev_end(&e, r >= 0 ? x : NULL, (long)r, r < 0, err);
    return r;
}

EXPORT char *realpath(const char *path, char *resolved)
{
    char p[PMAX];
    if (!fs_on() || !nn(path) || !watch_at(AT_FDCWD, path, p)) return real_realpath(path, resolved);
    ev_t e = EV("realpath", p, "-");
    if (ev_begin(&e)) return NULL;
    char *r = real_realpath(path, resolved);
    int err = errno;
    ev_end(&e, r ? r : NULL, r ? 0 : -1, r == NULL, err);
    return r;
}

#define PATH_CALL(TRACENAME, DIRFD, PATH, XBUF, REALCALL)                     \
    ev_t e = EV(TRACENAME, p, XBUF);                                          \
    if (ev_begin(&e)) return -1;                                              \
    int r = REALCALL;                                                         \
    int err = errno;                                                          \
    ev_end(&e, NULL, r, r < 0, err);                                          \
    return r;

EXPORT int mkdir(const char *path, mode_t mode)
{
    char p[PMAX], x[32];
    if (!fs_on() || !nn(path) || !watch_at(AT_FDCWD, path, p)) return real_mkdir(path, mode);
    snprintf(x, sizeof x, "%o", (unsigned)mode);
    PATH_CALL("mkdir", AT_FDCWD, path, x, real_mkdir(path, mode))
}

EXPORT int mkdirat(int dirfd, const char *path, mode_t mode)
{
    char p[PMAX], x[32];
    if (!fs_on() || !nn(path) || !watch_at(dirfd, path, p)) return real_mkdirat(dirfd, path, mode);
    snprintf(x, sizeof x, "%o", (unsigned)mode);
    PATH_CALL("mkdir", dirfd, path, x, real_mkdirat(dirfd, path, mode))
}

EXPORT int rmdir(const char *path)
{
    char p[PMAX];
    if (!fs_on() || !nn(path) || !watch_at(AT_FDCWD, path, p)) return real_rmdir(path);
    PATH_CALL("rmdir", AT_FDCWD, path, "-", real_rmdir(path))
}

EXPORT int unlink(const char *path)
{
    char p[PMAX];
    if (!fs_on() || !nn(path) || !watch_at(AT_FDCWD, path, p)) return real_unlink(path);
    PATH_CALL("unlink", AT_FDCWD, path, "-", real_unlink(path))
}

EXPORT int unlinkat(int dirfd, const char *path, int flags)
{
    char p[PMAX];
    if (!fs_on() || !nn(path) || !watch_at(dirfd, path, p)) return real_unlinkat(dirfd, path, flags);
    PATH_CALL((flags & AT_REMOVEDIR) ? "rmdir" : "unlink", dirfd, path, "-",
              real_unlinkat(dirfd, path, flags))
}

EXPORT int rename(const char *oldp, const char *newp)
{
    char p[PMAX], q[PMAX];
    if (!fs_on() || !nn(oldp) || !nn(newp)) return real_rename(oldp, newp);
    int saved = errno;
    int ro = resolve_at(AT_FDCWD, oldp, p), rn = resolve_at(AT_FDCWD, newp, q);
    errno = saved;
    if (ro != 0 || rn != 0 || !(is_watched(p) || is_watched(q))) return real_rename(oldp, newp);
    PATH_CALL("rename", AT_FDCWD, oldp, q, real_rename(oldp, newp))
}

EXPORT int renameat(int ofd, const char *oldp, int nfd, const char *newp)
{
    char p[PMAX], q[PMAX];
    if (!fs_on() || !nn(oldp) || !nn(newp)) return real_renameat(ofd, oldp, nfd, newp);
    int saved = errno;
    int ro = resolve_at(ofd, oldp, p), rn = resolve_at(nfd, newp, q);
    errno = saved;
    if (ro != 0 || rn != 0 || !(is_watched(p) || is_watched(q)))
        return real_renameat(ofd, oldp, nfd, newp);
    PATH_CALL("rename", ofd, oldp, q, real_renameat(ofd, oldp, nfd, newp))
}

EXPORT int symlink(const char *target, const char *linkpath)
{
    char p[PMAX];
    if (!fs_on() || !nn(linkpath) || !nn(target) || !watch_at(AT_FDCWD, linkpath, p))
        return real_symlink(target, linkpath);
    PATH_CALL("symlink", AT_FDCWD, linkpath, target, real_symlink(target, linkpath))
}

EXPORT int chmod(const char *path, mode_t mode)
{
    char p[PMAX], x[32];
    if (!fs_on() || !nn(path) || !watch_at(AT_FDCWD, path, p)) return real_chmod(path, mode);
    snprintf(x, sizeof x, "%o", (unsigned)mode);
    PATH_CALL("chmod", AT_FDCWD, path, x, real_chmod(path, mode))
}

EXPORT int chown(const char *path, uid_t u, gid_t g)
{
    char p[PMAX], x[64];
    if (!fs_on() || !nn(path) || !watch_at(AT_FDCWD, path, p)) return real_chown(path, u, g);
    snprintf(x, sizeof x, "%ld:%ld", (long)(int)u, (long)(int)g);
    PATH_CALL("chown", AT_FDCWD, path, x, real_chown(path, u, g))
}

EXPORT int lchown(const char *path, uid_t u, gid_t g)
{
    char p[PMAX], x[64];
    if (!fs_on() || !nn(path) || !watch_at(AT_FDCWD, path, p)) return real_lchown(path, u, g);
    snprintf(x, sizeof x, "%ld:%ld", (long)(int)u, (long)(int)g);
    PATH_CALL("chown", AT_FDCWD, path, x, real_lchown(path, u, g))
}

EXPORT int fchownat(int dirfd, const char *path, uid_t u, gid_t g, int flags)
{
    char p[PMAX], x[64];
    if (!fs_on() || !nn(path) || !watch_at(dirfd, path, p)) return real_fchownat(dirfd, path, u, g, flags);
    snprintf(x, sizeof x, "%ld:%ld", (long)(int)u, (long)(int)g);
    PATH_CALL("chown", dirfd, path, x, real_fchownat(dirfd, path, u, g, flags))
}

static void times_extra(char *x, size_t n, const struct timespec *ts)
{
    if (!nn(ts)) snprintf(x, n, "now");
    else snprintf(x, n, "%lld.%09ld:%lld.%09ld", (long long)ts[0].tv_sec, ts[0].tv_nsec,
                  (long long)ts[1].tv_sec, ts[1].tv_nsec);
}

EXPORT int utimensat(int dirfd, const char *path, const struct timespec *ts, int flags)
{
    char p[PMAX], x[96];
    if (!fs_on()) return real_utimensat(dirfd, path, ts, flags);
    int w = nn(path) ? watch_at(dirfd, path, p) : fd_get(dirfd, p);
    if (!w) return real_utimensat(dirfd, path, ts, flags);
    times_extra(x, sizeof x, ts);
    PATH_CALL("utimens", dirfd, path, x, real_utimensat(dirfd, path, ts, flags))
}

EXPORT int futimens(int fd, const struct timespec *ts)
{
    char p[PMAX], x[96];
    if (!fs_on() || !fd_get(fd, p)) return real_futimens(fd, ts);
    times_extra(x, sizeof x, ts);
    PATH_CALL("utimens", fd, NULL, x, real_futimens(fd, ts))
}

static void tv_extra(char *x, size_t n, const struct timeval *tv)
{
    if (!nn(tv)) snprintf(x, n, "now");
    else snprintf(x, n, "%lld.%06ld000:%lld.%06ld000", (long long)tv[0].tv_sec, (long)tv[0].tv_usec,
                  (long long)tv[1].tv_sec, (long)tv[1].tv_usec);
}

EXPORT int utimes(const char *path, const struct timeval *tv)
{
    char p[PMAX], x[96];
    if (!fs_on() || !nn(path) || !watch_at(AT_FDCWD, path, p)) return real_utimes(path, tv);
    tv_extra(x, sizeof x, tv);
    PATH_CALL("utimens", AT_FDCWD, path, x, real_utimes(path, tv))
}

EXPORT int lutimes(const char *path, const struct timeval *tv)
{
    char p[PMAX], x[96];
    if (!fs_on() || !nn(path) || !watch_at(AT_FDCWD, path, p)) return real_lutimes(path, tv);
    tv_extra(x, sizeof x, tv);
    PATH_CALL("utimens", AT_FDCWD, path, x, real_lutimes(path, tv))
}

/* ------------------------------------------------------------------------- */
/* clock                                                                       */
/* ------------------------------------------------------------------------- */

static int fake_now(long *sec, long *nsec)
{
    if (!g_time_on || !g_enabled) return 0;
    while (__atomic_exchange_n(&g_time_spin, 1, __ATOMIC_ACQUIRE)) { }
    int on = g_time_on;
    *sec = g_time_sec;
    *nsec = g_time_nsec;
    __atomic_store_n(&g_time_spin, 0, __ATOMIC_RELEASE);
    return on;
}

EXPORT int clock_gettime(clockid_t clk, struct timespec *ts)
{
    ensure_init();
    long s, n;
    if ((clk == CLOCK_REALTIME || clk == CLOCK_REALTIME_COARSE) && nn(ts) && fake_now(&s, &n)) {
        ts->tv_sec = s;
        ts->tv_nsec = n;
        return 0;
    }
    return real_clock_gettime(clk, ts);
}

EXPORT time_t time(time_t *t)
{
    ensure_init();
    long s, n;
    if (fake_now(&s, &n)) {
        if (t) *t = s;
        return s;
    }
    return real_time(t);
}

EXPORT int gettimeofday(struct timeval *restrict tv, void *restrict tz)
{
    ensure_init();
    long s, n;
    if (nn(tv) && fake_now(&s, &n)) {
        tv->tv_sec = s;
        tv->tv_usec = n / 1000;
        return 0;
    }
    return real_gettimeofday(tv, tz);
}

/* ------------------------------------------------------------------------- */
/* process exit                                                                */
/* ------------------------------------------------------------------------- */

EXPORT void exit(int status)
{
    log_exit("EXIT", status & 0xff);
    real_exit(status);
}

EXPORT void _exit(int status)
{
    log_exit("EXIT", status & 0xff);
    real__exit(status);
}

EXPORT void abort(void)
{
    log_exit("ABORT", 128 + SIGABRT);
    real_abort();
}

/* main() returning is turned into exit(ret) so that the EXIT line carries the status */
static int (*g_real_main)(int, char **, char **);

static int wrapped_main(int argc, char **argv, char **envp)
{
    int r = g_real_main(argc, argv, envp);
    exit(r);
}

EXPORT int __libc_start_main(int (*main_fn)(int, char **, char **), int argc, char **argv,
                             void (*init)(void), void (*fini)(void), void (*rtld_fini)(void),
                             void *stack_end)
{
    int (*real)(int (*)(int, char **, char **), int, char **, void (*)(void), void (*)(void),
                void (*)(void), void *);
    *(void **)(&real) = dlsym(RTLD_NEXT, "__libc_start_main");
    g_real_main = main_fn;
    return real(wrapped_main, argc, argv, init, fini, rtld_fini, stack_end);
}

__attribute__((destructor)) static void vsbshim_dtor(void)
{
    /* reached without exit() having been seen (should not happen): status unknown */
    if (!g_exit_logged) log_exit("EXIT", -1);
}

/* ------------------------------------------------------------------------- */
/* in-process control API                                                      */
/* ------------------------------------------------------------------------- */

EXPORT void vsbshim_set_time(long sec, long nsec)
{
    ensure_init();
    set_time_locked(sec, nsec);
}

EXPORT void vsbshim_reconfigure(void)
{
    ensure_init();
    int was = t_busy;
    t_busy = 1;
    pthread_mutex_lock(&g_mu);
    load_config(1);
    pthread_mutex_unlock(&g_mu);
    t_busy = was;
}

EXPORT long vsbshim_counter(void)
{
    ensure_init();
    pthread_mutex_lock(&g_mu);
    long c = g_counter;
    pthread_mutex_unlock(&g_mu);
    return c;
}
