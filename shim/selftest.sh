#!/bin/bash
# Self-test of the vsbshim LD_PRELOAD interposer against the real vsb binary.
# Prints one PASS/FAIL line per item and exits 0 iff everything passed.
#
#   VSB=/path/to/vsb SHIM=/path/to/vsbshim.so ./selftest.sh [-k]     (-k keeps the scratch dir)

set -u
HERE=$(cd "$(dirname "$0")" && pwd)
VSB=${VSB:-/verif/.cache/target-repo/debug/vsb}
SHIM=${SHIM:-/verif/.cache/vsbshim.so}
KEEP=0
[ "${1:-}" = "-k" ] && KEEP=1

export TZ=UTC
unset LD_PRELOAD
for v in $(env | grep -o '^VSBSHIM_[A-Z_]*'); do unset "$v"; done

mkdir -p "$(dirname "$SHIM")"
if [ ! -f "$SHIM" ] || [ "$HERE/vsbshim.c" -nt "$SHIM" ]; then
    clang -O1 -shared -fPIC -o "$SHIM" "$HERE/vsbshim.c" -ldl -lpthread || { echo "FAIL build"; exit 1; }
fi
[ -x "$VSB" ] || { echo "FAIL setup: vsb binary $VSB not found"; exit 1; }

S=/var/tmp/vsbshim-selftest.$$
rm -rf "$S"
mkdir -p "$S"
cleanup() { [ "$KEEP" = 1 ] && echo "scratch kept in $S" || rm -rf "$S"; }
trap cleanup EXIT

FAILS=0
pass() { echo "PASS $1"; }
fail() { echo "FAIL $1"; FAILS=$((FAILS + 1)); }
# check <item> <description> <command...>: records a failure reason for the item
REASONS=""
chk() {
    local what=$1; shift
    if ! "$@" >/dev/null 2>&1; then REASONS="$REASONS [$what]"; return 1; fi
    return 0
}
verdict() { if [ -z "$REASONS" ]; then pass "$1"; else fail "$1:$REASONS"; fi; REASONS=""; }

T=1000000000              # 2001-09-09 01:46:40 UTC
G=2001.09.09
B=2001.09.09-01:46:40

# ---- fixtures ---------------------------------------------------------------------------
SRC=$S/src
mkdir -p "$SRC/sub"
echo hello > "$SRC/a.txt"
echo sub > "$SRC/sub/b.txt"
head -c 300000 /dev/urandom > "$SRC/big.bin"
ln -s a.txt "$SRC/link"
touch -h -d @900000000 "$SRC/a.txt" "$SRC/sub/b.txt" "$SRC/big.bin" "$SRC/link" "$SRC/sub" "$SRC"

# new_case <name> [src dir]: fresh storage + config; sets C (case dir), ST (storage), CFG
new_case() {
    C=$S/$1; ST=$C/storage; CFG=$C/cfg.yaml; TR=$C/trace.txt
    mkdir -p "$ST"
    cat > "$CFG" <<EOF
backups:
  - name: test
    path: $ST
    backup:
      max_backup_groups: 2
      max_backups_per_group: 2
      items:
        - path: ${2:-$SRC}
EOF
}
# shim <env assignments...> -- runs "vsb backup test" under the shim; stdout/err to $C/out,$C/err
shim() { env LD_PRELOAD="$SHIM" "$@" "$VSB" -c "$CFG" backup test >"$C/out" 2>"$C/err"; }
seq_of() { # seq_of <trace> <call> <path> [nth]   -> sequence number of that trace line
    awk -F'\t' -v c="$2" -v p="$3" -v n="${4:-1}" '$2==c && $3==p { if (++k==n) { print $1; exit } }' "$1"
}
has() { grep -qP -- "$2" "$1"; }
esc() { printf '%s' "$1" | sed 's/[.[\*^$()+?{|]/\\&/g'; }

# ---- (a) fake clock ---------------------------------------------------------------------
new_case a
shim VSBSHIM_TIME=$T; rc=$?
chk "exit status $rc" [ $rc -eq 0 ]
chk "backup dir $G/$B missing" [ -d "$ST/$G/$B" ]
chk "stdout lacks group name" grep -q "Creating \"$G\" backup group" "$C/out" "$C/err"
# fractional form and the trap of an unrelated clock
new_case a2
shim VSBSHIM_TIME=1000086400.5; rc=$?
chk "fractional time" [ -d "$ST/2001.09.10/2001.09.10-01:46:40" ]
verdict "(a) fake clock drives group/backup names ($G/$B)"

# ---- (b) trace of a backup run ------------------------------------------------------------
new_case b
shim VSBSHIM_TIME=$T VSBSHIM_WATCH="$ST:$SRC" VSBSHIM_TRACE="$TR"; rc=$?
TMP=$ST/$G/.$B; FIN=$ST/$G/$B
chk "exit status $rc" [ $rc -eq 0 ]
chk "6 tab-separated fields on every line" awk -F'\t' 'NF!=6 {exit 1}' "$TR"
chk "sequence numbers 1..N in order" awk -F'\t' '$1!=NR {exit 1}' "$TR"
s_flock=$(seq_of "$TR" flock "$ST")
s_mkdir=$(seq_of "$TR" mkdir "$TMP")
s_ometa=$(seq_of "$TR" open "$TMP/metadata.zst")
s_odata=$(seq_of "$TR" open "$TMP/data.tar.zst")
s_fmeta=$(seq_of "$TR" fsync "$TMP/metadata.zst")
s_fdata=$(seq_of "$TR" fsync "$TMP/data.tar.zst")
s_ftmp=$(seq_of "$TR" fsyncdir "$TMP")
s_ren=$(seq_of "$TR" rename "$TMP")
s_fgrp=$(seq_of "$TR" fsyncdir "$ST/$G")
s_exit=$(awk -F'\t' '$2=="EXIT" {print $1}' "$TR")
chk "flock EX|NB on storage root" has "$TR" "^$s_flock\tflock\t$(esc "$ST")\tEX\\|NB\t0\t-$"
chk "mkdir of temp dir" has "$TR" "^\d+\tmkdir\t$(esc "$TMP")\t700\t0\t-$"
chk "metadata.zst CREAT|EXCL" has "$TR" "^\d+\topen\t$(esc "$TMP/metadata.zst")\tWRONLY\\|CREAT\\|EXCL\t\d+\t-$"
chk "data.tar.zst CREAT|EXCL" has "$TR" "^\d+\topen\t$(esc "$TMP/data.tar.zst")\tWRONLY\\|CREAT\\|EXCL\t\d+\t-$"
chk "rename temp->final" has "$TR" "^\d+\trename\t$(esc "$TMP")\t$(esc "$FIN")\t0\t-$"
chk "EXIT 0 is the last line" [ "$(tail -n 1 "$TR")" = "$s_exit"$'\t'"EXIT"$'\t'"-"$'\t'"-"$'\t'"0"$'\t'"-" ]
chk "writes to data.tar.zst traced with byte counts" has "$TR" "^\d+\twrite\t$(esc "$TMP/data.tar.zst")\t(\d+)\t\1\t-$"
chk "reads of the source traced" has "$TR" "^\d+\tread\t$(esc "$SRC/big.bin")\t8192\t8192\t-$"
chk "source lstat/readlink traced" has "$TR" "^\d+\treadlink\t$(esc "$SRC/link")\ta\.txt\t5\t-$"
order_ok() {
    local prev=0 x
    for x in "$@"; do [ -n "$x" ] && [ "$x" -gt "$prev" ] || return 1; prev=$x; done
}
chk "order flock<mkdir<open meta<open data<fsync files<fsyncdir tmp<rename<fsyncdir group<EXIT ($s_flock $s_mkdir $s_ometa $s_odata $s_fmeta $s_fdata $s_ftmp $s_ren $s_fgrp $s_exit)" \
    order_ok "$s_flock" "$s_mkdir" "$s_ometa" "$s_odata" "$s_fmeta" "$s_fdata" "$s_ftmp" "$s_ren" "$s_fgrp" "$s_exit"
verdict "(b) trace: mkdir .tmp, CREAT|EXCL files, fsync x2, fsyncdir tmp, rename, fsyncdir group, flock, EXIT"
N_TRACE_B=$(wc -l < "$TR")
W_DATA=$(seq_of "$TR" write "$TMP/data.tar.zst" 1)      # first write to data.tar.zst
S_RENAME=$s_ren

# ---- (c) fault injection ----------------------------------------------------------------
new_case c1
shim VSBSHIM_TIME=$T VSBSHIM_WATCH="$ST:$SRC" VSBSHIM_TRACE="$TR" VSBSHIM_FAULT="#$W_DATA=ENOSPC"; rc=$?
chk "exit status $rc should be non-zero" [ $rc -ne 0 ]
chk "trace line #$W_DATA is the failed write" has "$TR" "^$W_DATA\twrite\t$(esc "$ST/$G/.$B/data.tar.zst")\t\d+\t-1\tENOSPC$"
chk "vsb reports the error" grep -q "^E:.*No space left" "$C/err"
chk "no final backup dir" [ ! -e "$ST/$G/$B" ]
new_case c2
shim VSBSHIM_TIME=$T VSBSHIM_WATCH="$ST:$SRC" VSBSHIM_TRACE="$TR" VSBSHIM_FAULT="open@$SRC/a.txt=EACCES"; rc=$?
chk "exit status $rc should be 1" [ $rc -eq 1 ]
chk "E: line about a.txt" grep -qP "^E:.*a\.txt.*[Pp]ermission denied" "$C/err"
chk "trace shows injected EACCES" has "$TR" "^\d+\topen\t$(esc "$SRC/a.txt")\tRDONLY\\|NOFOLLOW\t-1\tEACCES$"
chk "backup still committed" [ -d "$ST/$G/$B" ]
"$VSB" -c "$CFG" restore "$ST/$G/$B" "$C/restored" >"$C/rout" 2>"$C/rerr"
chk "other files backed up" cmp -s "$SRC/big.bin" "$C/restored$SRC/big.bin"
chk "other files backed up (sub/b.txt)" cmp -s "$SRC/sub/b.txt" "$C/restored$SRC/sub/b.txt"
chk "a.txt not in the backup" [ ! -e "$C/restored$SRC/a.txt" ]
# k-th occurrence + readdir fault + '*' call
new_case c3
shim VSBSHIM_TIME=$T VSBSHIM_WATCH="$ST:$SRC" VSBSHIM_TRACE="$TR" \
     VSBSHIM_FAULT="read@$SRC/big.bin=EIO@3;readdir@$SRC/sub=EIO"; rc=$?
chk "exactly the 3rd read of big.bin fails (vsb then gives the file up)" [ "$(awk -F'\t' -v p="$SRC/big.bin" '$2=="read" && $3==p {printf "%s ", $6}' "$TR")" = "- - EIO " ]
chk "vsb complains about big.bin" grep -qP "^E:.*big\.bin.*Input/output error" "$C/err"
chk "readdir fault traced" has "$TR" "^0\treaddir\t$(esc "$SRC/sub")\t-\t-1\tEIO$"
chk "vsb complains about sub" grep -qP "^E:.*sub" "$C/err"
verdict "(c) faults: #n=ENOSPC on write -> exit!=0; open@file=EACCES -> E: line, exit 1, rest backed up; @k and readdir"

# ---- (d) kill ---------------------------------------------------------------------------
new_case d1
( shim VSBSHIM_TIME=$T VSBSHIM_WATCH="$ST:$SRC" VSBSHIM_TRACE="$TR" VSBSHIM_KILL="#$S_RENAME:before" ) 2>/dev/null; rc=$?
chk "exit status $rc should be 137" [ $rc -eq 137 ]
chk "last line is KILL-BEFORE:rename #$S_RENAME" has <(tail -n 1 "$TR") "^$S_RENAME\tKILL-BEFORE:rename\t$(esc "$ST/$G/.$B")\t$(esc "$ST/$G/$B")\t-\t-$"
chk "no EXIT line" [ -z "$(awk -F'\t' '$2=="EXIT"' "$TR")" ]
chk "temp dir left, final dir absent" [ -d "$ST/$G/.$B" -a ! -e "$ST/$G/$B" ]
new_case d2
( shim VSBSHIM_TIME=$T VSBSHIM_WATCH="$ST:$SRC" VSBSHIM_TRACE="$TR" VSBSHIM_KILL="#$S_RENAME:after" ) 2>/dev/null; rc=$?
chk "exit status $rc should be 137" [ $rc -eq 137 ]
chk "last line is the completed rename" has <(tail -n 1 "$TR") "^$S_RENAME\trename\t$(esc "$ST/$G/.$B")\t$(esc "$ST/$G/$B")\t0\t-$"
chk "no EXIT line" [ -z "$(awk -F'\t' '$2=="EXIT"' "$TR")" ]
chk "rename happened" [ -d "$ST/$G/$B" -a ! -e "$ST/$G/.$B" ]
new_case d3
( shim VSBSHIM_TIME=$T VSBSHIM_WATCH="$ST:$SRC" VSBSHIM_TRACE="$TR" VSBSHIM_KILL="fsync@$ST/$G/.$B/metadata.zst@1:before" ) 2>/dev/null; rc=$?
chk "path form: exit status $rc should be 137" [ $rc -eq 137 ]
chk "path form: KILL-BEFORE:fsync last" has <(tail -n 1 "$TR") "\tKILL-BEFORE:fsync\t$(esc "$ST/$G/.$B/metadata.zst")\t"
verdict "(d) KILL #n:before / #n:after -> status 137 (SIGKILL), trace ends at the kill point"

# ---- (e) concurrent-writer action ---------------------------------------------------------
cp -a "$SRC" "$S/src-e"
new_case e "$S/src-e"
shim VSBSHIM_TIME=$T VSBSHIM_WATCH="$ST:$S/src-e" VSBSHIM_TRACE="$TR" \
     VSBSHIM_ACTION="read@$S/src-e/big.bin@2=truncate:10000;open@$S/src-e/a.txt@1=append:7"; rc=$?
R2=$(seq_of "$TR" read "$S/src-e/big.bin" 2)
chk "ACTION line right before 2nd read (#$R2)" [ "$(grep -P "^$R2\t" "$TR" | cut -f2 | tr '\n' ' ')" = "ACTION read " ]
chk "ACTION line content" has "$TR" "^$R2\tACTION\t$(esc "$S/src-e/big.bin")\ttruncate:10000\t0\t-$"
chk "file really truncated" [ "$(stat -c %s "$S/src-e/big.bin")" = 10000 ]
chk "1st read full, 2nd read short" [ "$(awk -F'\t' -v p="$S/src-e/big.bin" '$2=="read" && $3==p {k++; if (k<=2) printf "%s ", $5}' "$TR")" = "8192 1808 " ]
chk "append action" [ "$(cat "$S/src-e/a.txt")" = "hello"$'\n'"ZZZZZZZ" ]
verdict "(e) ACTION truncate before the 2nd read of a source file (vsb exit $rc: $(grep -m1 '^[EW]:' "$C/err" | cut -c1-80))"

# ---- (f) pause --------------------------------------------------------------------------
new_case f
mkfifo "$C/fifo"
shim VSBSHIM_TIME=$T VSBSHIM_WATCH="$ST:$SRC" VSBSHIM_TRACE="$TR" VSBSHIM_PAUSE="rename@$ST/$G/.$B@1:$C/fifo" &
pid=$!
for i in $(seq 100); do grep -qP "\tPAUSE\t" "$TR" 2>/dev/null && break; sleep 0.1; done
chk "PAUSE line appeared" has "$TR" "^$S_RENAME\tPAUSE\t$(esc "$ST/$G/.$B")\t$(esc "$C/fifo")\t0\t-$"
sleep 0.7
chk "process still alive while paused" kill -0 $pid
chk "held before the rename" [ -d "$ST/$G/.$B" -a ! -e "$ST/$G/$B" ]
chk "nothing traced after PAUSE" [ "$(tail -n 1 "$TR" | cut -f2)" = PAUSE ]
echo x > "$C/fifo"
wait $pid; rc=$?
chk "exit status after release $rc" [ $rc -eq 0 ]
chk "rename done after release" [ -d "$ST/$G/$B" -a ! -e "$ST/$G/.$B" ]
new_case f2
mkfifo "$C/fifo"
shim VSBSHIM_TIME=$T VSBSHIM_WATCH="$ST:$SRC" VSBSHIM_TRACE="$TR" VSBSHIM_PAUSE="#2:$C/fifo" &
pid=$!
for i in $(seq 100); do grep -qP "\tPAUSE\t" "$TR" 2>/dev/null && break; sleep 0.1; done
sleep 0.3
chk "#n form: paused before flock (#2)" [ "$(cut -f1,2 "$TR" | tr '\t\n' ' ;')" = "1 open;2 PAUSE;" ]
chk "#n form: alive" kill -0 $pid
echo x > "$C/fifo"
wait $pid; rc=$?
chk "#n form: exit status $rc" [ $rc -eq 0 ]
verdict "(f) PAUSE holds the process until the FIFO is written"

# ---- (g) transparency -------------------------------------------------------------------
# Without VSBSHIM_TIME the backup name is the wall clock; make both runs in the same second
# impossible to require, so names are normalised before comparing; contents are compared
# after decompression-independent hashing of the restored trees and raw sizes of the files.
norm_tree() { (cd "$1" && find . -printf '%y %m %s %p\n' | sed -E 's/[0-9]{4}\.[0-9]{2}\.[0-9]{2}(-[0-9]{2}:[0-9]{2}:[0-9]{2})?/DATE/g; s/^d ([0-7]+) [0-9]+ /d \1 - /' | sort); }
new_case g1
"$VSB" -c "$CFG" backup test >"$C/out" 2>"$C/err"; rc1=$?
ST1=$ST; C1=$C
new_case g2
env LD_PRELOAD="$SHIM" "$VSB" -c "$CFG" backup test >"$C/out" 2>"$C/err"; rc2=$?
chk "exit statuses $rc1/$rc2" [ $rc1 -eq 0 -a $rc2 -eq 0 ]
chk "same storage tree (types, modes, sizes)" [ "$(norm_tree "$ST1")" = "$(norm_tree "$ST")" ]
chk "same data.tar.zst bytes" cmp -s "$ST1"/*/*/data.tar.zst "$ST"/*/*/data.tar.zst
chk "same metadata.zst bytes" cmp -s "$ST1"/*/*/metadata.zst "$ST"/*/*/metadata.zst
chk "same log output" [ "$(sed -E 's/[0-9]{4}\.[0-9]{2}\.[0-9]{2}(-[0-9:]{8})?/DATE/g' "$C1/out" "$C1/err")" = "$(sed -E 's/[0-9]{4}\.[0-9]{2}\.[0-9]{2}(-[0-9:]{8})?/DATE/g' "$C/out" "$C/err")" ]
"$VSB" -c "$CFG" restore "$ST1"/*/* "$C1/restored" >/dev/null 2>&1; r1=$?
env LD_PRELOAD="$SHIM" "$VSB" -c "$CFG" restore "$ST"/*/* "$C/restored" >/dev/null 2>&1; r2=$?
chk "restore statuses $r1/$r2" [ $r1 -eq 0 -a $r2 -eq 0 ]
chk "restored trees identical" diff -r --no-dereference "$C1/restored" "$C/restored"
chk "restored tree equals source" diff -r --no-dereference "$SRC" "$C/restored$SRC"
# failing run: same non-zero status with and without the shim
new_case g3
"$VSB" -c "$CFG" backup nosuch >/dev/null 2>"$C/err1"; rc1=$?
env LD_PRELOAD="$SHIM" "$VSB" -c "$CFG" backup nosuch >/dev/null 2>"$C/err2"; rc2=$?
chk "failing run statuses $rc1/$rc2" [ $rc1 -ne 0 -a $rc1 -eq $rc2 ]
chk "failing run messages" cmp -s "$C/err1" "$C/err2"
verdict "(g) no VSBSHIM_* variables: identical exit status, storage tree, restored tree and logs"

# ---- (h) robustness: malformed variables ------------------------------------------------
new_case h
shim VSBSHIM_TIME=12x4 VSBSHIM_WATCH="relative/path:$ST" VSBSHIM_TRACE="/nonexistent-dir/x/trace" \
     VSBSHIM_FAULT="#0=EIO;#x=EIO;open@relative=EIO;open@$SRC/a.txt=EBOGUS;;=;#3" \
     VSBSHIM_KILL="#5:sometimes;garbage" VSBSHIM_ACTION="read@$SRC/a.txt@1=explode;read@$SRC/a.txt=unlink" \
     VSBSHIM_PAUSE="#1;nonsense@"; rc=$?
chk "exit status $rc" [ $rc -eq 0 ]
chk "warnings on stderr" [ "$(grep -c '^vsbshim: ' "$C/err")" -ge 10 ]
chk "backup made with the real clock" [ -n "$(ls "$ST")" -a ! -e "$ST/$G" ]
verdict "(h) malformed variables are ignored with 'vsbshim:' warnings ($(grep -c '^vsbshim: ' "$C/err") warnings), no crash"

# ---- (i) children are inert; wrappers between the shell and vsb do not steal the run ---------
new_case i
cat > "$C/child.c" <<'EOF'
#include <stdio.h>
#include <stdlib.h>
#include <sys/wait.h>
#include <time.h>
#include <unistd.h>
#include <fcntl.h>
int main(int argc, char **argv) {
    if (argc > 2) { /* parent: touch a watched path (claims the run), then spawn a child */
        int fd = open(argv[1], O_RDONLY); if (fd >= 0) close(fd);
        pid_t p = fork();
        if (p == 0) { execl(argv[0], argv[0], argv[1], (char *)NULL); _exit(127); }
        int st; waitpid(p, &st, 0);
        printf("parent time %ld\n", (long)time(NULL));
        return WEXITSTATUS(st);
    }
    int fd = open(argv[1], O_RDONLY); if (fd >= 0) close(fd);
    printf("child time %ld\n", (long)time(NULL));
    return 0;
}
EOF
clang -o "$C/child" "$C/child.c" 2>"$C/cc.err"
env LD_PRELOAD="$SHIM" VSBSHIM_TIME=$T VSBSHIM_WATCH="$C" VSBSHIM_TRACE="$TR" "$C/child" "$CFG" x >"$C/out" 2>"$C/err"
chk "parent sees fake time" grep -q "^parent time $T$" "$C/out"
chk "child sees real time" [ "$(grep -c "time $T$" "$C/out")" = 1 ]
chk "only the parent's calls traced (open, close, EXIT)" [ "$(cut -f2 "$TR" | tr '\n' ' ')" = "open close EXIT " ]
rm -f "$TR"
env LD_PRELOAD="$SHIM" VSBSHIM_CHILDREN=1 VSBSHIM_TIME=$T VSBSHIM_WATCH="$C" VSBSHIM_TRACE="$TR" "$C/child" "$CFG" x >"$C/out" 2>"$C/err"
chk "VSBSHIM_CHILDREN=1: child faked too" [ "$(grep -c "time $T$" "$C/out")" = 2 ]
chk "VSBSHIM_CHILDREN=1: child traced too" [ "$(grep -c . "$TR")" = 6 ]
# a wrapper (env -> sh -> vsb) that itself loads the shim must not become the owner
new_case i2
env LD_PRELOAD="$SHIM" VSBSHIM_TIME=$T VSBSHIM_WATCH="$ST" VSBSHIM_TRACE="$TR" \
    sh -c "\"$VSB\" -c \"$CFG\" backup test; exit \$?" >"$C/out" 2>"$C/err"; rc=$?
chk "wrapped run status $rc" [ $rc -eq 0 ]
chk "wrapped run traced, one EXIT" [ "$(grep -cP '\trename\t' "$TR")" = 1 -a "$(grep -cP '\tEXIT\t' "$TR")" = 1 ]
verdict "(i) spawned children inert by default, active with VSBSHIM_CHILDREN=1; wrapper processes do not capture the run"

# ---- (j) in-process control API -----------------------------------------------------------
new_case j
cat > "$C/api.c" <<'EOF'
#define _GNU_SOURCE
#include <dlfcn.h>
#include <errno.h>
#include <fcntl.h>
#include <stdio.h>
#include <stdlib.h>
#include <string.h>
#include <time.h>
#include <unistd.h>
int main(int argc, char **argv) {
    void (*set_time)(long, long) = (void (*)(long, long))dlsym(RTLD_DEFAULT, "vsbshim_set_time");
    void (*reconf)(void) = (void (*)(void))dlsym(RTLD_DEFAULT, "vsbshim_reconfigure");
    long (*counter)(void) = (long (*)(void))dlsym(RTLD_DEFAULT, "vsbshim_counter");
    if (!set_time || !reconf || !counter) { puts("no-api"); return 2; }
    struct timespec ts;
    int pre = open(argv[1], O_RDONLY);           /* opened before any configuration */
    set_time(1234567890, 42); clock_gettime(CLOCK_REALTIME, &ts);
    printf("t1 %ld.%09ld c=%ld\n", (long)ts.tv_sec, ts.tv_nsec, counter());
    set_time(0, -1); clock_gettime(CLOCK_REALTIME, &ts);
    printf("t2 %s\n", ts.tv_sec > 1500000000 ? "real" : "fake");
    setenv("VSBSHIM_WATCH", argv[2], 1); setenv("VSBSHIM_TRACE", argv[3], 1);
    char f[4200]; snprintf(f, sizeof f, "#2=EIO;open@%s=ELOOP", argv[1]);
    setenv("VSBSHIM_FAULT", f, 1); setenv("VSBSHIM_TIME", "77", 1);
    reconf();
    char b[8];
    long r1 = read(pre, b, 1); int e1 = errno;     /* #1 ok: fd known via /proc rescan */
    long r2 = read(pre, b, 1); int e2 = errno;     /* #2 EIO */
    int o = open(argv[1], O_RDONLY); int e3 = errno; /* #3 ELOOP */
    clock_gettime(CLOCK_REALTIME, &ts);
    printf("r1=%ld r2=%ld/%s o=%d/%s c=%ld t=%ld\n", r1, r2, r2 < 0 && e2 == EIO ? "EIO" : "?",
           o, o < 0 && e3 == ELOOP ? "ELOOP" : "?", counter(), (long)ts.tv_sec);
    (void)e1;
    unsetenv("VSBSHIM_FAULT"); reconf();
    o = open(argv[1], O_RDONLY);
    printf("after reset: o>=0 %d c=%ld\n", o >= 0, counter());
    return 0;
}
EOF
clang -o "$C/api" "$C/api.c" -ldl 2>"$C/cc.err"
env LD_PRELOAD="$SHIM" "$C/api" "$CFG" "$C" "$TR" >"$C/out" 2>"$C/err"; rc=$?
chk "api exit $rc" [ $rc -eq 0 ]
chk "set_time" grep -q "^t1 1234567890.000000042 c=0$" "$C/out"
chk "set_time off" grep -q "^t2 real$" "$C/out"
chk "reconfigure: faults, counter, time" grep -q "^r1=1 r2=-1/EIO o=-1/ELOOP c=3 t=77$" "$C/out"
chk "reconfigure resets" grep -q "^after reset: o>=0 1 c=1$" "$C/out"
verdict "(j) vsbshim_set_time / vsbshim_reconfigure / vsbshim_counter"

# ---- (k) restore run and rotation (unlinkat/fdopendir/symlink/chmod/chown/utimens) --------
new_case k
for t in 1000000000 1000100000 1000200000 1000300000; do shim VSBSHIM_TIME=$t; done
rm -f "$TR"
shim VSBSHIM_TIME=1000400000 VSBSHIM_WATCH="$ST" VSBSHIM_TRACE="$TR"; rc=$?
chk "rotation run status $rc" [ $rc -eq 0 ]
chk "fdopendir on the deleted group" has "$TR" "^\d+\tfdopendir\t$(esc "$ST/$G")\t-\t\d+\t-$"
chk "unlinkat resolved through dirfd" has "$TR" "^\d+\tunlink\t$(esc "$ST/$G/$B/metadata.zst")\t-\t0\t-$"
chk "rmdir of the group" has "$TR" "^\d+\trmdir\t$(esc "$ST/$G")\t-\t0\t-$"
LAST=$(ls -d "$ST"/*/* | tail -n 1)
env LD_PRELOAD="$SHIM" VSBSHIM_WATCH="$C/restored:$ST" VSBSHIM_TRACE="$C/rtrace.txt" \
    "$VSB" -c "$CFG" restore "$LAST" "$C/restored" >"$C/rout" 2>"$C/rerr"; rc=$?
chk "restore status $rc" [ $rc -eq 0 ]
R=$C/restored$SRC
chk "restore: create file CREAT|EXCL|NOFOLLOW" has "$C/rtrace.txt" "^\d+\topen\t$(esc "$R/a.txt")\tWRONLY\\|CREAT\\|EXCL\\|NOFOLLOW\t\d+\t-$"
chk "restore: symlink" has "$C/rtrace.txt" "^\d+\tsymlink\t$(esc "$R/link")\ta\.txt\t0\t-$"
chk "restore: chmod" has "$C/rtrace.txt" "^\d+\tchmod\t$(esc "$R/a.txt")\t100644\t0\t-$"
chk "restore: chown" has "$C/rtrace.txt" "^\d+\tchown\t$(esc "$R/a.txt")\t\d+:\d+\t0\t-$"
chk "restore: utimens" has "$C/rtrace.txt" "^\d+\tutimens\t$(esc "$R/a.txt")\t900000000\.0+:900000000\.0+\t0\t-$"
chk "restore: reads of data.tar.zst" has "$C/rtrace.txt" "^\d+\tread\t$(esc "$LAST/data.tar.zst")\t\d+\t\d+\t-$"
verdict "(k) rotation (fdopendir/unlinkat/rmdir via dirfd) and restore (symlink/chmod/chown/utimens) traced"

# ---- (l) threads ------------------------------------------------------------------------
new_case l
cat > "$C/thr.c" <<'EOF'
#include <fcntl.h>
#include <pthread.h>
#include <stdio.h>
#include <sys/stat.h>
#include <unistd.h>
static const char *dir;
static void *work(void *arg) {
    long id = (long)arg; char p[4200], b[64]; struct stat st;
    snprintf(p, sizeof p, "%s/t%ld", dir, id);
    for (int i = 0; i < 200; i++) {
        int fd = open(p, O_CREAT | O_RDWR | O_TRUNC, 0600);
        if (fd < 0) return (void *)1;
        if (write(fd, "0123456789", 10) != 10) return (void *)2;
        if (lseek(fd, 0, SEEK_SET) != 0) return (void *)3;
        if (read(fd, b, sizeof b) != 10) return (void *)4;
        if (fstat(fd, &st) != 0 || st.st_size != 10) return (void *)5;
        if (close(fd) != 0) return (void *)6;
        if (stat(p, &st) != 0) return (void *)7;
        if (unlink(p) != 0) return (void *)8;
    }
    return 0;
}
int main(int argc, char **argv) {
    pthread_t t[8]; long bad = 0; dir = argv[1]; (void)argc;
    for (long i = 0; i < 8; i++) pthread_create(&t[i], 0, work, (void *)i);
    for (int i = 0; i < 8; i++) { void *r; pthread_join(t[i], &r); bad += (long)r; }
    return bad != 0;
}
EOF
clang -O1 -o "$C/thr" "$C/thr.c" -lpthread 2>"$C/cc.err"
mkdir "$C/w"
env LD_PRELOAD="$SHIM" VSBSHIM_WATCH="$C/w" VSBSHIM_TRACE="$TR" "$C/thr" "$C/w" >"$C/out" 2>"$C/err"; rc=$?
chk "threaded program status $rc" [ $rc -eq 0 ]
chk "8*200*8+1 lines, numbered contiguously in file order" awk -F'\t' '$1!=NR || NF!=6 {exit 1} END {exit !(NR==12801)}' "$TR"
for i in 1 2 3 4 5; do
    new_case l$i
    shim VSBSHIM_TIME=$T VSBSHIM_WATCH="$ST:$SRC" VSBSHIM_TRACE="$TR"
    chk "repeat run $i has the same number of trace lines as (b)" [ "$(wc -l < "$TR")" = "$N_TRACE_B" ]
done
verdict "(l) 8 threads x 1600 watched calls: no deadlock, gap-free numbering; vsb trace length stable over 5 runs ($N_TRACE_B lines)"

if [ $FAILS -eq 0 ]; then echo "ALL PASS"; exit 0; else echo "$FAILS FAILED"; exit 1; fi
