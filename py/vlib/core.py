"""Shared machinery of the vsb verification checks (python3 stdlib only)."""
import json, os, random, re, shutil, subprocess, sys, time, hashlib, glob

VERIF = os.path.dirname(os.path.dirname(os.path.dirname(os.path.abspath(__file__))))
LEAN = os.environ.get('VSB_VERIF_LEAN_DIR') or os.path.join(VERIF, 'lean')     # (the override serves development copies only)
CACHE = os.path.join(VERIF, '.cache')
# evidence normally goes to /verif/evidence; mutant trials (bin/try-mutant) redirect it
EVIDENCE = os.environ.get('VSB_VERIF_EVIDENCE_DIR') or os.path.join(VERIF, 'evidence')
ALLOWED_AXIOMS = {'propext', 'Classical.choice', 'Quot.sound'}
FORBIDDEN = re.compile(r'\b(sorry|admit|native_decide|bv_decide|implemented_by|unsafe)\b|^\s*axiom\s|maxHeartbeats\s+0', re.M)


import threading
_scratch_lock = threading.Lock()


class Ctx:
    def __init__(self, prop, tier, seed, repo='/repo', replay=None):
        self.prop = prop
        self.tier = tier
        self.seed = seed
        self.repo = os.path.abspath(repo)
        self.replay = replay
        self.rng = random.Random(seed)
        self.t0 = time.time()
        self.violations = []      # (kind, what, replay_path, found_input)
        self.known_hits = []
        self.coverage = {}
        self.assumptions = []
        self.scratch = None
        self._known = load_known_findings().get(prop, [])
        self.bindir = None
        import glob as _glob
        for old in _glob.glob(os.path.join(EVIDENCE, 'replay', '%s-*.json' % prop)):
            if not replay or os.path.abspath(replay) != old:
                os.unlink(old)

    # ---- scratch space (outside /repo, /verif and /tmp-for-registered-commands) ----
    def scratch_dir(self):
        with _scratch_lock:
            if self.scratch is None:
                base = os.environ.get('VSB_VERIF_SCRATCH', '/var/tmp')
                d = os.path.join(base, 'vsb-verif-%s-%d' % (self.prop, os.getpid()))
                shutil.rmtree(d, ignore_errors=True)
                os.makedirs(d)
                self.scratch = d
        return self.scratch

    def cleanup(self):
        if self.scratch:
            subprocess.run(['chmod', '-R', 'u+rwx', self.scratch], stderr=subprocess.DEVNULL)
            shutil.rmtree(self.scratch, ignore_errors=True)

    # ---- reporting ----
    def violation(self, kind, what, case, found_input=True):
        """kind: 'property' (impl output violates the property/oracle), 'correspondence'
        (model != impl), 'proof' (theorem/audit broken), 'runtime' (crash/hang)."""
        for kf in self._known:
            if kf.get('status', 'open') == 'open' and known_matches(kf, kind, what, case):
                if kf['id'] not in [k['id'] for k in self.known_hits]:
                    self.known_hits.append(kf)
                return False
        n = len(self.violations) + 1
        rdir = os.path.join(EVIDENCE, 'replay')
        os.makedirs(rdir, exist_ok=True)
        path = os.path.join(rdir, '%s-%d.json' % (self.prop, n))
        with open(path, 'w') as f:
            json.dump({'property': self.prop, 'kind': kind, 'what': what, 'case': case,
                       'seed': self.seed, 'tier': self.tier, 'found_failing_input': found_input}, f, indent=1, default=str)
        self.violations.append((kind, what, path, found_input))
        return True

    def finish(self, level='proof'):
        wall = time.time() - self.t0
        ev = {
            'property_id': self.prop, 'tier': self.tier, 'seed': self.seed, 'level': level,
            'coverage': self.coverage, 'assumptions': self.assumptions, 'wall_s': round(wall, 2),
            'violations': len(self.violations),
        }
        ev['coverage']['known_findings_hit'] = [k['id'] for k in self.known_hits]
        os.makedirs(EVIDENCE, exist_ok=True)
        with open(os.path.join(EVIDENCE, self.prop + '.json'), 'w') as f:
            json.dump(ev, f, indent=1, default=str)
        for kf in self.known_hits:
            print('KNOWN-FINDING: property=%s %s' % (self.prop, kf['what']))
        # at most a handful of lines; the first is the most specific
        seen = set()
        for kind, what, path, found in self.violations[:5]:
            tail = '' if found else ' no-failing-input-found'
            print('VIOLATION property=%s replay=%s kind=%s %s%s' % (self.prop, path, kind, what[:200].replace('\n', ' '), tail))
        self.cleanup()
        return 1 if self.violations else 0


def load_known_findings():
    p = os.path.join(VERIF, 'known-findings.json')
    if not os.path.exists(p):
        return {}
    data = json.load(open(p))
    out = {}
    for f in data.get('findings', []):
        out.setdefault(f['property'], []).append(f)
    return out


def known_matches(kf, kind, what, case):
    m = kf.get('match', {})
    if 'kind' in m and m['kind'] != kind:
        return False
    if 'what_regex' in m and not re.search(m['what_regex'], what):
        return False
    if 'case_regex' in m and not re.search(m['case_regex'], json.dumps(case, default=str, sort_keys=True)):
        return False
    return bool(m)


# ---------------------------------------------------------------------------------------------
# building

def run(cmd, **kw):
    return subprocess.run(cmd, stdout=subprocess.PIPE, stderr=subprocess.STDOUT, text=True, **kw)


def lake_build(targets):
    r = run(['lake', 'build'] + targets, cwd=LEAN)
    return r.returncode == 0, r.stdout


_theorem_re = re.compile(r'^(?:@\[[^\]]*\]\s*)?theorem\s+([A-Za-z_][\w\.\']*)', re.M)


def props_theorems(prop):
    """Names of the property theorems of Props/<prop>.lean (fully qualified)."""
    path = os.path.join(LEAN, 'VsbModel', 'Props', prop + '.lean')
    src = open(path).read()
    names = []
    ns = []
    for line in src.splitlines():
        m = re.match(r'^namespace\s+(\S+)', line)
        if m:
            ns.append(m.group(1)); continue
        m = re.match(r'^end\s+(\S+)', line)
        if m and ns and ns[-1].split('.')[-1] == m.group(1).split('.')[-1]:
            ns.pop(); continue
        m = _theorem_re.match(line)
        if m:
            names.append('.'.join(ns + [m.group(1)]))
    return names


def strip_comments(src):
    src = re.sub(r'/-.*?-/', '', src, flags=re.S)
    src = re.sub(r'--.*', '', src)
    return src


def lean_sources():
    return sorted(glob.glob(os.path.join(LEAN, 'VsbModel', '**', '*.lean'), recursive=True))


def audit(prop, extra_modules=()):
    """Build Props/<prop> (+ driver), run #print axioms for each property theorem, grep keywords.
    Returns dict(obligations, discharged, axioms, problems[])."""
    problems = []
    mods = ['VsbModel.Props.' + prop] + list(extra_modules)
    ok, out = lake_build(mods + ['vsbmodel'])
    if not ok:
        problems.append('lake build failed: ' + out[-1500:])
    names = props_theorems(prop)
    discharged = 0
    axioms_used = set()
    per = {}
    if ok and names:
        adir = os.path.join(CACHE, 'audit')
        os.makedirs(adir, exist_ok=True)
        f = os.path.join(adir, 'Audit_%s.lean' % prop)
        with open(f, 'w') as fh:
            fh.write('import VsbModel.Props.%s\n' % prop)
            for n in names:
                fh.write('#print axioms %s\n' % n)
        r = run(['lake', 'env', 'lean', f], cwd=LEAN)
        text = r.stdout
        # outputs look like: 'X' depends on axioms: [a, b]   or   'X' does not depend on any axioms
        for n in names:
            m = re.search(r"'%s' depends on axioms: \[([^\]]*)\]" % re.escape(n), text, re.S)
            if m:
                ax = {a.strip() for a in m.group(1).replace('\n', ' ').split(',') if a.strip()}
            elif re.search(r"'%s' does not depend on any axioms" % re.escape(n), text):
                ax = set()
            else:
                problems.append('no axiom report for ' + n + ': ' + text[-300:])
                continue
            per[n] = sorted(ax)
            axioms_used |= ax
            if ax <= ALLOWED_AXIOMS:
                discharged += 1
            else:
                problems.append('theorem %s depends on foreign axioms %s' % (n, sorted(ax - ALLOWED_AXIOMS)))
    for p in lean_sources():
        body = strip_comments(open(p).read())
        m = FORBIDDEN.search(body)
        if m:
            problems.append('forbidden keyword %r in %s' % (m.group(0).strip(), os.path.relpath(p, LEAN)))
    return {'obligations': len(names), 'discharged': discharged, 'axioms': sorted(axioms_used),
            'theorems': per, 'problems': problems}


def build_impl(ctx, need_vsb=True):
    cmd = [os.path.join(VERIF, 'bin', 'build-harness'), ctx.repo]
    if not need_vsb:
        cmd.append('--no-vsb')
    r = subprocess.run(cmd, stdout=subprocess.PIPE, stderr=subprocess.PIPE, text=True)
    if r.returncode != 0:
        return None, r.stderr[-3000:]
    ctx.bindir = r.stdout.strip().splitlines()[-1]
    return ctx.bindir, ''


# ---------------------------------------------------------------------------------------------
# line protocol

def run_lines(exe, lines, env=None, timeout=600, shards=1):
    """Feed request lines to a line-protocol executable, return parsed JSON answers (same order)."""
    if shards > 1 and len(lines) > 4 * shards:
        import concurrent.futures
        n = len(lines)
        parts = [lines[i * n // shards:(i + 1) * n // shards] for i in range(shards)]
        with concurrent.futures.ThreadPoolExecutor(shards) as ex:
            res = list(ex.map(lambda p: run_lines(exe, p, env=env, timeout=timeout), parts))
        return [x for r in res for x in r]
    data = '\n'.join(lines) + '\n'
    try:
        r = subprocess.run(exe if isinstance(exe, list) else [exe], input=data, stdout=subprocess.PIPE,
                           stderr=subprocess.PIPE, text=True, env=env, timeout=timeout)
    except subprocess.TimeoutExpired:
        return [{'__timeout__': True}] * len(lines)
    outs = [l for l in r.stdout.splitlines() if l.strip()]
    res = []
    for i in range(len(lines)):
        if i < len(outs):
            try:
                res.append(json.loads(outs[i]))
            except Exception:
                res.append({'__garbage__': outs[i][:200]})
        else:
            res.append({'__died__': True, 'rc': r.returncode, 'stderr': r.stderr[-300:]})
    return res


def model_exe():
    return os.path.join(LEAN, '.lake', 'build', 'bin', 'vsbmodel')


def harness_exe(ctx):
    return os.path.join(ctx.bindir, 'vsb-harness')


def vsb_exe(ctx):
    return os.path.join(ctx.bindir, 'vsb')


def req(op, obj):
    return op + ' ' + json.dumps(obj, separators=(',', ':'))


def canon(x):
    return json.dumps(x, sort_keys=True, separators=(',', ':'))


def load_corpus(prop):
    out = []
    for p in sorted(glob.glob(os.path.join(VERIF, 'corpus', prop, '*.json'))):
        try:
            out.append(json.load(open(p)))
        except Exception:
            pass
    return out


def proof_coverage(ctx, aud, checker_extra=''):
    ctx.coverage.update({
        'obligations': aud['obligations'],
        'discharged': aud['discharged'],
        'checker_cmd': 'cd /verif/lean && lake build VsbModel.Props.%s && lake env lean <#print axioms of every theorem in Props/%s.lean>%s' % (ctx.prop, ctx.prop, checker_extra),
        'trusted_base': ['Lean 4.33.0 kernel', 'axioms used: ' + (', '.join(aud['axioms']) or 'none')],
        'theorems': aud['theorems'],
    })


def report_audit(ctx, aud):
    for p in aud['problems']:
        ctx.violation('proof', p, {'theorem_or_audit': p}, found_input=False)
    if aud['obligations'] == 0:
        ctx.violation('proof', 'no property theorem found', {}, found_input=False)


def leanchecker(mod):
    r = run(['lake', 'env', 'leanchecker', mod], cwd=LEAN)
    return r.returncode == 0, r.stdout[-500:]


def judge(ctx, cases, model_out, impl_out, oracle=None, label='', normalize=None, max_report=3):
    """Generic verdict: `oracle(case, impl)` returns None or a message saying how the implementation's
    own output breaks the property.  Disagreements model != impl are correspondence breaks; if the
    oracle finds no failing input among all cases they are reported as no-failing-input-found."""
    stats = {'cases': len(cases), 'disagreements': 0, 'oracle_failures': 0, 'runtime_failures': 0}
    prop_viol = []
    disagreements = []
    for c, m, i in zip(cases, model_out, impl_out):
        if isinstance(i, dict) and ('__died__' in i or '__timeout__' in i or '__garbage__' in i or 'harness_error' in i):
            stats['runtime_failures'] += 1
            if stats['runtime_failures'] <= max_report:
                ctx.violation('runtime', label + ' implementation harness failed: ' + canon(i)[:200], {'case': c, 'impl': i})
            continue
        if isinstance(m, dict) and ('driver_error' in m or '__died__' in m or '__timeout__' in m):
            ctx.violation('proof', label + ' model driver failed: ' + canon(m)[:200], {'case': c, 'model': m}, found_input=False)
            continue
        if oracle is not None:
            msg = oracle(c, i)
            if msg:
                stats['oracle_failures'] += 1
                prop_viol.append((c, i, m, msg))
        mm, ii = (normalize(m), normalize(i)) if normalize else (m, i)
        if canon(mm) != canon(ii):
            stats['disagreements'] += 1
            disagreements.append((c, i, m))
    prop_viol.sort(key=lambda t: len(canon(t[0])))
    reported = 0
    for c, i, m, msg in prop_viol:
        # (a violation that is a listed known finding is not counted: a different one behind it must still be reported)
        if ctx.violation('property', label + ' ' + msg, {'case': c, 'impl': i, 'model': m}):
            reported += 1
            if reported >= max_report:
                break
    if disagreements and not reported:
        disagreements.sort(key=lambda t: len(canon(t[0])))
        c, i, m = disagreements[0]
        ctx.violation('correspondence', label + ' model and implementation disagree on %d of %d cases; smallest shown'
                      % (len(disagreements), len(cases)), {'case': c, 'impl': i, 'model': m,
                      'correspondence': label}, found_input=False)
    return stats
