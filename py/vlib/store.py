"""Independent readers/writers of the vsb storage format (no vsb code): zstd through ctypes on
libzstd.so.1, tar through the stdlib, hashes through hashlib; plus helpers to run the vsb CLI under
the LD_PRELOAD interposer."""
import ctypes, hashlib, io, json, os, re, shutil, stat, subprocess, tarfile, time

from . import core

_z = ctypes.CDLL('libzstd.so.1')
_z.ZSTD_compressBound.restype = ctypes.c_size_t
_z.ZSTD_compressBound.argtypes = [ctypes.c_size_t]
_z.ZSTD_compress.restype = ctypes.c_size_t
_z.ZSTD_compress.argtypes = [ctypes.c_void_p, ctypes.c_size_t, ctypes.c_void_p, ctypes.c_size_t, ctypes.c_int]
_z.ZSTD_isError.restype = ctypes.c_uint
_z.ZSTD_isError.argtypes = [ctypes.c_size_t]
_z.ZSTD_createDStream.restype = ctypes.c_void_p
_z.ZSTD_freeDStream.argtypes = [ctypes.c_void_p]
_z.ZSTD_initDStream.argtypes = [ctypes.c_void_p]
_z.ZSTD_initDStream.restype = ctypes.c_size_t
_z.ZSTD_decompressStream.restype = ctypes.c_size_t


class _Buf(ctypes.Structure):
    _fields_ = [('ptr', ctypes.c_void_p), ('size', ctypes.c_size_t), ('pos', ctypes.c_size_t)]


_z.ZSTD_decompressStream.argtypes = [ctypes.c_void_p, ctypes.POINTER(_Buf), ctypes.POINTER(_Buf)]


class ZstdError(Exception):
    pass


def zstd_decompress(data):
    """Streaming decompression of a whole zstd stream (possibly several frames)."""
    if len(data) == 0:
        return b''   # zstd-rs treats EOF at a frame boundary (incl. an empty file) as end of stream
    ds = _z.ZSTD_createDStream()
    try:
        _z.ZSTD_initDStream(ds)
        src = ctypes.create_string_buffer(data, len(data))
        inb = _Buf(ctypes.cast(src, ctypes.c_void_p), len(data), 0)
        out = bytearray()
        chunk = ctypes.create_string_buffer(1 << 17)
        last = 0 if len(data) == 0 else 1
        while True:
            outb = _Buf(ctypes.cast(chunk, ctypes.c_void_p), len(chunk), 0)
            r = _z.ZSTD_decompressStream(ds, ctypes.byref(outb), ctypes.byref(inb))
            if _z.ZSTD_isError(r):
                raise ZstdError('zstd error')
            out += chunk.raw[:outb.pos]
            last = r
            if inb.pos >= inb.size and outb.pos < outb.size:
                break
        if last != 0:
            raise ZstdError('truncated zstd stream')
        return bytes(out)
    finally:
        _z.ZSTD_freeDStream(ds)


def zstd_compress(data, level=3):
    bound = _z.ZSTD_compressBound(len(data))
    dst = ctypes.create_string_buffer(bound)
    n = _z.ZSTD_compress(dst, bound, data, len(data), level)
    if _z.ZSTD_isError(n):
        raise ZstdError('compress')
    return dst.raw[:n]


# ---------------------------------------------------------------------------------------------
# manifest / archive

LINE_RE = re.compile(r'^(unique|extern) ([0-9a-f]*) (\d+):(\d+):(-?\d+) (\d+) (.*)$', re.S)


def parse_manifest(text):
    """-> list of records (dict) ; raises ValueError on an undecodable line"""
    recs = []
    if text == '':
        return recs
    lines = text.split('\n')
    if lines and lines[-1] == '':
        lines.pop()
    for ln in lines:
        m = LINE_RE.match(ln)
        if not m or len(m.group(2)) % 2:
            raise ValueError('bad manifest line %r' % ln[:80])
        recs.append({'unique': m.group(1) == 'unique', 'hash': m.group(2), 'dev': int(m.group(3)),
                     'ino': int(m.group(4)), 'mtime_ns': int(m.group(5)), 'size': int(m.group(6)), 'path': m.group(7)})
    return recs


def format_manifest(recs):
    return ''.join('%s %s %d:%d:%d %d %s\n' % ('unique' if r['unique'] else 'extern', r['hash'], r['dev'], r['ino'],
                                                r['mtime_ns'], r['size'], r['path']) for r in recs)


def read_manifest(backup_dir):
    raw = open(os.path.join(backup_dir, 'metadata.zst'), 'rb').read()
    return parse_manifest(zstd_decompress(raw).decode('utf-8', 'surrogateescape'))


def write_manifest(backup_dir, recs):
    with open(os.path.join(backup_dir, 'metadata.zst'), 'wb') as f:
        f.write(zstd_compress(format_manifest(recs).encode('utf-8', 'surrogateescape')))


def read_archive(backup_dir, with_data=False):
    """-> list of entries: {path (without leading /), type: file|dir|symlink|other, size, mode, uid, gid,
    mtime, linkname, sha512 (files), data (optional)}"""
    raw = zstd_decompress(open(os.path.join(backup_dir, 'data.tar.zst'), 'rb').read())
    out = []
    with tarfile.open(fileobj=io.BytesIO(raw), mode='r:') as tf:
        for m in tf:
            t = 'file' if m.isreg() else 'dir' if m.isdir() else 'symlink' if m.issym() else 'other'
            e = {'path': m.name, 'type': t, 'size': m.size, 'mode': m.mode, 'uid': m.uid, 'gid': m.gid,
                 'mtime': m.mtime, 'linkname': m.linkname if t == 'symlink' else None}
            if t == 'file':
                data = tf.extractfile(m).read()
                e['sha512'] = hashlib.sha512(data).hexdigest()
                if with_data:
                    e['data'] = data
            out.append(e)
    return out, raw


EMPTY_SHA512 = hashlib.sha512(b'').hexdigest()


# ---------------------------------------------------------------------------------------------
# names and clock

def group_name(t):
    return time.strftime('%Y.%m.%d', time.gmtime(t))


def backup_name(t):
    return time.strftime('%Y.%m.%d-%H:%M:%S', time.gmtime(t))


GROUP_RE = re.compile(r'^\d{4}\.\d{2}\.\d{2}$')
BACKUP_RE = re.compile(r'^\d{4}\.\d{2}\.\d{2}-\d{2}:\d{2}:\d{2}$')


def list_storage(root):
    """Raw listing: {group: sorted entries} for every directory entry of the root (any name)."""
    out = {}
    for g in sorted(os.listdir(root)):
        p = os.path.join(root, g)
        out[g] = sorted(os.listdir(p)) if os.path.isdir(p) and not os.path.islink(p) else None
    return out


# ---------------------------------------------------------------------------------------------
# running the CLI

SHIM = os.path.join(core.CACHE, 'vsbshim.so')
LOG_RE = re.compile(r'^([EWIDT]): (.*)$')


def ensure_shim():
    src = os.path.join(core.VERIF, 'shim', 'vsbshim.c')
    if not os.path.exists(SHIM) or os.path.getmtime(SHIM) < os.path.getmtime(src):
        os.makedirs(core.CACHE, exist_ok=True)
        subprocess.run(['clang', '-O1', '-shared', '-fPIC', '-o', SHIM, src, '-ldl', '-lpthread'], check=True)
    return SHIM


class Run:
    def __init__(self, rc, stderr, stdout=''):
        self.rc = rc
        self.stderr = stderr
        self.stdout = stdout
        self.logs = []
        for ln in stderr.splitlines():
            m = LOG_RE.match(ln)
            if m:
                self.logs.append((m.group(1), m.group(2)))
            elif self.logs and ln.strip():
                lvl, msg = self.logs[-1]
                self.logs[-1] = (lvl, msg + '\n' + ln)
            elif ln.strip():
                self.logs.append(('?', ln))

    def errors(self):
        return [m for l, m in self.logs if l == 'E']

    def warnings(self):
        return [m for l, m in self.logs if l == 'W']


def run_vsb(ctx, args, now=None, shim_env=None, timeout=120, extra_env=None, use_shim=True):
    env = dict(os.environ, TZ='UTC', LC_ALL='C')
    for k in list(env):
        if k.startswith('VSBSHIM_'):
            del env[k]
    if use_shim and (now is not None or shim_env):
        env['LD_PRELOAD'] = ensure_shim()
        env['VSBSHIM_ONLY'] = 'vsb'
        if now is not None:
            env['VSBSHIM_TIME'] = '%d.000000000' % now
        for k, v in (shim_env or {}).items():
            env['VSBSHIM_' + k] = v
    if extra_env:
        env.update(extra_env)
    try:
        r = subprocess.run([core.vsb_exe(ctx)] + args, stdout=subprocess.PIPE, stderr=subprocess.PIPE, env=env, timeout=timeout)
    except subprocess.TimeoutExpired as e:
        return Run(-999, (e.stderr or b'').decode('utf-8', 'replace') + '\nE: TIMEOUT')
    return Run(r.returncode, r.stderr.decode('utf-8', 'replace'), r.stdout.decode('utf-8', 'replace'))


def write_config(path, name, storage, items, max_groups, max_per_group, upload=None):
    """items: list of dicts {path, filter?, before?, after?}"""
    def q(s):
        return json.dumps(s)  # JSON strings are valid YAML double-quoted scalars
    lines = ['backups:', '  - name: %s' % q(name), '    path: %s' % q(storage), '    backup:',
             '      max_backup_groups: %d' % max_groups, '      max_backups_per_group: %d' % max_per_group, '      items:']
    for it in items:
        lines.append('        - path: %s' % q(it['path']))
        for k in ('filter', 'before', 'after'):
            if it.get(k) is not None:
                lines.append('          %s: %s' % (k, q(it[k])))
    if upload:
        lines.append('    upload:')
        for k, v in upload.items():
            if isinstance(v, dict):
                lines.append('      %s: {%s}' % (k, ', '.join('%s: %s' % (a, q(b)) for a, b in v.items())))
            else:
                lines.append('      %s: %s' % (k, q(v) if isinstance(v, str) else v))
    with open(path, 'w') as f:
        f.write('\n'.join(lines) + '\n')


# ---------------------------------------------------------------------------------------------
# trees

def tree_manifest(root, strip=None):
    """lstat+sha512 manifest of a real tree: {relpath: (type, mode, uid, gid, mtime_s, size/None, sha/target)}"""
    out = {}
    strip = strip if strip is not None else root
    for dirpath, dirnames, filenames in os.walk(root, followlinks=False):
        for n in [None] + dirnames + filenames:
            p = dirpath if n is None else os.path.join(dirpath, n)
            if n is not None and n in dirnames and not os.path.islink(p):
                continue  # visited as dirpath later
            st = os.lstat(p)
            rel = os.path.relpath(p, strip)
            if stat.S_ISDIR(st.st_mode):
                out[rel] = ('dir', stat.S_IMODE(st.st_mode), st.st_uid, st.st_gid, int(st.st_mtime_ns // 10**9), None, None)
            elif stat.S_ISLNK(st.st_mode):
                out[rel] = ('symlink', None, st.st_uid, st.st_gid, int(st.st_mtime_ns // 10**9), None, os.readlink(p))
            elif stat.S_ISREG(st.st_mode):
                h = hashlib.sha512()
                with open(p, 'rb') as f:
                    for blk in iter(lambda: f.read(1 << 20), b''):
                        h.update(blk)
                out[rel] = ('file', stat.S_IMODE(st.st_mode), st.st_uid, st.st_gid, int(st.st_mtime_ns // 10**9), st.st_size, h.hexdigest())
            else:
                out[rel] = ('other', stat.S_IMODE(st.st_mode), st.st_uid, st.st_gid, int(st.st_mtime_ns // 10**9), None, None)
    return out
