"""Canonicalisation of interposer traces of the storage into the operation alphabet of
`Vsb.FsTrace` (paths relative to the backup root), and derivation of the model scenario a trace
claims to be an instance of."""
import os, re
from . import store


def parse(trace_file, root):
    """-> list of raw records {seq, call, path, extra, ret, errno}"""
    out = []
    if not os.path.exists(trace_file):
        return out
    for ln in open(trace_file, errors='replace'):
        f = ln.rstrip('\n').split('\t')
        if len(f) < 6:
            continue
        out.append({'seq': f[0], 'call': f[1], 'path': f[2], 'extra': f[3], 'ret': f[4], 'errno': f[5]})
    return out


def rel(path, root):
    if path == root:
        return []
    if path.startswith(root + '/'):
        return [c for c in path[len(root) + 1:].split('/') if c]
    return None


def canonical(records, root):
    """Successful operations in the model's alphabet; failed mutating calls are returned separately."""
    ops, failed = [], []
    for r in records:
        call, ret = r['call'], r['ret']
        ok = not ret.startswith('-') and r['errno'] in ('-', '')
        if call == 'EXIT':
            try:
                ops.append(['exit', int(ret)])
            except ValueError:
                pass
            continue
        if call.startswith('KILL-BEFORE') or call in ('ACTION', 'PAUSE', 'ABORT'):
            continue
        p = rel(r['path'], root)
        if p is None:
            continue
        if call == 'flock':
            if 'EX' in r['extra']:
                ops.append(['lock', ok])
            continue
        if not ok:
            if call in ('mkdir', 'rename', 'unlink', 'rmdir', 'write', 'fsync', 'fsyncdir') or (call == 'open' and 'CREAT' in r['extra']):
                failed.append([call, p, r['errno']])
            continue
        if call in ('opendir', 'fdopendir'):
            if not (ops and ops[-1] == ['readdir', p]):
                ops.append(['readdir', p])
        elif call == 'open':
            if 'CREAT' in r['extra']:
                ops.append(['create', p])
            elif 'DIRECTORY' not in r['extra'] and 'NOFOLLOW' not in r['extra'] and p and p[-1] == 'metadata.zst':
                ops.append(['openRead', p])
        elif call == 'mkdir':
            ops.append(['mkdir', p])
        elif call == 'write':
            ops.append(['write', p])
        elif call == 'fsync':
            ops.append(['fsyncFile', p])
        elif call == 'fsyncdir':
            ops.append(['fsyncDir', p])
        elif call == 'rename':
            ops.append(['rename', p, rel(r['extra'], root)])
        elif call in ('unlink', 'rmdir'):
            ops.append(['remove', p])
    return ops, failed


def collapse_writes(ops):
    out = []
    for o in ops:
        if o[0] == 'write' and out and out[-1] == o:
            continue
        out.append(o)
    return out


def scenario_of(ops):
    """Derive the model scenario from a complete, successful run's canonical trace (or None)."""
    ops = collapse_writes(ops)
    ren = [o for o in ops if o[0] == 'rename']
    if len(ren) != 1:
        return None
    tmp, final = ren[0][1], ren[0][2]
    group, name = final[0], final[1]
    i_ren = ops.index(ren[0])
    i_mk = next((i for i, o in enumerate(ops) if o == ['mkdir', tmp]), None)
    if i_mk is None:
        return None
    pre = ops[:i_mk]
    new_group = ['mkdir', [group]] in pre
    listing1 = [o[1] for o in pre if o[0] == 'readdir' and not any(x[0] == 'remove' for x in pre[:pre.index(o)])]
    # abandoned temporaries removed before the own temporary directory is created
    abandoned, cur = [], None
    removes = [o[1] for o in pre if o[0] == 'remove']
    i = 0
    files = []
    for p in removes:
        if len(p) == 3:
            files.append(p[2])
        elif len(p) == 2:
            abandoned.append([p[1][1:], files]); files = []
    # reading the removed temporary directories is part of their removal, not of the listing
    listing1 = [p for p in listing1 if not (len(p) == 2 and p[1].startswith('.'))]
    mid = ops[i_mk:i_ren]
    earlier = [o[1][1] for o in mid if o[0] == 'openRead']
    meta, data = tmp + ['metadata.zst'], tmp + ['data.tar.zst']
    i_fm = next((i for i, o in enumerate(mid) if o == ['fsyncFile', meta]), len(mid))
    writes1 = [o[1] == data for o in mid[:i_fm] if o[0] == 'write']
    writes2 = len([o for o in mid[i_fm:] if o == ['write', data]])
    post = ops[i_ren + 1:]
    i_rm = next((i for i, o in enumerate(post) if o[0] == 'remove'), len(post))
    listing2 = [o[1] for o in post[:i_rm] if o[0] == 'readdir']
    old, cur_paths = [], []
    for o in post[i_rm:]:
        if o[0] == 'remove':
            if len(o[1]) == 1:
                old.append([o[1][0], cur_paths]); cur_paths = []
            else:
                cur_paths.append(o[1])
    return {'group': group, 'new_group': new_group, 'abandoned': abandoned, 'name': name, 'writes1': writes1, 'writes2': writes2,
            'earlier': earlier, 'listing1': listing1, 'listing2': listing2, 'old_groups': old}


def strip_gc_reads(ops):
    """remove_dir_all reads the directories it deletes; those reads are part of the removal."""
    out = []
    seen_remove = False
    ren = next((i for i, o in enumerate(ops) if o[0] == 'rename'), None)
    for i, o in enumerate(ops):
        if o[0] == 'readdir':
            # directory reads that belong to a recursive removal: before the own mkdir for abandoned temps
            # (dot-prefixed directories), after the first removal following the rename for old groups
            if len(o[1]) == 2 and o[1][1].startswith('.') and (ren is None or i < ren):
                continue
            if ren is not None and i > ren and any(x[0] == 'remove' for x in ops[ren:i]):
                continue
            if ren is not None and i > ren and i + 1 < len(ops) and _starts_removal(ops, i):
                continue
        out.append(o)
    return out


def _starts_removal(ops, i):
    """a readdir directly followed (possibly after more readdirs) by a remove below it"""
    p = ops[i][1]
    for o in ops[i + 1:]:
        if o[0] == 'readdir':
            continue
        return o[0] == 'remove' and o[1][:len(p)] == p
    return False
