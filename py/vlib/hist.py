"""Histories of source-tree edits interleaved with real `vsb backup` runs, with every backup decoded
independently afterwards.  Shared by C01, C02, C09, C10, C13."""
import hashlib, json, os, random, shutil, stat, subprocess
from . import core, store

DAY = 86400
T0 = 1000000000


def content(cid, size):
    """Deterministic content number `cid` of `size` bytes."""
    if size == 0:
        return b''
    seedb = hashlib.sha256(b'content-%d' % cid).digest()
    reps = size // len(seedb) + 1
    return (seedb * reps)[:size]


SIZES = [0, 1, 7, 100, 4095, 4096, 4097, 5000, 70000]
NAMES = ['a', 'b', 'c', 'with space', 'юникод', 'x' * 120, 'dot.name', '-dash', 'd1', 'd2', 'ends with space ']


def fname(rng, suffix):
    """A name from NAMES made distinct by `suffix`; names ending in white space keep ending in it."""
    n = rng.choice(NAMES)
    return suffix + n if n[-1:].isspace() else n + suffix


class World:
    """A source tree under `base/src` plus its storage and config."""

    def __init__(self, ctx, hid, rng, max_groups=2, max_per_group=2, nitems=1):
        self.ctx, self.rng, self.hid = ctx, rng, hid
        self.base = os.path.join(ctx.scratch_dir(), 'w%d' % hid)
        self.root = os.path.join(self.base, 'storage')
        # item roots share leading ancestors and then diverge through intermediate directories of their own
        self.items = [os.path.join(self.base, 'src0')] + [os.path.join(self.base, 'tree%d' % (i % 2), 'in%d' % i, 'src%d' % i) for i in range(1, nitems)]
        os.makedirs(self.root)
        for it in self.items:
            os.makedirs(it)
        self.cfg = os.path.join(self.base, 'config.yaml')
        self.now = T0 + rng.randint(0, 2) * DAY
        self.max_groups, self.max_per_group = max_groups, max_per_group
        self.next_cid = 1
        self.filters = [None] * nitems
        self.mtime_counter = 0

    def cleanup(self):
        subprocess.run(['chmod', '-R', 'u+rwx', self.base], stderr=subprocess.DEVNULL)
        shutil.rmtree(self.base, ignore_errors=True)

    # ---- edits ----
    def files(self):
        out = []
        for it in self.items:
            for d, dn, fn in os.walk(it):
                for f in fn:
                    p = os.path.join(d, f)
                    if os.path.isfile(p) and not os.path.islink(p):
                        out.append(p)
        return sorted(out)

    def dirs(self):
        out = []
        for it in self.items:
            for d, dn, fn in os.walk(it):
                out.append(d)
        return sorted(out)

    def fresh_mtime(self, p):
        """Every content change also changes the identity (the property's assumption): give the file a
        new, unique mtime."""
        self.mtime_counter += 1
        t = self.now - 5000 + self.mtime_counter
        os.utime(p, (t, t), follow_symlinks=False)

    def write(self, p, cid, size):
        with open(p, 'wb') as f:
            f.write(content(cid, size))
        self.fresh_mtime(p)

    def edit(self):
        rng = self.rng
        files, dirs = self.files(), self.dirs()
        op = rng.choice(['add', 'add', 'add', 'modify', 'touch', 'rename', 'delete', 'dup', 'mkdir', 'symlink', 'revive', 'chmod', 'nsmod', 'nsmod', 'swap', 'overwrite'])
        try:
            if op == 'add' or not files:
                d = rng.choice(dirs)
                p = os.path.join(d, fname(rng, str(rng.randint(0, 3))))
                if not os.path.lexists(p):
                    self.next_cid += 1
                    self.write(p, self.next_cid, rng.choice(SIZES))
            elif op == 'modify':
                p = rng.choice(files)
                self.next_cid += 1
                self.write(p, self.next_cid, rng.choice(SIZES))
            elif op == 'touch':
                p = rng.choice(files)
                if rng.random() < 0.25:
                    # a time before 1970 or far in the future, with a sub-second part
                    self.mtime_counter += 1
                    t = rng.choice([-1250000000, -473385599999999500, 2**33 * 10**9 + 5]) + self.mtime_counter * 1000
                    os.utime(p, ns=(t, t), follow_symlinks=False)
                else:
                    self.fresh_mtime(p)
            elif op == 'swap':
                # another file is renamed over the path and carries exactly the old modification time (safe-save, `cp -p`,
                # normalised timestamps): same device and mtime, new inode, new content
                p = rng.choice(files)
                st = os.lstat(p)
                self.next_cid += 1
                tmp = p + '.swap-tmp'
                with open(tmp, 'wb') as f:
                    f.write(content(self.next_cid, rng.choice(SIZES)))
                os.utime(tmp, ns=(st.st_mtime_ns, st.st_mtime_ns))
                os.rename(tmp, p)
            elif op == 'nsmod':
                # rewritten in place: same inode, same size, mtime differing only in its sub-second part
                p = rng.choice(files)
                st = os.lstat(p)
                if st.st_size > 0 and st.st_mode & 0o200:
                    self.next_cid += 1
                    with open(p, 'r+b') as f:
                        f.write(content(self.next_cid, st.st_size))
                    self.mtime_counter += 1
                    sec = st.st_mtime_ns // 10**9
                    t = sec * 10**9 + (st.st_mtime_ns % 10**9 + 1000 * self.mtime_counter + 1) % 10**9
                    os.utime(p, ns=(t, t))
            elif op == 'rename':
                p = rng.choice(files)
                q = os.path.join(rng.choice(dirs), fname(rng, 'r'))
                if not os.path.lexists(q):
                    os.rename(p, q)
            elif op == 'delete':
                os.unlink(rng.choice(files))
            elif op == 'dup':
                p = rng.choice(files)
                q = os.path.join(rng.choice(dirs), fname(rng, 'c'))
                if not os.path.lexists(q):
                    shutil.copyfile(p, q)
                    self.fresh_mtime(q)
            elif op == 'overwrite':
                # a known path gets the bytes of another file (usually of another size): content the group may already store
                p, q = rng.choice(files), rng.choice(files)
                if p != q:
                    data = open(q, 'rb').read()
                    with open(p, 'wb') as f:
                        f.write(data)
                    self.fresh_mtime(p)
            elif op == 'revive':
                # content that existed before (possibly absent now) comes back at a new path
                cid = rng.randint(1, max(1, self.next_cid))
                q = os.path.join(rng.choice(dirs), fname(rng, 'v'))
                if not os.path.lexists(q):
                    self.write(q, cid, rng.choice(SIZES[1:]))
            elif op == 'mkdir':
                q = os.path.join(rng.choice(dirs), fname(rng, 'd'))
                if not os.path.lexists(q) and q.count('/') < 14:
                    os.mkdir(q)
            elif op == 'symlink':
                q = os.path.join(rng.choice(dirs), fname(rng, 'l'))
                if not os.path.lexists(q):
                    os.symlink(rng.choice(['/nonexistent/target', 'relative', 'T' * 300, '../up']), q)
            elif op == 'chmod':
                os.chmod(rng.choice(files), rng.choice([0o644, 0o600, 0o755, 0o4711, 0o000, 0o7777]))
        except OSError:
            pass
        return op

    # ---- runs ----
    def backup(self, advance=None, shim_env=None):
        rng = self.rng
        self.now += advance if advance is not None else rng.choice([1, 2, 3600, DAY, DAY, 2 * DAY])
        store.write_config(self.cfg, 'b', self.root,
                           [{'path': it, 'filter': f} for it, f in zip(self.items, self.filters)],
                           self.max_groups, self.max_per_group)
        r = store.run_vsb(self.ctx, ['-c', self.cfg, 'backup', 'b'], now=self.now, shim_env=shim_env)
        return r

    def source_manifest(self):
        """path -> (dev, ino, mtime_ns, size, sha512) for every regular file under the items (absolute,
        symlink-resolved item roots as vsb records them)."""
        out = {}
        for it in self.items:
            real = os.path.realpath(it)
            for d, dn, fn in os.walk(real):
                for f in fn:
                    p = os.path.join(d, f)
                    st = os.lstat(p)
                    if stat.S_ISREG(st.st_mode):
                        try:
                            h = hashlib.sha512(open(p, 'rb').read()).hexdigest()
                        except OSError:
                            h = None
                        out[p] = (st.st_dev, st.st_ino, st.st_mtime_ns, st.st_size, h)
        return out

    def decode_storage(self, with_entries=True):
        """{group: {backup: {'records': [...]|None, 'entries': [...]|None}}} for final-named backups."""
        out = {}
        for g in sorted(os.listdir(self.root)):
            gp = os.path.join(self.root, g)
            if not (store.GROUP_RE.match(g) and os.path.isdir(gp)):
                continue
            out[g] = {}
            for b in sorted(os.listdir(gp)):
                bp = os.path.join(gp, b)
                if not (store.BACKUP_RE.match(b) and os.path.isdir(bp)):
                    continue
                d = {'records': None, 'entries': None}
                try:
                    d['records'] = store.read_manifest(bp)
                except Exception as e:
                    d['records_error'] = repr(e)
                if with_entries:
                    try:
                        d['entries'], _ = store.read_archive(bp)
                    except Exception as e:
                        d['entries_error'] = repr(e)
                out[g][b] = d
        return out
