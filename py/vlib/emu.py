"""Driving the provider emulator (/verif/emu/provider_emu.py) from the checks."""
import json, os, signal, subprocess, sys, time, urllib.request, importlib.util
from . import core

EMU = os.path.join(core.VERIF, 'emu', 'provider_emu.py')
_spec = importlib.util.spec_from_file_location('provider_emu', EMU)
pe = importlib.util.module_from_spec(_spec)
_spec.loader.exec_module(pe)

PREFIXES = [
    ('https://www.dropbox.com/oauth2', '/dropbox-oauth'), ('https://api.dropboxapi.com/2', '/dropbox-api'),
    ('https://content.dropboxapi.com/2', '/dropbox-content'), ('https://oauth.yandex.ru', '/yandex-oauth'),
    ('https://cloud-api.yandex.net/v1/disk', '/yandex-api'), ('https://accounts.google.com/o/oauth2', '/google-oauth'),
    ('https://www.googleapis.com/upload/drive/v3', '/google-upload'), ('https://www.googleapis.com/drive/v3', '/google-api'),
]


class Emulator:
    def __init__(self, state_dir, options=()):
        self.state = state_dir
        os.makedirs(state_dir, exist_ok=True)
        self.proc = subprocess.Popen([sys.executable, EMU, '--port', '0', '--state', state_dir] + list(options),
                                     stdout=subprocess.PIPE, stderr=subprocess.DEVNULL)
        line = self.proc.stdout.readline().decode()
        assert line.startswith('PORT '), line
        self.port = int(line.split()[1])
        self.base = 'http://127.0.0.1:%d' % self.port
        self.url_map = ';'.join('%s=%s%s' % (a, self.base, b) for a, b in PREFIXES)
        self.log_pos = 0

    def control(self, path, data=None):
        req = urllib.request.Request(self.base + path, data=data, method='POST' if data is not None else 'GET')
        with urllib.request.urlopen(req, timeout=10) as r:
            return r.read()

    def set_script(self, rules):
        self.control('/_emu/script', json.dumps(rules).encode())

    def reload(self):
        self.control('/_emu/reload', b'')

    def seq(self):
        return json.loads(self.control('/_emu/ping'))['seq']

    def namespace(self, provider):
        return pe.load_namespace(self.state, provider)

    def files(self, provider, under=None):
        """[(path, type, sha256|None, size)] of the saved state (Google Drive may hold several objects of one name)."""
        ns = self.namespace(provider)
        out = []
        for path, node in ns.walk():
            if under and not (path == under or path.startswith(under.rstrip('/') + '/')):
                continue
            out.append((path,) + (('dir', None, None) if node['type'] == 'dir' else ('file', node.get('sha256'), node.get('size'))))
        return out

    def new_requests(self):
        p = os.path.join(self.state, 'requests.jsonl')
        out = []
        if os.path.exists(p):
            with open(p) as f:
                f.seek(self.log_pos)
                for ln in f:
                    if ln.endswith('\n'):
                        out.append(json.loads(ln))
                self.log_pos = f.tell()
        return out

    def stop(self):
        if self.proc.poll() is None:
            self.proc.send_signal(signal.SIGTERM)
            try:
                self.proc.wait(timeout=15)
            except subprocess.TimeoutExpired:
                self.proc.kill()
