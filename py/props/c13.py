"""C13 — verification and staleness checks.  Theorems: Props/C13.lean.  Correspondence: the real
`Storage::get_backup_groups(true)` on storages produced by run histories and on manifest-level
corruptions of them vs the model (`verify` op) and an independent healthy-storage oracle; the real
`check_backups` / `parse_duration` on an age grid under the faked clock vs the model."""
import concurrent.futures, json, os, random, shutil, time
from vlib import core, store, hist
from props.c07 import snapshot, py_listing

LEVEL = 'proof'


def parse_manifest_prefix(backup_dir):
    """(records decoded before the first failure, complete?) the way MetadataReader would see it."""
    p = os.path.join(backup_dir, 'metadata.zst')
    try:
        raw = open(p, 'rb').read()
    except OSError:
        return [], False
    try:
        text = store.zstd_decompress(raw).decode('utf-8')
    except Exception:
        return [], False
    recs = []
    lines = text.split('\n')
    if lines and lines[-1] == '':
        lines.pop()
    for ln in lines:
        if ln.endswith('\r'):
            ln = ln[:-1]
        try:
            r = store.parse_manifest(ln + '\n')
        except ValueError:
            return recs, False
        if len(r) != 1 or r[0]['size'] >= 2**64 or r[0]['dev'] >= 2**64 or r[0]['ino'] >= 2**64:
            return recs, False
        recs.append({'unique': r[0]['unique'], 'hash': r[0]['hash'].lower(), 'size': r[0]['size']})
    return recs, True


def model_input(root):
    snap = snapshot(root)
    mans = {}
    for r in snap:
        if r['entries'] is None:
            continue
        for e in r['entries']:
            if e['type'] == 'dir' and store.BACKUP_RE.match(e['name']):
                recs, complete = parse_manifest_prefix(os.path.join(root, r['name'], e['name']))
                mans['%s/%s' % (r['name'], e['name'])] = {'recs': recs, 'complete': complete}
    return {'storage': snap, 'manifests': mans}


def unhealthy_reasons(inp):
    """The property's own definition of a healthy storage (independent of the model): the set of
    reasons why the storage is not healthy (empty = healthy)."""
    reasons = set()
    groups, clean = py_listing(inp['storage'])
    if not clean:
        reasons.add('listing')
    for g, backups in groups:
        avail = set()
        for b in backups:
            m = inp['manifests'].get('%s/%s' % (g, b))
            if m is None or not m['complete']:
                reasons.add('undecodable-manifest')
                continue
            if not m['recs']:
                reasons.add('empty-manifest')
            for r in m['recs']:
                if r['unique']:
                    avail.add(r['hash'])
                elif r['size'] != 0 and r['hash'] not in avail:
                    reasons.add('unresolved-extern')
    return reasons


def oracle_healthy(inp):
    return not unhealthy_reasons(inp)


CORRUPTIONS = ['del-data', 'del-meta', 'del-backup-first', 'del-backup-last', 'drop-unique-line', 'change-unique-hash',
               'flip-to-extern', 'move-extern-first', 'empty-manifest', 'garbage-line', 'garbage-file', 'truncate-zstd',
               'stray-root-file', 'stray-group-file', 'hidden-root', 'hidden-group', 'rename-backup', 'temp-backup',
               'stray-in-backup', 'crlf-lines', 'none', 'temp-other-date', 'first-gone-with-temp', 'binary-garbage-line',
               'extern-before-its-unique', 'suffix-backup', 'prefix-backup', 'suffix-group']


def corrupt(rng, root, kind):
    groups = [g for g in sorted(os.listdir(root)) if store.GROUP_RE.match(g)]
    if not groups:
        return False
    g = rng.choice(groups)
    gp = os.path.join(root, g)
    backups = [b for b in sorted(os.listdir(gp)) if store.BACKUP_RE.match(b)]
    if kind == 'stray-root-file':
        open(os.path.join(root, 'stray.txt'), 'w').close(); return True
    if kind == 'hidden-root':
        open(os.path.join(root, '.hidden'), 'w').close(); return True
    if kind == 'suffix-group':
        # a directory whose name only begins with a group name (an empty one, and one with the contents of the group)
        if rng.random() < 0.5:
            os.mkdir(gp + rng.choice(['.old', '~', '-1']))
        else:
            os.rename(gp, gp + rng.choice(['.old', '~', '-1']))
        return True
    if kind == 'stray-group-file':
        open(os.path.join(gp, 'stray'), 'w').close(); return True
    if kind == 'hidden-group':
        open(os.path.join(gp, '.hidden'), 'w').close(); return True
    if kind == 'temp-backup':
        os.makedirs(os.path.join(gp, '.2001.01.01-00:00:00'), exist_ok=True); return True
    if kind == 'none':
        return True
    if kind == 'temp-other-date':
        # an abandoned temporary of a run made on another day: ignored by listing, the group stays healthy
        os.makedirs(os.path.join(gp, '.1999.12.31-23:59:59'), exist_ok=True); return True
    if not backups:
        return False
    if kind == 'first-gone-with-temp':
        # the group's first backup is gone; a temporary bearing the group's date must not hide that
        if len(backups) < 2:
            return False
        shutil.rmtree(os.path.join(gp, backups[0]))
        os.makedirs(os.path.join(gp, '.' + g + '-00:00:00'), exist_ok=True); return True
    if kind == 'extern-before-its-unique':
        # inside one manifest, a non-empty extern record is moved in front of the only unique record of its hash (no
        # earlier backup of the group stores it): order inside a backup matters
        for g2 in groups:
            avail = set()
            for b2 in [x for x in sorted(os.listdir(os.path.join(root, g2))) if store.BACKUP_RE.match(x)]:
                bp2 = os.path.join(root, g2, b2)
                try:
                    recs = store.read_manifest(bp2)
                except Exception:
                    break
                first_unique = {}
                for i, r in enumerate(recs):
                    if r['unique']:
                        first_unique.setdefault(r['hash'], i)
                for i, r in enumerate(recs):
                    j = first_unique.get(r['hash'])
                    if not r['unique'] and r['size'] and r['hash'] not in avail and j is not None and j < i:
                        recs.insert(j, recs.pop(i))
                        store.write_manifest(bp2, recs)
                        return True
                avail |= {r['hash'] for r in recs if r['unique']}
        return False
    b = rng.choice(backups)
    bp = os.path.join(gp, b)
    if kind == 'del-data':
        os.unlink(os.path.join(bp, 'data.tar.zst')); return True
    if kind == 'del-meta':
        os.unlink(os.path.join(bp, 'metadata.zst')); return True
    if kind == 'del-backup-first':
        shutil.rmtree(os.path.join(gp, backups[0])); return True
    if kind == 'del-backup-last':
        shutil.rmtree(os.path.join(gp, backups[-1])); return True
    if kind == 'rename-backup':
        os.rename(bp, os.path.join(gp, '1999.01.01-00:00:00')); return True
    if kind == 'suffix-backup':
        # a complete backup under a name that only begins with a backup name is an unexpected entry
        os.rename(bp, bp + rng.choice(['.old', '~', '.tmp', ' ', '0'])); return True
    if kind == 'prefix-backup':
        os.rename(bp, os.path.join(gp, rng.choice(['x', '_', '0']) + os.path.basename(bp))); return True
    if kind == 'stray-in-backup':
        open(os.path.join(bp, 'extra'), 'w').close(); return True
    mp = os.path.join(bp, 'metadata.zst')
    if kind == 'garbage-file':
        open(mp, 'wb').write(b'garbage, not zstd'); return True
    raw = open(mp, 'rb').read()
    if kind == 'truncate-zstd':
        open(mp, 'wb').write(raw[:max(1, len(raw) // 2)]); return True
    try:
        recs = store.read_manifest(bp)
    except Exception:
        return False
    if kind == 'empty-manifest':
        store.write_manifest(bp, []); return True
    if kind == 'binary-garbage-line':
        # undecodable bytes after the first records: a read error in mid-stream, not the end of the manifest
        if not recs:
            return False
        k = max(1, len(recs) // 2)
        raw2 = store.format_manifest(recs[:k]).encode('utf-8', 'surrogateescape') + b'\xff\xfe\x80 binary garbage\n' + \
            store.format_manifest(recs[k:]).encode('utf-8', 'surrogateescape')
        open(mp, 'wb').write(store.zstd_compress(raw2)); return True
    if kind == 'garbage-line':
        text = store.format_manifest(recs) + 'this is not a manifest line\n'
        open(mp, 'wb').write(store.zstd_compress(text.encode())); return True
    if kind == 'crlf-lines':
        text = store.format_manifest(recs).replace('\n', '\r\n')
        open(mp, 'wb').write(store.zstd_compress(text.encode())); return True
    uniq = [i for i, r in enumerate(recs) if r['unique']]
    ext = [i for i, r in enumerate(recs) if not r['unique'] and r['size']]
    if kind == 'drop-unique-line' and uniq:
        del recs[rng.choice(uniq)]
    elif kind == 'change-unique-hash' and uniq:
        recs[rng.choice(uniq)]['hash'] = 'ab' * 64
    elif kind == 'flip-to-extern' and uniq:
        recs[rng.choice(uniq)]['unique'] = False
    elif kind == 'move-extern-first' and ext:
        r = recs.pop(rng.choice(ext)); recs.insert(0, r)
    else:
        return False
    store.write_manifest(bp, recs)
    return True


def build_storages(ctx, hid, seed, ncorrupt):
    """One history -> list of (label, model_input, root path kept until evaluated)."""
    rng = random.Random(seed)
    w = hist.World(ctx, hid, rng, max_groups=rng.randint(2, 3), max_per_group=rng.randint(1, 4))
    out = []
    try:
        # two files with the same content from the start: the first backup of every group stores one and refers to it
        # from the other
        w.next_cid += 1
        w.write(os.path.join(w.items[0], 'twin-a'), w.next_cid, 3000)
        w.write(os.path.join(w.items[0], 'twin-b'), w.next_cid, 3000)
        for _ in range(rng.randint(3, 8)):
            w.edit()
        after_runs = []
        for k in range(rng.randint(2, 6)):
            for _ in range(rng.randint(0, 4)):
                w.edit()
            r = w.backup(advance=rng.choice([2, 3600, hist.DAY, hist.DAY, 2 * hist.DAY]))
            after_runs.append(r.rc)
            d = os.path.join(w.base, 'snap-run%d' % k)
            shutil.copytree(w.root, d, symlinks=True)
            out.append({'label': 'after-run', 'history': hid, 'run': k, 'rc': r.rc, 'root': d})
        plan = list(CORRUPTIONS) if hid < 3 else []          # every kind on the first storages, then a random sample
        for c in range(ncorrupt + len(plan)):
            kind = plan[c] if c < len(plan) else rng.choice(CORRUPTIONS)
            d = os.path.join(w.base, 'corrupt-%d' % c)
            shutil.copytree(w.root, d, symlinks=True)
            if corrupt(rng, d, kind):
                out.append({'label': 'corrupt:' + kind, 'history': hid, 'root': d})
            else:
                shutil.rmtree(d)
    except Exception:
        w.cleanup()
        raise
    return w, out


def kill_histories(ctx):
    """No sequence of vsb runs by itself - each run completing, failing, or being killed anywhere except while it
    deletes an old group - leads to a storage that verification reports inconsistent: the kill/fault histories of
    C03 (scenario, injection point, follow-up run), each ending with the real verification of the storage."""
    from props import c03
    from concurrent.futures import ThreadPoolExecutor
    results = []
    for sid, name in enumerate(['first', 'append', 'rotate', 'abandoned']):
        sc = c03.Scenario(ctx, name, 40 + sid)
        try:
            r0, recs = c03.baseline(ctx, sc)
            plan = []
            for i, rec in enumerate(recs):
                n = int(rec['seq'])
                mut = rec['call'] in c03.MUTATING and (rec['call'] != 'open' or 'CREAT' in rec['extra'])
                if ctx.tier == 'thorough' or mut or i % 6 == ctx.seed % 6:
                    plan.append((n, ['kb', 'ka'][n % 2] if ctx.tier == 'quick' else 'kb', ['same-day', 'next-day'][(n // 2) % 2]))
                    if ctx.tier == 'thorough':
                        plan.append((n, 'ka', ['next-day', 'same-day'][(n // 2) % 2]))
                    elif mut:
                        plan.append((n, ['ENOSPC', 'EIO'][n % 2], ['next-day', 'same-day'][(n // 2) % 2]))
            with ThreadPoolExecutor(max_workers=12) as ex:
                results += list(ex.map(lambda a: c03.one_case(ctx, sc, a[0] + 1, *a[1]), enumerate(plan)))
        finally:
            sc.cleanup()
    bad = 0
    for r in results:
        v = r.get('verify') or {}
        if v.get('ok') is True or r.get('partial_group'):
            continue
        bad += 1
        case = {'scenario': r['scenario'], 'n': r['n'], 'mode': r['mode'], 'follow': r['follow']}
        if r.get('stale_adopted'):
            ctx.violation('property', 'storage reported inconsistent after vsb runs alone: an interrupted run left an empty group which a run on a later day adopted '
                          '(%s at call #%d of scenario %s): %s' % (r['mode'], r['n'], r['scenario'], v.get('errors')), {'case': case})
        else:
            ctx.violation('property', 'storage reported inconsistent after a kill/fault history of vsb runs alone (%s at call #%d %s of scenario %s, follow-up %s): %s'
                          % (r['mode'], r['n'], r.get('call'), r['scenario'], r['follow'], v.get('errors')), {'case': case})
    return {'histories': len(results), 'inconsistent': bad, 'kills_during_old_group_removal_excluded': sum(1 for r in results if r.get('partial_group'))}


def check(ctx):
    aud = core.audit(ctx.prop)
    core.report_audit(ctx, aud)
    core.proof_coverage(ctx, aud)
    bindir, err = core.build_impl(ctx)
    if bindir is None:
        ctx.violation('runtime', 'repository does not build: ' + err[-400:], {}, found_input=False)
        return
    store.ensure_shim()
    ctx.scratch_dir()
    nh = 25 if ctx.tier == 'quick' else 300
    ncor = 10 if ctx.tier == 'quick' else 18
    seeds = [ctx.rng.randrange(1 << 30) for _ in range(nh)]
    with concurrent.futures.ThreadPoolExecutor(16) as ex:
        built = list(ex.map(lambda i: build_storages(ctx, i, seeds[i], ncor), range(nh)))
    # F6 scenario, deterministically: an item holding only an empty directory
    w6 = hist.World(ctx, 9999, random.Random(6))
    os.makedirs(os.path.join(w6.items[0], 'only-an-empty-dir'))
    r6 = w6.backup(advance=10)
    d6 = os.path.join(w6.base, 'snap-f6')
    shutil.copytree(w6.root, d6, symlinks=True)
    built.append((w6, [{'label': 'after-run', 'history': 9999, 'run': 0, 'rc': r6.rc, 'root': d6, 'scenario': 'items-without-regular-files'}]))
    cases = [c for _, cs in built for c in cs]
    for c in cases:
        c['input'] = model_input(c['root'])
    hl = [core.req('verify', {'root': c['root']}) for c in cases]
    ml = [core.req('verify', c['input']) for c in cases]
    impl = core.run_lines(core.harness_exe(ctx), hl, shards=8)
    model = core.run_lines(core.model_exe(), ml, shards=8)
    for w, _ in built:
        w.cleanup()

    def view(x):
        if isinstance(x, dict) and x.get('result') == 'ok':
            return {'ok': x['ok']}
        if isinstance(x, dict) and x.get('result') == 'err':
            return {'ok': 'err'}
        return x

    def oracle(case, i):
        healthy = oracle_healthy(case['input'])
        if not isinstance(i, dict) or 'ok' not in i:
            return None
        if i['ok'] is True and not healthy:
            return 'verification accepts an unhealthy storage (%s)' % case['label']
        if i['ok'] is False and healthy:
            return 'verification flags a healthy storage (%s)' % case['label']
        if case['label'] == 'after-run' and i['ok'] is not True:
            why = sorted(unhealthy_reasons(case['input']))
            if why == ['empty-manifest']:
                return 'storage reported inconsistent after vsb runs alone: a run over items without any regular file published a backup whose manifest has zero records'
            return 'storage reported inconsistent after a sequence of vsb runs alone (run exit %s, reasons %s)' % (case.get('rc'), why)
        return None
    slim = [{k: v for k, v in c.items() if k != 'root'} for c in cases]
    st = core.judge(ctx, slim, [view(m) for m in model], [view(i) for i in impl], oracle, label='verify')
    kh = kill_histories(ctx)
    # a storage made by runs over a tree whose regular files are all empty (records, but no bytes): healthy
    from vlib import hist as hist_
    for j in range(2 if ctx.tier == 'quick' else 6):
        wz = hist_.World(ctx, 9300 + j, random.Random(ctx.seed * 7 + j), max_groups=2, max_per_group=2)
        try:
            os.makedirs(os.path.join(wz.items[0], 'pkg', 'sub'), exist_ok=True)
            for nm in ('.gitkeep', 'pkg/__init__.py', 'pkg/sub/__init__.py'):
                open(os.path.join(wz.items[0], nm), 'w').close()
            ok_runs = all(wz.backup(advance=hist_.DAY if j % 2 else 5).rc == 0 for _ in range(1 + j % 3))
            vz = core.run_lines(core.harness_exe(ctx), [core.req('verify', {'root': wz.root})])[0]
            if ok_runs and not (isinstance(vz, dict) and vz.get('ok') is True):
                ctx.violation('property', 'storage reported inconsistent after vsb runs alone: every regular file of the tree is empty, the manifests hold their records (%s)'
                              % str(vz)[:200], {'case': {'scenario': 'only-empty-files', 'index': j}})
        finally:
            wz.cleanup()

    # ---- age alarm grid (real check_backups under the faked clock) ----
    NOW = 1000000000
    rng = ctx.rng
    age_cases = []
    units = {'m': 60, 'h': 3600, 'd': 86400}
    for u, k in units.items():
        for n in (1, 2, 36):
            maxs = n * k
            for delta in (-2, -1, 0, 1, 2):
                t = NOW - maxs + delta          # newest backup made at t: age = maxs - delta
                for shape in range(4):
                    groups = [[t - 90000, t - 100], [t]] if shape == 0 else [[t]] if shape == 1 else [[t - 5, t], []] if shape == 2 else [[t - 86400], [t], [], []]
                    age_cases.append({'groups': groups, 'now': NOW, 'max_age': maxs, 'spec': '%d%s' % (n, u)})
    age_cases += [{'groups': [], 'now': NOW, 'max_age': None, 'spec': None}, {'groups': [[], []], 'now': NOW, 'max_age': None, 'spec': None},
                  {'groups': [], 'now': NOW, 'max_age': 60, 'spec': '1m'}, {'groups': [[], []], 'now': NOW, 'max_age': 60, 'spec': '1m'},
                  {'groups': [[NOW - 10**7]], 'now': NOW, 'max_age': None, 'spec': None},
                  {'groups': [[NOW + 50]], 'now': NOW, 'max_age': 60, 'spec': '1m'}]
    for _ in range(100 if ctx.tier == 'quick' else 2000):
        ng = rng.randint(0, 4)
        groups = [sorted(NOW - rng.randint(0, 200000) for _ in range(rng.choice([0, 1, 2]))) for _ in range(ng)]
        age_cases.append({'groups': groups, 'now': NOW, 'max_age': rng.choice([None, 60, 3600, 86400, 129600]), 'spec': None})
    def aview_impl(i):
        if isinstance(i, dict) and 'errors' in i:
            cls = [e for e in i['errors'] if e != 'empty-group']
            return {'alarm': any(e in ('no-backups', 'stale') for e in cls), 'class': cls[0] if cls else 'none'}
        return i

    def age_oracle_tz(case, i):
        newest = None
        for g in case['groups']:
            if g:
                newest = g[-1]
        want = newest is None or (case['max_age'] is not None and newest <= case['now'] and case['now'] - newest >= case['max_age'])
        if isinstance(i, dict) and 'alarm' in i and i.get('alarm') != want:
            return 'age alarm %s, expected %s (newest backup %s old, threshold %s)' % (i.get('alarm'), want, None if newest is None else case['now'] - newest, case['max_age'])
        return None

    al_model = [core.req('age', {'groups': c['groups'], 'now': c['now'], 'max_age': c['max_age']}) for c in age_cases]
    al_impl = [core.req('age', {'groups': [[store.backup_name(t) for t in g] for g in c['groups']], 'max_age': c['max_age']}) for c in age_cases]
    env = dict(os.environ, TZ='UTC', LD_PRELOAD=store.ensure_shim(), VSBSHIM_TIME='%d.000000000' % NOW, VSBSHIM_ONLY='vsb-harness')
    aimpl = core.run_lines(core.harness_exe(ctx), al_impl, env=env)
    amodel = core.run_lines(core.model_exe(), al_model)
    # the same grid in other time zones: backup names are local times, so are read back as local times
    tz_runs = 0
    for tz, off in (('XXX5', -5 * 3600), ('YYY-3', 3 * 3600), ('ZZZ-5:45', 5 * 3600 + 45 * 60)):
        sub = [c for k, c in enumerate(age_cases) if k % 3 == tz_runs % 3 or k >= len(age_cases) - 104][:150]
        li = [core.req('age', {'groups': [[store.backup_name(t + off) for t in g] for g in c['groups']], 'max_age': c['max_age']}) for c in sub]
        ri = core.run_lines(core.harness_exe(ctx), li, env=dict(env, TZ=tz))
        for c, i in zip(sub, ri):
            msg = age_oracle_tz(c, aview_impl(i))
            if msg:
                ctx.violation('property', 'age (time zone %s, names are local times): %s' % (tz, msg), {'case': dict(c, tz=tz)})
                break
        tz_runs += 1

    def aview_model(m):
        if isinstance(m, dict) and 'verdict' in m:
            v = m['verdict']
            return {'alarm': m['alarm'], 'class': v if v in ('no-backups', 'stale', 'future', 'bad-name') else 'none'}
        return m

    def age_oracle(case, i):
        newest = None
        for g in case['groups']:
            if g:
                newest = g[-1]
        want = newest is None or (case['max_age'] is not None and newest <= case['now'] and case['now'] - newest >= case['max_age'])
        if isinstance(i, dict) and i.get('alarm') != want:
            return 'age alarm %s, expected %s (newest backup %s old, threshold %s)' % (i.get('alarm'), want, None if newest is None else case['now'] - newest, case['max_age'])
        return None
    st2 = core.judge(ctx, age_cases, [aview_model(m) for m in amodel], [aview_impl(i) for i in aimpl], age_oracle, label='age')

    durs = ['1m', '2h', '36h', '7d', '0m', '01h', '5', 'm', '5s', '5 m', ' 5m', '5M', '-5m', '1.5h', '10d', '999999m', '', '5mm', '٣d']
    dl = [core.req('duration', {'s': d}) for d in durs]
    st3 = core.judge(ctx, [{'s': d} for d in durs], core.run_lines(core.model_exe(), dl), core.run_lines(core.harness_exe(ctx), dl),
                     lambda c, i: None, label='duration')
    labels = {}
    for c in cases:
        labels[c['label']] = labels.get(c['label'], 0) + 1
    distinct = {core.canon(c['input']) for c in cases}
    ctx.coverage.update({
        'evaluations': len(cases) + len(age_cases) + len(durs),
        'distinct_nontrivial': len(distinct),
        'rule': 'verification: the storage after every run of random histories, and single manifest-level corruptions of the final storage (%s); '
                'non-trivial/distinct = distinct (listing, manifests) inputs. age: thresholds 1/2/36 m/h/d x age in threshold-2..threshold+2 s x 4 group shapes + random' % ', '.join(CORRUPTIONS),
        'samples': [{'label': cases[0]['label'], 'manifests': list(cases[0]['input']['manifests'])[:3]}, age_cases[0]],
        'correspondence': {'verify': st, 'age': st2, 'duration': st3},
        'label_distribution': labels, 'kill_histories': kh,
        'disagreements_checked': st['cases'] + st2['cases'] + st3['cases'],
    })
    ctx.assumptions += ['faked CLOCK_REALTIME drives SystemTime::now()', 'time zones UTC, UTC-5, UTC+3, UTC+5:45 without daylight saving (chrono Local)', 'ASCII digits in names and durations',
                        'kill/fault histories are exercised by C03; here histories consist of completing runs']
