"""Shared by C11 and C01: decode a backup group into the restore model's input, run the real
`vsb restore`, compare the restored tree with the model's target file system."""
import hashlib, io, json, os, random, shutil, stat, tarfile
from vlib import core, store, hist


class Contents:
    """content id <-> bytes; hash table (cid, n) -> sha512 of the first n bytes."""

    def __init__(self):
        self.by_hash = {}
        self.data = []

    def cid(self, data):
        h = hashlib.sha512(data).digest()
        if h not in self.by_hash:
            self.by_hash[h] = len(self.data) + 1
            self.data.append(data)
        return self.by_hash[h]

    def table(self, sizes):
        t = {}
        for c, d in enumerate(self.data, 1):
            for n in set(sizes) | {len(d)}:
                if 0 < n <= len(d):
                    t['%d:%d' % (c, n)] = hashlib.sha512(d[:n]).hexdigest()
        return t


def decode_backup(bdir, contents, split_padding=False):
    """-> model Backup dict (manifest may be None, archive entries until the first failure).
    split_padding: an entry longer than its unique record's size is given as content (the first `size` bytes) + `pad` zeros."""
    b = {'name': os.path.basename(bdir), 'manifest': None, 'archive': [], 'complete': True}
    try:
        recs = store.read_manifest(bdir)
        ok = True
        for r in recs:
            if r['size'] >= 2**64 or r['dev'] >= 2**64 or r['ino'] >= 2**64:
                ok = False
        if ok:
            b['manifest'] = [{'unique': r['unique'], 'hash': r['hash'].lower(), 'size': r['size'], 'path': r['path']} for r in recs]
    except Exception:
        pass
    try:
        raw = store.zstd_decompress(open(os.path.join(bdir, 'data.tar.zst'), 'rb').read())
    except Exception:
        b['complete'] = False
        return b
    try:
        with tarfile.open(fileobj=io.BytesIO(raw), mode='r:') as tf:
            for m in tf:
                # the raw header value (u64); the model reinterprets it as the code does
                meta = {'mode': m.mode, 'uid': m.uid, 'gid': m.gid, 'mtime': int(m.mtime) % 2**64}
                if m.isdir():
                    b['archive'].append(dict(meta, type='dir', path=m.name))
                elif m.isreg():
                    data = tf.extractfile(m).read()
                    if len(data) != m.size:
                        b['complete'] = False
                        break
                    usz = None
                    if split_padding and b['manifest']:
                        usz = next((r['size'] for r in b['manifest'] if r['unique'] and r['path'] == '/' + m.name), None)
                    if usz is not None and usz < len(data) and not any(data[usz:]):
                        b['archive'].append(dict(meta, type='file', path=m.name, cid=contents.cid(data[:usz]) if usz else 0, len=usz, pad=len(data) - usz))
                    else:
                        b['archive'].append(dict(meta, type='file', path=m.name, cid=contents.cid(data) if data else 0, len=len(data)))
                elif m.issym():
                    b['archive'].append(dict(meta, type='symlink', path=m.name, target=m.linkname))
                else:
                    b['archive'].append(dict(meta, type='other', path=m.name))
    except Exception:
        b['complete'] = False
    return b


def decode_group(gdir, contents, split_padding=False):
    out = []
    for n in sorted(os.listdir(gdir)):
        p = os.path.join(gdir, n)
        if store.BACKUP_RE.match(n) and os.path.isdir(p):
            names = set(os.listdir(p))
            if {'data.tar.zst', 'metadata.zst'} <= names:
                out.append(decode_backup(p, contents, split_padding))
            else:
                out.append({'name': n, 'manifest': None, 'archive': [], 'complete': False, 'unlisted': True})
    return out


def model_request(group, target, contents):
    sizes = set()
    for b in group:
        for r in (b['manifest'] or []):
            sizes.add(r['size'])
    listed = [b for b in group if not b.get('unlisted')]
    # strict listing: a final-named backup directory lacking its files aborts `get_backup_group(strict)`
    return {'group': listed, 'target': target, 'hashes': contents.table(sizes), 'empty_hash': store.EMPTY_SHA512,
            'full': {hashlib.sha512(d).hexdigest(): [c, len(d)] for c, d in enumerate(contents.data, 1)},
            'strict_error': any(b.get('unlisted') for b in group)}


def creation_modes(tfile, rdir):
    """From an interposer trace of a restore: the permission bits requested for every directory and file created at
    or below the restore directory -> list of (call, path, octal mode string) that are not owner-only."""
    bad = []
    try:
        for line in open(tfile, errors='surrogateescape'):
            f = line.rstrip('\n').split('\t')
            if len(f) < 6 or not f[0].isdigit() or f[4] == '-1':
                continue
            call, path, extra = f[1], f[2], f[3]
            if not (path == rdir or path.startswith(rdir + '/')):
                continue
            if call == 'mkdir' and extra != '700':
                bad.append((call, path[len(rdir):], extra))
            elif call == 'open' and 'CREAT' in extra and '|m' in extra and extra.rsplit('|m', 1)[1] != '600':
                bad.append((call, path[len(rdir):], extra.rsplit('|m', 1)[1]))
    except OSError:
        pass
    return bad


def real_restore(ctx, w, bdir, rdir, modes=None):
    """`modes`: a list to receive the creations that were not owner-only (observed through the interposer)."""
    if modes is not None:
        tfile = rdir + '.trace'
        real = os.path.join(os.path.realpath(os.path.dirname(rdir)), os.path.basename(rdir))
        r = store.run_vsb(ctx, ['-c', w.cfg, 'restore', bdir, rdir], shim_env={'TRACE': tfile, 'WATCH': real})
        modes.extend(creation_modes(tfile, real))
        try:
            os.unlink(tfile)
        except OSError:
            pass
    else:
        r = store.run_vsb(ctx, ['-c', w.cfg, 'restore', bdir, rdir])
    tree = None
    if os.path.isdir(rdir):
        tree = {}
        for d, dn, fn in os.walk(rdir):
            for x in dn + fn:
                p = os.path.join(d, x)
                st = os.lstat(p)
                rel = os.path.relpath(p, rdir)
                if stat.S_ISDIR(st.st_mode):
                    tree[rel] = {'kind': 'dir', 'mode': stat.S_IMODE(st.st_mode), 'uid': st.st_uid, 'gid': st.st_gid, 'mtime': int(st.st_mtime_ns // 10**9)}
                elif stat.S_ISLNK(st.st_mode):
                    tree[rel] = {'kind': 'symlink', 'target': os.readlink(p), 'uid': st.st_uid, 'gid': st.st_gid, 'mtime': int(st.st_mtime_ns // 10**9)}
                else:
                    data = open(p, 'rb').read()
                    tree[rel] = {'kind': 'file', 'mode': stat.S_IMODE(st.st_mode), 'uid': st.st_uid, 'gid': st.st_gid, 'mtime': int(st.st_mtime_ns // 10**9),
                                 'len': len(data), 'sha': hashlib.sha512(data).hexdigest()}
    return r, tree


def model_tree(m, contents):
    """model fs -> same shape as real_restore's tree (file content by hash)."""
    out = {}
    for e in m['fs']:
        meta = e.get('meta')
        d = {'kind': e['kind']}
        if e['kind'] == 'file':
            data = contents.data[e['cid'] - 1][:e['len']] if e.get('cid') else b''
            d['len'] = e['len']
            d['sha'] = hashlib.sha512(data).hexdigest()
        if e['kind'] == 'symlink':
            d['target'] = e['target']
            d.update({'uid': meta['uid'], 'gid': meta['gid'], 'mtime': meta['mtime']})
        elif meta is not None:
            d.update({'mode': meta['mode'] & 0o7777, 'uid': meta['uid'], 'gid': meta['gid'], 'mtime': meta['mtime']})
        else:
            d.update({'mode': 0o700 if e['kind'] == 'dir' else 0o600, 'uid': 0, 'gid': 0, 'mtime': None})
        out[e['path']] = d
    return out


def compare_trees(mt, rt, strict_meta=True):
    """None if equal (mtime None = unspecified), else a message."""
    if set(mt) != set(rt):
        return 'path sets differ: only model %s, only real %s' % (sorted(set(mt) - set(rt))[:3], sorted(set(rt) - set(mt))[:3])
    for p in mt:
        a, b = mt[p], rt[p]
        for k in a:
            if k == 'mtime' and a[k] is None:
                continue
            if not strict_meta and k in ('mode', 'uid', 'gid', 'mtime'):
                continue
            if a[k] != b.get(k):
                return '%s: %s differs (model %r, real %r)' % (p, k, a[k], b.get(k))
    return None


# ---------------------------------------------------------------------------------------------
# re-encoding (corruptions)

def rewrite_archive(bdir, transform):
    """Decode data.tar.zst, apply transform(list of (TarInfo, data)) -> new list, re-encode."""
    raw = store.zstd_decompress(open(os.path.join(bdir, 'data.tar.zst'), 'rb').read())
    members = []
    with tarfile.open(fileobj=io.BytesIO(raw), mode='r:') as tf:
        for m in tf:
            data = tf.extractfile(m).read() if m.isreg() else None
            members.append((m, data))
    members = transform(members)
    buf = io.BytesIO()
    with tarfile.open(fileobj=buf, mode='w', format=tarfile.GNU_FORMAT) as tf:
        for m, data in members:
            if data is not None:
                m.size = len(data)
                tf.addfile(m, io.BytesIO(data))
            else:
                tf.addfile(m)
    with open(os.path.join(bdir, 'data.tar.zst'), 'wb') as f:
        f.write(store.zstd_compress(buf.getvalue()))
