"""C04 — the uploaded object decrypts to exactly the local backup.
Theorems: Props/C04.lean (bytes delivered through the request bodies and their readers = bytes gpg produced,
object round trip under the cipher/tar laws) on top of C17/C05.

Tie: (a) the real `Storage::upload_backup` — archiver thread, real gpg, stdout reader, splitter — with a mock
provider of configurable request-size limit whose bodies are read through the real Body -> reqwest conversion:
offsets, sizes, total and checksum against the model's splitter and an independent recomputation; the
concatenated bodies are decrypted with gpg and untarred with Python and compared with the local files; wrong
passphrase; no plaintext window in the ciphertext.  (b) `vsb upload` through the three real providers against the
emulator, the object fetched from the emulator and decoded the same way; the gpg child's argv / environment /
passphrase descriptor captured by a wrapper."""
import hashlib, io, json, os, random, shutil, tarfile
from vlib import core, store, hist
from props import upload_common as uc

LEVEL = 'proof'
PASSPHRASES = ['simple', 'with space and  two', 'юникод-пароль-密码', 'quo"te\'s `back` $dollar \\back', ' leading and trailing ', '-dash --batch']


def dropbox_content_hash(data):
    return hashlib.sha256(b''.join(hashlib.sha256(data[i:i + 4 * 1024 * 1024]).digest() for i in range(0, len(data), 4 * 1024 * 1024))).hexdigest()


def decode_object(home, blob, passphrase, name, local_dir):
    """-> list of problems"""
    probs = []
    rc, pt, err = uc.gpg_decrypt(home, blob, passphrase)
    if rc != 0:
        return ['the object does not decrypt with the configured passphrase: %s' % err.strip()[-160:]]
    if 'AES' not in err and 'encrypted' not in err:
        probs.append('gpg does not report a symmetrically encrypted message: %s' % err.strip()[-100:])
    try:
        tf = tarfile.open(fileobj=io.BytesIO(pt), mode='r:')
        members = {m.name.rstrip('/'): m for m in tf.getmembers()}
    except Exception as e:
        return ['the decrypted object is not a tar archive: %r' % (e,)]
    want = {name, name + '/data.tar.zst', name + '/metadata.zst'}
    if set(members) != want:
        probs.append('tar members %s differ from %s' % (sorted(members), sorted(want)))
    for f in ('data.tar.zst', 'metadata.zst'):
        m = members.get(name + '/' + f)
        if m is not None:
            got = tf.extractfile(m).read()
            if got != open(os.path.join(local_dir, f), 'rb').read():
                probs.append('%s inside the object differs from the local file' % f)
    return probs


def plaintext_leak(blob, local_dir):
    """A 24-byte window of the (high-entropy) local files occurring in the transmitted bytes."""
    for f in ('data.tar.zst', 'metadata.zst'):
        d = open(os.path.join(local_dir, f), 'rb').read()
        for off in range(0, max(1, len(d) - 24), max(24, len(d) // 200)):
            w = d[off:off + 24]
            if len(w) == 24 and w in blob:
                return '%s bytes at offset %d appear in the transmitted stream' % (f, off)
    return None


def make_backup(ctx, hid, rng, big=0):
    w = hist.World(ctx, hid, rng, max_groups=2, max_per_group=3)
    w.now = hist.T0
    w.write(os.path.join(w.items[0], 'small'), 1, rng.choice([1, 10, 300]))
    if rng.random() < 0.7 or big:
        with open(os.path.join(w.items[0], 'noise'), 'wb') as f:
            f.write(random.Random(hid).randbytes(big or rng.choice([0, 2000, 50000, 300000])))
    r = w.backup(advance=5)
    assert r.rc == 0, r.errors()
    g, b = store.group_name(w.now), store.backup_name(w.now)
    return w, g, b, os.path.join(w.root, g, b)


def stalled_producer(ctx):
    """gpg delivers the first part of the ciphertext, nothing for more than half a minute, then the rest: the provider must
    still receive every byte, in the request bodies of a successful upload."""
    w, g, b, bdir = make_backup(ctx, 590, random.Random(ctx.seed * 3 + 1), big=300000)
    home = uc.make_gnupghome(w.base)
    try:
        d = os.path.join(w.base, 'fakebin')
        os.makedirs(d, exist_ok=True)
        with open(os.path.join(d, 'gpg'), 'w') as f:
            f.write('#!/bin/bash\n/usr/bin/gpg "$@" > %s/out; head -c 150000 %s/out; sleep 31.5; tail -c +150001 %s/out\n' % (d, d, d))
        os.chmod(os.path.join(d, 'gpg'), 0o755)
        out = os.path.join(w.base, 'cipher.bin')
        o = core.run_lines(core.harness_exe(ctx), [core.req('upbackup', {'backup_path': bdir, 'group': g, 'name': b, 'passphrase': 'stall pw', 'max': None,
                                                                       'chunked': False, 'out': out})],
                           env=dict(os.environ, GNUPGHOME=home, PATH=d + ':' + os.environ.get('PATH', '/usr/bin:/bin')), timeout=300)[0]
        case = {'kind': 'stalled-producer'}
        if not isinstance(o, dict) or o.get('result') != 'ok':
            ctx.violation('property', 'the producer paused for 31.5 s in the middle of the stream and the upload did not complete: %s' % str(o)[:300], {'case': case})
            return 1
        blob = open(out, 'rb').read()
        want = open(os.path.join(d, 'out'), 'rb').read()
        if blob != want:
            ctx.violation('property', 'the provider received %d bytes, gpg produced %d (a pause of the producer ended a request body early)' % (len(blob), len(want)), {'case': case})
        for p in decode_object(home, blob, 'stall pw', b, bdir):
            ctx.violation('property', p + ' [producer paused mid-stream]', {'case': case})
        return 1
    finally:
        uc.kill_agent(home)
        w.cleanup()


def mock_runs(ctx):
    """(a)"""
    rng = ctx.rng
    n = 10 if ctx.tier == 'quick' else 60
    stats = {'runs': 0, 'limits': {}}
    for i in range(n):
        # (the first backup is longer than one 4 MiB block of Dropbox's hasher, which takes a write only up to the block's end)
        w, g, b, bdir = make_backup(ctx, 500 + i, random.Random(ctx.seed * 131 + i), big=4 * 1024 * 1024 + 300000 if i == 0 else 0)
        home = uc.make_gnupghome(w.base)
        try:
            pp = PASSPHRASES[i % len(PASSPHRASES)]
            out = os.path.join(w.base, 'cipher.bin')
            # first run without limit to learn the ciphertext size, then limits incl. exact divisors of it
            first = core.run_lines(core.harness_exe(ctx), [core.req('upbackup', {'backup_path': bdir, 'group': g, 'name': b, 'passphrase': pp, 'max': None, 'out': out})],
                                   env=dict(os.environ, GNUPGHOME=home))[0]
            total = first.get('total') if isinstance(first, dict) else None
            limits = [None]
            if total:
                divs = [d for d in range(2, 50) if total % d == 0][:2]
                limits += [total] + [total // d for d in divs] + [7 if total < 20000 else 4096, rng.choice([total - 1, total + 1, 4096, 65536])]
                if total < 3000:
                    limits.append(1)
                # limits that fall exactly between two blocks read from gpg (blocks start at 16 + k*8192 or at k*8192,
                # depending on how the first read of gpg's output went): the open body is exactly full when more arrives
                limits += [l for l in (16, 8192, 8208, 16384, 16400) if l < total and (l > 16 or total < 20000)]
            if i == 0:
                limits = [None, 1024 * 1024, rng.choice([total - 1, 4 * 1024 * 1024, 4 * 1024 * 1024 + 16])]
            for mx in limits:
                chunked = rng.random() < 0.5 or i == 0
                o = first if mx is None and not chunked else core.run_lines(
                    core.harness_exe(ctx), [core.req('upbackup', {'backup_path': bdir, 'group': g, 'name': b, 'passphrase': pp, 'max': mx, 'chunked': chunked, 'out': out})],
                    env=dict(os.environ, GNUPGHOME=home), timeout=300)[0]
                if mx is None and not chunked:
                    chunked = False
                case = {'kind': 'mock', 'index': i, 'passphrase': pp, 'max': mx, 'chunked': chunked}
                stats['runs'] += 1
                stats['limits']['none' if mx is None else 'exact-divisor' if total and mx and total % mx == 0 else 'other'] = \
                    stats['limits'].get('none' if mx is None else 'exact-divisor' if total and mx and total % mx == 0 else 'other', 0) + 1
                if not isinstance(o, dict) or o.get('result') != 'ok':
                    ctx.violation('property', 'upload_backup failed without any fault: %s' % str(o)[:300], {'case': case})
                    continue
                blob = open(out, 'rb').read()
                T = len(blob)
                # the bytes the provider receives: in order, without gaps or repeats, bodies full except the last
                off = 0
                for k, bd in enumerate(o['bodies']):
                    if bd['offset'] != off:
                        ctx.violation('property', 'body %d announced at offset %d, %d bytes were sent before it (gap or repeat)' % (k, bd['offset'], off), {'case': case})
                    if hashlib.sha256(blob[off:off + bd['len']]).hexdigest() != bd['sha256']:
                        ctx.violation('proof', 'harness inconsistency', {'case': case}, found_input=False)
                    off += bd['len']
                sizes = [bd['len'] for bd in o['bodies']]
                want = [T] if mx is None else [mx] * (T // mx) + ([T % mx] if T % mx else [])
                if sizes != want:
                    ctx.violation('correspondence', 'request body sizes %s differ from the splitter model\'s %s (total %d, limit %s)' % (sizes[:6], want[:6], T, mx), {'case': case}, found_input=False)
                fin = o.get('final') or {}
                mine = dropbox_content_hash(blob) if chunked else hashlib.md5(blob).hexdigest()
                if fin.get('total') != T or fin.get('checksum') != mine:
                    ctx.violation('property', 'finalisation (%s) does not carry the total size %d and the checksum %s of the bytes sent' % (fin, T, mine), {'case': case})
                for p in decode_object(home, blob, pp, b, bdir):
                    ctx.violation('property', p + ' [mock provider, limit %s, passphrase %r]' % (mx, pp), {'case': case})
                wrong = pp + 'x' if i % 2 else 'wrong'
                rc, pt, err = uc.gpg_decrypt(home, blob, wrong)
                if rc == 0:
                    ctx.violation('property', 'the object decrypts with a wrong passphrase', {'case': case})
                leak = plaintext_leak(blob, bdir)
                if leak:
                    ctx.violation('property', 'local file bytes in the transmitted stream: ' + leak, {'case': case})
            # the model's splitter on an arbitrary block partition of the same total: same bodies
            if total and total <= 20000:
                cuts = sorted(rng.sample(range(1, total), min(5, total - 1)))
                parts = [b_ - a_ for a_, b_ in zip([0] + cuts, cuts + [total])]
                for mx in [m_ for m_ in limits if m_]:
                    ids, msgs = 0, []
                    for s_ in parts:
                        msgs.append({'p': list(range(ids, ids + s_))}); ids += s_
                    msgs.append({'eof': 1})
                    m = core.run_lines(core.model_exe(), [core.req('split', {'max': mx, 'budget': None, 'msgs': msgs})])[0]
                    msz, cur = [], None
                    for ev in m.get('evs', []):
                        if isinstance(ev, dict) and 'stream' in ev:
                            cur = 0
                        elif isinstance(ev, dict) and 'chunk' in ev:
                            cur += len(ev['chunk'])
                        elif ev == 'close':
                            msz.append(cur)
                    want = [mx] * (total // mx) + ([total % mx] if total % mx else [])
                    if msz != want:
                        ctx.violation('proof', 'splitter model disagrees with its own theorem', {'case': {'max': mx, 'total': total}}, found_input=False)
        finally:
            uc.kill_agent(home)
            w.cleanup()
    return stats


def wrapper_dir(base, log):
    d = os.path.join(base, 'wrapbin')
    os.makedirs(d, exist_ok=True)
    with open(os.path.join(d, 'gpg'), 'w') as f:
        f.write('#!/bin/bash\n{ echo "ARGV"; for a in "$@"; do printf "%%s\\n" "$a"; done; echo "ENV"; env; echo "FDS"; '
                'for fd in /proc/$$/fd/*; do echo "$(basename $fd) $(readlink $fd)"; done; echo "END"; } >> %s\nexec /usr/bin/gpg "$@"\n' % log)
    os.chmod(os.path.join(d, 'gpg'), 0o755)
    return d


def check_wrapper_log(ctx, log, passphrase, case):
    text = open(log, errors='replace').read() if os.path.exists(log) else ''
    if 'ARGV' not in text:
        ctx.violation('runtime', 'the gpg wrapper was not invoked', {'case': case}, found_input=False)
        return 0
    n = 0
    for block in text.split('ARGV\n')[1:]:
        n += 1
        argv, rest = block.split('ENV\n', 1)
        env, rest = rest.split('FDS\n', 1)
        fds = dict(l.split(' ', 1) for l in rest.split('END')[0].splitlines() if ' ' in l)
        args = argv.splitlines()
        if passphrase in argv or passphrase in env:
            ctx.violation('property', 'the passphrase appears in the %s of the gpg child' % ('command line' if passphrase in argv else 'environment'), {'case': case, 'argv': args})
        if '--passphrase-fd' not in args:
            ctx.violation('property', 'gpg is not given the passphrase through --passphrase-fd: %s' % args, {'case': case})
        else:
            fd = args[args.index('--passphrase-fd') + 1]
            if not fds.get(fd, '').startswith('pipe:'):
                ctx.violation('property', 'the passphrase descriptor %s of the gpg child is not a private pipe (%s)' % (fd, fds.get(fd)), {'case': case})
        for a in ('--batch', '--symmetric'):
            if a not in args:
                ctx.violation('property', 'gpg invoked without %s: %s' % (a, args), {'case': case})
    return n


def e2e(ctx):
    """(b)"""
    stats = {'uploads': 0, 'objects': 0, 'wrapper_invocations': 0}
    plans = []
    for pi, prov in enumerate(uc.PROVIDERS):
        for k in range(1 if ctx.tier == 'quick' else 3):
            plans.append((prov, PASSPHRASES[(pi * 2 + k) % len(PASSPHRASES)], None))
    plans.append(('dropbox', PASSPHRASES[3], 'divisor'))
    # the archiver fails part-way through a backup's data file: whatever then exists under a final name must still be
    # the whole backup
    plans += [(prov, PASSPHRASES[1], 'readfault') for prov in uc.PROVIDERS]
    # the provider stores something else than what was sent (and reports its checksum honestly)
    plans += [(prov, PASSPHRASES[2], 'corrupt') for prov in uc.PROVIDERS]
    # gpg itself fails after having produced the beginning of the ciphertext
    plans += [(prov, PASSPHRASES[0], 'gpgfails') for prov in uc.PROVIDERS]
    if ctx.tier == 'thorough':
        plans.append(('dropbox', 'big', 'big'))
    for idx, (prov, pp, special) in enumerate(plans):
        big = 160 * 1024 * 1024 if special == 'big' else 0
        e = uc.E2E(ctx, 600 + idx, prov, pp, nbackups=2, file_sizes=(10, 5000))
        try:
            with open(os.path.join(e.w.items[0], 'noise'), 'wb') as f:
                f.write(random.Random(idx).randbytes(big or (700000 if special == 'readfault' else 40000)))
            r = e.w.backup(advance=9)
            assert r.rc == 0
            e.backups.append((store.group_name(e.w.now), store.backup_name(e.w.now)))
            log = os.path.join(e.w.base, 'gpg-wrapper.log')
            env = {'PATH': wrapper_dir(e.w.base, log) + ':' + os.environ.get('PATH', '/usr/bin:/bin')}
            mx = None
            if special == 'divisor':
                o0 = e.upload(env=env)
                sizes = sorted(z for v in o0['cloud'].values() for _, z in v)
                mx = sizes[-1] // 2 if sizes[-1] % 2 == 0 else sizes[-1]
                # wipe the cloud and upload again with a limit that divides the largest ciphertext exactly
                ns = e.stage.emu.namespace(prov)
                for gname in {rel.split('/')[0] for rel in o0['cloud']}:
                    ns.remove(e.CLOUD_ROOT + '/' + gname)
                uc.emu.pe.save_namespace(e.stage.dir, ns)
                e.stage.emu.reload()
                if os.path.exists(log):
                    os.unlink(log)
            shim_env, args = None, []
            if special == 'gpgfails':
                d = os.path.join(e.w.base, 'fakebin')
                os.makedirs(d, exist_ok=True)
                cnt = os.path.join(d, 'count')
                with open(os.path.join(d, 'gpg'), 'w') as f:
                    # (it takes all its input, so only its exit status tells that something went wrong)
                    f.write('#!/bin/bash\nif [ ! -e %s ]; then : > %s; /usr/bin/gpg "$@" > %s.out; head -c 700 %s.out; exit 2; fi\nexec /usr/bin/gpg "$@"\n' % (cnt, cnt, cnt, cnt))
                os.chmod(os.path.join(d, 'gpg'), 0o755)
                env = {'PATH': d + ':' + os.environ.get('PATH', '/usr/bin:/bin')}
            if special == 'readfault':
                g, b = e.backups[-1]
                shim_env = {'FAULT': 'read@%s=EIO@%d' % (os.path.join(e.w.root, g, b, 'data.tar.zst'), 2), 'WATCH': os.path.join(e.w.root, g, b)}
                args = ['--skip-verify']
            # (Google Drive: the first data request of a fresh cloud creates the group folder and carries no bytes)
            rules = [{'fault': 'corrupt', 'match': {'provider': prov, 'endpoint': 'upload-data', 'nth': n}} for n in (1, 2)] if special == 'corrupt' else None
            o = e.upload(rules=rules, env=env, max_request_size=mx, timeout=900, shim_env=shim_env, args=args)
            case = {'kind': 'e2e', 'provider': prov, 'passphrase': pp, 'special': special, 'max_request_size': mx}
            stats['uploads'] += 1
            if special in ('readfault', 'gpgfails', 'corrupt'):
                key = {'readfault': 'archiver_fault_runs', 'gpgfails': 'gpg_failure_runs', 'corrupt': 'corrupted_storage_runs'}[special]
                stats[key] = stats.get(key, 0) + 1
                fired = os.path.exists(os.path.join(e.w.base, 'fakebin', 'count')) if special == 'gpgfails' else \
                    any('corrupted by emulator' in (q.get('note') or '') for q in o['requests']) if special == 'corrupt' else bool(o['run'].errors())
                nbad = len(ctx.violations)
                for g, b in e.backups:
                    rel = '%s/%s.tar.gpg' % (g, b)
                    if rel in o['cloud']:
                        for p in decode_object(e.home, e.cloud_blob(rel), pp, b, os.path.join(e.w.root, g, b)):
                            ctx.violation('property', p + ' [%s, after %s]' % (prov, {'readfault': 'a read error in the archiver', 'gpgfails': 'a failure of gpg', 'corrupt': 'the provider stored a corrupted stream'}[special]), {'case': case, 'errors': o['run'].errors()[:3]})
                if not fired and len(ctx.violations) == nbad:
                    ctx.violation('runtime', 'the injected fault (%s) did not fire' % special, {'case': case}, found_input=False)
                continue
            if o['run'].rc != 0 or o['run'].errors():
                ctx.violation('property', 'vsb upload failed without any fault [%s]: %s' % (prov, o['run'].errors()[:3]), {'case': case})
                continue
            appends = [q for q in o['requests'] if q['endpoint'] in ('upload-append', 'upload-put', 'session-put') and q.get('body_bytes')]
            for g, b in e.backups:
                rel = '%s/%s.tar.gpg' % (g, b)
                if rel not in o['cloud']:
                    ctx.violation('property', 'backup %s was not uploaded' % rel, {'case': case})
                    continue
                blob = e.cloud_blob(rel)
                stats['objects'] += 1
                for p in decode_object(e.home, blob, pp, b, os.path.join(e.w.root, g, b)):
                    ctx.violation('property', p + ' [%s, passphrase %r, limit %s]' % (prov, pp, mx), {'case': case})
                rc, pt, err = uc.gpg_decrypt(e.home, blob, pp + '!')
                if rc == 0:
                    ctx.violation('property', 'the uploaded object decrypts with a wrong passphrase', {'case': case})
                leak = plaintext_leak(blob, os.path.join(e.w.root, g, b))
                if leak:
                    ctx.violation('property', 'local file bytes in the uploaded object: ' + leak, {'case': case})
            # the bytes received, request by request, are the objects (no gap, no repeat): sizes add up per object
            got = sorted(z for v in o['cloud'].values() for _, z in v)
            sent = sum(q['body_bytes'] for q in appends if not (prov == 'google' and q['body_bytes'] == 0))
            if sent != sum(got):
                ctx.violation('property', 'the provider received %d body bytes for objects of %d bytes in total' % (sent, sum(got)), {'case': case})
            if mx and prov == 'dropbox':
                over = [q['body_bytes'] for q in appends if q['body_bytes'] > mx]
                if over:
                    ctx.violation('property', 'a request body of %d bytes exceeds the request-size limit %d' % (over[0], mx), {'case': case})
                stats['exact_multiple_objects'] = stats.get('exact_multiple_objects', 0) + sum(1 for z in got if z % mx == 0)
            if special == 'big':
                stats['largest_object'] = got[-1]
                if not any(q['body_bytes'] == 150 * 1024 * 1024 for q in appends):
                    ctx.violation('property', 'an object of %d bytes was not cut at Dropbox\'s 150 MiB request limit' % got[-1], {'case': case})
            stats['wrapper_invocations'] += check_wrapper_log(ctx, log, pp, case)
        finally:
            e.close()
    return stats


def check(ctx):
    aud = core.audit(ctx.prop)
    core.report_audit(ctx, aud)
    core.proof_coverage(ctx, aud)
    bindir, err = core.build_impl(ctx)
    if bindir is None:
        ctx.violation('runtime', 'repository does not build: ' + err[-400:], {}, found_input=False)
        return
    store.ensure_shim()
    ctx.scratch_dir()
    a = mock_runs(ctx)
    a['stalled_producer_runs'] = stalled_producer(ctx)
    a['runs'] += a['stalled_producer_runs']
    b = e2e(ctx)
    ctx.coverage.update({
        'evaluations': a['runs'] + b['uploads'],
        'distinct_nontrivial': a['runs'] + b['objects'],
        'rule': 'real upload_backup (real gpg) with a mock provider under request-size limits none / 1 / 7 / 4096 / exact divisors of the ciphertext size / +-1, md5 and chunked-sha256 hashers, a producer pausing 31.5 s mid-stream, '
                '6 passphrases (spaces, unicode, quotes, leading dash); vsb upload through Dropbox, Yandex Disk and Google Drive against the emulator, incl. a Dropbox limit dividing the ciphertext exactly'
                + (' and a >150 MiB object with the real limit' if ctx.tier == 'thorough' else '') + '; every object decrypted with gpg and untarred independently',
        'samples': [], 'mock_provider': a, 'end_to_end': b,
        'correspondence': {'cases': a['runs'], 'what': 'body sizes/offsets/total/checksum vs the splitter model and an independent recomputation'},
        'disagreements_checked': a['runs'],
    })
    ctx.assumptions += ['OpenPGP correctness (confidentiality, integrity) is gpg\'s; the check observes that the object is what gpg --decrypt accepts only with the right passphrase',
                        'the emulator stores what it receives; HTTP framing is reqwest/hyper\'s',
                        'argv/environment/descriptors of the gpg child are observed by a wrapper placed first in PATH']
