"""Shared by C02, C09, C10: histories of edits and real `vsb backup` runs; after every run the new
manifest is compared with `runBackup` of the model, and independent oracles are evaluated."""
import concurrent.futures, hashlib, json, os, random, re, stat
from vlib import core, store, hist


def fp_str(r):
    return '%d:%d:%d' % (r['dev'], r['ino'], r['mtime_ns'])


def read_bytes_per_path(trace_file, item_roots):
    """Sum of bytes returned by read() per source path, from the interposer trace."""
    out = {}
    if not os.path.exists(trace_file):
        return out
    for ln in open(trace_file, errors='replace'):
        f = ln.rstrip('\n').split('\t')
        if len(f) >= 5 and f[1] == 'read':
            try:
                n = int(f[4])
            except ValueError:
                continue
            if n > 0:
                out[f[2]] = out.get(f[2], 0) + n
    return out


def run_history(ctx, hid, seed, tier, want_reads=False, corrupt_meta=True):
    rng = random.Random(seed)
    w = hist.World(ctx, hid, rng, max_groups=rng.randint(1, 3), max_per_group=rng.randint(1, 4), nitems=rng.choice([1, 1, 2]))
    steps = []
    try:
        for _ in range(rng.randint(3, 10)):
            w.edit()
        nruns = rng.randint(2, 6 if tier == 'quick' else 9)
        for k in range(nruns):
            for _ in range(rng.randint(0, 5)):
                w.edit()
            if rng.random() < 0.2:
                w.max_per_group = rng.randint(1, 4)
                w.max_groups = rng.randint(1, 3)
            pre = w.decode_storage(with_entries=False)
            # sometimes make an earlier manifest of the newest group unreadable for this run
            garbled = None
            if corrupt_meta and pre and rng.random() < 0.15:
                g = sorted(pre)[-1]
                if pre[g]:
                    b = rng.choice(sorted(pre[g]))
                    mp = os.path.join(w.root, g, b, 'metadata.zst')
                    if os.path.isfile(mp):
                        saved = open(mp, 'rb').read()
                        with open(mp, 'wb') as f:
                            f.write(b'this is not zstd')
                        garbled = (g, b, mp, saved)
            src = w.source_manifest()
            shim_env = None
            trace = None
            if want_reads:
                trace = os.path.join(w.base, 'trace-%d.txt' % k)
                shim_env = {'TRACE': trace, 'WATCH': ':'.join(os.path.realpath(i) for i in w.items)}
            r = w.backup(shim_env=shim_env)
            if garbled and os.path.isdir(os.path.dirname(garbled[2])):      # (the group may have been rotated away)
                with open(garbled[2], 'wb') as f:
                    f.write(garbled[3])
            post = w.decode_storage(with_entries=True)
            # locate the new backup
            bname = store.backup_name(w.now)
            where = [g for g in post if bname in post[g] and not (g in pre and bname in pre[g])]
            step = {'history': hid, 'run': k, 'rc': r.rc, 'errors': r.errors()[:5], 'bname': bname,
                    'garbled': garbled[:2] if garbled else None, 'published': bool(where)}
            if where:
                g = where[0]
                earlier = [b for b in sorted(post[g]) if b < bname]
                step['group'] = g
                step['earlier'] = [{'name': b, 'records': post[g][b]['records'],
                                    'readable': not (garbled and garbled[0] == g and garbled[1] == b)} for b in earlier]
                step['new'] = post[g][bname]
                step['source'] = {p: list(v) for p, v in src.items()}
                if trace:
                    step['reads'] = read_bytes_per_path(trace, w.items)
                # storage permissions (C10)
                modes = {}
                for p in (os.path.join(w.root, g), os.path.join(w.root, g, bname),
                          os.path.join(w.root, g, bname, 'data.tar.zst'), os.path.join(w.root, g, bname, 'metadata.zst')):
                    modes[os.path.relpath(p, w.root)] = stat.S_IMODE(os.lstat(p).st_mode)
                step['modes'] = modes
                step['item_roots'] = [os.path.realpath(i) for i in w.items]
            steps.append(step)
            # later corrupt nothing permanently; storage stays as vsb wrote it
    finally:
        w.cleanup()
    return steps


def model_request(step):
    """The `dedup` request for one published run: the group's earlier manifests as the run could read
    them, and the file events in the order the implementation archived them."""
    group = []
    for e in step['earlier']:
        if not e['readable'] or e['records'] is None:
            group.append(None)
        else:
            group.append([{'unique': r['unique'], 'hash': r['hash'], 'fp': fp_str(r), 'size': r['size'], 'path': r['path']}
                          for r in e['records']])
    events = []
    for r in (step['new']['records'] or []):
        s = step['source'].get(r['path'])
        if s is None:
            events.append({'path': r['path'], 'fp': '?', 'size': 0, 'hash': '?'})
        else:
            events.append({'path': r['path'], 'fp': '%d:%d:%d' % (s[0], s[1], s[2]), 'size': s[3], 'hash': s[4] or '?'})
    return {'empty': store.EMPTY_SHA512, 'group': group, 'events': events}


def impl_view(step, with_reads=False):
    out = []
    for r in (step['new']['records'] or []):
        d = {'unique': r['unique'], 'hash': r['hash'], 'fp': fp_str(r), 'size': r['size'], 'path': r['path']}
        if with_reads:
            size = r['size']
            got = step.get('reads', {}).get(r['path'], 0)
            d['reads'] = (got // size) if size else 0
            if size and got % size:
                d['reads'] = 'partial:%d/%d' % (got, size)
        out.append(d)
    return out


# ---------------------------------------------------------------------------------------------
# oracles (independent of the model)

def oracle_c02(step):
    """Every non-empty extern of the new manifest resolves in the group prefix as written."""
    avail = set()
    for e in step['earlier']:
        for r in (e['records'] or []):
            if r['unique']:
                avail.add(r['hash'])
    for r in step['new']['records'] or []:
        if r['unique']:
            avail.add(r['hash'])
        elif r['size'] != 0 and r['hash'] not in avail:
            return 'extern record %s (size %d) has no earlier unique record of its hash in group %s' % (r['path'], r['size'], step['group'])
    return None


def oracle_c09(step):
    all_readable = all(e['readable'] and e['records'] is not None for e in step['earlier'])
    seen = set()
    seen_readable = set()       # stored by an earlier backup whose manifest the run can read: must be referred to, whatever else is damaged
    for e in step['earlier']:
        for r in (e['records'] or []):
            if r['unique']:
                seen.add(r['hash'])
                if e['readable'] and e['records'] is not None:
                    seen_readable.add(r['hash'])
    prev = step['earlier'][-1] if step['earlier'] else None
    prev_map = {}
    if prev and prev['readable'] and prev['records'] is not None:
        for r in prev['records']:
            prev_map[r['path']] = r
    for r in step['new']['records'] or []:
        if r['unique']:
            if r['size'] == 0:
                return 'empty file %s stored as unique' % r['path']
            if (all_readable and r['hash'] in seen) or r['hash'] in seen_readable:
                return 'content of %s stored again although the group already stores it' % r['path']
            seen.add(r['hash'])
            seen_readable.add(r['hash'])
        s = step['source'].get(r['path'])
        p = prev_map.get(r['path'])
        if s and p and (p['dev'], p['ino'], p['mtime_ns']) == (s[0], s[1], s[2]):
            if r['unique']:
                return 'unchanged file %s stored again' % r['path']
            if 'reads' in step and step['reads'].get(r['path'], 0) != 0:
                return 'unchanged file %s was read (%d bytes)' % (r['path'], step['reads'][r['path']])
    # archive grows only with new content: data bytes == sum of unique sizes
    ent = step['new']['entries']
    if ent is not None:
        data = sum(e['size'] for e in ent if e['type'] == 'file')
        uniq = sum(r['size'] for r in (step['new']['records'] or []) if r['unique'])
        if data != uniq:
            return 'archive holds %d data bytes but unique records total %d' % (data, uniq)
    return None


def oracle_c10(step):
    recs, ent = step['new']['records'], step['new']['entries']
    if recs is None or ent is None:
        return 'backup not decodable with standard tools: %s %s' % (step['new'].get('records_error'), step['new'].get('entries_error'))
    files = [e for e in ent if e['type'] == 'file']
    if len(files) != len(recs):
        return '%d regular archive entries vs %d manifest lines' % (len(files), len(recs))
    for e, r in zip(files, recs):
        if '/' + e['path'] != r['path']:
            return 'entry %r and line %r do not correspond / differ in order' % (e['path'], r['path'])
        if not r['path'].startswith('/') or not any(r['path'].startswith(root + '/') or r['path'] == root for root in step['item_roots']):
            return 'manifest path %r is not an absolute path under a resolved item root' % r['path']
        if r['unique']:
            if e['size'] < r['size']:
                return 'unique entry %s shorter than its recorded size' % r['path']
            if e['size'] == r['size'] and e['sha512'] != r['hash']:
                return 'unique entry %s does not hash to the recorded hash' % r['path']
        else:
            if e['size'] != 0:
                return 'extern entry %s is not empty' % r['path']
        s = step['source'].get(r['path'])
        if s is None:
            return 'manifest line for %s which is not a source file' % r['path']
        if (r['dev'], r['ino'], r['mtime_ns'], r['size']) != (s[0], s[1], s[2], s[3]):
            return 'line of %s: fingerprint/size %r differ from the source %r' % (r['path'], (r['dev'], r['ino'], r['mtime_ns'], r['size']), s[:4])
        if s[4] is not None and r['hash'] != (s[4] if s[3] else store.EMPTY_SHA512):
            return 'line of %s: hash differs from the SHA-512 of the source' % r['path']
    # every source file appears
    missing = set(step['source']) - {r['path'] for r in recs}
    if missing and step['rc'] == 0:
        return 'source files missing from the manifest: %s' % sorted(missing)[:3]
    for p, m in step['modes'].items():
        want = 0o600 if p.endswith('.zst') else 0o700
        if m != want:
            return 'storage entry %s has mode %o, expected %o' % (p, m, want)
    return None


def run_all(ctx, n_quick, n_thorough, want_reads=False):
    n = n_quick if ctx.tier == 'quick' else n_thorough
    seeds = [ctx.rng.randrange(1 << 30) for _ in range(n)]
    with concurrent.futures.ThreadPoolExecutor(16) as ex:
        res = list(ex.map(lambda i: run_history(ctx, i, seeds[i], ctx.tier, want_reads=want_reads), range(n)))
    steps = [s for h in res for s in h]
    return steps


def correspond(ctx, steps, oracle, label, with_reads=False):
    pub = [s for s in steps if s['published'] and s['new']['records'] is not None]
    lines = [core.req('dedup', model_request(s)) for s in pub]
    model = core.run_lines(core.model_exe(), lines, shards=8)
    mview = []
    for m in model:
        if isinstance(m, list):
            mview.append([{k: v for k, v in r.items() if with_reads or k != 'reads'} for r in m])
        else:
            mview.append(m)
    iview = [impl_view(s, with_reads) for s in pub]
    st = core.judge(ctx, pub, mview, iview, (lambda c, i: oracle(c)) if oracle else None, label=label)
    return pub, st


def stats(steps, pub):
    nrec = sum(len(s['new']['records'] or []) for s in pub)
    nuni = sum(1 for s in pub for r in (s['new']['records'] or []) if r['unique'])
    nshort = 0
    for s in pub:
        prev = s['earlier'][-1] if s['earlier'] else None
        if prev and prev['records']:
            pm = {r['path']: r for r in prev['records']}
            for r in s['new']['records'] or []:
                p = pm.get(r['path'])
                if p and fp_str(p) == fp_str(r) and r['size']:
                    nshort += 1
    return {'runs': len(steps), 'published': len(pub), 'records': nrec, 'unique_records': nuni,
            'shortcut_records': nshort, 'runs_with_unreadable_manifest': sum(1 for s in steps if s['garbled']),
            'runs_appending_to_group': sum(1 for s in pub if s['earlier'])}
