"""C11 — restore verifies what it writes, reports what it cannot, stays confined.  Theorems:
Props/C11.lean.  Correspondence: real `vsb restore` of valid storages and of every kind of single
corruption (re-encoded archives and manifests) vs the restore model; independent oracle for the
property itself (exit 0 => every manifest record satisfied; confinement; storage untouched)."""
import concurrent.futures, copy, hashlib, json, os, random, shutil, tarfile
from vlib import core, store, hist
from props import restore_common as rc

LEVEL = 'proof'

CORRUPTIONS = ['none', 'drop-entry-unique', 'drop-entry-extern', 'drop-entry-empty', 'drop-entry-dir', 'swap-entries', 'add-entry',
               'flip-byte', 'truncate-data-entry', 'alter-hash', 'alter-size-unique', 'alter-size-unique-up', 'alter-size-extern', 'status-to-extern', 'status-to-unique',
               'alter-path', 'remove-line', 'add-line', 'dup-line-other-hash', 'truncate-data-file', 'delete-data', 'delete-meta', 'garbage-meta',
               'delete-earlier-backup', 'traversal-entry-dotdot', 'traversal-entry-abs', 'traversal-manifest-rel', 'traversal-manifest-dotdot', 'traversal-manifest-add-dotdot', 'traversal-manifest-add-dotdot',
               'hardlink-entry', 'drop-entry-earlier-unique', 'extern-line-onto-own-path', 'dup-archive-entry', 'extern-line-onto-own-path',
               'flip-byte-earlier-unique', 'flip-byte-earlier-unique']


def apply_corruption(rng, w, kind, target_dir, group_dir):
    """Returns True if applied."""
    backups = sorted(b for b in os.listdir(group_dir) if store.BACKUP_RE.match(b))
    tname = os.path.basename(target_dir)
    earlier = [b for b in backups if b < tname]
    if kind == 'none':
        return True
    try:
        recs = store.read_manifest(target_dir)
    except Exception:
        return False
    uniq = [r for r in recs if r['unique']]
    ext = [r for r in recs if not r['unique'] and r['size']]
    empty = [r for r in recs if r['size'] == 0]

    def drop(path):
        rc.rewrite_archive(target_dir, lambda ms: [(m, d) for m, d in ms if '/' + m.name != path])
    if kind == 'drop-entry-unique' and uniq:
        drop(rng.choice(uniq)['path']); return True
    if kind == 'drop-entry-extern' and ext:
        drop(rng.choice(ext)['path']); return True
    if kind == 'drop-entry-empty' and empty:
        drop(rng.choice(empty)['path']); return True
    if kind == 'drop-entry-dir':
        def f(ms):
            dirs = [i for i, (m, d) in enumerate(ms) if m.isdir()]
            if dirs:
                del ms[dirs[-1]]
            return ms
        rc.rewrite_archive(target_dir, f); return True
    if kind == 'swap-entries':
        def f(ms):
            files = [i for i, (m, d) in enumerate(ms) if m.isreg()]
            if len(files) >= 2:
                i, j = files[0], files[-1]
                ms[i], ms[j] = ms[j], ms[i]
            return ms
        rc.rewrite_archive(target_dir, f); return True
    if kind == 'add-entry':
        def f(ms):
            base = [m for m, d in ms if m.isdir()]
            ti = tarfile.TarInfo((base[-1].name + '/' if base else '') + 'intruder')
            ti.mode = 0o644
            return ms + [(ti, b'not in the manifest')]
        rc.rewrite_archive(target_dir, f); return True
    if kind == 'dup-archive-entry' and uniq:
        # a second regular entry for a path the archive already holds: the path would have to be created twice
        p = rng.choice(uniq)['path']
        def f(ms):
            twin = [(m, d) for m, d in ms if '/' + m.name == p]
            return ms + twin[:1]
        rc.rewrite_archive(target_dir, f); return True
    if kind == 'flip-byte' and uniq:
        p = rng.choice(uniq)['path']
        rc.rewrite_archive(target_dir, lambda ms: [(m, (bytes([d[0] ^ 1]) + d[1:]) if ('/' + m.name == p and d) else d) for m, d in ms]); return True
    if kind == 'truncate-data-entry' and uniq:
        p = rng.choice(uniq)['path']
        rc.rewrite_archive(target_dir, lambda ms: [(m, d[:len(d) // 2] if '/' + m.name == p else d) for m, d in ms]); return True
    if kind == 'hardlink-entry':
        def f(ms):
            files = [m for m, d in ms if m.isreg()]
            if files:
                ti = tarfile.TarInfo(files[0].name + '.hl')
                ti.type = tarfile.LNKTYPE
                ti.linkname = files[0].name
                ms.append((ti, None))
            return ms
        rc.rewrite_archive(target_dir, f); return True
    if kind in ('traversal-entry-dotdot', 'traversal-entry-abs'):
        def f(ms):
            ti = tarfile.TarInfo('../escape' if kind.endswith('dotdot') else '/abs-escape')
            ti.mode = 0o644
            return ms + [(ti, b'x')]
        rc.rewrite_archive(target_dir, f); return True
    # manifest-level
    r = None
    if kind == 'alter-hash' and (uniq or ext):
        r = rng.choice(uniq + ext); r['hash'] = 'cd' * 64
    elif kind == 'alter-size-unique' and uniq:
        r = rng.choice(uniq); r['size'] = r['size'] + rng.choice([-1, 1]) if r['size'] > 1 else r['size'] + 1
    elif kind == 'alter-size-unique-up' and uniq:
        # the record announces more bytes than the archive entry holds
        r = rng.choice(uniq); r['size'] = r['size'] + rng.choice([1, 500])
    elif kind == 'alter-size-extern' and ext:
        r = rng.choice(ext); r['size'] = r['size'] + 1
    elif kind == 'status-to-extern' and uniq:
        r = rng.choice(uniq); r['unique'] = False
    elif kind == 'status-to-unique' and ext:
        r = rng.choice(ext); r['unique'] = True
    elif kind == 'alter-path' and recs:
        r = rng.choice(recs); r['path'] = r['path'] + '-renamed'
    elif kind == 'remove-line' and recs:
        recs.remove(rng.choice(recs)); r = True
    elif kind == 'add-line' and recs:
        r = dict(rng.choice(recs)); r['path'] = os.path.dirname(r['path']) + '/added-line'; recs.append(r)
    elif kind == 'extern-line-onto-own-path' and len(uniq) >= 2:
        # an extra extern record that sends the data of one stored file to the path of another stored file
        a, b = rng.sample(uniq, 2)
        r = dict(b); r['unique'] = False; r['path'] = a['path']
        recs.insert(rng.choice([0, len(recs)]), r)
    elif kind == 'dup-line-other-hash' and uniq:
        r = dict(rng.choice(uniq)); r['hash'] = 'ef' * 64; recs.insert(0, r)
    elif kind == 'traversal-manifest-rel' and recs:
        r = rng.choice(recs); r['path'] = r['path'].lstrip('/')
    elif kind == 'traversal-manifest-dotdot' and ext:
        r = rng.choice(ext); r['path'] = '/../' + r['path'].lstrip('/')
    elif kind == 'traversal-manifest-add-dotdot' and uniq:
        # an extra extern record pointing at existing data, with a path that climbs out of the restore directory
        r = dict(rng.choice(uniq)); r['unique'] = False
        r['path'] = rng.choice(['/../escape', '/a/../../escape', '/../../' + os.path.basename(w.base) + '-escape']); recs.append(r)
    if r is not None:
        store.write_manifest(target_dir, recs); return True
    if kind == 'truncate-data-file':
        p = os.path.join(target_dir, 'data.tar.zst'); d = open(p, 'rb').read(); open(p, 'wb').write(d[:len(d) * 2 // 3]); return True
    if kind == 'delete-data':
        os.unlink(os.path.join(target_dir, 'data.tar.zst')); return True
    if kind == 'delete-meta':
        os.unlink(os.path.join(target_dir, 'metadata.zst')); return True
    if kind == 'garbage-meta':
        open(os.path.join(target_dir, 'metadata.zst'), 'wb').write(b'garbage'); return True
    if kind == 'delete-earlier-backup' and earlier:
        shutil.rmtree(os.path.join(group_dir, rng.choice(earlier))); return True
    if kind == 'flip-byte-earlier-unique' and earlier and ext:
        # in an earlier backup, one byte of the data an extern record of the target refers to is changed (same length)
        h = rng.choice(ext)['hash']
        for b in reversed(earlier):
            try:
                er = store.read_manifest(os.path.join(group_dir, b))
            except Exception:
                continue
            src = [x for x in er if x['unique'] and x['hash'] == h]
            if src:
                p = src[0]['path']
                rc.rewrite_archive(os.path.join(group_dir, b), lambda ms: [(m, (d[:-1] + bytes([d[-1] ^ 0x40])) if ('/' + m.name == p and d) else d) for m, d in ms])
                return True
    if kind == 'drop-entry-earlier-unique' and earlier and ext:
        # remove from an earlier backup the unique entry an extern of the target needs
        h = rng.choice(ext)['hash']
        for b in reversed(earlier):
            try:
                er = store.read_manifest(os.path.join(group_dir, b))
            except Exception:
                continue
            src = [x for x in er if x['unique'] and x['hash'] == h]
            if src:
                p = src[0]['path']
                rc.rewrite_archive(os.path.join(group_dir, b), lambda ms: [(m, d) for m, d in ms if '/' + m.name != p])
                return True
    return False


def one_storage(ctx, hid, seed, ncor):
    rng = random.Random(seed)
    w = hist.World(ctx, hid, rng, max_groups=3, max_per_group=4)
    out = []
    try:
        # the same content twice, both several directory levels deep in different directories: restore writes the copy
        # when it meets the original and has to create the copy's ancestors itself
        w.next_cid += 1
        for top in ('aa', 'zz'):        # (whichever the walk meets first is stored; the other one is the deep copy)
            os.makedirs(os.path.join(w.items[0], top, 'deep', 'er'), exist_ok=True)
            w.write(os.path.join(w.items[0], top, 'deep', 'er', 'twin'), w.next_cid, 5000)
        for _ in range(rng.randint(4, 10)):
            w.edit()
        for k in range(rng.randint(2, 4)):
            for _ in range(rng.randint(1, 5)):
                w.edit()
            w.backup(advance=rng.choice([5, 3600]))
        groups = sorted(g for g in os.listdir(w.root) if store.GROUP_RE.match(g))
        if not groups:
            return out
        for c in range(ncor):
            # (every kind gets its turns: the kinds rotate over storages and copies; which backup, file and byte is random)
            kind = 'none' if c == 0 else CORRUPTIONS[1:][(hid * (ncor - 1) + c - 1) % (len(CORRUPTIONS) - 1)]
            croot = os.path.join(w.base, 'cor%d' % c)
            shutil.copytree(w.root, croot, symlinks=True)
            g = rng.choice(groups)
            gdir = os.path.join(croot, g)
            backups = sorted(b for b in os.listdir(gdir) if store.BACKUP_RE.match(b))
            if not backups:
                continue
            tname = rng.choice(backups[-2:])
            # kinds that alter files stored by the target itself need a target that stores some
            need = 2 if kind == 'extern-line-onto-own-path' else 1 if kind in ('dup-archive-entry', 'flip-byte', 'truncate-data-entry', 'alter-size-unique',
                                                                              'alter-size-unique-up', 'status-to-extern', 'dup-line-other-hash', 'drop-entry-unique') else 0
            if need:
                def nuniq(d_):
                    try:
                        return sum(1 for x in store.read_manifest(d_) if x['unique'])
                    except Exception:
                        return 0
                if nuniq(os.path.join(gdir, tname)) < need:
                    able = [(g_, b_) for g_ in groups for b_ in sorted(os.listdir(os.path.join(croot, g_)))
                            if store.BACKUP_RE.match(b_) and nuniq(os.path.join(croot, g_, b_)) >= need]
                    if able:
                        g, tname = rng.choice(able)
                        gdir = os.path.join(croot, g)
            tdir = os.path.join(gdir, tname)
            if not apply_corruption(rng, w, kind, tdir, gdir):
                shutil.rmtree(croot); continue
            contents = rc.Contents()
            group = rc.decode_group(gdir, contents)
            names = [b['name'] for b in group if not b.get('unlisted')]
            before = {p: hashlib.sha1(open(os.path.join(d, p2), 'rb').read()).hexdigest() for d, _, fs in os.walk(croot) for p2 in fs for p in [os.path.join(d, p2)]}
            rdir = os.path.join(w.base, 'restored%d' % c)
            around = {d: set(os.listdir(d)) for d in (w.base, os.path.dirname(w.base))}
            modes = []
            r, tree = rc.real_restore(ctx, w, tdir, rdir, modes=modes)
            after = {p: hashlib.sha1(open(os.path.join(d, p2), 'rb').read()).hexdigest() for d, _, fs in os.walk(croot) for p2 in fs for p in [os.path.join(d, p2)]}
            escaped = [p for p in ('/abs-escape', os.path.join(w.base, 'escape')) if os.path.lexists(p)]
            for d, had in around.items():
                for n in set(os.listdir(d)) - had - {os.path.basename(rdir)}:
                    if d == w.base or n == os.path.basename(w.base) + '-escape':
                        escaped.append(os.path.join(d, n))
            escaped = sorted(set(escaped))
            req = rc.model_request(group, names.index(tname) if tname in names else 10**6, contents)
            out.append({'kind': kind, 'history': hid, 'request': req, 'rc': r.rc, 'errors': r.errors()[:6], 'tree': tree,
                        'storage_modified': before != after, 'escaped': escaped, 'contents': contents, 'not_owner_only': modes[:4],
                        'target_manifest': next((b['manifest'] for b in group if b['name'] == tname), None)})
            shutil.rmtree(croot, ignore_errors=True)
            shutil.rmtree(rdir, ignore_errors=True)
            for p in escaped:
                if os.path.isdir(p) and not os.path.islink(p):
                    shutil.rmtree(p, ignore_errors=True)
                elif os.path.lexists(p):
                    os.unlink(p)
    finally:
        w.cleanup()
    return out


def truncated_tail(ctx):
    """The data archive loses its last bytes, and what cannot be decoded any more lies behind the last regular file the
    manifest lists (symbolic links only): the restore must report it, not stop quietly with fewer entries."""
    import random as _r
    n = 0
    rng = _r.Random(ctx.seed * 17 + 5)
    w = hist.World(ctx, 9900, rng, max_groups=2, max_per_group=2, nitems=2)
    try:
        with open(os.path.join(w.items[0], 'big'), 'wb') as f:
            f.write(rng.randbytes(400000))
        for k in range(400):
            os.symlink('target-%d' % k, os.path.join(w.items[1], 'link-%03d' % k))
        r = w.backup(advance=5)
        assert r.rc == 0, r.errors()
        g, b = store.group_name(w.now), store.backup_name(w.now)
        src = os.path.join(w.root, g, b, 'data.tar.zst')
        raw = open(src, 'rb').read()
        for cut in ([1, 9] if ctx.tier == 'quick' else [1, 2, 5, 9, 40, 200]):
            open(src, 'wb').write(raw[:-cut])
            rdir = os.path.join(w.base, 'restored-cut%d' % cut)
            rr = store.run_vsb(ctx, ['-c', w.cfg, 'restore', os.path.join(w.root, g, b), rdir])
            links = sum(1 for _, _, fs in os.walk(rdir) for x in fs if x.startswith('link-')) if os.path.isdir(rdir) else 0
            if rr.rc == 0:
                ctx.violation('property', 'data.tar.zst cut short by %d byte(s): vsb restore exits 0 without any complaint, %d of 400 stored symbolic links restored' % (cut, links),
                              {'case': {'scenario': 'truncated-tail', 'cut': cut}})
            shutil.rmtree(rdir, ignore_errors=True)
            n += 1
        open(src, 'wb').write(raw)
    finally:
        w.cleanup()
    return n


def existing_target(ctx):
    """`vsb restore` works only below a restore directory it has just created: an existing directory (empty, or holding
    a symbolic link where the backup has a directory) must be refused, and nothing may be written into or through it."""
    n = 0
    for i in range(3 if ctx.tier == 'quick' else 12):
        rng = random.Random(ctx.seed * 13 + i)
        w = hist.World(ctx, 4000 + i, rng)
        try:
            os.makedirs(os.path.join(w.items[0], 'conf'))
            w.write(os.path.join(w.items[0], 'conf', 'app.conf'), 1, 100)
            w.write(os.path.join(w.items[0], 'top'), 2, 10)
            r = w.backup(advance=5)
            if r.rc != 0:
                continue
            bdir = os.path.join(w.root, store.group_name(w.now), store.backup_name(w.now))
            rdir = os.path.join(w.base, 'existing')
            outside = os.path.join(w.base, 'outside')
            os.makedirs(outside)
            variant = i % 3
            os.makedirs(rdir)
            if variant == 1:
                # the place of the item's `conf` directory is taken by a symlink leading outside
                inner = os.path.join(rdir, os.path.realpath(w.items[0]).lstrip('/'))
                os.makedirs(inner)
                os.symlink(outside, os.path.join(inner, 'conf'))
            elif variant == 2:
                open(os.path.join(rdir, 'foreign'), 'w').write('keep me')
            before = sorted(os.path.join(d, x) for d, dn, fn in os.walk(rdir) for x in dn + fn)
            rr = store.run_vsb(ctx, ['-c', w.cfg, 'restore', bdir, rdir])
            after = sorted(os.path.join(d, x) for d, dn, fn in os.walk(rdir) for x in dn + fn)
            case = {'scenario': 'existing-restore-directory', 'variant': variant}
            n += 1
            if os.listdir(outside):
                ctx.violation('property', 'restore wrote %s outside the restore directory through a symbolic link that was already there' % os.listdir(outside), {'case': case})
            elif rr.rc == 0:
                ctx.violation('property', 'restore into an already existing directory exits 0 (it must only work below a directory it has just created)', {'case': case})
            elif before != after:
                ctx.violation('property', 'restore into an already existing directory failed but left entries behind: %s' % sorted(set(after) - set(before))[:3], {'case': case})
        finally:
            w.cleanup()
    return n


def links_leading_outside(ctx):
    """The backup holds symbolic links to a file and a directory that exist outside the restore directory: restoring the
    links (their owner, their times) must not touch what they point to."""
    import stat as st_
    n = 0
    for i in range(2 if ctx.tier == 'quick' else 8):
        rng = random.Random(ctx.seed * 17 + i)
        w = hist.World(ctx, 4100 + i, rng)
        try:
            outside = os.path.join(os.path.realpath(w.base), 'outside-of-everything')
            os.makedirs(os.path.join(outside, 'dir'))
            secret = os.path.join(outside, 'secret.key')
            open(secret, 'w').write('do not touch')
            os.chmod(secret, 0o600); os.chmod(os.path.join(outside, 'dir'), 0o700)
            os.utime(secret, ns=(10**18, 10**18)); os.utime(os.path.join(outside, 'dir'), ns=(10**18, 10**18))
            os.makedirs(os.path.join(w.items[0], 'conf'))
            w.write(os.path.join(w.items[0], 'conf', 'app.conf'), 1, 100)
            os.symlink(secret, os.path.join(w.items[0], 'conf', 'key'))
            os.symlink(os.path.join(outside, 'dir'), os.path.join(w.items[0], 'conf', 'd'))
            os.symlink(os.path.relpath(secret, os.path.join(w.items[0], 'conf')), os.path.join(w.items[0], 'conf', 'rel'))
            if i % 2:
                os.symlink('app.conf', os.path.join(w.items[0], 'conf', 'inner'))
            r = w.backup(advance=5)
            if r.rc != 0:
                continue
            def snap():
                return [(p, st_.S_IMODE(os.lstat(p).st_mode), os.lstat(p).st_uid, os.lstat(p).st_mtime_ns) for p in (secret, os.path.join(outside, 'dir'))] + [open(secret).read()]
            before = snap()
            bdir = os.path.join(w.root, store.group_name(w.now), store.backup_name(w.now))
            rdir = os.path.join(w.base, 'restored-links')
            rr = store.run_vsb(ctx, ['-c', w.cfg, 'restore', bdir, rdir])
            after = snap()
            n += 1
            case = {'scenario': 'links-leading-outside', 'index': i}
            if before != after:
                ctx.violation('property', 'restore (exit %s) changed what a restored symbolic link points to, outside the restore directory: %s -> %s' % (rr.rc, before[:2], after[:2]), {'case': case})
            elif rr.rc != 0:
                ctx.violation('property', 'restore of a backup holding symbolic links to existing files fails: %s' % rr.errors()[:2], {'case': case})
        finally:
            w.cleanup()
    return n


def oracle(case):
    if case['storage_modified']:
        return 'restore modified the backup storage'
    if case['escaped']:
        return 'restore created an entry outside the restore directory: %s' % case['escaped']
    if case.get('not_owner_only'):
        return 'restore created entries that are not owner-only before their recorded mode is applied (call, path, requested mode): %s' % case['not_owner_only']
    if case['rc'] == 0:
        recs = case['target_manifest']
        if recs is None:
            return 'exit 0 although the manifest is unreadable'
        tree = case['tree'] or {}
        for r in recs:
            rel = r['path'].lstrip('/')
            f = tree.get(rel)
            if f is None or f['kind'] != 'file':
                return 'exit 0 but recorded file %s was not created' % r['path']
            if f['len'] != r['size'] or f['sha'] != r['hash']:
                return 'exit 0 but %s was created with size %d / a hash other than recorded (size %d)' % (r['path'], f['len'], r['size'])
    return None


def check(ctx):
    aud = core.audit(ctx.prop)
    core.report_audit(ctx, aud)
    core.proof_coverage(ctx, aud)
    bindir, err = core.build_impl(ctx)
    if bindir is None:
        ctx.violation('runtime', 'repository does not build: ' + err[-400:], {}, found_input=False)
        return
    store.ensure_shim()
    ctx.scratch_dir()
    nh = 10 if ctx.tier == 'quick' else 90
    ncor = 14 if ctx.tier == 'quick' else 40
    seeds = [ctx.rng.randrange(1 << 30) for _ in range(nh)]
    with concurrent.futures.ThreadPoolExecutor(16) as ex:
        res = list(ex.map(lambda i: one_storage(ctx, i, seeds[i], ncor), range(nh)))
    cases = [c for r in res for c in r]
    lines = [core.req('restore', {k: v for k, v in c['request'].items() if k != 'strict_error'}) for c in cases]
    model = core.run_lines(core.model_exe(), lines, shards=8)
    mv, iv = [], []
    for c, m in zip(cases, model):
        if isinstance(m, dict) and 'result' in m:
            if c['request']['strict_error']:
                m = {'result': 'err', 'fs': []}
            done = m['result'] == 'done'
            mt = rc.model_tree(m, c['contents'])
            # after an `Err` the partially restored tree is unspecified (depends on where the error struck)
            diff = rc.compare_trees(mt, c['tree'] or {}) if done else None
            mv.append({'exit0': done and m['ok'] is True, 'tree_matches': True})
            iv.append({'exit0': c['rc'] == 0, 'tree_matches': diff is None, 'tree_diff': diff})
            if diff is None:
                iv[-1].pop('tree_diff')
        else:
            mv.append(m); iv.append({'exit0': c['rc'] == 0})
    slim = [{k: v for k, v in c.items() if k not in ('contents',)} for c in cases]
    st = core.judge(ctx, slim, mv, iv, lambda c, i: oracle(c), label='restore')
    kinds = {}
    for c in cases:
        k = kinds.setdefault(c['kind'], {'n': 0, 'exit0': 0})
        k['n'] += 1
        k['exit0'] += c['rc'] == 0
    ctx.coverage.update({
        'evaluations': len(cases),
        'distinct_nontrivial': len({core.canon([c['kind'], c['request']['group'], c['request']['target']]) for c in cases if c['kind'] != 'none'}),
        'rule': 'storages from random histories; for each, the uncorrupted restore plus single corruptions (%s) of the target backup or its group, produced by re-encoding archives/manifests; '
                'non-trivial = a corrupted case; distinct by (corruption, decoded group, target)' % ', '.join(CORRUPTIONS[1:]),
        'samples': [{'kind': cases[0]['kind'], 'target': cases[0]['request']['target'], 'rc': cases[0]['rc']}],
        'correspondence': st, 'corruption_outcomes': kinds, 'existing_target_cases': existing_target(ctx), 'truncated_tail_cases': truncated_tail(ctx), 'links_leading_outside_cases': links_leading_outside(ctx),
        'disagreements_checked': st['cases'],
    })
    ctx.assumptions += ['restore runs as root (ownership applied); symlink-in-the-middle traversal is out of scope (as in the property)',
                        'archives re-encoded with Python tarfile (GNU format) + libzstd']
