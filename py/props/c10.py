"""C10 — plain tar+zstd with a truthful one-line-per-file manifest."""
import json
from vlib import core, store
from props import dedup_common as dc

LEVEL = 'proof'


def decode_check(bdir, roots):
    """The property's decodability clauses on one backup directory, with standard tools only. -> problem or None"""
    import hashlib, os
    try:
        recs = store.read_manifest(bdir)
    except Exception as e:
        return 'manifest not decodable as `status hash dev:ino:mtime size path` lines: %r' % (e,)
    try:
        ent, _ = store.read_archive(bdir, with_data=True)
    except Exception as e:
        return 'archive not decodable: %r' % (e,)
    files = [e for e in ent if e['type'] == 'file']
    if len(files) != len(recs):
        return '%d regular-file archive entries vs %d manifest lines' % (len(files), len(recs))
    for e, r in zip(files, recs):
        if '/' + e['path'] != r['path']:
            return 'entry %r and line %r do not correspond / differ in order' % (e['path'], r['path'])
        if not any(r['path'] == root or r['path'].startswith(root + '/') for root in roots):
            return 'manifest path %r is not below a symlink-resolved item root %s' % (r['path'], roots)
        if os.path.realpath(os.path.dirname(r['path'])) != os.path.dirname(r['path']):
            return 'manifest path %r goes through a symbolic link' % r['path']
        if r['unique']:
            if e['size'] < r['size']:
                return 'unique entry %s is shorter (%d) than its recorded size %d' % (r['path'], e['size'], r['size'])
            if hashlib.sha512(e['data'][:r['size']]).hexdigest() != r['hash']:
                return 'the first %d bytes of the entry of %s do not hash to the recorded hash' % (r['size'], r['path'])
        elif e['size'] != 0:
            return 'extern entry %s is not empty' % r['path']
    return None


def special_scenarios(ctx):
    """Trees and schedules the random histories do not contain: names ending in / containing CR or LF, a file that
    shrinks or grows between the two passes over it, item roots configured through symbolic links."""
    import os, random
    from vlib import hist
    done = []
    reps = 2 if ctx.tier == 'quick' else 12
    todo = [(i, ['names', 'resize', 'symlink-root', 'symlink-root-slash'][i % 4], None) for i in range(reps * 4)]
    todo += [(reps * 4 + 100 + j, kind_, None) for j, kind_ in enumerate(['short-reads', 'replaced'] * (1 if ctx.tier == 'quick' else 4))]
    todo += [(reps * 4 + 200 + j, kind_, None) for j, kind_ in enumerate(['symlink-root-nonutf8', 'before-repoints', 'killed-run', 'manifest-write-fault'] * (1 if ctx.tier == 'quick' else 3))]
    todo += [(reps * 4 + j, 'read-fault', (size, k)) for j, (size, k) in enumerate(
        (size, k) for size in ([1000, 20000] if ctx.tier == 'quick' else [1, 1000, 4096, 20000, 70000]) for k in range(1, 7 if size <= 4096 else 12))]
    for i, kind, param in todo:
        rng = random.Random(ctx.seed * 100 + i)
        w = hist.World(ctx, 7000 + i, rng, nitems=1)
        try:
            it = w.items[0]
            os.mkdir(os.path.join(it, 'sub'))
            w.write(os.path.join(it, 'ok one'), 1, rng.choice([10, 5000]))
            w.write(os.path.join(it, 'sub', 'ok2'), 2, rng.choice([1, 4096, 70000]))
            w.write(os.path.join(it, 'sub', 'dup'), 1, 10)
            cfg_path, shim_env, expect_err = it, None, False
            before_cmd, roots_override = None, None
            if kind == 'names':
                for nm in rng.sample([b'report.txt\n', b'a\rb', b'tail\r', b'mid\nx', b'\nlead'], 3):
                    open(os.path.join(os.fsencode(it), nm), 'wb').write(b'unrepresentable name')
                expect_err = True
            elif kind == 'resize':
                victim = os.path.join(it, 'sub', 'victim')
                size = rng.choice([5000, 70000, 300000])
                w.write(victim, 3, size)
                how = rng.choice(['truncate:%d' % rng.choice([0, 100, size // 2, size - 1]), 'append:%d' % rng.choice([1, 5000])])
                when = rng.choice(['lseek@%s@1', 'read@%s@2'])
                shim_env = {'ACTION': (when % os.path.realpath(victim)) + '=' + how, 'WATCH': os.path.realpath(it)}
            elif kind == 'short-reads':
                # read(2) on one file returns at most 1000 bytes per call (legal short reads, e.g. network file systems):
                # the file is static, so its line must describe all of it
                victim = os.path.join(it, 'sub', 'victim')
                w.write(victim, 3, rng.choice([5000, 70000, 300000]))
                shim_env = {'SHORT': '%s=%d' % (os.path.realpath(victim), rng.choice([1, 1000, 4095])), 'WATCH': os.path.realpath(it)}
            elif kind == 'replaced':
                # another file is renamed over the path between the walk's lstat and the open: from then on the file is
                # static, so its line must carry the identity, size and hash of the file that was read
                victim = os.path.join(it, 'sub', 'victim')
                w.write(victim, 3, 11)
                shim_env = {'ACTION': 'open@%s@1=replace-file:%d' % (os.path.realpath(victim), rng.choice([40000, 5])), 'WATCH': os.path.realpath(it)}
            elif kind == 'read-fault':
                # one read of a new file fails, in the hashing pass or - once the entry header is already in the
                # archive - in the archiving pass; files after it in the walk exist
                victim = os.path.join(it, 'sub', 'victim')
                size, k = param
                w.write(victim, 3, size)
                w.write(os.path.join(it, 'sub', 'zz-after'), 4, 300)
                shim_env = {'FAULT': 'read@%s=EIO@%d' % (os.path.realpath(victim), k), 'WATCH': os.path.realpath(it)}
            elif kind == 'symlink-root-nonutf8':
                # the configured path is an ASCII symbolic link, the directory it resolves to has a name that is not UTF-8:
                # such paths cannot be written into the manifest - and must not be written there in some other spelling
                nb = os.fsencode(w.base) + b'/Gesch\xe4ft'
                os.rename(os.fsencode(it), nb)
                link = os.path.join(w.base, 'link-to-item')
                os.symlink(nb, os.fsencode(link))
                cfg_path, expect_err = link, True
                roots_override = [os.fsdecode(os.path.realpath(nb))]
            elif kind == 'before-repoints':
                # the configured path is a symbolic link which the item's `before` hook points at the next snapshot
                import shutil
                snap2 = os.path.join(w.base, 'snap-2')
                shutil.copytree(it, snap2, symlinks=True)
                w.write(os.path.join(snap2, 'only-in-2'), 9, 50)
                link = os.path.join(w.base, 'current')
                os.symlink(it, link)
                cfg_path = link
                before_cmd = 'ln -sfn %s %s' % (snap2, link)
                roots_override = [os.path.realpath(snap2)]
            elif kind == 'manifest-write-fault':
                # a manifest long enough to be written out while the run is still archiving; one write to it fails (later ones
                # would succeed): whatever is published has one well-formed line per archived file
                for k_ in range(4500):
                    open(os.path.join(it, 'sub', 'n%04d' % k_), 'wb').write(b'%d' % k_)
                tmp_ = os.path.join(w.root, store.group_name(w.now + 10), '.' + store.backup_name(w.now + 10))
                shim_env = {'FAULT': 'write@%s/metadata.zst=%s@1' % (tmp_, rng.choice(['ENOSPC', 'EIO'])), 'WATCH': w.root}
                expect_err = True
            elif kind == 'killed-run':
                # a complete backup, then a run that is killed before it archives anything
                store.write_config(w.cfg, 'b', w.root, [{'path': it}], 2, 3)
                w.now += 10
                r0 = store.run_vsb(ctx, ['-c', w.cfg, 'backup', 'b'], now=w.now)
                before_cmd = 'kill -KILL $PPID'
            else:
                link = os.path.join(w.base, 'link-to-item')
                os.symlink(it, link)
                cfg_path = link + ('/' if kind.endswith('slash') else '')
            store.write_config(w.cfg, 'b', w.root, [dict({'path': cfg_path}, **({'before': before_cmd} if before_cmd else {}))], 2, 3 if kind == 'killed-run' else 2)
            w.now += 10
            r = store.run_vsb(ctx, ['-c', w.cfg, 'backup', 'b'], now=w.now, shim_env=shim_env)
            if kind == 'killed-run':
                # every final-named backup directory of the storage decodes, whatever happened to the run that was killed
                nfinal = 0
                for g_ in sorted(os.listdir(w.root)):
                    for b_ in sorted(os.listdir(os.path.join(w.root, g_))):
                        if store.BACKUP_RE.match(b_):
                            nfinal += 1
                            why_ = decode_check(os.path.join(w.root, g_, b_), [os.path.realpath(it)])
                            if why_:
                                ctx.violation('property', 'after a run was killed, the final-named backup %s/%s does not decode: %s' % (g_, b_, why_), {'case': {'scenario': kind, 'index': i}})
                done.append((kind, 'ok' if nfinal >= 1 and r.rc != 0 else 'not-killed'))
                continue
            case = {'scenario': kind, 'index': i, 'action': (shim_env or {}).get('ACTION') or (shim_env or {}).get('FAULT')}
            bdir = os.path.join(w.root, store.group_name(w.now), store.backup_name(w.now))
            if not os.path.isdir(bdir):
                if not expect_err and kind not in ('resize', 'read-fault'):
                    ctx.violation('property', 'special scenario %s: nothing published (exit %d, %s)' % (kind, r.rc, r.errors()[:2]), {'case': case})
                done.append((kind, 'unpublished'))
                continue
            why = decode_check(bdir, roots_override or [os.path.realpath(it)])
            if not why and kind in ('short-reads', 'replaced'):
                # truthful with respect to the (now static) source file
                import hashlib
                vp = os.path.realpath(os.path.join(it, 'sub', 'victim'))
                st_ = os.lstat(vp)
                data_ = open(vp, 'rb').read()
                rec_ = [x for x in store.read_manifest(bdir) if x['path'] == vp]
                if len(rec_) != 1:
                    why = 'no manifest line for %s' % vp
                elif (rec_[0]['dev'], rec_[0]['ino'], rec_[0]['mtime_ns'], rec_[0]['size']) != (st_.st_dev, st_.st_ino, st_.st_mtime_ns, st_.st_size):
                    why = 'the line of %s records identity/size %s, the file that was read has %s' % (
                        vp, (rec_[0]['dev'], rec_[0]['ino'], rec_[0]['mtime_ns'], rec_[0]['size']), (st_.st_dev, st_.st_ino, st_.st_mtime_ns, st_.st_size))
                elif rec_[0]['hash'] != hashlib.sha512(data_).hexdigest():
                    why = 'the line of %s does not record the SHA-512 of the file (%d bytes)' % (vp, len(data_))
            if why:
                ctx.violation('property', 'special scenario %s: %s' % (kind, why), {'case': case, 'rc': r.rc, 'errors': r.errors()[:3]})
            recs = []
            try:
                recs = [x['path'] for x in store.read_manifest(bdir)]
            except Exception:
                pass
            if kind == 'names':
                if r.rc == 0:
                    ctx.violation('property', 'a file whose name contains CR/LF cannot be represented in the line-based manifest, yet the run exits 0', {'case': case})
                if any('\r' in p or '\n' in p for p in recs):
                    ctx.violation('property', 'a CR/LF path was written into the manifest', {'case': case})
            if kind not in ('resize', 'read-fault', 'short-reads', 'replaced') and not why:
                want = {os.path.join((roots_override or [os.path.realpath(it)])[0], x) for x in ('ok one', 'sub/ok2', 'sub/dup') + (('only-in-2',) if kind == 'before-repoints' else ())}
                if kind == 'symlink-root-nonutf8':
                    # (nothing below such a root can be recorded: the files are reported and left out, archive and manifest alike)
                    if r.rc == 0:
                        ctx.violation('property', 'paths that are not UTF-8 cannot be written into the manifest, yet the run exits 0', {'case': case})
                elif set(recs) != want and not (kind == 'names' and set(recs) >= want):
                    ctx.violation('property', 'special scenario %s: manifest paths %s differ from the symlink-resolved source paths %s' % (kind, sorted(recs), sorted(want)),
                                  {'case': case, 'rc': r.rc})
            done.append((kind, 'ok' if not why else 'bad'))
        finally:
            w.cleanup()
    return done


def check(ctx):
    aud = core.audit(ctx.prop)
    core.report_audit(ctx, aud)
    core.proof_coverage(ctx, aud)
    bindir, err = core.build_impl(ctx)
    if bindir is None:
        ctx.violation('runtime', 'repository does not build: ' + err[-400:], {}, found_input=False)
        return
    store.ensure_shim()
    steps = dc.run_all(ctx, 40, 500)
    special = special_scenarios(ctx)
    pub, st = dc.correspond(ctx, steps, dc.oracle_c10, 'manifest')
    # manifest line round trips through the real MetadataWriter/zstd/MetadataReader vs the model
    rng = ctx.rng
    recs = []
    paths = ['/a', '/with space/x', '/ leading', '/trailing ', '/two  spaces', '/юникод/файл', '/' + 'x' * 300, '/a b c d e f', '/tab\there', '/q"uote\'s']
    for i in range(300 if ctx.tier == 'quick' else 5000):
        recs.append({'unique': rng.random() < 0.5, 'hash': '%0128x' % rng.getrandbits(512) if rng.random() < 0.9 else '',
                     'dev': str(rng.choice([0, 1, 2049, 2**64 - 1])), 'ino': str(rng.choice([0, 7, 2**63, 2**64 - 1])),
                     'mtime_ns': str(rng.choice([0, -1, 10**18, -10**18, 2**100, -(2**100), 2**127 - 1, -(2**127), rng.randrange(-10**12, 10**19)])),
                     'size': str(rng.choice([0, 1, 4096, 2**40, 2**64 - 1])), 'path': rng.choice(paths) + str(rng.randint(0, 9))})
    lines = [core.req('mdline', r) for r in recs]
    model = core.run_lines(core.model_exe(), lines, shards=4)
    impl = core.run_lines(core.harness_exe(ctx), lines, shards=4)

    def md_oracle(case, i):
        want = '%s %s %s:%s:%s %s %s\n' % ('unique' if case['unique'] else 'extern', case['hash'], case['dev'], case['ino'],
                                            case['mtime_ns'], case['size'], case['path'])
        if not isinstance(i, dict) or i.get('line') != want:
            return 'manifest line %r differs from the documented format %r' % (i, want)
        if i.get('decoded') != case:
            return 'line does not decode back to the record: %r' % (i.get('decoded'),)
        return None
    st2 = core.judge(ctx, recs, model, impl, md_oracle, label='mdline')
    # adversarial lines: the decoder must accept/reject exactly as the model
    bad = []
    fields = [['unique', 'extern', 'Unique', '', 'uniq'], ['', 'ab', 'AB', 'abc', 'zz', '0' * 128],
              ['1:2:3', '+1:2:-3', '1:2', '1:2:3:4', ':2:3', '1:2:', '18446744073709551616:0:0', '1:2:170141183460469231731687303715884105728',
               '1:2:-170141183460469231731687303715884105728', '1: 2:3', '01:002:0003', '1:2:--3', '１:2:3'],
              ['0', '7', '+7', '-7', '', '18446744073709551615', '18446744073709551616', '7 '], ['p', '', ' p', 'p q r', '/x']]
    for _ in range(400 if ctx.tier == 'quick' else 6000):
        parts = [rng.choice(f) for f in fields]
        k = rng.choice([5, 5, 5, 4, 3, 2, 1])
        bad.append({'line': ' '.join(parts[:k])})
    bl = [core.req('mdparse', b) for b in bad]
    st3 = core.judge(ctx, bad, core.run_lines(core.model_exe(), bl, shards=4), core.run_lines(core.harness_exe(ctx), bl, shards=4),
                     None, label='mdparse')
    distinct = {core.canon(dc.model_request(s)) for s in pub if len(s['new']['records'] or []) >= 2}
    ctx.coverage.update({
        'evaluations': len(steps) + len(recs) + len(bad),
        'distinct_nontrivial': len(distinct) + len({core.canon(r) for r in recs if ' ' in r['path']}),
        'rule': 'every backup produced by random histories is decoded with libzstd(ctypes)+tarfile+hashlib only and checked line-by-line against archive entries and the source tree; '
                'plus manifest-line round trips of generated records (spaces, unicode, 300-byte names, extreme integers) through the real MetadataWriter/MetadataReader vs the model',
        'samples': [dc.model_request(pub[0])] if pub else [],
        'correspondence': {'backups': st, 'mdline': st2, 'mdparse': st3}, 'distribution': dc.stats(steps, pub),
        'disagreements_checked': st['cases'] + st2['cases'] + st3['cases'],
        'special_scenarios': {k: sum(1 for a, b in special if a == k) for k in {a for a, _ in special}},
    })
    ctx.assumptions += ['tar 0.4 / zstd crates produce standard streams (checked by decoding with libzstd + Python tarfile)']
