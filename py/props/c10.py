"""C10 — plain tar+zstd with a truthful one-line-per-file manifest."""
import json
from vlib import core, store
from props import dedup_common as dc

LEVEL = 'proof'


def check(ctx):
    aud = core.audit(ctx.prop)
    core.report_audit(ctx, aud)
    core.proof_coverage(ctx, aud)
    bindir, err = core.build_impl(ctx)
    if bindir is None:
        ctx.violation('runtime', 'repository does not build: ' + err[-400:], {}, found_input=False)
        return
    store.ensure_shim()
    steps = dc.run_all(ctx, 40, 500)
    pub, st = dc.correspond(ctx, steps, dc.oracle_c10, 'manifest')
    # manifest line round trips through the real MetadataWriter/zstd/MetadataReader vs the model
    rng = ctx.rng
    recs = []
    paths = ['/a', '/with space/x', '/ leading', '/trailing ', '/two  spaces', '/юникод/файл', '/' + 'x' * 300, '/a b c d e f', '/tab\there', '/q"uote\'s']
    for i in range(300 if ctx.tier == 'quick' else 5000):
        recs.append({'unique': rng.random() < 0.5, 'hash': '%0128x' % rng.getrandbits(512) if rng.random() < 0.9 else '',
                     'dev': str(rng.choice([0, 1, 2049, 2**64 - 1])), 'ino': str(rng.choice([0, 7, 2**63, 2**64 - 1])),
                     'mtime_ns': str(rng.choice([0, -1, 10**18, -10**18, 2**100, -(2**100), 2**127 - 1, -(2**127), rng.randrange(-10**12, 10**19)])),
                     'size': str(rng.choice([0, 1, 4096, 2**40, 2**64 - 1])), 'path': rng.choice(paths) + str(rng.randint(0, 9))})
    lines = [core.req('mdline', r) for r in recs]
    model = core.run_lines(core.model_exe(), lines, shards=4)
    impl = core.run_lines(core.harness_exe(ctx), lines, shards=4)

    def md_oracle(case, i):
        want = '%s %s %s:%s:%s %s %s\n' % ('unique' if case['unique'] else 'extern', case['hash'], case['dev'], case['ino'],
                                            case['mtime_ns'], case['size'], case['path'])
        if not isinstance(i, dict) or i.get('line') != want:
            return 'manifest line %r differs from the documented format %r' % (i, want)
        if i.get('decoded') != case:
            return 'line does not decode back to the record: %r' % (i.get('decoded'),)
        return None
    st2 = core.judge(ctx, recs, model, impl, md_oracle, label='mdline')
    # adversarial lines: the decoder must accept/reject exactly as the model
    bad = []
    fields = [['unique', 'extern', 'Unique', '', 'uniq'], ['', 'ab', 'AB', 'abc', 'zz', '0' * 128],
              ['1:2:3', '+1:2:-3', '1:2', '1:2:3:4', ':2:3', '1:2:', '18446744073709551616:0:0', '1:2:170141183460469231731687303715884105728',
               '1:2:-170141183460469231731687303715884105728', '1: 2:3', '01:002:0003', '1:2:--3', '１:2:3'],
              ['0', '7', '+7', '-7', '', '18446744073709551615', '18446744073709551616', '7 '], ['p', '', ' p', 'p q r', '/x']]
    for _ in range(400 if ctx.tier == 'quick' else 6000):
        parts = [rng.choice(f) for f in fields]
        k = rng.choice([5, 5, 5, 4, 3, 2, 1])
        bad.append({'line': ' '.join(parts[:k])})
    bl = [core.req('mdparse', b) for b in bad]
    st3 = core.judge(ctx, bad, core.run_lines(core.model_exe(), bl, shards=4), core.run_lines(core.harness_exe(ctx), bl, shards=4),
                     None, label='mdparse')
    distinct = {core.canon(dc.model_request(s)) for s in pub if len(s['new']['records'] or []) >= 2}
    ctx.coverage.update({
        'evaluations': len(steps) + len(recs) + len(bad),
        'distinct_nontrivial': len(distinct) + len({core.canon(r) for r in recs if ' ' in r['path']}),
        'rule': 'every backup produced by random histories is decoded with libzstd(ctypes)+tarfile+hashlib only and checked line-by-line against archive entries and the source tree; '
                'plus manifest-line round trips of generated records (spaces, unicode, 300-byte names, extreme integers) through the real MetadataWriter/MetadataReader vs the model',
        'samples': [dc.model_request(pub[0])] if pub else [],
        'correspondence': {'backups': st, 'mdline': st2, 'mdparse': st3}, 'distribution': dc.stats(steps, pub),
        'disagreements_checked': st['cases'] + st2['cases'] + st3['cases'],
    })
    ctx.assumptions += ['tar 0.4 / zstd crates produce standard streams (checked by decoding with libzstd + Python tarfile)', 'sources static during a run']
