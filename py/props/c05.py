"""C05 — a cloud backup gets its final name only when complete and checksum-verified.
Theorems: Props/C05.lean.  Correspondence: the real `upload_file` of the three providers (harness, hooked
URL rewrite) against the provider emulator, for every request index k of the conversation and every fault
kind at k, with stale temporaries / foreign objects / an existing final name in the directory, upstream
error and hang-up endings, and several request bodies (Dropbox): request classes, resulting namespace
(names and content identity) and Ok/Err must equal the model's `pipeline`; an independent oracle states
the property on the real namespace.  End to end: `vsb upload` (real gpg) under the same faults."""
import hashlib, json, os, random
from vlib import core
from props import upload_common as uc

LEVEL = 'proof'


def oracle_case(case, real):
    """The property on the real observation; independent of the model."""
    data = b''.join(uc.payload(case['seed'], i, s) for i, s in enumerate(case['sizes']))
    sha = hashlib.sha256(data).hexdigest()
    preset = case['preset']
    files = real['files']
    ok = isinstance(real['out'], dict) and real['out'].get('result') == 'ok'
    probs = []
    # foreign and older final-named objects are never altered
    for n, d in preset.items():
        if not n.startswith('.'):
            want = (hashlib.sha256(d).hexdigest(), len(d))
            if want not in files.get(n, []):
                probs.append('the final-named object %s that existed before the upload was altered or removed' % n)
    had = 1 if uc.NAME in preset else 0
    now = files.get(uc.NAME, [])
    created = [x for x in now if not (uc.NAME in preset and x == (hashlib.sha256(preset[uc.NAME]).hexdigest(), len(preset[uc.NAME])))]
    rename_lost = any(k == 'rename' and kind in ('badjson', 'noheader') for k, kind in case.get('fault_at', []))
    if created:
        if case['ending'] != 'final':
            probs.append('a final-named object was created although the stream ended with %s' % case['ending'])
        for (s, z) in created:
            if (s, z) != (sha, len(data)):
                probs.append('the final-named object is not the complete ciphertext that was sent (size %d of %d)' % (z, len(data)))
        if real['classes'] and real['classes'][-1] != uc.RENAME[case['provider']] and ok:
            probs.append('the rename was not the last request: %s' % real['classes'][-3:])
        if not ok and not rename_lost:
            probs.append('upload_file reported failure but a final-named object was created')
    if ok and not created:
        probs.append('upload_file returned Ok but no final-named object was created')
    if not ok and isinstance(real['out'], dict) and not real['out'].get('error'):
        probs.append('failure without an error message')
    return probs


def build_cases(ctx, baselines):
    rng = ctx.rng
    cases = []
    shapes = [([300], None), ([100, 200, 50], 120), ([100, 200, 50], 175), ([64, 64], 64)]
    presets = [{}, {'2001.09.09-00:00:01.tar.gpg': b'older backup'}, {uc.TMP: b'stale temporary'}, {uc.NAME: b'already there'},
               {uc.TMP: b'stale', '2001.09.09-00:00:01.tar.gpg': b'older backup', 'notes.txt': b'foreign'}]
    for prov in uc.PROVIDERS:
        for (sizes, mx) in shapes:
            if prov != 'dropbox' and mx is not None and sizes != [100, 200, 50]:
                continue
            mx_eff = mx if prov == 'dropbox' else None
            for ending in ('final', 'error', 'hangup'):
                for pi, preset in enumerate(presets):
                    base = {'provider': prov, 'sizes': sizes, 'max': mx_eff, 'ending': ending, 'preset': preset, 'seed': 1 + pi}
                    n = baselines.get((prov, tuple(sizes), mx_eff, ending, pi))
                    if n is None:
                        cases.append(dict(base, faults=[], baseline=(prov, tuple(sizes), mx_eff, ending, pi)))
                        continue
                    full = ctx.tier == 'thorough' or (pi == 0 and ending == 'final' and sizes in ([100, 200, 50], [300]))
                    ks = list(range(len(n)))
                    for k in ks:
                        kinds = uc.FAULT_KINDS if full else [uc.FAULT_KINDS[(k + pi + len(sizes)) % len(uc.FAULT_KINDS)]]
                        if not full and rng.random() < 0.5:
                            continue
                        for kind in kinds:
                            cases.append(dict(base, faults=[(k, kind)], classes0=n))
                        if n[k] == uc.CHECKSUM_REPLY[prov] and (full or pi in (0, 3)):
                            # the checksum-carrying reply arrives well-formed but without the checksum
                            cases.append(dict(base, faults=[(k, 'nofield')], classes0=n, must=True))
                            # ... and what was stored differs from what was sent: nothing vouches for the object
                            for kd in [j for j in range(k) if n[j] == uc.DATA_ENDPOINTS[prov]][:1]:
                                cases.append(dict(base, faults=[(kd, 'corrupt'), (k, 'nofield')], classes0=n, must=True))
                    if full:
                        cases.append(dict(base, faults=[('token', 'status')], classes0=n))
                        # two faults: the second hits the clean-up request that follows the first
                        for k in ks:
                            cases.append(dict(base, faults=[(k, 'corrupt'), (len(n), 'status')], classes0=n))
                            cases.append(dict(base, faults=[(k, 'rename-fail'), (len(n), 'reset-before')], classes0=n))
    return cases


def check(ctx):
    aud = core.audit(ctx.prop)
    core.report_audit(ctx, aud)
    core.proof_coverage(ctx, aud)
    bindir, err = core.build_impl(ctx)
    if bindir is None:
        ctx.violation('runtime', 'repository does not build: ' + err[-400:], {}, found_input=False)
        return
    ctx.scratch_dir()
    stage = uc.Stage(ctx, 'proto')
    try:
        # pass 1: fault-free conversations (they also give the request count per configuration)
        baselines = {}
        cases = build_cases(ctx, baselines)
        results = run_cases(ctx, stage, cases)
        for c, r in zip(cases, results):
            baselines[c['baseline']] = r['classes']
        all_cases, all_results = list(cases), list(results)
        # pass 2: every request index x fault kind
        cases = [c for c in build_cases(ctx, baselines) if c['faults']]
        if ctx.tier == 'quick':
            ctx.rng.shuffle(cases)
            cases = [c for c in cases if c.get('must')] + [c for c in cases if not c.get('must')][:260]
        results = run_cases(ctx, stage, cases)
        all_cases += cases
        all_results += results
    finally:
        stage.stop()
    judge(ctx, all_cases, all_results)
    ctx.coverage['end_to_end'] = e2e(ctx)
    ctx.coverage['encryptor'] = encryptor_cases(ctx)


def e2e(ctx):
    """`vsb upload` itself (real gpg, archiver, splitter, provider) with two backups waiting: a fault in the first
    upload conversation, or a local fault.  Independent oracle only."""
    import os, stat
    from vlib import store
    provs = ['dropbox'] if ctx.tier == 'quick' else uc.PROVIDERS
    plans = []
    for prov in provs:
        kinds = [('status', 1), ('reset-inside', 2), ('corrupt', 1), ('rename-fail', 1), ('badjson', 3), ('text', 2)] if ctx.tier == 'quick' else \
            [(k, n) for k in uc.FAULT_KINDS for n in (1, 2, 3, 4)]
        for kind, nth in kinds:
            ep = 'rename' if kind == 'rename-fail' else 'upload-data' if kind == 'corrupt' else 'upload'
            if prov == 'google' and kind != 'rename-fail':
                # (folder creation is a resumable session too: aim at the file upload, i.e. past the first session)
                ep, nth = ['session-put', 'get-file', 'patch', 'session-start'][nth % 4], 2 if nth % 4 in (0, 3) else 1
            rule_ = {'fault': kind, 'match': {'provider': prov, 'endpoint': ep, 'nth': nth}, 'after_bytes': 100}
            if kind == 'emptytext':         # (the emulator's kind is `text` with an empty body)
                rule_.update({'fault': 'text', 'body': ''})
            plans.append((prov, 'remote', rule_))
        plans += [(prov, 'gpg-absent', None), (prov, 'gpg-dies', None), (prov, 'gpg-killed', None), (prov, 'unreadable', None)]
    if ctx.tier == 'quick':
        plans += [('yandex', 'remote', {'fault': 'corrupt', 'match': {'provider': 'yandex', 'endpoint': 'upload-data', 'nth': 1}}),
                  ('google', 'remote', {'fault': 'status', 'match': {'provider': 'google', 'endpoint': 'get-file', 'nth': 1}}),
                  ('google', 'gpg-dies', None), ('yandex', 'unreadable', None), ('yandex', 'gpg-killed', None)]
    # Yandex Disk may perform a move asynchronously: 202 and an operation to poll, which can end as failed
    plans += [('yandex', 'remote', {'fault': 'async-fail', 'match': {'provider': 'yandex', 'endpoint': 'move', 'nth': n_}}) for n_ in ((1,) if ctx.tier == 'quick' else (1, 2))]
    stats = {'cases': 0, 'first_failed_second_uploaded': 0, 'both_failed': 0, 'none_failed': 0}
    hung = 0
    for idx, (prov, mode, rule) in enumerate(plans):
        e = uc.E2E(ctx, 300 + idx, prov, 'correct horse', nbackups=2)
        try:
            env, shim_env = {}, None
            if mode == 'gpg-absent':
                empty = os.path.join(e.w.base, 'emptybin')
                os.makedirs(empty, exist_ok=True)
                for tool in ('sh', 'bash'):
                    pass
                env['PATH'] = empty
            elif mode == 'gpg-dies':
                # the first gpg invocation reads a little, emits some bytes and dies; later ones are the real gpg
                d = os.path.join(e.w.base, 'fakebin')
                os.makedirs(d, exist_ok=True)
                cnt = os.path.join(d, 'count')
                with open(os.path.join(d, 'gpg'), 'w') as f:
                    f.write('#!/bin/bash\nif [ ! -e %s ]; then : > %s; head -c 64 >/dev/null; head -c 3000 /dev/urandom; exit 2; fi\nexec /usr/bin/gpg "$@"\n' % (cnt, cnt))
                os.chmod(os.path.join(d, 'gpg'), 0o755)
                env['PATH'] = d + ':' + os.environ.get('PATH', '/usr/bin:/bin')
            elif mode == 'gpg-killed':
                # the first gpg emits the beginning of the real ciphertext, takes all its input, and is killed by a signal
                d = os.path.join(e.w.base, 'fakebin')
                os.makedirs(d, exist_ok=True)
                cnt = os.path.join(d, 'count')
                with open(os.path.join(d, 'gpg'), 'w') as f:
                    f.write('#!/bin/bash\nif [ ! -e %s ]; then : > %s; /usr/bin/gpg "$@" | head -c 700; kill -KILL $$; fi\nexec /usr/bin/gpg "$@"\n' % (cnt, cnt))
                os.chmod(os.path.join(d, 'gpg'), 0o755)
                env['PATH'] = d + ':' + os.environ.get('PATH', '/usr/bin:/bin')
            elif mode == 'unreadable':
                g, b = e.backups[0]
                shim_env = {'FAULT': 'read@%s=EIO@1' % os.path.join(e.w.root, g, b, 'data.tar.zst'), 'WATCH': os.path.join(e.w.root, g, b)}
            o = e.upload(rules=[rule] if rule else None, env=env, shim_env=shim_env, args=['--skip-verify'] if mode == 'unreadable' else [])
            r = o['run']
            case = {'provider': prov, 'mode': mode, 'rule': rule}
            stats['cases'] += 1
            if r.rc == -999:
                ctx.violation('property', 'vsb upload did not terminate within the watchdog time [%s %s %s]' % (prov, mode, rule), {'case': case})
                hung = hung + 1
                if hung >= 2:
                    break       # (two runs that never end are enough: the remaining plans would each wait for the watchdog too)
                continue
            if o['gpg_left']:
                ctx.violation('property', 'a gpg process was left behind after vsb upload ended [%s %s %s]' % (prov, mode, rule), {'case': case, 'pids': o['gpg_left']})
            finals = {rel for rel in o['cloud'] if not os.path.basename(rel).startswith('.')}
            names = ['%s/%s.tar.gpg' % gb for gb in e.backups]
            errs = r.errors()
            fired = [q for q in o['requests'] if q.get('fault')]
            if mode == 'remote' and not fired:
                continue        # the conversation was shorter than nth
            # which of the two uploads the fault hit: the one in progress when it fired, i.e. the number of
            # renames to a final name the emulator had performed before it
            v = 0
            if mode == 'remote':
                done = [q for q in o['requests'] if q['seq'] < fired[0]['seq'] and q['endpoint'] in ('move', 'patch')
                        and not q.get('fault') and 200 <= q['status'] < 300]
                v = min(len(done), 1)
                stats['fault_in_second_upload'] = stats.get('fault_in_second_upload', 0) + v
            failed_first = names[v] not in finals
            lost = mode == 'remote' and rule['fault'] in ('badjson', 'noheader') and any(q['endpoint'] in ('move', 'patch') for q in fired)
            if mode == 'gpg-absent':
                if finals:
                    ctx.violation('property', 'final-named objects %s exist although gpg could not be started' % sorted(finals), {'case': case})
                if not errs:
                    ctx.violation('property', 'gpg is absent but nothing is reported at error level', {'case': case})
                stats['both_failed'] += 1
                continue
            # the faulted upload: no final name (unless the reply of a performed rename was lost), an error line
            if not failed_first and not lost and (mode != 'remote' or uc.model_resp(prov, fired[0]['endpoint'], rule['fault']) != 'ok'):
                # it may be a fault with no effect on this endpoint class (e.g. badjson on a raw-read reply)
                ctx.violation('property', 'the faulted upload of %s still produced a final-named object [%s %s %s]' % (names[v], prov, mode, rule),
                              {'case': case, 'errors': errs[:4]})
            if failed_first and not errs:
                ctx.violation('property', 'the upload of %s failed but nothing is reported at error level [%s %s]' % (names[v], prov, mode), {'case': case})
            if any('backup group on' in x and 'Failed to create' in x for x in errs):
                continue        # the group itself could not be created: nothing of it can be uploaded
            if names[1 - v] not in finals:
                ctx.violation('property', 'the upload of %s failed and the other backup %s is not in the cloud [%s %s %s]: %s' % (names[v], names[1 - v], prov, mode, rule, errs[:3]),
                              {'case': case})
            else:
                stats['first_failed_second_uploaded' if failed_first else 'none_failed'] += 1
            # whatever carries a final name is a complete, decryptable object
            for rel in finals:
                blob = e.cloud_blob(rel)
                rc_, pt, err_ = uc.gpg_decrypt(e.home, blob, e.passphrase)
                if rc_ != 0:
                    ctx.violation('property', 'the final-named object %s does not decrypt (%s) [%s %s %s]' % (rel, err_.strip()[-120:], prov, mode, rule), {'case': case})
        finally:
            e.close()
    # "the remaining backups are still attempted" across configured backups: the configuration names another upload-enabled
    # backup first, whose synchronisation fails as a whole (its cloud root does not exist / the listing request is refused)
    if hung >= 2:
        return stats        # (uploads do not end: the scenarios below would each wait for the watchdog too)
    for idx, (prov, how) in enumerate([('dropbox', 'missing-cloud-root'), ('yandex', 'listing-refused')] if ctx.tier == 'quick' else
                                      [(p_, h_) for p_ in uc.PROVIDERS for h_ in ('missing-cloud-root', 'listing-refused')]):
        e = uc.E2E(ctx, 380 + idx, prov, 'correct horse', nbackups=1)
        try:
            root_a = os.path.join(e.w.base, 'storage-a')
            os.makedirs(root_a)
            one = open(e.cfg).read().split('\n', 1)[1]          # the entry of backup `b` (everything after `backups:`)
            first = one.replace('name: "b"', 'name: "a"').replace('path: %s' % json.dumps(e.w.root), 'path: %s' % json.dumps(root_a))
            if how == 'missing-cloud-root':
                first = first.replace('path: "%s"' % e.CLOUD_ROOT, 'path: "/NoSuchRoot"')
            else:
                first = first.replace('path: "%s"' % e.CLOUD_ROOT, 'path: "/BackupsA"')
                ns = uc.emu.pe.load_namespace(e.stage.dir, prov)
                ns.mkdir('/BackupsA')
                uc.emu.pe.save_namespace(e.stage.dir, ns)
                e.stage.emu.reload()
            with open(e.cfg, 'w') as f:
                f.write('backups:\n' + first + one)
            rule = {'fault': 'status', 'match': {'provider': prov, 'endpoint': 'list', 'nth': 1}} if how == 'listing-refused' else None
            o = e.upload(rules=[rule] if rule else None)
            case = {'provider': prov, 'mode': 'another configured backup fails first: ' + how}
            stats['cases'] += 1
            stats['other_configured_backup_failed'] = stats.get('other_configured_backup_failed', 0) + 1
            errs = o['run'].errors()
            finals = {rel for rel in o['cloud'] if not os.path.basename(rel).startswith('.')}
            want = '%s/%s.tar.gpg' % e.backups[0]
            if not any('[a]' in x for x in errs):
                ctx.violation('runtime', 'the synchronisation of the first configured backup did not fail as arranged (%s): %s' % (how, errs[:2]), {'case': case}, found_input=False)
            elif want not in finals:
                ctx.violation('property', 'the synchronisation of configured backup `a` failed (%s) and backup `b` was not attempted: %s is not in the cloud [%s]: %s'
                              % (how, want, prov, errs[:3]), {'case': case})
        finally:
            e.close()
    # an asynchronous Yandex Disk operation that never leaves "in-progress": vsb gives it a minute, reports it and ends
    e = uc.E2E(ctx, 395, 'yandex', 'correct horse', nbackups=1, stage_options=['--op-polls', '100000000'])
    try:
        o = e.upload(timeout=115)
        case = {'provider': 'yandex', 'mode': 'the operation behind the upload stays in progress for ever'}
        stats['cases'] += 1
        stats['stalled_operation_cases'] = 1
        finals = {rel for rel in o['cloud'] if not os.path.basename(rel).startswith('.')}
        if o['run'].rc == -999:
            ctx.violation('property', 'vsb upload did not terminate within 115 s while a Yandex Disk operation stayed in progress (it polls for one minute)', {'case': case})
        elif not o['run'].errors():
            ctx.violation('property', 'a Yandex Disk operation never completed and nothing is reported at error level', {'case': case})
        if o['gpg_left']:
            ctx.violation('property', 'a gpg process was left behind after vsb upload ended [stalled operation]', {'case': case})
    finally:
        e.close()
    return stats


def encryptor_cases(ctx):
    """The real `Encryptor` (gpg child, stdout/stderr readers, close/finish/Drop) with stand-ins for gpg that end
    in every way, against the decision model `readerResult` + `close`: which terminal message reaches the data
    channel, and that there is exactly one."""
    import os
    from props import upload_common as uc
    base = os.path.join(ctx.scratch_dir(), 'enc')
    os.makedirs(base, exist_ok=True)
    home = uc.make_gnupghome(base)
    modes = {
        'ok': ('exec /usr/bin/gpg "$@"', {'exit': {'code': 0}}),
        'exit2': ('/usr/bin/gpg "$@"; exit 2', {'exit': {'code': 2}}),
        'signal': ('/usr/bin/gpg "$@"; kill -KILL $$', {'exit': {'signal': 9}}),
        'stderr': ('/usr/bin/gpg "$@"; echo "gpg: some warning" >&2', {'exit': {'code': 0}, 'stderr_empty': False}),
        'sigterm-early': ('head -c 10 >/dev/null; kill -TERM $$', {'exit': {'signal': 15}}),
    }
    n = bad = 0
    try:
        for mode, (body, mj) in modes.items():
            d = os.path.join(base, 'bin-' + mode)
            os.makedirs(d, exist_ok=True)
            with open(os.path.join(d, 'gpg'), 'w') as f:
                f.write('#!/bin/bash\n' + body + '\n')
            os.chmod(os.path.join(d, 'gpg'), 0o755)
            for caller in ('ok', 'err', 'drop'):
                for size in ([0, 5000] if ctx.tier == 'quick' else [0, 1, 5000, 300000]):
                    if mode == 'sigterm-early' and size > 60000:
                        continue     # (a large write to a dead gpg is the EPIPE path, covered by the end-to-end runs)
                    real = core.run_lines(core.harness_exe(ctx), [core.req('encrun', {'path': d + ':/usr/bin:/bin', 'size': size, 'caller': caller})],
                                          env=dict(os.environ, GNUPGHOME=home), timeout=60)[0]
                    model = core.run_lines(core.model_exe(), [core.req('encclose', dict(mj, caller_ok=(caller == 'ok'), flush_ok=True, read_ok=True))])[0]
                    n += 1
                    case = {'gpg': mode, 'caller': caller, 'size': size}
                    if not isinstance(real, dict) or 'terminal' not in real:
                        ctx.violation('runtime', 'the encryptor did not finish: %s' % str(real)[:200], {'case': case})
                        continue
                    healthy = mode == 'ok' and caller == 'ok'
                    if (real['terminal'] == 'eof') != healthy:
                        bad += 1
                        ctx.violation('property', 'the encryptor ended the stream with %s although %s [gpg stand-in %s, caller %s, %d bytes]'
                                      % (real['terminal'], 'everything succeeded' if healthy else 'gpg or the caller failed', mode, caller, size), {'case': case})
                    if real['terminal'] == 'none' or real['messages_after_terminal']:
                        ctx.violation('property', 'not exactly one terminal message on the data channel (%s, %d messages after it)'
                                      % (real['terminal'], real['messages_after_terminal']), {'case': case})
                    mt = model.get('terminal') if isinstance(model, dict) else None
                    if mt != real['terminal'] and not (real.get('write_error') and real['terminal'] == 'err'):
                        bad += 1
                        ctx.violation('correspondence', 'encryptor model says %s, implementation %s [gpg stand-in %s, caller %s]' % (mt, real['terminal'], mode, caller),
                                      {'case': case}, found_input=False)
    finally:
        uc.kill_agent(home)
    return {'cases': n, 'failures': bad}


def run_cases(ctx, stage, cases):
    out = []
    hangs = 0
    for c in cases:
        if hangs >= 4:
            # the implementation hangs again and again: report what was seen instead of waiting for every watchdog
            out.append({'out': {'__skipped__': True}, 'requests': [], 'classes': [], 'files': {}})
            continue
        r = uc.run_upfile(ctx, stage, c['provider'], c['sizes'], c['seed'], c['ending'], c['max'], c['faults'], c['preset'])
        if isinstance(r['out'], dict) and r['out'].get('__timeout__'):
            hangs += 1
        out.append(r)
    return out


def judge(ctx, cases, results):
    lines = []
    for c, r in zip(cases, results):
        # the model's script: the fault kinds translated at the request class they hit in the REAL conversation
        script = []
        c['fault_at'] = []
        for idx, kind in c['faults']:
            if idx == 'token':
                continue
            cls = r['classes'][idx] if idx < len(r['classes']) else None
            if cls is None:
                continue
            while len(script) <= idx:
                script.append('ok')
            script[idx] = uc.model_resp(c['provider'], cls, kind)
            c['fault_at'].append(('rename' if cls == uc.RENAME[c['provider']] else cls, kind))
        c['script'] = script
        lines.append(uc.model_request(c['provider'], c['sizes'], c['ending'], c['max'], script, list(c['preset'])))
    model = core.run_lines(core.model_exe(), lines)
    disagreements, oracle_fail, kinds, endpoints = 0, 0, {}, {}
    for c, r, m in zip(cases, results, model):
        desc = {k: c[k] for k in ('provider', 'sizes', 'max', 'ending', 'faults', 'seed')}
        desc['preset'] = sorted(c['preset'])
        for idx, kind in c['faults']:
            kinds[kind] = kinds.get(kind, 0) + 1
        for cls, kind in c.get('fault_at', []):
            endpoints['%s/%s' % (c['provider'], cls)] = endpoints.get('%s/%s' % (c['provider'], cls), 0) + 1
        if isinstance(r['out'], dict) and r['out'].get('__skipped__'):
            continue
        if not isinstance(r['out'], dict) or 'result' not in r['out']:
            ctx.violation('runtime', 'upload_file did not return (panic, hang or harness failure): %s' % str(r['out'])[:200], {'case': desc})
            continue
        probs = oracle_case(c, r)
        for p in probs:
            oracle_fail += 1
            ctx.violation('property', '%s [%s, bodies %s max %s, ending %s, faults %s, directory %s]' % (p, c['provider'], c['sizes'], c['max'], c['ending'], c['faults'], sorted(c['preset'])),
                          {'case': desc, 'requests': r['classes'], 'files': {k: v for k, v in r['files'].items()}, 'result': r['out']})
        if any(idx == 'token' for idx, _ in c['faults']):
            if r['classes'] or r['out']['result'] != 'err':
                ctx.violation('property', 'requests were sent although no OAuth token could be obtained', {'case': desc, 'requests': r['classes']})
            continue
        if probs:
            continue
        if not isinstance(m, dict) or 'ok' not in m:
            ctx.violation('proof', 'model driver failed: %s' % str(m)[:200], {'case': desc}, found_input=False)
            continue
        real_view = {'ok': r['out']['result'] == 'ok', 'reqs': r['classes']}
        model_view = {'ok': m['ok'], 'reqs': m['reqs']}
        exp_files = uc.expected_files(m, c['sizes'], c['seed'], c['preset'])
        if real_view != model_view or not uc.files_agree(r['files'], exp_files):
            disagreements += 1
            ctx.violation('correspondence', 'upload protocol model and implementation differ: model %s / %s, real %s / %s (error %s)'
                          % (model_view, {k: [(s[:12], z) for s, z in v] for k, v in exp_files.items()}, real_view,
                             {k: [(s[:12], z) for s, z in v] for k, v in r['files'].items()}, r['out'].get('error')),
                          {'case': desc, 'script': c['script']}, found_input=False)
    ctx.coverage.update({
        'evaluations': len(cases),
        'distinct_nontrivial': len({(c['provider'], tuple(c['sizes']), c['max'], c['ending'], tuple(sorted(c['preset'])), tuple(c['faults'])) for c in cases if c['faults']}),
        'rule': 'real upload_file (Dropbox, Yandex Disk, Google Drive) against the emulator: 1-3 request bodies, endings final/error/hang-up, directories with stale temporary / older backup / foreign file / '
                'existing final name; one fault (8 kinds) at each request index, plus token failure and two-fault scripts hitting the clean-up request; non-trivial = a conversation with at least one fault',
        'samples': [{k: c[k] for k in ('provider', 'sizes', 'ending', 'faults')} for c in cases[:3]],
        'correspondence': {'cases': len(cases), 'disagreements': disagreements, 'oracle_failures': oracle_fail},
        'fault_kinds': kinds, 'faulted_endpoints': endpoints,
        'disagreements_checked': len(cases),
    })
    ctx.assumptions += ['the provider emulator stands for the real services (its guesses are listed in emu/README.md)',
                        'a reply lost after the server performed the final rename (malformed JSON / missing header on the rename request) is the one case where an error is reported although the final name exists; no client can distinguish it',
                        'Yandex move/delete of single files answer synchronously (201/204)']
