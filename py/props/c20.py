"""C20 — only a well-formed configuration is acted upon.  Theorems: Props/C20.lean.
Correspondence: the real `Config::load` on every single-fault mutation of valid documents and on
path spellings vs the schema model; the CLI with all three actions on rejected documents under the
interposer (no storage access, no network)."""
import copy, json, os, subprocess
from vlib import core, store

LEVEL = 'proof'
HOME = '/var/tmp/vsb-home'


BASE = '/var/tmp/vsb-c20-%d' % os.getpid()     # per process: checks may run concurrently

# documents are trees: objects are lists of [key, value] pairs so that duplicates can be expressed
def O(*pairs):
    return {'o': [list(p) for p in pairs]}


def S(s):
    return {'s': s}


def N(n):
    return {'n': n}


def L(*xs):
    return {'l': list(xs)}


def to_yaml(v):
    """JSON text is valid YAML (flow style); duplicate keys are emitted as they are."""
    if v is None:
        return 'null'
    if 's' in v:
        return json.dumps(v['s'])
    if 'n' in v:
        return str(v['n'])
    if 'b' in v:
        return 'true' if v['b'] else 'false'
    if 'l' in v:
        return '[' + ', '.join(to_yaml(x) for x in v['l']) + ']'
    return '{' + ', '.join('%s: %s' % (json.dumps(k), to_yaml(x)) for k, x in v['o']) + '}'


def provider(name='dropbox'):
    return O(('name', S(name)), ('client_id', S('id')), ('client_secret', S('secret')), ('refresh_token', S('token')))


def base_docs():
    d1 = O(('backups', L(
        O(('name', S('home')), ('path', S(BASE + '/storage')),
          ('backup', O(('items', L(O(('path', S(BASE + '/src')), ('filter', S('- *.o\n+ **/keep')), ('before', S('true')), ('after', S('true'))),
                                   O(('path', S('~/docs'))))),
                       ('max_backup_groups', N(2)), ('max_backups_per_group', N(5)))),
          ('upload', O(('provider', provider()), ('path', S('/Backups/home')), ('max_backup_groups', N(3)),
                       ('encryption_passphrase', S('pass phrase')), ('max_time_without_backups', S('36h'))))),
        O(('name', S('other')), ('path', S('~/backups/other')),
          ('upload', O(('provider', provider('yandex-disk')), ('path', S('/B//other/')), ('max_backup_groups', N(1)),
                       ('encryption_passphrase', S('p'))))))),
        ('prometheus_metrics', S(BASE + '/metrics.prom')))
    d2 = O(('backups', L(
        O(('name', S('only')), ('path', S(BASE + '/./st//x/')),
          ('backup', O(('items', L(O(('path', S('/etc')), ('filter', S('')))))
                       , ('max_backup_groups', N(1)), ('max_backups_per_group', N(1))))))))
    d3 = O()
    d4 = O(('backups', L(O(('name', S('g')), ('path', S('/s')),
                           ('upload', O(('provider', provider('google-drive')), ('path', S('/')), ('max_backup_groups', N(9)),
                                        ('encryption_passphrase', S('x y')), ('max_time_without_backups', S('1d'))))))))
    return [d1, d2, d3, d4]


def paths_of(v, prefix=()):
    """All positions in the tree: (path tuple) -> node"""
    out = [(prefix, v)]
    if v is None:
        return out
    if 'l' in v:
        for i, x in enumerate(v['l']):
            out += paths_of(x, prefix + (('l', i),))
    elif 'o' in v:
        for i, (k, x) in enumerate(v['o']):
            out += paths_of(x, prefix + (('o', i),))
    return out


def get_parent(doc, path):
    cur = doc
    for kind, i in path[:-1]:
        cur = cur['l'][i] if kind == 'l' else cur['o'][i][1]
    return cur


def set_at(doc, path, new):
    doc = copy.deepcopy(doc)
    if not path:
        return new
    par = get_parent(doc, path)
    kind, i = path[-1]
    if kind == 'l':
        par['l'][i] = new
    else:
        par['o'][i][1] = new
    return doc


def mutations(doc):
    """Single-fault mutations: (label, mutated doc)."""
    out = []
    for path, node in paths_of(doc):
        if node is not None and 'o' in node:
            # unknown key at this level
            d = copy.deepcopy(doc)
            tgt = d
            for kind, i in path:
                tgt = tgt['l'][i] if kind == 'l' else tgt['o'][i][1]
            tgt['o'].append(['unknown_key', S('x')])
            out.append(('unknown-key@%s' % (path,), d))
            for j, (k, x) in enumerate(node['o']):
                # delete key
                d = copy.deepcopy(doc)
                tgt = d
                for kind, i in path:
                    tgt = tgt['l'][i] if kind == 'l' else tgt['o'][i][1]
                del tgt['o'][j]
                out.append(('delete:%s' % k, d))
                # duplicate key
                d = copy.deepcopy(doc)
                tgt = d
                for kind, i in path:
                    tgt = tgt['l'][i] if kind == 'l' else tgt['o'][i][1]
                tgt['o'].append(copy.deepcopy(tgt['o'][j]))
                out.append(('duplicate:%s' % k, d))
        if path:
            # retype / zero / empty
            if node is not None and 's' in node:
                out.append(('empty-string', set_at(doc, path, S(''))))
                out.append(('string->number', set_at(doc, path, N(7))))
                out.append(('string->null', set_at(doc, path, None)))
                out.append(('string->list', set_at(doc, path, L(S('x')))))
                s = node['s']
                if s.startswith('/') or s.startswith('~'):
                    for mut in (s.lstrip('/~') or 'rel', s + '/../x', '/a/../b', s + '//', s + '/.', '/./' + s.lstrip('/~'), '../x', '~x/' + s.lstrip('/~')):
                        out.append(('path:%s' % mut[:12], set_at(doc, path, S(mut))))
                if s in ('36h', '1d'):
                    for mut in ('0h', '36', 'h', '1w', '-1d', '1.5h', ' 1d', '1D', '1day', '1h30m', '3d ', '2m0', '10hours', '1d\n', '1dd', '٣d'):
                        out.append(('duration:%s' % mut, set_at(doc, path, S(mut))))
                if 'keep' in s:
                    for mut in ('* bad', '+', '- [z-a]', '- {a', '-x', '+ ok\n  # c\n\n- y'):
                        out.append(('filter:%s' % mut[:6], set_at(doc, path, S(mut))))
                if s in ('dropbox', 'yandex-disk', 'google-drive'):
                    out.append(('provider-name', set_at(doc, path, S('s3'))))
            if node is not None and 'n' in node:
                out.append(('zero', set_at(doc, path, N(0))))
                out.append(('negative', set_at(doc, path, N(-1))))
                out.append(('number->string', set_at(doc, path, S('2'))))
                out.append(('huge', set_at(doc, path, N(2**64))))
            if node is not None and 'l' in node:
                out.append(('empty-list', set_at(doc, path, L())))
                out.append(('list->string', set_at(doc, path, S('x'))))
                if node['l']:
                    out.append(('duplicate-element', set_at(doc, path, L(*(node['l'] + [copy.deepcopy(node['l'][0])])))))
                    first = node['l'][0]
                    if first is not None and 'o' in first and any(k == 'name' for k, _ in first['o']):
                        # the same backup name again, with another storage path / in another position
                        other = copy.deepcopy(first)
                        for kv in other['o']:
                            if kv[0] == 'path' and kv[1] is not None and 's' in kv[1]:
                                kv[1] = S(kv[1]['s'].rstrip('/') + '-other')
                        out.append(('duplicate-name-other-path', set_at(doc, path, L(*(node['l'] + [other])))))
                        out.append(('duplicate-name-other-path-first', set_at(doc, path, L(*([other] + node['l'])))))
    return out


# ---- independent oracle: the property's list of well-formedness conditions ----
KEYS = {'': ['backups', 'prometheus_metrics'], 'spec': ['name', 'path', 'backup', 'upload'],
        'backup': ['items', 'max_backup_groups', 'max_backups_per_group'], 'item': ['path', 'filter', 'before', 'after'],
        'upload': ['provider', 'path', 'max_backup_groups', 'encryption_passphrase', 'max_time_without_backups'],
        'provider': ['name', 'client_id', 'client_secret', 'refresh_token']}


def well_formed(doc):
    import re
    def obj(v, kind, required):
        if v is None or 'o' not in v:
            return None
        keys = [k for k, _ in v['o']]
        if len(set(keys)) != len(keys) or any(k not in KEYS[kind] for k in keys) or any(r not in keys for r in required):
            return None
        return dict(v['o'])
    def s(v, nonempty=True):
        # YAML plain scalars are untyped text: a number/bool/null where a string is expected is that text
        if v is None or 'n' in v or 'b' in v:
            return True
        return 's' in v and (len(v['s']) >= 1 or not nonempty)
    def n(v):
        return v is not None and 'n' in v and 1 <= v['n'] < 2**64
    def abspath(v, tilde):
        if v is None or 's' not in v or not v['s']:
            return False
        p = v['s']
        if tilde and (p == '~' or p.startswith('~/')):
            p = HOME + p[1:]
        return p.startswith('/') and '..' not in p.split('/')
    top = obj(doc, '', [])
    if top is None:
        return False
    if 'prometheus_metrics' in top and top['prometheus_metrics'] is not None and not abspath(top['prometheus_metrics'], True):
        return False
    if 'backups' not in top:
        return True
    if top['backups'] is None or 'l' not in top['backups']:
        return False
    names = []
    for b in top['backups']['l']:
        sp = obj(b, 'spec', ['name', 'path'])
        if sp is None or not s(sp['name']) or not abspath(sp['path'], True):
            return False
        nm = sp['name']
        names.append('null' if nm is None else nm['s'] if 's' in nm else str(nm.get('n', nm.get('b'))))
        if sp.get('backup') is not None:
            bc = obj(sp['backup'], 'backup', KEYS['backup'])
            if bc is None or not n(bc['max_backup_groups']) or not n(bc['max_backups_per_group']):
                return False
            if bc['items'] is None or 'l' not in bc['items'] or not bc['items']['l']:
                return False
            for it in bc['items']['l']:
                i = obj(it, 'item', ['path'])
                if i is None or not s(i['path']):
                    return False
                for k in ('before', 'after'):
                    if k in i and i[k] is not None and ('l' in i[k] or 'o' in i[k]):
                        return False
                if 'filter' in i:
                    if i['filter'] is None or 's' not in i['filter']:
                        return False   # null/number text is not a valid rule list
                    for ln in i['filter']['s'].split('\n'):
                        t = ln.lstrip(' \t')
                        if t == '' or t.startswith('#'):
                            continue
                        if not re.match(r'^[+-] .', t.rstrip(' \t') if not t.rstrip(' \t').endswith('\\') else t):
                            return False
                        g = t[2:]
                        if g.count('[') != g.count(']') or g.count('{') != g.count('}') or '[z-a]' in g:
                            return False
        if sp.get('upload') is not None:
            u = obj(sp['upload'], 'upload', ['provider', 'path', 'max_backup_groups', 'encryption_passphrase'])
            if u is None or not n(u['max_backup_groups']) or not s(u['encryption_passphrase']) or not abspath(u['path'], False):
                return False
            pr = obj(u['provider'], 'provider', KEYS['provider'])
            if pr is None or not all(s(pr[k]) for k in KEYS['provider']) or pr['name'] is None or pr['name'].get('s') not in ('dropbox', 'google-drive', 'yandex-disk'):
                return False
            if 'max_time_without_backups' in u:
                d = u['max_time_without_backups']
                if d is None or 's' not in d or not re.fullmatch(r'[1-9][0-9]*[mhd]', d['s'], re.A):
                    return False
    return len(set(names)) == len(names)


def check(ctx):
    aud = core.audit(ctx.prop)
    core.report_audit(ctx, aud)
    core.proof_coverage(ctx, aud)
    bindir, err = core.build_impl(ctx)
    if bindir is None:
        ctx.violation('runtime', 'repository does not build: ' + err[-400:], {}, found_input=False)
        return
    scratch = ctx.scratch_dir()
    docs = base_docs()
    cases = [{'label': 'valid-%d' % i, 'doc': d} for i, d in enumerate(docs)]
    for i, d in enumerate(docs if ctx.tier == 'thorough' else docs[:2]):
        for label, m in mutations(d):
            cases.append({'label': 'doc%d:%s' % (i, label), 'doc': m})
    if ctx.replay:
        cases = [json.load(open(ctx.replay))['case']['case']]
    env = dict(os.environ, HOME=HOME)
    hl = [core.req('cfgload', {'yaml': to_yaml(c['doc']), 'file': os.path.join(scratch, 'cfg-%d.yaml' % (k % 64))}) for k, c in enumerate(cases)]
    ml = [core.req('cfgload', {'doc': c['doc'], 'home': HOME}) for c in cases]
    impl = core.run_lines(core.harness_exe(ctx), hl, env=env)
    model = core.run_lines(core.model_exe(), ml, shards=4)

    def view(x):
        if isinstance(x, dict) and x.get('result') == 'accepted':
            return {'result': 'accepted', 'backups': x['backups'], 'metrics': x['metrics']}
        if isinstance(x, dict) and x.get('result') == 'rejected':
            return {'result': 'rejected'}
        return x

    def oracle(case, i):
        wf = well_formed(case['doc'])
        if not isinstance(i, dict) or 'result' not in i:
            return None
        if i['result'] == 'accepted' and not wf:
            return 'configuration accepted although it is not well-formed (%s)' % case['label']
        if i['result'] == 'accepted':
            for b in i['backups']:
                for p in (b['path'], b['upload_path']):
                    if p is not None and (not p.startswith('/') or '//' in p or '/./' in p or (p.endswith('/') and p != '/') or '/../' in p + '/'):
                        return 'accepted path %r is not normalised' % p
        return None
    st = core.judge(ctx, cases, [view(m) for m in model], [view(i) for i in impl], oracle, label='cfgload')

    # path spellings
    spell = ['/a/b', '/a//b', '/a/./b', '/a/b/', '//a/b', '/a/b/.', '/./a/b', '/', '//', '/.', '/a/../b', '/..', 'a/b', './a', '', '~', '~/', '~/x', '~/x//y/', '~x', '~/../x', ' /a', '/a b/ c', '/a/.../b', '/a/..b/c', '/юникод//ф/']
    pl = [core.req('cfgpath', {'path': p, 'home': HOME, 'local': loc}) for p in spell for loc in (True, False)]
    pcases = [{'path': p, 'local': loc} for p in spell for loc in (True, False)]

    def path_oracle(case, i):
        if i is None:
            return None
        if not i.startswith('/') or '//' in i or '/./' in i + '/' or (i.endswith('/') and i != '/') or '/../' in i + '/':
            return 'normalised path %r of %r is not canonical' % (i, case['path'])
        return None
    st2 = core.judge(ctx, pcases, core.run_lines(core.model_exe(), pl), core.run_lines(core.harness_exe(ctx), pl, env=env), path_oracle, label='cfgpath')

    # CLI: a rejected configuration must lead to exit != 0 without touching storage or network
    cli_runs = 0
    store.ensure_shim()
    rejected = [c for c, i in zip(cases, impl) if isinstance(i, dict) and i.get('result') == 'rejected']
    sample = rejected[::max(1, len(rejected) // (12 if ctx.tier == 'quick' else 80))]
    os.makedirs(BASE + '/storage', exist_ok=True)
    os.makedirs(BASE + '/src', exist_ok=True)
    for c in sample:
        cfg = os.path.join(scratch, 'cli.yaml')
        open(cfg, 'w').write(to_yaml(c['doc']))
        for action in (['backup', 'home'], ['upload'], ['restore', BASE + '/storage/2001.01.01/2001.01.01-00:00:00', os.path.join(scratch, 'restored')]):
            trace = os.path.join(scratch, 'cli-trace.txt')
            if os.path.exists(trace):
                os.unlink(trace)
            r = store.run_vsb(ctx, ['-c', cfg] + action, now=1000000000,
                              shim_env={'TRACE': trace, 'WATCH': BASE}, extra_env={'HOME': HOME, 'VSB_VERIF_URL_MAP': 'https://=http://127.0.0.1:9/'})
            cli_runs += 1
            touched = [ln for ln in open(trace).read().splitlines() if '\tEXIT\t' not in ln] if os.path.exists(trace) else []
            if r.rc == 0 or touched or os.path.exists(os.path.join(scratch, 'restored')):
                ctx.violation('property', 'cli: rejected configuration (%s) but `vsb %s` exited %d and touched %d storage paths'
                              % (c['label'], action[0], r.rc, len(touched)), {'case': c, 'action': action, 'trace': touched[:5]})
    import shutil
    shutil.rmtree(BASE, ignore_errors=True)
    labels = {}
    for c, i in zip(cases, impl):
        k = c['label'].split(':')[1].split('@')[0] if ':' in c['label'] else 'valid'
        r = i.get('result') if isinstance(i, dict) else '?'
        labels.setdefault(k, {}).setdefault(r, 0)
        labels[k][r] += 1
    ctx.coverage.update({
        'evaluations': len(cases) + len(pcases) + cli_runs,
        'distinct_nontrivial': len({core.canon(c['doc']) for c in cases}),
        'rule': 'all single-fault mutations of valid documents: delete/duplicate every key, unknown key at every mapping, retype/empty/zero/negative/huge every scalar, perturb every path (relative, .., //, /., trailing /, ~user), duration and filter, duplicate list elements (duplicate backup names); '
                'plus path spellings for validate_path/validate_local_path; plus the CLI with backup/upload/restore on rejected documents under the interposer; distinct by document',
        'samples': [{'label': cases[5]['label'], 'yaml': to_yaml(cases[5]['doc'])[:300]}],
        'correspondence': {'cfgload': st, 'cfgpath': st2, 'cli_runs': cli_runs}, 'mutation_outcomes': labels,
        'disagreements_checked': st['cases'] + st2['cases'],
        'exhaustive': True,
    })
    ctx.assumptions += ['YAML surface syntax is serde_yaml\'s: documents are fed in JSON (flow) syntax', 'HOME is the expansion of ~ (shellexpand::tilde)']
