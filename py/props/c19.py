"""C19 — hooks bracket each item exactly once, even on failure."""
from vlib import core, store
from props import walk_common as wc

LEVEL = 'proof'


def oracle(case):
    """Every reached item: before once, then after once, in configuration order; the file created by
    `before` and the file removed by `after` are both in the archive (the item was read in between)."""
    hooks = case['hooks']
    expect = []
    for i, m in enumerate(case['items']):
        if m['before'] != 'absent':
            expect.append('before%d' % i)
        if m['after'] != 'absent':
            expect.append('after%d' % i)
    if hooks != expect[:len(hooks)]:
        return 'hook execution order %s is not a prefix of the configured order %s' % (hooks, expect)
    if case['archived'] is not None and hooks != expect:
        return 'published run skipped hooks: %s vs %s' % (hooks, expect)
    # the bracket holds whatever happens in between (a failing `before`, an error or a fatal failure while the item is
    # read): once an item's `before` hook has run, its `after` hook runs too
    for i, m in enumerate(case['items']):
        if 'before%d' % i in hooks and m['after'] != 'absent' and 'after%d' % i not in hooks:
            return 'the `before` hook of item %d ran but its `after` hook did not (hooks executed: %s)' % (i, hooks)
    # nothing fatal was injected: every item is reached, whatever hooks or items failed before it
    if not case['faults'] and hooks != expect:
        return 'hooks of later items were skipped although nothing fatal happened: %s vs %s' % (hooks, expect)
    if case['archived'] is not None:
        arch = {p for k, p in case['archived']}
        for i, m in enumerate(case['items']):
            if m['resolved'] is None or m.get('node', {}).get('kind') != 'dir' or m.get('no_faults'):
                continue    # (no_faults marks an item rejected for overlapping an earlier one: it is never read)
            root = '/' + '/'.join(m['resolved'])
            names = [c['name'] for c in m['node']['children']]
            reached = any(p == root for p in arch)
            if reached and not any(f.endswith('@' + root + '=EACCES') or ('@' + root + '=') in f for f in case['faults']):
                def faulted(p):
                    return any(('@' + p + '=') in f for f in case['faults'])
                if 'made-by-before' in names and root + '/made-by-before' not in arch and not faulted(root + '/made-by-before'):
                    return 'item %d was read before its `before` hook ran' % i
                if 'removed-by-after' in names and root + '/removed-by-after' not in arch and not faulted(root + '/removed-by-after'):
                    return 'item %d: its `after` hook ran before the item was completely read' % i
    iv = wc.impl_view(case)
    if any(m['before'] == 'fails' or m['after'] == 'fails' for m in case['items']):
        ran_failing = any(('before%d' % i in hooks and m['before'] == 'fails') or ('after%d' % i in hooks and m['after'] == 'fails')
                          for i, m in enumerate(case['items']))
        if ran_failing and iv['exit0']:
            return 'a hook failed but the exit status is 0'
    return None


def special(ctx):
    """(1) hooks that cannot be started at all (no bash in PATH): reported, exit status non-zero, items still backed
    up; (2) an item whose path only exists / only points to the right place once its `before` hook ran;
    (3) a fatal error while the item is archived: the `after` hook still runs, exactly once."""
    import os, random
    from vlib import hist, store
    n = 0
    for i in range(3 if ctx.tier == 'quick' else 12):
        rng = random.Random(ctx.seed * 77 + i)
        # (1)
        w = hist.World(ctx, 6000 + i, rng, nitems=2)
        try:
            for it in w.items:
                w.write(os.path.join(it, 'f'), 1 + i, 100)
            log = os.path.join(w.base, 'hooks.log')
            hooks = [{'path': it, 'before': 'echo b%d >> %s' % (k, log) if rng.random() < 0.8 or k == 0 else None,
                      'after': 'echo a%d >> %s' % (k, log) if rng.random() < 0.8 else None} for k, it in enumerate(w.items)]
            store.write_config(w.cfg, 'b', w.root, hooks, 2, 2)
            empty = os.path.join(w.base, 'emptybin')
            os.makedirs(empty)
            w.now += 10
            r = store.run_vsb(ctx, ['-c', w.cfg, 'backup', 'b'], now=w.now, extra_env={'PATH': empty})
            nh = sum(1 for h in hooks for k in ('before', 'after') if h[k])
            case = {'scenario': 'unstartable-hooks', 'index': i, 'hooks': nh}
            if os.path.exists(log):
                ctx.violation('runtime', 'hooks ran although bash is not in PATH', {'case': case}, found_input=False)
            elif r.rc == 0:
                ctx.violation('property', '%d hook(s) could not be started but the exit status is 0 (%s)' % (nh, r.errors()[:2]), {'case': case})
            elif sum(1 for e in r.errors() if 'command for' in e) != nh:
                ctx.violation('property', '%d hook(s) could not be started but %d are reported at error level: %s'
                              % (nh, sum(1 for e in r.errors() if 'command for' in e), r.errors()[:3]), {'case': case})
            n += 1
        finally:
            w.cleanup()
        # (2)
        w = hist.World(ctx, 6100 + i, rng, nitems=2)
        try:
            w.write(os.path.join(w.items[0], 'plain'), 5, 10)
            made = os.path.join(w.base, 'made-by-hook')
            old, new = os.path.join(w.base, 'snap-old'), os.path.join(w.base, 'snap-new')
            for d, nm in ((old, 'marker-old'), (new, 'marker-new')):
                os.makedirs(d)
                w.write(os.path.join(d, nm), 6, 10)
            link = os.path.join(w.base, 'current')
            os.symlink(old, link)
            variant = i % 2
            if variant == 0:
                items = [{'path': w.items[0]}, {'path': made, 'before': 'mkdir -p %s && echo created > %s/inside' % (made, made)}]
                want = os.path.join(os.path.realpath(w.base), 'made-by-hook', 'inside')
            else:
                items = [{'path': w.items[0]}, {'path': link, 'before': 'ln -sfn %s %s' % (new, link)}]
                want = os.path.join(os.path.realpath(new), 'marker-new')
            store.write_config(w.cfg, 'b', w.root, items, 2, 2)
            w.now += 10
            r = store.run_vsb(ctx, ['-c', w.cfg, 'backup', 'b'], now=w.now)
            case = {'scenario': 'item-made-by-before-hook', 'variant': variant, 'index': i}
            bdir = os.path.join(w.root, store.group_name(w.now), store.backup_name(w.now))
            paths = []
            if os.path.isdir(bdir):
                paths = [x['path'] for x in store.read_manifest(bdir)]
            if r.rc != 0 or want not in paths:
                ctx.violation('property', 'the item was resolved or read before its `before` hook ran: exit %d, %s, archived %s (expected %s)'
                              % (r.rc, r.errors()[:1], sorted(os.path.basename(p) for p in paths), os.path.basename(want)), {'case': case})
            n += 1
        finally:
            w.cleanup()
        # (3) a fatal error while the item is being archived (a read of one of its files fails): the run ends there, but
        # the item's `after` hook still runs, once; later items contribute nothing
        w = hist.World(ctx, 6200 + i, rng, nitems=2)
        try:
            victim = os.path.join(w.items[0], 'victim')
            w.write(victim, 9, [1000, 20000, 70000][i % 3])
            w.write(os.path.join(w.items[1], 'other'), 10, 50)
            log = os.path.join(w.base, 'hooks.log')
            items = [{'path': it, 'before': 'echo b%d >> %s' % (k, log), 'after': 'echo a%d >> %s' % (k, log)} for k, it in enumerate(w.items)]
            store.write_config(w.cfg, 'b', w.root, items, 2, 2)
            w.now += 10
            k = 1 + i % 3
            r = store.run_vsb(ctx, ['-c', w.cfg, 'backup', 'b'], now=w.now,
                              shim_env={'FAULT': 'read@%s=EIO@%d' % (os.path.realpath(victim), k), 'WATCH': os.path.realpath(w.items[0])})
            ran = open(log).read().split() if os.path.exists(log) else []
            case = {'scenario': 'fatal-error-mid-item', 'index': i, 'read': k, 'hooks': ran, 'rc': r.rc}
            if r.rc == 0:
                ctx.violation('runtime', 'the injected read fault did not make the run fail', {'case': case}, found_input=False)
            elif ran != ['b0', 'a0']:
                ctx.violation('property', 'a fatal error while item 0 was archived: hooks executed %s, expected before and after of item 0, once each, and nothing of item 1' % ran,
                              {'case': case, 'errors': r.errors()[:2]})
            n += 1
        finally:
            w.cleanup()
    return n


def check(ctx):
    aud = core.audit(ctx.prop)
    core.report_audit(ctx, aud)
    core.proof_coverage(ctx, aud)
    bindir, err = core.build_impl(ctx)
    if bindir is None:
        ctx.violation('runtime', 'repository does not build: ' + err[-400:], {}, found_input=False)
        return
    n = 120 if ctx.tier == 'quick' else 1500
    cases, model = wc.run_cases(ctx, n, 'hooks')
    cases2, model2 = wc.run_cases(ctx, n // 3, 'faults')
    cases += cases2; model += model2
    mv, iv = [], []
    for c, m in zip(cases, model):
        a, b = wc.normalize_pair(wc.model_view(m, c), wc.impl_view(c))
        mv.append({'hooks': a['hooks'], 'hook_failed': a['hook_failed'], 'exit0': a['exit0']} if isinstance(a, dict) and 'hooks' in a else a)
        iv.append({'hooks': b['hooks'], 'hook_failed': b['hook_failed'], 'exit0': b['exit0']})
    slim = [{k: v for k, v in c.items() if k not in ('base',)} for c in cases]
    st = core.judge(ctx, slim, mv, iv, lambda c, i: oracle(c), label='hooks')
    combos = {}
    for c in cases:
        k = ','.join('%s/%s/%s' % (m['before'][0], m['after'][0], 'x' if m['resolved'] is None else 'o') for m in c['items'])
        combos[k] = combos.get(k, 0) + 1
    ctx.coverage.update({
        'evaluations': len(cases), 'distinct_nontrivial': len([k for k in combos if 'f' in k or 'x' in k]),
        'rule': 'item lists of 1..3 items x hooks absent/succeeding/failing per item x missing/overlapping/unreadable items; the before hook creates a file inside its item and the after hook removes one, so the archive shows whether the item was read strictly between them; '
                'non-trivial = a distinct hook/item combination containing a failing hook or an unusable item',
        'samples': [wc.model_request(cases[0])], 'correspondence': st, 'combinations': len(combos),
        'disagreements_checked': st['cases'], 'special_scenarios': special(ctx),
    })
    ctx.assumptions += ['hooks run through `bash -c`']
