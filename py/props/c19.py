"""C19 — hooks bracket each item exactly once, even on failure."""
from vlib import core, store
from props import walk_common as wc

LEVEL = 'proof'


def oracle(case):
    """Every reached item: before once, then after once, in configuration order; the file created by
    `before` and the file removed by `after` are both in the archive (the item was read in between)."""
    hooks = case['hooks']
    expect = []
    for i, m in enumerate(case['items']):
        if m['before'] != 'absent':
            expect.append('before%d' % i)
        if m['after'] != 'absent':
            expect.append('after%d' % i)
    if hooks != expect[:len(hooks)]:
        return 'hook execution order %s is not a prefix of the configured order %s' % (hooks, expect)
    if case['archived'] is not None and hooks != expect:
        return 'published run skipped hooks: %s vs %s' % (hooks, expect)
    if case['archived'] is not None:
        arch = {p for k, p in case['archived']}
        for i, m in enumerate(case['items']):
            if m['resolved'] is None or m.get('node', {}).get('kind') != 'dir' or m.get('no_faults'):
                continue    # (no_faults marks an item rejected for overlapping an earlier one: it is never read)
            root = '/' + '/'.join(m['resolved'])
            names = [c['name'] for c in m['node']['children']]
            reached = any(p == root for p in arch)
            if reached and not any(f.endswith('@' + root + '=EACCES') or ('@' + root + '=') in f for f in case['faults']):
                def faulted(p):
                    return any(('@' + p + '=') in f for f in case['faults'])
                if 'made-by-before' in names and root + '/made-by-before' not in arch and not faulted(root + '/made-by-before'):
                    return 'item %d was read before its `before` hook ran' % i
                if 'removed-by-after' in names and root + '/removed-by-after' not in arch and not faulted(root + '/removed-by-after'):
                    return 'item %d: its `after` hook ran before the item was completely read' % i
    iv = wc.impl_view(case)
    if any(m['before'] == 'fails' or m['after'] == 'fails' for m in case['items']):
        ran_failing = any(('before%d' % i in hooks and m['before'] == 'fails') or ('after%d' % i in hooks and m['after'] == 'fails')
                          for i, m in enumerate(case['items']))
        if ran_failing and iv['exit0']:
            return 'a hook failed but the exit status is 0'
    return None


def check(ctx):
    aud = core.audit(ctx.prop)
    core.report_audit(ctx, aud)
    core.proof_coverage(ctx, aud)
    bindir, err = core.build_impl(ctx)
    if bindir is None:
        ctx.violation('runtime', 'repository does not build: ' + err[-400:], {}, found_input=False)
        return
    n = 120 if ctx.tier == 'quick' else 1500
    cases, model = wc.run_cases(ctx, n, 'hooks')
    cases2, model2 = wc.run_cases(ctx, n // 3, 'faults')
    cases += cases2; model += model2
    mv, iv = [], []
    for c, m in zip(cases, model):
        a, b = wc.normalize_pair(wc.model_view(m, c), wc.impl_view(c))
        mv.append({'hooks': a['hooks'], 'hook_failed': a['hook_failed'], 'exit0': a['exit0']} if isinstance(a, dict) and 'hooks' in a else a)
        iv.append({'hooks': b['hooks'], 'hook_failed': b['hook_failed'], 'exit0': b['exit0']})
    slim = [{k: v for k, v in c.items() if k not in ('base',)} for c in cases]
    st = core.judge(ctx, slim, mv, iv, lambda c, i: oracle(c), label='hooks')
    combos = {}
    for c in cases:
        k = ','.join('%s/%s/%s' % (m['before'][0], m['after'][0], 'x' if m['resolved'] is None else 'o') for m in c['items'])
        combos[k] = combos.get(k, 0) + 1
    ctx.coverage.update({
        'evaluations': len(cases), 'distinct_nontrivial': len([k for k in combos if 'f' in k or 'x' in k]),
        'rule': 'item lists of 1..3 items x hooks absent/succeeding/failing per item x missing/overlapping/unreadable items; the before hook creates a file inside its item and the after hook removes one, so the archive shows whether the item was read strictly between them; '
                'non-trivial = a distinct hook/item combination containing a failing hook or an unusable item',
        'samples': [wc.model_request(cases[0])], 'correspondence': st, 'combinations': len(combos),
        'disagreements_checked': st['cases'],
    })
    ctx.assumptions += ['hooks run through `bash -c`; a hook that cannot be started is represented by a failing one']
