"""C07 — rotation and retention.  Theorems: Props/C07.lean.  Correspondence: histories of real
`vsb backup` runs (fake clock through the interposer) on storages seeded with junk; after every run
the observed storage, exit status and deleted groups are compared with `backupRun` of the model
applied to the observed pre-state, and an independent oracle checks the property's bounds."""
import json, os, re, shutil, stat
from vlib import core, store

LEVEL = 'proof'
DAY = 86400
T0 = 1000000000  # 2001-09-09 01:46:40 UTC


def snapshot(root):
    def ftype(p):
        st = os.lstat(p)
        return 'dir' if stat.S_ISDIR(st.st_mode) else 'file' if stat.S_ISREG(st.st_mode) else 'other'
    out = []
    for n in sorted(os.listdir(root)):
        p = os.path.join(root, n)
        t = ftype(p)
        ent = None
        if t == 'dir':
            ent = []
            for m in sorted(os.listdir(p)):
                q = os.path.join(p, m)
                tt = ftype(q)
                files = None
                if tt == 'dir':
                    files = [[f, ftype(os.path.join(q, f))] for f in sorted(os.listdir(q))]
                ent.append({'name': m, 'type': tt, 'files': files})
        out.append({'name': n, 'type': t, 'entries': ent})
    return out


GROUP_RE = re.compile(r'^\d{4}\.\d{2}\.\d{2}$', re.A)
BACKUP_RE = re.compile(r'^\d{4}\.\d{2}\.\d{2}-\d{2}:\d{2}:\d{2}$', re.A)


def py_listing(snap):
    """Independent classification used by the oracle: (groups [(name, [backups])], clean?)."""
    groups, clean = [], True
    for r in snap:
        if r['name'].startswith('.'):
            continue
        if r['type'] != 'dir' or not GROUP_RE.match(r['name']):
            clean = False
            continue
        backups, first = [], True
        for e in r['entries']:
            n = e['name']
            if BACKUP_RE.match(n) and e['type'] == 'dir':
                if first and n.split('-')[0] != r['name']:
                    clean = False
                first = False
                names = {f[0] for f in (e['files'] or []) if f[1] == 'file'}
                if {'data.tar.zst', 'metadata.zst'} <= names:
                    backups.append(n)
                else:
                    clean = False
            elif n.startswith('.') and BACKUP_RE.match(n[1:]) and e['type'] == 'dir':
                pass  # temporary
            elif n.startswith('.') and not BACKUP_RE.match(n[1:]):
                pass  # hidden
            else:
                clean = False
        groups.append((r['name'], backups))
    return groups, clean


def oracle(step):
    """C07's own statement on one observed run."""
    pre, post, rc = step['pre'], step['post'], step['rc']
    maxg, maxp, today, bname = step['max_groups'], step['max_per_group'], step['today'], step['bname']
    pre_groups, _ = py_listing(pre)
    post_groups, post_clean = py_listing(post)
    pre_names = [g for g, _ in pre_groups]
    post_map = dict(post_groups)
    # where did the new backup go?
    where = [g for g, bs in post_groups if bname in bs and bname not in dict(pre_groups).get(g, [])]
    published = bool(where)
    removed = [g for g in pre_names if g not in post_map]
    if published:
        g = where[0]
        if pre_groups and len(pre_groups[-1][1]) < maxp:
            if g != pre_groups[-1][0]:
                return 'newest group %s had room (%d < %d) but the backup went to %s' % (pre_groups[-1][0], len(pre_groups[-1][1]), maxp, g)
        else:
            if g != today or g in pre_names:
                return 'a new group named by the date (%s) was expected, got %s' % (today, g)
        if len(post_map[g]) > maxp:
            return 'group %s holds %d > max_backups_per_group=%d backups' % (g, len(post_map[g]), maxp)
        if g in removed:
            return 'the backup just made was removed'
        if post_clean:
            if len(post_groups) > maxg:
                return '%d groups remain > max_backup_groups=%d after a clean publishing run' % (len(post_groups), maxg)
            # removed must be exactly the oldest
            allnames = sorted(set(pre_names) | {g})
            expect_removed = allnames[:max(0, len(allnames) - maxg)]
            if sorted(removed) != expect_removed:
                return 'removed groups %s are not exactly the oldest %s' % (removed, expect_removed)
        else:
            if removed:
                return 'groups %s removed although the storage does not list cleanly' % removed
    else:
        if removed:
            return 'groups %s removed although nothing was published' % removed
        if rc == 0:
            return 'exit status 0 but no backup was published'
    # completed backups of surviving groups are untouched
    for g, bs in pre_groups:
        if g in post_map:
            for b in bs:
                if b not in post_map[g]:
                    return 'backup %s/%s disappeared' % (g, b)
    return None


JUNK = ['hidden-root', 'foreign-file-root', 'foreign-dir-root', 'file-named-group', 'hidden-in-group', 'temp-backup',
        'temp-backup-empty', 'foreign-in-group', 'backup-no-data', 'backup-no-meta', 'empty-group', 'file-named-backup',
        'empty-backup-dir']


def seed_junk(rng, root, kind, now):
    groups = [g for g in sorted(os.listdir(root)) if GROUP_RE.match(g) and os.path.isdir(os.path.join(root, g))]
    g = os.path.join(root, rng.choice(groups)) if groups else None
    t = now - rng.randint(1, 5 * DAY)
    if kind == 'hidden-root':
        open(os.path.join(root, '.DS_Store'), 'w').close()
    elif kind == 'foreign-file-root':
        open(os.path.join(root, 'notes.txt'), 'w').close()
    elif kind == 'foreign-dir-root':
        if not os.path.lexists(os.path.join(root, 'lost+found')):
            os.makedirs(os.path.join(root, 'lost+found'))
    elif kind == 'file-named-group':
        open(os.path.join(root, store.group_name(t)), 'w').close() if not os.path.exists(os.path.join(root, store.group_name(t))) else None
    elif kind == 'empty-group':
        if not os.path.lexists(os.path.join(root, store.group_name(t))):
            os.makedirs(os.path.join(root, store.group_name(t)))
    elif g is None:
        return
    elif kind == 'hidden-in-group':
        open(os.path.join(g, '.hidden'), 'w').close()
    elif kind == 'temp-backup':
        d = os.path.join(g, '.' + store.backup_name(t))
        if not os.path.lexists(d):
            os.makedirs(d)
            open(os.path.join(d, 'data.tar.zst'), 'w').close()
    elif kind == 'temp-backup-empty':
        if not os.path.lexists(os.path.join(g, '.' + store.backup_name(t))):
            os.makedirs(os.path.join(g, '.' + store.backup_name(t)))
    elif kind == 'foreign-in-group':
        open(os.path.join(g, 'README'), 'w').close()
    elif kind == 'backup-no-data':
        d = os.path.join(g, store.backup_name(t))
        if not os.path.exists(d):
            os.makedirs(d)
            open(os.path.join(d, 'metadata.zst'), 'w').close()
    elif kind == 'backup-no-meta':
        d = os.path.join(g, store.backup_name(t))
        if not os.path.exists(d):
            os.makedirs(d)
            open(os.path.join(d, 'data.tar.zst'), 'w').close()
    elif kind == 'file-named-backup':
        p = os.path.join(g, store.backup_name(t))
        if not os.path.exists(p):
            open(p, 'w').close()
    elif kind == 'empty-backup-dir':
        if not os.path.lexists(os.path.join(g, store.backup_name(t))):
            os.makedirs(os.path.join(g, store.backup_name(t)))


def run_history(ctx, hid, rng, nruns, junk_prob):
    base = os.path.join(ctx.scratch_dir(), 'h%d' % hid)
    root = os.path.join(base, 'storage')
    src = os.path.join(base, 'src')
    os.makedirs(root)
    os.makedirs(src)
    with open(os.path.join(src, 'file'), 'w') as f:
        f.write('content %d' % hid)
    cfg = os.path.join(base, 'config.yaml')
    now = T0 + rng.randint(0, 3) * DAY
    steps = []
    for k in range(nruns):
        now += rng.choice([1, 1, 3600, 3600, DAY, DAY, DAY, 9 * DAY, 0])
        maxg, maxp = rng.randint(1, 4), rng.randint(1, 4)
        junk = []
        # every fifth history seeds only what listing ignores or accepts silently (empty groups above all), so that the
        # runs stay clean and retention has to deal with the empty groups
        benign = hid % 5 == 2
        while rng.random() < (0.5 if benign else junk_prob):
            kind = rng.choice(['empty-group', 'empty-group', 'hidden-root', 'hidden-in-group', 'temp-backup-empty'] if benign else JUNK)
            seed_junk(rng, root, kind, now)
            junk.append(kind)
        # one run in six has a reported, non-fatal error (a configured item that does not exist): the backup is still
        # published, so retention applies as after any other publishing run
        soft = rng.random() < 0.17
        store.write_config(cfg, 'b', root, [{'path': src}] + ([{'path': os.path.join(base, 'no-such-item')}] if soft else []), maxg, maxp)
        pre = snapshot(root)
        r = store.run_vsb(ctx, ['-c', cfg, 'backup', 'b'], now=now)
        post = snapshot(root)
        steps.append({'history': hid, 'run': k, 'pre': pre, 'post': post, 'rc': r.rc, 'errors': r.errors()[:6], 'walk_ok': not soft,
                      'today': store.group_name(now), 'bname': store.backup_name(now),
                      'max_groups': maxg, 'max_per_group': maxp, 'junk': junk, 'now': now})
    shutil.rmtree(base, ignore_errors=True)
    return steps


def check(ctx):
    aud = core.audit(ctx.prop)
    core.report_audit(ctx, aud)
    core.proof_coverage(ctx, aud)
    bindir, err = core.build_impl(ctx)
    if bindir is None:
        ctx.violation('runtime', 'repository does not build: ' + err[-400:], {}, found_input=False)
        return
    store.ensure_shim()
    import concurrent.futures, random
    nh = 60 if ctx.tier == 'quick' else 600
    seeds = [ctx.rng.randrange(1 << 30) for _ in range(nh)]

    def job(i):
        rng = random.Random(seeds[i])
        return run_history(ctx, i, rng, rng.randint(3, 9 if ctx.tier == 'quick' else 12), rng.choice([0.0, 0.15, 0.4]))
    with concurrent.futures.ThreadPoolExecutor(16) as ex:
        hist = list(ex.map(job, range(nh)))
    steps = [s for h in hist for s in h]
    lines = [core.req('rotate', {'storage': s['pre'], 'today': s['today'], 'bname': s['bname'],
                                 'max_per_group': s['max_per_group'], 'max_groups': s['max_groups'], 'walk_ok': s.get('walk_ok', True)})
             for s in steps]
    model = core.run_lines(core.model_exe(), lines, shards=8)
    impl_view, model_view = [], []
    for s, m in zip(steps, model):
        impl_view.append({'storage': s['post'], 'exit0': s['rc'] == 0})
        if isinstance(m, dict) and 'storage' in m:
            model_view.append({'storage': m['storage'], 'exit0': m.get('result') == 'done' and m.get('ok') is True})
        else:
            model_view.append(m)
    st = core.judge(ctx, steps, model_view, impl_view, lambda c, i: oracle(c), label='rotate')
    kinds = {}
    for s, m in zip(steps, model):
        k = (m.get('result'), m.get('why'), bool(m.get('deleted')), m.get('ok')) if isinstance(m, dict) else ('?',)
        kinds[str(k)] = kinds.get(str(k), 0) + 1
    distinct = {core.canon([s['pre'], s['max_groups'], s['max_per_group'], s['today']]) for s in steps if len(s['pre']) >= 2}
    ctx.coverage.update({
        'evaluations': len(steps),
        'distinct_nontrivial': len(distinct),
        'rule': 'histories of 3..12 real `vsb backup` runs, limits drawn from 1..4 x 1..4 anew for every run, clock steps 0s/1s/1h/1d/9d, '
                'junk seeded between runs (%s); one evaluation = one run; non-trivial = pre-state with at least two root entries' % ', '.join(JUNK),
        'samples': [{k: steps[0][k] for k in ('pre', 'post', 'rc', 'today', 'bname', 'max_groups', 'max_per_group')}],
        'correspondence': st,
        'outcome_distribution': kinds,
        'disagreements_checked': st['cases'],
    })
    ctx.assumptions += ['chrono formatting of the faked clock (names are inputs of the model)', 'ASCII digits in names',
                        'source item readable (walk outcome fixed to success in this check; C08 varies it)']
