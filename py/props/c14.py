"""C14 — filters.  Theorems: Props/C14.lean.  Correspondence: the real `PathFilter` (globset) vs
the Lean glob/filter model on generated rule lists and paths (structured grammar + raw strings for
the parser), an independent regex oracle for the structured part, and end-to-end path sets of real
backups of filtered trees."""
import itertools, json, os, random, re
from vlib import core, store, hist

LEVEL = 'proof'

NAMES = ['a', 'b', 'ab', '.a', 'a.b', '-', 'a b', 'ba', '']
PATH_ALPHA = ['a', 'b', '.', '-', ' ']


def gen_struct_glob(rng, maxtok=4):
    """A glob built from tokens with a known meaning; returns (glob text, python regex)."""
    toks = []
    n = rng.randint(1, maxtok)
    pos = 0
    glob, rx = '', ''
    start = True
    while pos < n:
        last = pos == n - 1
        kind = rng.choice(['lit', 'lit', 'lit', 'star', 'qm', 'dstar-prefix', 'dstar-mid', 'dstar-suffix', 'alt', 'cls', 'ncls', 'range', 'esc-space', 'esc-tab', 'esc-nl', 'sep'])
        if kind == 'lit':
            c = rng.choice(['a', 'b', '.', '-', 'a', 'b', 'A', 'B'])     # (upper case: matching is literal, `A` is not `a`)
            glob += c; rx += re.escape(c)
        elif kind == 'star':
            if glob.endswith('*'):
                continue
            glob += '*'; rx += '[^/]*'
        elif kind == 'qm':
            glob += '?'; rx += '[^/]'
        elif kind == 'sep':
            if glob == '' or glob.endswith('/'):
                continue
            glob += '/'; rx += '/'
        elif kind == 'dstar-prefix':
            if glob != '':
                continue
            glob += '**/'; rx += '(?:/?|.*/)'
        elif kind == 'dstar-mid':
            if glob == '' or glob.endswith('/') or glob.endswith('*') or last:
                continue
            glob += '/**/'; rx += '(?:/|/.*/)'
        elif kind == 'dstar-suffix':
            if not last or glob == '' or glob.endswith('/') or glob.endswith('*'):
                continue
            glob += '/**'; rx += '/.*'
        elif kind == 'alt':
            a, b = rng.choice(['a', 'b', 'ab', '.a']), rng.choice(['b', 'ba', '-', 'a*'])
            glob += '{%s,%s}' % (a, b)
            rx += '(?:%s|%s)' % (re.escape(a), re.escape(b).replace('\\*', '[^/]*'))
        elif kind == 'cls':
            glob += '[ab]'; rx += '[ab]'
        elif kind == 'ncls':
            glob += '[!a]'; rx += '[^a]'
        elif kind == 'range':
            glob += '[a-b]'; rx += '[a-b]'
        elif kind == 'esc-space':
            glob += '\\ '; rx += ' '
        elif kind == 'esc-tab':
            glob += '\\t'; rx += '\t'
        elif kind == 'esc-nl':
            glob += '\\n'; rx += '\n'
        pos += 1
    if glob == '**/':     # globset treats a glob consisting only of the recursive prefix as `**` (matches everything)
        return glob, '.*'
    return glob, rx


def gen_path(rng, maxdepth=4):
    return '/'.join(rng.choice(['a', 'b', 'ab', '.a', 'a.b', '-', 'a b', 'ba', 'b.a', 'aa', 'a\tb', 't', 'atb', 'a\nb', 'n', 'anb', '\t', 'A', 'B', 'Ab', 'aB', 'A.b', 'bA']) for _ in range(rng.randint(1, maxdepth)))


RAW = list('ab/*?{},[]!-\\ .^') + ['**', '/**/', '**/', '/**', 'ю']


def gen_raw_glob(rng):
    return ''.join(rng.choice(RAW) for _ in range(rng.randint(1, 8)))


def oracle_struct(case, impl):
    """First-match semantics with the documented meaning of each token (ASCII paths only)."""
    if 'rx' not in case:
        return None
    if not isinstance(impl, dict) or 'results' not in impl:
        return 'structured rule list rejected: ' + core.canon(impl)[:100]
    for p, got in zip(case['paths'], impl['results']):
        want = True
        for (allow, rx) in case['rx']:
            if re.fullmatch(rx, p, re.S):
                want = allow
                break
        if want != got:
            return 'path %r: allowed=%s but the first matching rule says %s' % (p, got, want)
    return None


def gen_cases(ctx):
    rng = ctx.rng
    cases = []
    n_struct = 3000 if ctx.tier == 'quick' else 40000
    for _ in range(n_struct):
        rules, rxs = [], []
        for _ in range(rng.randint(1, 3)):
            g, rx = gen_struct_glob(rng)
            allow = rng.random() < 0.4
            lead = rng.choice(['', '', ' ', '\t'])
            trail = rng.choice(['', '', ' ', '  ', '\t', ' \t', '\t\t ']) if not g.endswith('\\ ') else ''
            rules.append('%s%s %s%s' % (lead, '+' if allow else '-', g, trail))
            rxs.append((allow, rx))
            if rng.random() < 0.15:
                rules.append(rng.choice(['', '# comment', '   ', '  # - a']))
        paths = [gen_path(rng) for _ in range(6)]
        cases.append({'spec': '\n'.join(rules) + rng.choice(['', '\n']), 'paths': paths, 'rx': rxs})
    n_raw = 2500 if ctx.tier == 'quick' else 40000
    for _ in range(n_raw):
        rules = ['%s %s' % (rng.choice('+-'), gen_raw_glob(rng)) for _ in range(rng.randint(1, 2))]
        if rng.random() < 0.1:
            rules.append(rng.choice(['+', '+x', '* a', '-  ', '+ ', 'x', '- a\r', '+ \\', '+ a\\']))
        paths = [gen_path(rng) for _ in range(4)] + [rng.choice(['ю', 'a/ю', '', '/', 'a/', '/a', 'a//b', '{', ',', 'a,b', ']'])]
        cases.append({'spec': '\n'.join(rules), 'paths': paths})
    # character classes with members outside ASCII: globset writes them into a byte-mode regex as the bytes of their
    # UTF-8 encodings (`byteRanges` in the model)
    cls_alpha = ['ю', 'я', 'a', 'b', '!', '^', '-', ']', 'ѐ', '߿', '€', '*', '?']
    cls_paths = ['ю', 'я', 'a', 'b', 'юя', 'яю', 'aю', 'юa', 'ѐ', '€', '߿', '!', '^', '-', ']', 'ю/я']
    for _ in range(300 if ctx.tier == 'quick' else 6000):
        body = ''.join(rng.choice(cls_alpha) for _ in range(rng.randint(1, 5)))
        spec = '%s %s[%s]%s' % (rng.choice('+-'), rng.choice(['', 'a', '*', '?']), body, rng.choice(['', '*', 'a', '?']))
        cases.append({'spec': spec, 'paths': rng.sample(cls_paths, 6)})
    if ctx.tier == 'thorough':
        # exhaustive: every glob of <= 3 atoms from a small atom set, against all paths of depth <= 3 over {a,b}
        atoms = ['a', 'b', '*', '?', '/', '**', '{a,b}', '[!a]']
        allpaths = []
        for d in (1, 2, 3):
            allpaths += ['/'.join(p) for p in itertools.product(['a', 'b', 'ab'], repeat=d)]
        for k in (1, 2, 3):
            for combo in itertools.product(atoms, repeat=k):
                cases.append({'spec': '- ' + ''.join(combo), 'paths': allpaths})
        for c1 in itertools.product(atoms, repeat=2):
            for c2 in itertools.product(atoms[:5], repeat=2):
                cases.append({'spec': '+ %s\n- %s' % (''.join(c1), ''.join(c2)), 'paths': allpaths[:20]})
    return cases


def e2e(ctx, n):
    """Real backups of filtered trees: archived path set vs `every prefix allowed` with the model's check."""
    rng = ctx.rng
    out = []
    for i in range(n):
        # every second run has two items: the tree under test is the second one, the first has rules of its own (or none) -
        # each item is filtered by its own rule list
        two = i % 2 == 1
        w = hist.World(ctx, 7000 + i, random.Random(rng.randrange(1 << 30)), nitems=2 if two else 1)
        try:
            item = w.items[1 if two else 0]
            if two:
                open(os.path.join(w.items[0], 'keep'), 'w').write('first item')
            names = ['a', 'b', 'ab', '.a', 'a.o', 'keep', 'skip', 'A', 'Skip', 'a.O', 'KEEP']
            paths = set()
            for _ in range(rng.randint(4, 14)):
                comps = [rng.choice(names) for _ in range(rng.randint(1, 4))]
                p = os.path.join(item, *comps)
                try:
                    os.makedirs(os.path.dirname(p), exist_ok=True)
                    if not os.path.lexists(p):
                        kind_ = rng.random()
                        if kind_ < 0.65:
                            open(p, 'w').write('x' * rng.randint(0, 5))
                        elif kind_ < 0.8:
                            # (symbolic links - to a file, to a directory, dangling - are filtered like anything else)
                            os.symlink(rng.choice(['keep', '.', 'nowhere', '../a']), p)
                        else:
                            os.mkdir(p)
                except OSError:
                    pass
            rules = []
            for _ in range(rng.randint(1, 3)):
                g, _rx = gen_struct_glob(rng, 3)
                rules.append('%s %s' % (rng.choice('+-'), g))
            if rng.random() < 0.5:
                rules.append('- ' + rng.choice(['skip', '**/skip', '*.o', 'a/**', '**/a/*']))
            links = [os.path.relpath(os.path.join(d_, x_), item) for d_, dn_, fn_ in os.walk(item) for x_ in dn_ + fn_ if os.path.islink(os.path.join(d_, x_))]
            if links and rng.random() < 0.7:
                # a rule that excludes a symbolic link by its path or by its name anywhere
                l_ = rng.choice(links)
                rules.insert(0, '- ' + rng.choice([l_, '**/' + os.path.basename(l_)]))
            if rng.random() < 0.25:
                # the whitelist idiom: the last rule matches everything, also the empty path of the item root itself
                rules = ['+ keep', '+ keep/**', '+ a', '- ' + rng.choice(['*', '**', '{a,}'])]
            w.filters = ['\n'.join(rules)]
            if two:
                w.filters = [rng.choice([None, '- *', '+ keep\n- **', '- skip\n- a\n- b\n- ab']), '\n'.join(rules)]
            r = w.backup(advance=10)
            real = os.path.realpath(item)
            existing = []
            for d, dn, fn in os.walk(real):
                for x in dn + fn:
                    existing.append(os.path.relpath(os.path.join(d, x), real))
            dec = w.decode_storage()
            archived = None
            for g in dec:
                for b in dec[g]:
                    ent = dec[g][b]['entries']
                    if ent is not None:
                        archived = sorted(os.path.relpath('/' + e['path'], real) for e in ent
                                          if ('/' + e['path']).startswith(real + '/'))
                        root_in = any('/' + e['path'] == real for e in ent)
            out.append({'spec': w.filters[-1], 'two_items': two, 'existing': sorted(existing), 'archived': archived, 'rc': r.rc,
                        'root_archived': root_in if archived is not None else None})
        finally:
            w.cleanup()
    return out


def check(ctx):
    aud = core.audit(ctx.prop)
    core.report_audit(ctx, aud)
    core.proof_coverage(ctx, aud)
    bindir, err = core.build_impl(ctx)
    if bindir is None:
        ctx.violation('runtime', 'repository does not build: ' + err[-400:], {}, found_input=False)
        return
    if ctx.replay:
        cases = [json.load(open(ctx.replay))['case']['case']]
    else:
        cases = [c['case'] for c in core.load_corpus('C14')] + gen_cases(ctx)
    lines = [core.req('filter', {'spec': c['spec'], 'paths': c['paths']}) for c in cases]
    impl = core.run_lines(core.harness_exe(ctx), lines, shards=16)
    model = core.run_lines(core.model_exe(), lines, shards=16, timeout=3000)

    def norm(x):
        if isinstance(x, dict) and 'results' in x:
            return {'results': x['results']}
        if isinstance(x, dict) and 'error' in x:
            return {'error': x['error']}
        return x
    st = core.judge(ctx, cases, [norm(m) for m in model], [norm(i) for i in impl], oracle_struct, label='filter')
    # end-to-end
    store.ensure_shim()
    runs = e2e(ctx, 12 if ctx.tier == 'quick' else 150) if not ctx.replay else []
    ml = [core.req('filter', {'spec': r['spec'], 'paths': r['existing']}) for r in runs]
    mres = core.run_lines(core.model_exe(), ml) if ml else []
    e2e_bad = 0
    for r, m in zip(runs, mres):
        if r['archived'] is None or not isinstance(m, dict) or 'results' not in m:
            continue
        allowed = dict(zip(r['existing'], m['results']))
        want = sorted(p for p in r['existing']
                      if all(allowed.get('/'.join(p.split('/')[:k]), True) for k in range(1, p.count('/') + 2)))
        if want != r['archived'] or not r['root_archived']:
            e2e_bad += 1
            ctx.violation('property', 'walk: archived path set differs from {paths whose every prefix is allowed}: extra %s missing %s'
                          % (sorted(set(r['archived']) - set(want))[:3], sorted(set(want) - set(r['archived']))[:3]), {'case': r})
    err_kinds = {}
    for i in impl:
        k = 'ok' if isinstance(i, dict) and 'results' in i else (i.get('error') if isinstance(i, dict) else '?')
        err_kinds[k] = err_kinds.get(k, 0) + 1
    nontrivial = set()
    for c, i in zip(cases, impl):
        if isinstance(i, dict) and 'results' in i and len(set(i['results'])) == 2:
            nontrivial.add(c['spec'])
    ctx.coverage.update({
        'evaluations': len(cases) + len(runs),
        'distinct_nontrivial': len(nontrivial),
        'rule': 'structured rule lists (literals, *, ?, **/, /**/, /**, {a,b}, [ab], [!a], [a-b], escaped space, comments/blank lines, leading/trailing whitespace) with 6 paths each of depth<=4; '
                'raw random glob strings over a,b,/,*,?,{,},\\,,[,],!,-,backslash,space,.,^,ю for the parser; non-trivial = a rule list under which the sampled paths split into allowed and denied; distinct by spec',
        'samples': [cases[0], cases[len(cases) // 2]],
        'correspondence': st, 'parse_outcomes': err_kinds, 'e2e_runs': len(runs), 'e2e_failures': e2e_bad,
        'disagreements_checked': st['cases'],
        'exhaustive': ctx.tier == 'thorough',
        'explanation': 'thorough adds every glob of <= 3 atoms from {a,b,*,?,/,**,{a,b},[!a]} against all paths of depth <= 3 over {a,b,ab}',
    })
    ctx.assumptions += ['class members are ASCII (byte-mode regex classes)', 'globset 0.4.15 + regex-automata: the regex engine itself is trusted to implement the regex the glob is translated to']
