"""C03 — publication is atomic and completed backups are immutable under kills and I/O faults.
Theorems: Props/C03.lean (accept_prefix, kill_safe, final_not_temp, runOps_accept).

Correspondence / search: for the scenarios first backup, append, rotation with removal of an old group,
start-up with an abandoned temporary, and same-second name collision, a baseline run is traced at the
libc boundary; then the run is repeated from the identical storage with the process killed just before /
just after call #n, or call #n failing with ENOSPC / EIO / EACCES, for the storage calls n of the run
(quick: a stride sample that always contains every mutating call; thorough: every call, every mode).
After each: (1) the verified monitor `accept` must accept the (prefix) trace; (2) an independent oracle
decodes the storage: pre-existing backups byte-identical, every final-named directory in a group that is
not being deleted complete and decodable (and `vsb restore`d for the new one), temporaries invisible to the
real listing; a failing run exits non-zero and leaves no temporary of its own; (3) a follow-up run (same
day / next day) exits 0, removes abandoned temporaries of the group it uses and publishes a complete
backup."""
import hashlib, json, os, random, shutil, subprocess
from concurrent.futures import ThreadPoolExecutor
from vlib import core, store, hist, trace as tr

LEVEL = 'proof'
MUTATING = ('mkdir', 'open', 'write', 'fsync', 'fsyncdir', 'rename', 'unlink', 'rmdir')


def hash_tree(root):
    out = {}
    for d, dn, fn in os.walk(root):
        for f in fn:
            p = os.path.join(d, f)
            out[os.path.relpath(p, root)] = hashlib.sha256(open(p, 'rb').read()).hexdigest()
        if not dn and not fn:
            out[os.path.relpath(d, root) + '/'] = 'emptydir'
    return out


def final_backups(root):
    out = []
    for g in sorted(os.listdir(root)):
        gp = os.path.join(root, g)
        if store.GROUP_RE.match(g) and os.path.isdir(gp):
            for b in sorted(os.listdir(gp)):
                if store.BACKUP_RE.match(b) and os.path.isdir(os.path.join(gp, b)):
                    out.append((g, b))
    return out


def temporaries(root):
    out = []
    for g in sorted(os.listdir(root)):
        gp = os.path.join(root, g)
        if os.path.isdir(gp):
            out += [(g, b) for b in sorted(os.listdir(gp)) if b.startswith('.')]
    return out


def complete(root, g, b):
    """Independent completeness: both files decode, every data-carrying record has its archive entry with the
    recorded size and hash, every extern resolves to an earlier unique of the group. -> None or reason"""
    bp = os.path.join(root, g, b)
    try:
        recs = store.read_manifest(bp)
    except Exception as e:
        return 'manifest unreadable: %r' % e
    try:
        entries, _ = store.read_archive(bp)
    except Exception as e:
        return 'archive unreadable: %r' % e
    files = {'/' + e['path'].lstrip('/'): e for e in entries if e['type'] == 'file'}
    earlier = set()
    for b2 in sorted(os.listdir(os.path.join(root, g))):
        if store.BACKUP_RE.match(b2) and b2 < b:
            try:
                earlier |= {r['hash'] for r in store.read_manifest(os.path.join(root, g, b2)) if r['unique']}
            except Exception:
                pass
    for r in recs:
        if r['unique'] or r['size'] == 0:
            e = files.get(r['path'])
            if e is None:
                return 'no archive entry for %s' % r['path']
            if e['size'] != r['size'] or e['sha512'] != r['hash']:
                return 'archive entry of %s differs from its record' % r['path']
            if r['unique']:
                earlier.add(r['hash'])
        elif r['hash'] not in earlier:
            return 'extern %s not resolvable' % r['path']
    return None


class Scenario:
    def __init__(self, ctx, name, sid):
        self.ctx, self.name = ctx, name
        rng = random.Random(sid)
        mg, mp = (1, 1) if name == 'rotate' else (2, 3)
        self.w = w = hist.World(ctx, 9000 + sid, rng, max_groups=mg, max_per_group=mp)
        w.now = hist.T0
        for k in range(4):
            w.write(os.path.join(w.items[0], 'f%d' % k), k + 1, [0, 10, 3000, 70000][k])
        os.mkdir(os.path.join(w.items[0], 'sub'))
        w.write(os.path.join(w.items[0], 'sub', 'dup'), 3, 3000)
        self.expect_fail = False
        if name == 'first':
            self.t = w.now
        else:
            r = w.backup(advance=0)
            assert r.rc == 0, r.errors()
            w.write(os.path.join(w.items[0], 'new'), 9, 500)
            if name == 'append':
                self.t = w.now + 60
            elif name == 'bigfile':
                # enough incompressible data for the compressor to write to data.tar.zst while files are still being
                # added (with small trees every write happens at the end, in finish)
                self.t = w.now + 60
                with open(os.path.join(w.items[0], 'big'), 'wb') as f:
                    f.write(random.Random(sid).randbytes(1200000))
                w.write(os.path.join(w.items[0], 'zlast'), 11, 700)
            elif name == 'rotate':
                self.t = w.now + hist.DAY
            elif name == 'abandoned':
                self.t = w.now + 60
                d = os.path.join(w.root, store.group_name(w.now), '.' + store.backup_name(w.now - 30))
                os.mkdir(d)
                open(os.path.join(d, 'data.tar.zst'), 'wb').write(b'partial')
                open(os.path.join(d, 'metadata.zst'), 'wb').close()
            elif name == 'collision':
                self.t = w.now
                self.expect_fail = True
        self.template = os.path.join(w.base, 'template')
        shutil.copytree(w.root, self.template, symlinks=True)
        self.pre = hash_tree(self.template)
        self.pre_backups = final_backups(self.template)

    def case_dir(self, k):
        d = os.path.join(self.w.base, 'case-%d' % k)
        os.makedirs(d)
        root = os.path.join(d, 'storage')
        subprocess.run(['cp', '-a', self.template, root], check=True)
        cfg = os.path.join(d, 'config.yaml')
        store.write_config(cfg, 'b', root, [{'path': self.w.items[0]}], self.w.max_groups, self.w.max_per_group)
        return d, root, cfg

    def cleanup(self):
        self.w.cleanup()


def run_traced(ctx, cfg, root, now, tfile, extra=None):
    env = {'TRACE': tfile, 'WATCH': root}
    env.update(extra or {})
    return store.run_vsb(ctx, ['-c', cfg, 'backup', 'b'], now=now, shim_env=env, timeout=60)


def baseline(ctx, sc):
    d, root, cfg = sc.case_dir(0)
    t = os.path.join(d, 'trace.txt')
    r = run_traced(ctx, cfg, root, sc.t, t)
    recs = [x for x in tr.parse(t, root) if x['seq'].isdigit() and x['call'] not in ('EXIT', 'ACTION', 'PAUSE')]
    shutil.rmtree(d, ignore_errors=True)
    return r, recs


def one_case(ctx, sc, k, n, mode, follow):
    """mode: 'kb' | 'ka' | errno name"""
    d, root, cfg = sc.case_dir(k)
    res = {'scenario': sc.name, 'n': n, 'mode': mode, 'follow': follow, 'problems': []}
    try:
        t1 = os.path.join(d, 'trace1.txt')
        extra = {'KILL': '#%d:%s' % (n, 'before' if mode == 'kb' else 'after')} if mode in ('kb', 'ka') else {'FAULT': '#%d=%s' % (n, mode)}
        r = run_traced(ctx, cfg, root, sc.t, t1, extra)
        recs = tr.parse(t1, root)
        ops, failed = tr.canonical(recs, root)
        res.update({'rc': r.rc, 'ops': ops, 'errors': r.errors()[:3]})
        hit = [x for x in recs if x['seq'] == str(n) and x['call'] not in ('ACTION', 'PAUSE')]
        res['call'] = (hit[-1]['call'].replace('KILL-BEFORE:', ''), tr.rel(hit[-1]['path'], root)) if hit else None
        creating = bool(hit) and hit[-1]['call'].endswith('open') and 'CREAT' in (hit[-1].get('extra') or '')
        own_tmp = (store.group_name(sc.t) if sc.name in ('first', 'rotate') else store.group_name(hist.T0), '.' + store.backup_name(sc.t))
        own_final = (own_tmp[0], own_tmp[1][1:])
        s1 = hash_tree(root)
        # where (if anywhere) the run's backup got its final name: normally the group chosen from a clean listing, but a
        # listing that failed on an older backup may legitimately send it to another group
        where = [x for x in final_backups(root) if x[1] == own_final[1] and x not in sc.pre_backups]
        published = bool(where)
        if published:
            own_final = where[0]
            own_tmp = (own_final[0], own_tmp[1])
        # --- (2) oracle on the state after the kill / failure
        for (g, b) in sc.pre_backups:
            deleting = sc.name == 'rotate' and published and g != own_final[0]
            if deleting:
                continue
            pref = '%s/%s/' % (g, b)
            before = {p: h for p, h in sc.pre.items() if p.startswith(pref)}
            after = {p: h for p, h in s1.items() if p.startswith(pref)}
            if before != after:
                res['problems'].append('a backup that was complete before the run changed: %s/%s (%s)' % (g, b, sorted(set(before.items()) ^ set(after.items()))[:2]))
        for (g, b) in final_backups(root):
            if sc.name == 'rotate' and published and g != own_final[0]:
                continue
            why = complete(root, g, b)
            if why:
                res['problems'].append('final-named %s/%s is not a complete backup: %s' % (g, b, why))
        if mode not in ('kb', 'ka'):
            if r.rc == 0 and not published:
                res['problems'].append('exit status 0 although nothing was published')
            hit_own_cleanup = res['call'] and res['call'][0] in ('unlink', 'rmdir', 'opendir', 'fdopendir', 'open', 'lstat', 'stat', 'fstat', 'readdir', 'close', 'closedir') \
                and res['call'][1] and list(res['call'][1][:2]) == list(own_tmp) and not creating      # (a failed creation of a file is not part of the clean-up)
            if r.rc != 0 and os.path.lexists(os.path.join(root, *own_tmp)) and not hit_own_cleanup:
                res['problems'].append('the failing run left its own temporary directory %s/%s' % own_tmp)
            if r.rc == 0 and res['call'] and res['call'][0] in MUTATING and res['call'][1] and list(res['call'][1][:2]) == list(own_tmp):
                res['problems'].append('exit status 0 although %s on %s failed with %s' % (res['call'][0], '/'.join(res['call'][1]), mode))
        res['published'] = published
        res['temporaries_after'] = temporaries(root)
        # temporaries are invisible to the real listing
        if res['temporaries_after'] or k % 7 == 0:
            out = core.run_lines(core.harness_exe(ctx), [core.req('listgroups', {'root': root})])[0]
            names = [b for g in (out.get('groups') or []) for b in g.get('backups', [])] if isinstance(out, dict) and out.get('result') == 'ok' else None
            if names is None:
                res['problems'].append('listing failed: %s' % str(out)[:200])
            elif any(nm.startswith('.') for nm in names):
                res['problems'].append('the listing shows a temporary backup: %s' % names)
        # new backup restorable with the real tool
        if published and (mode in ('kb', 'ka') or r.rc != 0 or k % 5 == 0):
            rd = os.path.join(d, 'restored')
            rr = store.run_vsb(ctx, ['-c', cfg, 'restore', os.path.join(root, *own_final), rd])
            if rr.rc != 0:
                res['problems'].append('vsb restore of the final-named %s/%s fails: %s' % (own_final + (rr.errors()[:1],)))
            shutil.rmtree(rd, ignore_errors=True)
        # --- (3) follow-up run
        partial_group = sc.name == 'rotate' and published and any(p.startswith(sc.pre_backups[0][0] + '/') or p == sc.pre_backups[0][0] + '/' for p in s1) \
            and {p: h for p, h in s1.items() if p.startswith(sc.pre_backups[0][0])} != {p: h for p, h in sc.pre.items() if p.startswith(sc.pre_backups[0][0])}
        if published and sc.w.max_per_group == 1:
            follow = res['follow'] = 'next-day'     # a second backup on the same day cannot fit a group of one: not a crash matter
        t2 = sc.t + (7 if follow == 'same-day' else hist.DAY)
        s1_backups = final_backups(root)
        s1_groups = [g for g in os.listdir(root) if store.GROUP_RE.match(g) and os.path.isdir(os.path.join(root, g))]
        r2 = store.run_vsb(ctx, ['-c', cfg, 'backup', 'b'], now=t2)
        res.update({'rc2': r2.rc, 'errors2': r2.errors()[:3], 'partial_group': partial_group})
        s2 = hash_tree(root)
        new2 = [x for x in final_backups(root) if x not in s1_backups]
        if len(new2) != 1 or new2[0][1] != store.backup_name(t2):
            res['problems'].append('the follow-up run (%s) did not publish exactly its backup: new %s, errors %s' % (follow, new2, r2.errors()[:2]))
        else:
            why = complete(root, *new2[0])
            if why:
                res['problems'].append('the follow-up backup %s/%s is incomplete: %s' % (new2[0] + (why,)))
            left = [x for x in temporaries(root) if x[0] == new2[0][0]]
            if left:
                res['problems'].append('the follow-up run left temporaries in the group it used: %s' % left)
        if r2.rc != 0 and not partial_group:
            groups1 = sorted(s1_groups)
            stale = [g for g in groups1[-1:] if g != store.group_name(t2) and not any(x[0] == g for x in s1_backups)]
            if stale and any('Suspicious first backup' in e for e in r2.errors()) and new2 and new2[0][0] == stale[0]:
                res['problems'].append('the follow-up run adopted the empty group %s left by the interrupted run on a later day and exits %d: %s'
                                       % (stale[0], r2.rc, r2.errors()[:1]))
            else:
                res['problems'].append('the follow-up run (%s) exits %d: %s' % (follow, r2.rc, r2.errors()[:2]))
        # what verification says about the storage the history ends with (used by C13)
        v = core.run_lines(core.harness_exe(ctx), [core.req('verify', {'root': root})])[0]
        res['verify'] = {'ok': v.get('ok') if isinstance(v, dict) else None, 'errors': [m for l, m in (v.get('logs') or []) if l == 'E'][:3] if isinstance(v, dict) else str(v)[:200]}
        res['stale_adopted'] = bool(r2.rc != 0 and any('Suspicious first backup' in e for e in r2.errors()))
        for (g, b) in s1_backups:
            if not os.path.isdir(os.path.join(root, g)):
                continue            # whole group removed by retention
            if sc.name == 'rotate' and g == sc.pre_backups[0][0]:
                continue
            pref = '%s/%s/' % (g, b)
            if {p: h for p, h in s1.items() if p.startswith(pref)} != {p: h for p, h in s2.items() if p.startswith(pref)}:
                res['problems'].append('the follow-up run changed the complete backup %s/%s' % (g, b))
    finally:
        subprocess.run(['chmod', '-R', 'u+rwx', d], stderr=subprocess.DEVNULL)
        shutil.rmtree(d, ignore_errors=True)
    return res


def check(ctx):
    aud = core.audit(ctx.prop)
    core.report_audit(ctx, aud)
    core.proof_coverage(ctx, aud)
    bindir, err = core.build_impl(ctx)
    if bindir is None:
        ctx.violation('runtime', 'repository does not build: ' + err[-400:], {}, found_input=False)
        return
    store.ensure_shim()
    ctx.scratch_dir()
    results = []
    plan_only = None
    if ctx.replay:
        plan_only = json.load(open(ctx.replay)).get('case', {}).get('case')
    names = ['first', 'append', 'rotate', 'abandoned', 'collision', 'bigfile']
    stats = {}
    for sid, name in enumerate(names):
        if plan_only and plan_only.get('scenario') != name:
            continue
        sc = Scenario(ctx, name, sid)
        try:
            r0, recs = baseline(ctx, sc)
            if (r0.rc != 0) != sc.expect_fail:
                ctx.violation('property' if not sc.expect_fail else 'property',
                              'baseline run of scenario %s exits %d (%s)' % (name, r0.rc, r0.errors()[:2]), {'case': {'scenario': name}})
                continue
            ncalls = len(recs)
            plan = []
            if plan_only:
                plan = [(plan_only['n'], plan_only['mode'], plan_only['follow'])]
            else:
                errs = ['ENOSPC', 'EIO', 'EACCES']
                for i, rec in enumerate(recs):
                    n = int(rec['seq'])
                    mut = rec['call'] in MUTATING and (rec['call'] != 'open' or 'CREAT' in rec['extra'])
                    if ctx.tier == 'thorough':
                        for m in ['kb', 'ka'] + errs:
                            plan.append((n, m, 'same-day' if (n + len(m)) % 2 else 'next-day'))
                    else:
                        if name == 'bigfile' and rec['call'] == 'write' and i % 4 != ctx.seed % 4:
                            continue
                        if mut or rec['call'] in ('opendir', 'flock') or i % 5 == ctx.seed % 5:
                            plan.append((n, 'kb' if not mut else ['kb', 'ka'][n % 2], ['same-day', 'next-day'][(n // 2) % 2]))
                            plan.append((n, errs[(n + ctx.seed) % 3], ['next-day', 'same-day'][(n // 2) % 2]))
                # always: the two kill points around the creation of a new group / the temporary directory / the rename
                for rec in recs:
                    if rec['call'] in ('mkdir', 'rename'):
                        for m in ('kb', 'ka'):
                            for f in ('same-day', 'next-day'):
                                if (int(rec['seq']), m, f) not in plan:
                                    plan.append((int(rec['seq']), m, f))
            with ThreadPoolExecutor(max_workers=12) as ex:
                rs = list(ex.map(lambda a: one_case(ctx, sc, a[0] + 1, *a[1]), enumerate(plan)))
            results += rs
            stats[name] = {'storage_calls': ncalls, 'cases': len(rs)}
        finally:
            sc.cleanup()
    # (1) the verified monitor on every trace
    verdicts = core.run_lines(core.model_exe(), [core.req('tracecheck', {'ops': r.get('ops', [])}) for r in results])
    rejected = 0
    for r, v in zip(results, verdicts):
        case = {'scenario': r['scenario'], 'n': r['n'], 'mode': r['mode'], 'follow': r['follow']}
        if not isinstance(v, dict):
            ctx.violation('proof', 'model driver failed on a trace', {'case': case}, found_input=False)
        elif not v['accept']:
            rejected += 1
            ctx.violation('property', 'the atomic-publication monitor rejects the storage trace of a run (%s at call #%d of scenario %s): '
                          'a write outside the temporary directory, a second rename, or a removal before publication' % (r['mode'], r['n'], r['scenario']),
                          {'case': case, 'ops': r.get('ops', [])[:80]})
        for p in r['problems']:
            ctx.violation('property', '%s [scenario %s, %s at call #%d %s, follow-up %s]' % (p, r['scenario'], r['mode'], r['n'], r.get('call'), r['follow']),
                          {'case': case, 'rc': r.get('rc'), 'errors': r.get('errors'), 'rc2': r.get('rc2'), 'errors2': r.get('errors2')})
    kinds = {}
    for r in results:
        key = '%s/%s' % (r['mode'] if r['mode'] in ('kb', 'ka') else 'fault', (r.get('call') or ['?'])[0])
        kinds[key] = kinds.get(key, 0) + 1
    ctx.coverage.update({
        'evaluations': len(results),
        'distinct_nontrivial': len({(r['scenario'], r['n'], r['mode']) for r in results if r.get('call')}),
        'rule': 'scenarios first / append / rotate (old group removed) / abandoned temporary / same-second collision / a tree big enough for writes to the data file while files are being added; kill before, kill after, ENOSPC, EIO, EACCES at storage call #n '
                '(quick: every mutating call, every opendir, the flock and a 1-in-5 stride of the others, one kill and one errno each; thorough: every call x 5 modes); '
                'each followed by a same-day or next-day run; non-trivial = the injected call was reached',
        'samples': [{k: v for k, v in r.items() if k in ('scenario', 'n', 'mode', 'call', 'rc', 'rc2', 'published', 'temporaries_after')} for r in results[:3]],
        'scenarios': stats, 'injection_kinds': kinds, 'monitor_rejections': rejected,
        'runs_that_left_temporaries': sum(1 for r in results if r.get('temporaries_after')),
        'runs_published': sum(1 for r in results if r.get('published')),
        'traces_validated_against_impl': len(results), 'disagreements_checked': len(results),
        'correspondence': {'traces': len(results), 'monitor_rejections': rejected},
    })
    ctx.assumptions += ['kills are SIGKILL at libc call boundaries (the kernel completes or does not start the system call); power loss is C12\'s subject',
                        'a fault is an errno returned instead of performing the call; partial writes are not injected',
                        'calls are observed at the libc boundary; the interposer\'s numbering is deterministic because vsb performs storage I/O on one thread']
