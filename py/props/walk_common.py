"""Shared by C08 and C19: real `vsb backup` runs on generated trees with per-path fault injection
through the interposer, hooks that act on the items, special files and invalid names; compared with
`Vsb.Walk.run` of the model."""
import concurrent.futures, json, os, random, re, shutil, socket, stat, subprocess
from vlib import core, store, hist

NAMES = ['a', 'b', 'c', 'dd', 'e.txt', 'f g', 'hh', 'skipme', 'k']


def build_tree(rng, root, depth=0, maxn=5):
    """Creates a random tree under `root` (an existing dir); returns the model node of `root`."""
    children = []
    names = rng.sample(NAMES, rng.randint(0, maxn if depth < 2 else 2))
    for n in names:
        p = os.path.join(root, n)
        k = rng.choice(['file', 'file', 'file', 'dir', 'dir', 'symlink', 'fifo', 'socket'] if depth < 3 else ['file', 'symlink'])
        if k == 'file':
            size = rng.choice([0, 1, 10, 5000])
            with open(p, 'wb') as f:
                f.write(b'x' * size)
            node = {'kind': 'file', 'size': size}
        elif k == 'dir':
            os.mkdir(p)
            node = build_tree(rng, p, depth + 1, maxn)
        elif k == 'symlink':
            os.symlink(rng.choice(['/nonexistent', 'a', '..']), p)
            node = {'kind': 'symlink'}
        elif k == 'fifo':
            os.mkfifo(p)
            node = {'kind': 'special'}
        else:
            s = socket.socket(socket.AF_UNIX)
            try:
                s.bind(p)
                node = {'kind': 'special'}
            except OSError:
                s.close()
                continue
            s.close()
        children.append({'name': n, 'node': node})
    # names that cannot be represented
    if depth <= 1 and rng.random() < 0.15:
        bad = os.path.join(os.fsencode(root), b'cr\rname')
        open(bad, 'wb').close()
        children.append({'name': 'cr\rname', 'path_valid': False, 'node': {'kind': 'file'}})
    if depth <= 1 and rng.random() < 0.15:
        bad = os.path.join(os.fsencode(root), b'bad\xff\xfename')
        open(bad, 'wb').close()
        children.append({'name': 'bad\udcff\udcfename', 'utf8': False, 'node': {'kind': 'file'}, 'raw': True})
    return {'kind': 'dir', 'children': children}


def walk_model_nodes(node, path, out):
    out.append((path, node))
    if node['kind'] == 'dir':
        for c in node['children']:
            if c.get('raw'):
                continue
            walk_model_nodes(c['node'], path + '/' + c['name'], out)


ERRNO = {'other': ['EACCES', 'EIO'], 'notFound': ['ENOENT']}
TYPECHANGE = {'open': 'ELOOP', 'opendir': 'ENOTDIR', 'readlink': 'EINVAL'}


FORCED = [('opendir', 'ELOOP'), ('open', 'ENOTDIR'), ('readlink', 'ELOOP'), ('opendir', 'EINVAL'), ('open', 'EINVAL'), ('readlink', 'ENOTDIR')]


def inject_fault(rng, nodes, top_path, force=None):
    """Pick a node and a call; mutate the model node; return the interposer FAULT spec.
    force=(call, errno): an errno that means "changed its type" for another call, at a node below the item root - an
    ordinary error for this call (reported, exit status non-zero)."""
    cands = [(p, n) for p, n in nodes if n['kind'] in ('file', 'dir', 'symlink') and '\r' not in p]
    if force is not None:
        kind = {'opendir': 'dir', 'open': 'file', 'readlink': 'symlink'}[force[0]]
        fc = [(p, n) for p, n in cands if n['kind'] == kind and p != top_path and force[0] not in n]
        if fc:
            p, n = rng.choice(fc)
            n[force[0]] = 'other'
            return '%s@%s=%s' % (force[0], p, force[1])
    if not cands:
        return None
    p, n = rng.choice(cands)
    calls = {'file': ['lstat', 'open', 'fstat'] + (['read'] if n.get('size', 0) > 0 else []), 'dir': ['lstat', 'opendir', 'readdir'], 'symlink': ['lstat', 'readlink']}[n['kind']]
    if p == top_path:
        calls = [c for c in calls if c != 'lstat' or True]
    call = rng.choice(calls)
    if call in n:
        return None     # one fault per (call, path): the interposer applies the first spec only
    if call == 'read':
        # an error while the file's bytes are read for the archive is fatal: the run aborts, nothing is published
        n['read'] = 'other'
        n['archive_ok'] = False
        return 'read@%s=EIO' % p
    cls = rng.choice(['other', 'other', 'notFound', 'typeChange'])
    if cls == 'typeChange':
        if call not in TYPECHANGE:
            cls = 'other'
        else:
            errno = TYPECHANGE[call]
    if cls != 'typeChange':
        errno = rng.choice(ERRNO[cls])
        if cls == 'other' and rng.random() < 0.5:
            # an errno that means "changed its type" for another call is an ordinary error for this one
            errno = rng.choice([e for c_, e in sorted(TYPECHANGE.items()) if c_ != call])
    if call == 'lstat':
        # the whole node is replaced: nothing below it is visited
        n.clear()
        n.update({'kind': 'lstatFails', 'err': cls})
    else:
        n[call] = cls
    return '%s@%s=%s' % (call, p, errno)


def one_case(ctx, cid, seed, mode):
    rng = random.Random(seed)
    force_overlap = cid % 8 == 3          # a steady share of cases with overlapping items, in both orders
    w = hist.World(ctx, cid, rng, max_groups=3, max_per_group=3, nitems=rng.choice([2, 3]) if force_overlap else rng.choice([1, 1, 2, 3]))
    try:
        items = []
        faults = []
        hooklog = os.path.join(w.base, 'hooks.log')
        cfg_items = []
        for i, it in enumerate(w.items):
            real = os.path.realpath(it)
            m = {'resolved': [c for c in real.split('/') if c], 'filter': None}
            kind = rng.choice(['tree'] * 8 + ['missing', 'file', 'overlap', 'fifo']) if mode == 'faults' else rng.choice(['tree'] * 6 + ['missing', 'overlap'])
            cfg_path = it
            if force_overlap:
                kind = 'tree' if i == 0 else 'overlap' if i == 1 else kind
            if kind == 'tree':
                m['node'] = build_tree(rng, it)
                if force_overlap and i == 0 and not any(c['node']['kind'] == 'dir' and not c.get('raw') and c.get('path_valid', True) for c in m['node']['children']):
                    os.mkdir(os.path.join(it, 'ovl'))
                    open(os.path.join(it, 'ovl', 'inner'), 'w').write('inner')
                    m['node']['children'].append({'name': 'ovl', 'node': {'kind': 'dir', 'children': [{'name': 'inner', 'node': {'kind': 'file'}}]}})
                if rng.random() < 0.3:
                    m['filter'] = rng.choice(['- skipme', '- **/skipme\n- *.txt', '+ dd/a\n- dd/*'])
            elif kind == 'missing':
                shutil.rmtree(it)
                m['resolved'] = None
            elif kind == 'file':
                shutil.rmtree(it)
                open(it, 'w').write('top-level file')
                m['node'] = {'kind': 'file'}
            elif kind == 'fifo':
                shutil.rmtree(it)
                os.mkfifo(it)
                m['node'] = {'kind': 'special'}
            elif kind == 'overlap' and i > 0 and items[0]['resolved'] is not None and items[0].get('node', {}).get('kind') == 'dir':
                # a path inside (or equal to) the first item
                sub = [c for c in items[0]['node']['children'] if c['node']['kind'] == 'dir' and not c.get('raw') and c.get('path_valid', True)]
                cfg_path = os.path.join(w.items[0], sub[0]['name']) if sub and rng.random() < 0.7 else w.items[0]
                m['resolved'] = [c for c in os.path.realpath(cfg_path).split('/') if c]
                m['node'] = {'kind': 'dir', 'children': []}   # never visited
                m['no_faults'] = True
                if cfg_path != w.items[0]:
                    m['node_real'] = sub[0]['node']
            else:
                m['node'] = build_tree(rng, it)
            # hooks: the before hook creates a file in the item, the after hook removes one
            hb = rng.choice(['absent', 'succeeds', 'succeeds', 'fails'])
            ha = rng.choice(['absent', 'succeeds', 'succeeds', 'fails'])
            m['before'], m['after'] = hb, ha
            before_cmd = after_cmd = None
            is_tree = m['resolved'] is not None and m.get('node', {}).get('kind') == 'dir' and kind in ('tree',)
            if hb != 'absent':
                before_cmd = 'echo before%d >> %s' % (i, hooklog)
                if is_tree:
                    before_cmd += '; touch %s/made-by-before' % it
                    m['node']['children'].append({'name': 'made-by-before', 'node': {'kind': 'file'}})
                if hb == 'fails':
                    before_cmd += rng.choice(['; exit 3', '; kill -KILL $$', '; kill -TERM $$', '; exit 127', '; /nonexistent/command-of-the-hook', '; exit 126'])   # a hook killed by a signal failed too
            if ha != 'absent':
                after_cmd = 'echo after%d >> %s' % (i, hooklog)
                if is_tree:
                    open(os.path.join(it, 'removed-by-after'), 'w').close()
                    m['node']['children'].append({'name': 'removed-by-after', 'node': {'kind': 'file'}})
                    after_cmd += '; rm %s/removed-by-after' % it
                if ha == 'fails':
                    after_cmd += rng.choice(['; exit 4', '; kill -KILL $$', '; exit 126', '; no-such-command-anywhere-xyz', '; exit 255'])
            items.append(m)
            cfg_items.append({'path': cfg_path, 'filter': m['filter'], 'before': before_cmd, 'after': after_cmd})
        # overlapping items in the other order: the inner one first, the enclosing one later
        for j in range(1, len(items)):
            if 'node_real' in items[j] and (rng.random() < 0.5 or (force_overlap and cid % 16 == 3)):
                items[j]['node'], items[j]['no_faults'] = items[j].pop('node_real'), False
                items[0]['no_faults'] = True
                items[0], items[j] = items[j], items[0]
                cfg_items[0], cfg_items[j] = cfg_items[j], cfg_items[0]
                for idx in (0, j):
                    for key in ('before', 'after'):
                        if cfg_items[idx][key]:
                            cfg_items[idx][key] = re.sub(r'echo (before|after)\d+', lambda mm: 'echo %s%d' % (mm.group(1), idx), cfg_items[idx][key])
                break
        # faults
        nf = 0 if mode == 'hooks' else rng.choice([0, 1, 1, 1, 2])
        if mode == 'faults' and cid % 10 == 7:
            nf = max(nf, 1)
        for _ in range(nf):
            pool = []
            for m in items:
                if m['resolved'] is not None and 'node' in m and not m.get('no_faults'):
                    nodes = []
                    walk_model_nodes(m['node'], '/' + '/'.join(m['resolved']), nodes)
                    pool.append((m, nodes))
            if not pool:
                break
            m, nodes = rng.choice(pool)
            force = FORCED[(cid // 10) % len(FORCED)] if (mode == 'faults' and cid % 10 == 7 and not faults) else None
            f = inject_fault(rng, nodes, '/' + '/'.join(m['resolved']), force)
            if f:
                faults.append(f)
        finish_ok = True
        w.now += 10
        bname = store.backup_name(w.now)
        if mode == 'faults' and rng.random() < 0.06:
            finish_ok = False
            faults.append('fsync@%s/%s/.%s/data.tar.zst=EIO' % (w.root, store.group_name(w.now), bname))
        # one case in ten runs on a storage that already holds a full group of the day before, under limits (1, 1): the run
        # opens a new group and an old one is due for removal - whatever the run reported
        preseed = mode == 'faults' and cid % 10 == 4
        if preseed:
            pre_item = os.path.join(w.base, 'pre-item')
            os.makedirs(pre_item, exist_ok=True)
            open(os.path.join(pre_item, 'old'), 'w').write('old')
            store.write_config(w.cfg + '.pre', 'b', w.root, [{'path': pre_item}], 1, 1)
            store.run_vsb(ctx, ['-c', w.cfg + '.pre', 'backup', 'b'], now=w.now - 86400)
        store.write_config(w.cfg, 'b', w.root, cfg_items, 1 if preseed else 3, 1 if preseed else 3)
        shim_env = {'FAULT': ';'.join(faults)} if faults else None
        r = store.run_vsb(ctx, ['-c', w.cfg, 'backup', 'b'], now=w.now, shim_env=shim_env)
        # observations
        dec = w.decode_storage()
        archived = None
        for g in dec:
            for b in dec[g]:
                if dec[g][b]['entries'] is not None and (not preseed or b == bname):
                    archived = sorted(('dir' if e['type'] == 'dir' else 'link' if e['type'] == 'symlink' else 'file', '/' + e['path'])
                                      for e in dec[g][b]['entries'])
        hooks = open(hooklog).read().split() if os.path.exists(hooklog) else []
        leftovers = [x for g in os.listdir(w.root) for x in os.listdir(os.path.join(w.root, g)) if x.startswith('.')]
        return {'id': cid, 'items': items, 'faults': faults, 'finish_ok': finish_ok, 'rc': r.rc,
                'errors': r.errors(), 'warnings': r.warnings(), 'archived': archived, 'hooks': hooks,
                'temp_left': leftovers, 'cfg_paths': [c['path'] for c in cfg_items], 'base': w.base}
    finally:
        w.cleanup()


PATH_RE = re.compile(r'"((?:[^"\\]|\\.)*)"')


def unq(s):
    if '\\x' in s:
        return 'UNDECODABLE-NAME\udcff'     # Rust prints undecodable bytes as \xNN; only their number is compared
    try:
        return json.loads('"%s"' % s.replace('\\x', '\\u00'))
    except Exception:
        return s


def classify(case):
    """E:/W: lines -> sets comparable with the model's events."""
    errs, warns, item_err, hook_failed, other = [], [], [], [], []
    for m in case['errors']:
        m1 = PATH_RE.search(m)
        path = unq(m1.group(1)) if m1 else None
        if m.startswith('`before` command for') or m.startswith('`after` command for') or m.startswith('Failed to execute `'):
            hook_failed.append(path)
        elif m.startswith('Failed to backup') or m.startswith('Skipping'):
            # an error on an item's own (configured or resolved) path is an item-level error
            roots = [c for c in case['cfg_paths']] + [os.path.realpath(c) for c in case['cfg_paths']]
            if path in roots:
                item_err.append(case['cfg_paths'][roots.index(path) % len(case['cfg_paths'])])
            else:
                errs.append(path)
        else:
            other.append(m)
    for m in case['warnings']:
        m1 = PATH_RE.search(m)
        path = unq(m1.group(1)) if m1 else None
        if 'hard links' in m or 'truncated' in m or 'temporary' in m:
            continue
        warns.append(path)
    return errs, warns, item_err, hook_failed, other


def model_view(m, case=None):
    if not isinstance(m, dict) or 'evs' not in m:
        return m
    evs = m['evs']
    roots = {}
    if case is not None:
        for i, it in enumerate(case['items']):
            if it['resolved'] is not None:
                roots.setdefault('/' + '/'.join(it['resolved']), i)
    cfgp = case['cfg_paths'] if case is not None else []
    item_errors = [cfgp[p] for k, p in evs if k == 'item-error'] + [cfgp[roots[p]] for k, p in evs if k == 'error' and p in roots]
    return {
        'archived': sorted((k, p) for k, p in evs if k in ('dir', 'file', 'link')) if m['result'] != 'aborted' else None,
        'errors': sorted(p for k, p in evs if k == 'error' and p not in roots),
        'warns': sorted(p for k, p in evs if k == 'warn'),
        'item_errors': sorted(item_errors),
        'hook_failed': sorted(cfgp[p] for k, p in evs if k == 'hook-failed'),
        'hooks': ['%s%d' % (k, p) for k, p in evs if k in ('before', 'after')],
        'exit0': m['result'] == 'ok',
    }


def impl_view(case):
    errs, warns, item_err, hook_failed, other = classify(case)
    # a non-UTF-8 name is printed lossily; map it back to the model's spelling by prefix
    def fix(p):
        return p
    return {
        'archived': [list(x) for x in case['archived']] if case['archived'] is not None else None,
        'errors': sorted(fix(p) for p in errs),
        'warns': sorted(warns),
        'item_errors': sorted(item_err),
        'hook_failed': sorted(hook_failed),
        'hooks': case['hooks'],
        'exit0': case['rc'] == 0,
        'other_errors': other,
    }


def model_request(case):
    items = []
    for m in case['items']:
        items.append({'before': m['before'], 'after': m['after'], 'resolved': m['resolved'], 'filter': m['filter'] or '',
                      'node': m.get('node')})
    return {'items': items, 'parents': {}, 'finish_ok': case['finish_ok']}


def run_cases(ctx, n, mode):
    store.ensure_shim()
    ctx.scratch_dir()
    seeds = [ctx.rng.randrange(1 << 30) for _ in range(n)]
    with concurrent.futures.ThreadPoolExecutor(16) as ex:
        cases = list(ex.map(lambda i: one_case(ctx, i, seeds[i], mode), range(n)))
    lines = [core.req('walk', model_request(c)) for c in cases]
    model = core.run_lines(core.model_exe(), lines, shards=8)
    return cases, model


def normalize_pair(mv, iv):
    """Make the two views comparable: lossy printing of undecodable names, unpublished runs."""
    if not isinstance(mv, dict) or 'errors' not in mv:
        return mv, iv
    mv = dict(mv)
    iv = dict(iv)
    iv.pop('other_errors', None)
    mv['archived'] = [list(x) for x in mv['archived']] if mv['archived'] is not None else None
    # undecodable names: compare only their number
    def split(xs):
        good = [x for x in xs if isinstance(x, str) and '\ufffd' not in x and '\udcff' not in x and '\\' not in x]
        return good, len(xs) - len(good)
    for k in ('errors', 'warns'):
        g1, b1 = split(mv[k]); g2, b2 = split(iv[k])
        mv[k] = [g1, b1]; iv[k] = [g2, b2]
    if mv['archived'] is None and iv.get('archived') is None:
        # the run was aborted by a fatal error: which siblings were visited before it depends on the directory
        # order, which the model does not fix; exit status, hooks, item-level errors and "nothing published" remain
        for k in ('errors', 'warns'):
            mv[k] = iv[k] = 'aborted-run'
    return mv, iv
