"""C12 — durable before named, and before anything older is deleted.  Theorems: Props/C12.lean.
Correspondence: the storage-side system-call trace of real runs (LD_PRELOAD interposer) in scenarios
with and without rotation / old-group removal / abandoned temporaries / many files is canonicalised,
must equal `runOps` of the model for the scenario it instantiates, and must be accepted by the verified
order monitor; rejected prefixes/reorderings yield the (k, recovered state) replay."""
import json, os, random
from vlib import core, store, hist, trace as tr

LEVEL = 'proof'


def run_scenarios(ctx):
    rng = ctx.rng
    out = []
    n = 6 if ctx.tier == 'quick' else 40
    for i in range(n):
        w = hist.World(ctx, i, random.Random(rng.randrange(1 << 30)), max_groups=rng.choice([1, 1, 2]), max_per_group=rng.choice([1, 2, 3]))
        forced = i == 1       # one storage where every later run rotates, removes the old group and has a reported (non-fatal) error
        if i == 0:
            w.max_per_group = max(2, w.max_per_group)       # (the second run appends to the first one's group: everything is known)
        if forced or i == 2:        # (storage 2: every later run rotates, would remove the old group, and has a failing flush)
            w.max_groups, w.max_per_group = 1, 1
        try:
            if i == 3:
                w.max_groups, w.max_per_group = 2, 3
            bigman = i == 3         # one storage whose manifest is long enough to be written out while the run is still archiving
            for k in range(4500 if bigman else rng.randint(1, 12 if i % 3 else 60)):
                open(os.path.join(w.items[0], 'f%d' % k), 'wb').write(os.urandom(10 if bigman else rng.choice([10, 5000, 200000])))
            nruns = 4 if i == 2 else 3 if forced else 2 if bigman else rng.randint(2, 4) if i == 0 else rng.randint(1, 4)
            if i == 5:
                nruns = 3
                w.max_groups, w.max_per_group = 2, 3
            damaged = i == 4        # one storage where the last run finds an unreadable manifest in the group it appends to, and an old group to remove
            if damaged:
                nruns = 3
                w.max_groups, w.max_per_group = 2, 1
            for r in range(nruns):
                if damaged and r == 2:
                    w.max_groups, w.max_per_group = 1, 3
                    gl = sorted(os.listdir(w.root))[-1]
                    bl = sorted(b_ for b_ in os.listdir(os.path.join(w.root, gl)) if not b_.startswith('.'))[-1]
                    with open(os.path.join(w.root, gl, bl, 'metadata.zst'), 'wb') as f:
                        f.write(b'not a zstd stream')
                if rng.random() < 0.3 and r > 0 and not damaged:
                    # an abandoned temporary in the newest group
                    g = sorted(os.listdir(w.root))[-1]
                    d = os.path.join(w.root, g, '.2001.01.01-00:00:0%d' % r)
                    os.makedirs(d, exist_ok=True)
                    open(os.path.join(d, 'data.tar.zst'), 'w').close()
                # (storage 0: at least two runs, the second over an unchanged tree - nothing new to store, the archive holds headers only)
                for _ in range(0 if (i == 0 and r == 1) else rng.randint(0, 3)):
                    w.edit()
                t = os.path.join(w.base, 'trace-%d.txt' % r)
                adv = hist.DAY if forced or (i == 2 and r == 1) else 5 if i == 2 else rng.choice([5, hist.DAY])
                if damaged:
                    adv = hist.DAY if r < 2 else 5
                if i == 5:
                    adv = 5
                env = {'TRACE': t, 'WATCH': w.root}
                fault = None
                flush_fault = i == 2      # one storage where every run has a failing flush, the directory flushes with EINVAL first
                clean01 = i == 0 and r <= 1          # (storage 0: the first two runs are undisturbed)
                if (rng.random() < 0.35 or flush_fault) and not forced and not damaged and not clean01 and i != 5:
                    # a flush that fails: the run must not go on to rename / report success / delete
                    tmp = os.path.join(w.root, sorted(os.listdir(w.root))[-1] if os.listdir(w.root) else store.group_name(w.now + adv), '.' + store.backup_name(w.now + adv))
                    grp_new = os.path.join(w.root, store.group_name(w.now + adv))
                    fault = rng.choice(['fsync@%s/data.tar.zst' % tmp, 'fsync@%s/metadata.zst' % tmp, 'fsyncdir@%s' % tmp, 'fsyncdir@%s' % os.path.dirname(tmp),
                                        'fsync@%s/.%s/data.tar.zst' % (grp_new, store.backup_name(w.now + adv)), 'fsyncdir@%s' % grp_new]) + '=' + rng.choice(['EIO', 'ENOSPC', 'EINVAL'])
                    if flush_fault and 1 <= r <= 2:
                        tmp2 = os.path.join(grp_new, '.' + store.backup_name(w.now + adv))
                        fault = ['fsyncdir@%s=EINVAL' % tmp2, 'fsyncdir@%s=EINVAL' % grp_new][r - 1]
                    elif flush_fault:
                        fault = None
                    if fault:
                        env['FAULT'] = fault
                if i == 5:
                    # one storage with, run by run: a failing flush of the data archive, a failing flush of the manifest, and a
                    # flush of the manifest that takes its time (whoever performs it: the name must wait for it)
                    env.pop('FAULT', None)
                    tmp = os.path.join(w.root, sorted(os.listdir(w.root))[-1] if os.listdir(w.root) else store.group_name(w.now + adv), '.' + store.backup_name(w.now + adv))
                    fault = ['fsync@%s/data.tar.zst=EIO' % tmp, 'fsync@%s/metadata.zst=ENOSPC' % tmp, None][r] if r < 3 else None
                    if fault:
                        env['FAULT'] = fault
                    elif r == 2:
                        env['ACTION'] = 'fsync@%s/metadata.zst@1=sleep:400' % tmp
                if bigman:
                    # a write to the manifest fails once in the middle of the run (later writes would succeed): not all bytes
                    # of the manifest can have reached the file, so the backup must not get its final name
                    for _ in range(40):
                        w.edit()
                    tmp = os.path.join(w.root, sorted(os.listdir(w.root))[-1] if os.listdir(w.root) else store.group_name(w.now + adv), '.' + store.backup_name(w.now + adv))
                    fault = 'write@%s/metadata.zst=%s@1' % (tmp, rng.choice(['ENOSPC', 'EIO', 'EFBIG'])) if r == 1 else None
                    env.pop('FAULT', None)
                    if fault:
                        env['FAULT'] = fault
                soft = (forced and r == 1) or (not forced and not damaged and not clean01 and i != 5 and rng.random() < 0.2)      # (the forced storage's last run is clean: rotation + removal)
                if soft:
                    # a configured item that does not exist: reported, exit status 1, and the backup is still made and published
                    w.items.append(os.path.join(w.base, 'no-such-item')); w.filters.append(None)
                res = w.backup(advance=adv, shim_env=env)
                if soft:
                    w.items.pop(); w.filters.pop()
                recs = tr.parse(t, w.root)
                ops, failed = tr.canonical(recs, w.root)
                out.append({'scenario': i, 'run': r, 'damaged_manifest': damaged and r == 2, 'rc': res.rc, 'ops': ops, 'failed': failed, 'errors': res.errors()[:3], 'fault': fault, 'soft_error': soft,
                            'fault_hit': any(f[0] in ('fsync', 'fsyncdir', 'write') for f in failed)})
        finally:
            w.cleanup()
    return out


def check(ctx):
    aud = core.audit(ctx.prop)
    core.report_audit(ctx, aud)
    core.proof_coverage(ctx, aud)
    bindir, err = core.build_impl(ctx)
    if bindir is None:
        ctx.violation('runtime', 'repository does not build: ' + err[-400:], {}, found_input=False)
        return
    store.ensure_shim()
    ctx.scratch_dir()
    runs = run_scenarios(ctx)
    good = [r for r in runs if not r.get('fault_hit') and r['rc'] == 0]
    # (a) the monitors on the real traces
    verdicts = core.run_lines(core.model_exe(), [core.req('tracecheck', {'ops': r['ops']}) for r in runs])
    # (b) the real trace is an instance of runOps
    scen = [tr.scenario_of(tr.strip_gc_reads(r['ops'])) for r in good]
    expected = core.run_lines(core.model_exe(), [core.req('runops', s) if s else 'runops null' for s in scen])
    cases, mv, iv = [], [], []
    for r, s, e in zip(good, scen, expected):
        real = tr.collapse_writes(tr.strip_gc_reads(r['ops']))
        cases.append({'scenario': r['scenario'], 'run': r['run'], 'derived_scenario': s})
        mv.append(tr.collapse_writes(e) if isinstance(e, list) else e)
        iv.append(real)
    st = core.judge(ctx, cases, mv, iv, None, label='runops')
    rejected = 0
    for r, v in zip(runs, verdicts):
        published = any(o[0] == 'rename' for o in r['ops'])
        if not isinstance(v, dict):
            ctx.violation('proof', 'model driver failed on a trace', {'case': r}, found_input=False)
            continue
        if not v['orderOk'] and not r.get('fault_hit'):
            rejected += 1
            ctx.violation('property', 'the order monitor rejects the storage trace of a real run: something is renamed, removed or reported before it is durable',
                          {'case': {'ops': r['ops'], 'rc': r['rc']}, 'verdict': v})
        wfail = [f for f in r['failed'] if f[0] == 'write']
        if wfail and published:
            ctx.violation('property', 'a write to %s failed (%s) during the run - its bytes cannot all be in the file - and the backup still got its final name (exit status %s)'
                          % ('/'.join(wfail[0][1]) if isinstance(wfail[0][1], list) else wfail[0][1], wfail[0][2], r['rc']),
                          {'case': {'ops': r['ops'][-30:], 'rc': r['rc'], 'fault': r['fault'], 'failed': r['failed']}})
        if not published and r['rc'] == 0:
            ctx.violation('property', 'exit status 0 without a rename', {'case': r})
        if r.get('fault_hit') and not v['orderOk']:
            rejected += 1
            ctx.violation('property', 'after a failed flush or write (%s) the run still renamed, reported success or deleted an older group' % r['fault'],
                          {'case': {'ops': r['ops'], 'rc': r['rc'], 'fault': r['fault'], 'failed': r['failed']}, 'verdict': v})
    nrot = sum(1 for s in scen if s and s['old_groups'])
    nab = sum(1 for s in scen if s and s['abandoned'])
    ctx.coverage.update({
        'evaluations': len(runs),
        'distinct_nontrivial': len({core.canon(s) for s in scen if s and (s['old_groups'] or s['abandoned'] or s['earlier'])}),
        'rule': 'real runs (1..60 files of 10 B..200 KB, 1..4 runs per storage, limits 1..2 x 1..3, same-day and next-day steps, abandoned temporaries) traced at the libc boundary; '
                'non-trivial = a run that appends to a group, removes abandoned temporaries or removes old groups; distinct by derived scenario',
        'samples': [scen[0]] if scen else [],
        'correspondence': st, 'traces_validated_against_impl': len(good), 'runs_with_old_group_removal': nrot, 'runs_with_abandoned_temporaries': nab,
        'monitor_rejections': rejected, 'runs_with_a_soft_error': sum(1 for r in runs if r.get('soft_error')), 'disagreements_checked': st['cases'], 'runs_with_a_failed_flush': sum(1 for r in runs if r.get('fault_hit')), 'runs_with_a_failed_write': sum(1 for r in runs if any(f[0] == 'write' for f in r['failed'])),
    })
    ctx.assumptions += ['file data persists only by fsync of the file, directory entries only by fsync of the directory (the property\'s model); creation of a new group directory in the root is assumed persisted',
                        'no real power loss is staged: the replay of a rejected trace is the trace plus the model\'s recovered state',
                        'calls are observed at the libc boundary (LD_PRELOAD); vsb performs storage I/O through libc only']
