"""C17 — splitter: theorems in Props/C17.lean; correspondence: real `stream_splitter::split` and the
private `StreamReader` vs the Lean model on generated producer/consumer scripts."""
import itertools, json
from vlib import core

LEVEL = 'proof'


def mk_msgs(sizes, term, extra=False):
    msgs = []
    v = 0
    for n in sizes:
        msgs.append({'p': [(v + k) % 251 for k in range(n)]})
        v += n
    if term == 'eof':
        msgs.append({'eof': sum(sizes) * 7 + 3})
    elif term == 'err':
        msgs.append({'err': 'upstream failure'})
    if extra:
        msgs.append({'p': [9]})
    return msgs


def expected_sends(sizes, mx, term):
    """Number of sends an unlimited run needs (independent arithmetic, not the model)."""
    total = sum(sizes)
    if total == 0:
        streams = 0
    elif mx is None:
        streams = 1
    else:
        streams = (total + mx - 1) // mx
    chunks = 0
    pos = 0
    for n in sizes:
        if n == 0:
            continue
        if mx is None:
            chunks += 1
        else:
            first = pos // mx
            last = (pos + n - 1) // mx
            chunks += last - first + 1
        pos += n
    return streams + chunks + (1 if term in ('eof', 'err') else 0)


def oracle(case, impl):
    """The property, checked directly on the implementation's event sequence."""
    mx, budget, msgs = case['max'], case['budget'], case['msgs']
    evs, res = impl.get('evs'), impl.get('res')
    if evs is None:
        return 'no event list: ' + core.canon(impl)[:100]
    data = []
    term = None
    after = False
    for m in msgs:
        if 'p' in m and term is None:
            data += m['p']
        elif term is None:
            term = m
        else:
            after = True
    bodies = []
    cur = None
    final = None
    err = None
    for k, e in enumerate(evs):
        if final is not None or err is not None:
            return 'event after the terminal event'
        if isinstance(e, dict) and 'stream' in e:
            if cur is not None:
                return 'stream opened while another is open'
            cur = {'off': e['stream'], 'bytes': []}
            bodies.append(cur)
        elif isinstance(e, dict) and 'chunk' in e:
            if cur is None:
                return 'chunk outside a stream'
            if not e['chunk']:
                return 'empty chunk'
            cur['bytes'] += e['chunk']
        elif e == 'close':
            if cur is None:
                return 'close without stream'
            cur = None
        elif isinstance(e, dict) and 'eof' in e:
            if cur is not None:
                return 'finalisation while a body is open'
            final = e['eof']
        elif isinstance(e, dict) and 'err' in e:
            if cur is not None:
                return 'error while a body is open'
            err = e['err']
        else:
            return 'unknown event %r' % (e,)
    got = [b for body in bodies for b in body['bytes']]
    if got != data[:len(got)]:
        return 'delivered bytes are not a prefix of the stream'
    off = 0
    for n, b in enumerate(bodies):
        if b['off'] != off:
            return 'body %d announced at offset %d, expected %d' % (n, b['off'], off)
        if mx is not None and len(b['bytes']) > mx:
            return 'body %d larger than max' % n
        if budget is None and len(b['bytes']) == 0:
            return 'empty body'
        if mx is not None and n < len(bodies) - 1 and len(b['bytes']) != mx:
            return 'body %d (not last) has size %d != max' % (n, len(b['bytes']))
        off += len(b['bytes'])
    if mx is None and len(bodies) > 1:
        return 'more than one body with unlimited size'
    if budget is None:
        if got != data:
            return 'bytes lost: delivered %d of %d' % (len(got), len(data))
        if term is None:
            if final is not None or err is not None or res != 'recvClosed':
                return 'hang-up not reported as failure'
        elif 'eof' in term:
            if final != [len(data), term['eof']] or err is not None:
                return 'wrong finalisation %r' % (final,)
            if res != ('afterTermination' if after else 'ok'):
                return 'unexpected result %s' % res
        else:
            if err != term['err'] or final is not None:
                return 'error not delivered instead of finalisation'
    else:
        sizes = [len(m['p']) for m in msgs if 'p' in m]
        # only payloads before the terminal count
        sizes = []
        for m in msgs:
            if 'p' in m:
                sizes.append(len(m['p']))
            else:
                break
        need = expected_sends(sizes, mx, 'eof' if term else None)
        if budget < need and res != 'sendClosed':
            return 'consumer stopped after %d of %d sends but the sender did not fail (%s)' % (budget, need, res)
        if final is not None and err is not None:
            return 'both finalisation and error'
    return None


def gen_cases(ctx):
    rng = ctx.rng
    cases = []
    if ctx.tier == 'thorough':
        # exhaustive: <= 5 blocks of size 1..6 is 9330 block lists; x max x terminal
        lists = []
        for n in range(0, 5):
            lists += list(itertools.product(range(1, 5), repeat=n))
        lists += [tuple(rng.randint(1, 6) for _ in range(5)) for _ in range(1500)]
        for sizes in lists:
            total = sum(sizes)
            maxes = {None, 1, 2, 3, 5, 7, total or 1}
            maxes |= {d for d in range(1, total + 1) if total % d == 0 and d <= 8}
            for mx in maxes:
                for term in ('eof', 'err', None):
                    cases.append({'max': mx, 'budget': None, 'msgs': mk_msgs(sizes, term)})
                need = expected_sends(list(sizes), mx, 'eof')
                for b in range(0, need + 1):
                    if rng.random() < 0.25 or b in (0, need - 1, need):
                        cases.append({'max': mx, 'budget': b, 'msgs': mk_msgs(sizes, 'eof')})
        nrand = 3000
    else:
        nrand = 2500
    for _ in range(nrand):
        nb = rng.choice([0, 1, 1, 2, 3, 4, 5, 8])
        sizes = [rng.choice([0, 1, 1, 2, 3, 4, 5, 6, 9, 17]) for _ in range(nb)]
        total = sum(sizes)
        mx = rng.choice([None, 1, 2, 3, 4, 6, 7, total or 1, max(1, total // 2), total + 1])
        term = rng.choice(['eof', 'eof', 'eof', 'err', None])
        extra = rng.random() < 0.1 and term is not None
        need = expected_sends(sizes, mx, term)
        budget = rng.choice([None, None, rng.randint(0, need + 1)])
        cases.append({'max': mx, 'budget': budget, 'msgs': mk_msgs(sizes, term, extra)})
    # delays only make sense for the implementation; the model ignores them
    if ctx.tier == 'thorough':
        for c in cases[::7]:
            c['delays'] = {'prod': rng.choice([0, 50, 200]), 'cons': rng.choice([0, 50, 200])}
    else:
        for c in cases[::25]:
            c['delays'] = {'prod': rng.choice([0, 100]), 'cons': rng.choice([0, 100])}
    return cases


def gen_reader_cases(ctx):
    rng = ctx.rng
    cases = []
    n = 4000 if ctx.tier == 'thorough' else 800
    for _ in range(n):
        msgs = []
        v = 0
        for _ in range(rng.randint(0, 5)):
            if rng.random() < 0.08:
                msgs.append({'err': 'chunk error'})
            else:
                k = rng.randint(1, 9)
                msgs.append({'ok': [(v + j) % 251 for j in range(k)]})
                v += k
        bufs = [rng.choice([1, 1, 2, 3, 4, 8, 64]) for _ in range(rng.randint(1, 14))]
        cases.append({'msgs': msgs, 'bufs': bufs})
    return cases


def reader_oracle(case, impl):
    """Concatenation of data read before the first error/eof is a prefix of the chunk bytes."""
    data = []
    for m in case['msgs']:
        if 'ok' in m:
            data += m['ok']
        else:
            break
    got = []
    for r in impl:
        if isinstance(r, dict) and 'data' in r:
            got += r['data']
        elif r == 'panic':
            return 'StreamReader panicked'
        else:
            break
    if got != data[:len(got)]:
        return 'StreamReader delivered bytes out of order / with gaps'
    return None


def pipeline(ctx):
    """The splitter where vsb uses it: the real `upload_backup` (archiver thread, gpg, reader, splitter) feeding a mock
    provider.  (a) the archiver fails (a dangling symbolic link in the backup directory, which tar follows): the
    sequence of bodies must end with the error, never with a finalisation; (b) a stream longer than one 4 MiB hash
    block, with and without a request-size limit: the finalisation carries the size and the checksum of exactly the
    bytes of the bodies."""
    import os, random, hashlib
    from props import c04, upload_common as uc
    stats = {'upstream_failure_runs': 0, 'long_stream_runs': 0}
    def run(w, home, g, b, bdir, mx, chunked, out):
        return core.run_lines(core.harness_exe(ctx), [core.req('upbackup', {'backup_path': bdir, 'group': g, 'name': b, 'passphrase': 'pw', 'max': mx,
                                                                            'chunked': chunked, 'out': out})],
                              env=dict(os.environ, GNUPGHOME=home), timeout=300)[0]
    for i, (size, mx) in enumerate([(300000, 65536), (300000, None), (2000, 7)] if ctx.tier == 'quick' else
                                   [(s_, m_) for s_ in (0, 2000, 300000, 2000000) for m_ in (None, 7, 4096, 65536, 1 << 20)]):
        w, g, b, bdir = c04.make_backup(ctx, 1700 + i, random.Random(ctx.seed * 7 + i), big=size)
        home = uc.make_gnupghome(w.base)
        try:
            os.symlink('/nonexistent/target-of-stray-link', os.path.join(bdir, 'zz-stray-link'))
            o = run(w, home, g, b, bdir, mx, i % 2 == 0, os.path.join(w.base, 'cipher.bin'))
            case = {'kind': 'pipeline-upstream-failure', 'size': size, 'max': mx}
            stats['upstream_failure_runs'] += 1
            if not isinstance(o, dict):
                ctx.violation('runtime', 'harness failure: %s' % str(o)[:200], {'case': case}, found_input=False)
            elif o.get('final') is not None or o.get('result') == 'ok':
                ctx.violation('property', 'the archiver failed (%s) but the sequence of bodies was finalised with %s instead of ending with the error'
                              % ((o.get('logs') or [''])[-1:] , o.get('final')), {'case': case, 'result': o.get('result'), 'error': o.get('error')})
            elif not o.get('stream_error'):
                ctx.violation('property', 'the archiver failed but the provider saw neither an error nor a finalisation', {'case': case})
        finally:
            uc.kill_agent(home)
            w.cleanup()
    # (a') the upstream failure is gpg itself: it takes all its input, emits the beginning of the ciphertext and is killed by
    # a signal, or exits non-zero - only its wait status tells
    for i, how in enumerate(['kill -KILL $$', 'exit 3'] if ctx.tier == 'quick' else ['kill -KILL $$', 'exit 3', 'kill -SEGV $$', 'exit 1']):
        w, g, b, bdir = c04.make_backup(ctx, 1730 + i, random.Random(ctx.seed * 13 + i), big=50000)
        home = uc.make_gnupghome(w.base)
        try:
            d = os.path.join(w.base, 'fakebin')
            os.makedirs(d, exist_ok=True)
            with open(os.path.join(d, 'gpg'), 'w') as f:
                f.write('#!/bin/bash\n/usr/bin/gpg "$@" > %s/out; head -c 16400 %s/out; %s\n' % (d, d, how))
            os.chmod(os.path.join(d, 'gpg'), 0o755)
            o = core.run_lines(core.harness_exe(ctx), [core.req('upbackup', {'backup_path': bdir, 'group': g, 'name': b, 'passphrase': 'pw', 'max': [None, 4096][i % 2],
                                                                           'chunked': i % 2 == 0, 'out': os.path.join(w.base, 'cipher.bin')})],
                               env=dict(os.environ, GNUPGHOME=home, PATH=d + ':' + os.environ.get('PATH', '/usr/bin:/bin')), timeout=300)[0]
            case = {'kind': 'pipeline-gpg-failure', 'how': how}
            stats['gpg_failure_runs'] = stats.get('gpg_failure_runs', 0) + 1
            if not isinstance(o, dict):
                ctx.violation('runtime', 'harness failure: %s' % str(o)[:200], {'case': case}, found_input=False)
            elif o.get('final') is not None or o.get('result') == 'ok':
                ctx.violation('property', 'gpg failed (%s) after %d bytes but the sequence of bodies was finalised with %s instead of ending with the error'
                              % (how, o.get('total', -1), o.get('final')), {'case': case, 'result': o.get('result')})
        finally:
            uc.kill_agent(home)
            w.cleanup()
    for i, mx in enumerate([None, 3 * 1024 * 1024 + 11] if ctx.tier == 'quick' else [None, 1 << 20, 4 * 1024 * 1024, 4 * 1024 * 1024 + 1, 5000001]):
        w, g, b, bdir = c04.make_backup(ctx, 1750 + i, random.Random(ctx.seed * 11 + i), big=4 * 1024 * 1024 + 600000)
        home = uc.make_gnupghome(w.base)
        try:
            out = os.path.join(w.base, 'cipher.bin')
            o = run(w, home, g, b, bdir, mx, True, out)
            case = {'kind': 'pipeline-long-stream', 'max': mx}
            stats['long_stream_runs'] += 1
            if not isinstance(o, dict) or o.get('result') != 'ok':
                ctx.violation('property', 'upload_backup of a %d-byte backup failed without any fault: %s' % (4 * 1024 * 1024 + 600000, str(o)[:200]), {'case': case})
                continue
            blob = open(out, 'rb').read()
            fin = o.get('final') or {}
            if fin.get('total') != len(blob) or fin.get('checksum') != c04.dropbox_content_hash(blob):
                ctx.violation('property', 'the finalisation (%s) does not carry the size %d and the block checksum of the bytes of the bodies' % (fin, len(blob)), {'case': case})
            sizes = [bd['len'] for bd in o['bodies']]
            want = [len(blob)] if mx is None else [mx] * (len(blob) // mx) + ([len(blob) % mx] if len(blob) % mx else [])
            if sizes != want:
                ctx.violation('property', 'body sizes %s differ from %s' % (sizes[:5], want[:5]), {'case': case})
        finally:
            uc.kill_agent(home)
            w.cleanup()
    return stats


def check(ctx):
    aud = core.audit(ctx.prop)
    core.report_audit(ctx, aud)
    core.proof_coverage(ctx, aud)
    bindir, err = core.build_impl(ctx)
    if bindir is None:
        ctx.violation('runtime', 'repository does not build: ' + err[-400:], {}, found_input=False)
        return
    if ctx.replay and str(json.load(open(ctx.replay))['case'].get('case', {}).get('kind', '')).startswith('pipeline'):
        ctx.coverage.update({'evaluations': 1, 'pipeline': pipeline(ctx)})
        return
    if ctx.replay:
        cases = [json.load(open(ctx.replay))['case']['case']]
        rcases = []
    else:
        corpus = [c['case'] for c in core.load_corpus('C17') if c.get('op') == 'split']
        cases = corpus + gen_cases(ctx)
        rcases = gen_reader_cases(ctx)
    lines = [core.req('split', c) for c in cases]
    mlines = [core.req('split', {k: v for k, v in c.items() if k != 'delays'}) for c in cases]
    model = core.run_lines(core.model_exe(), mlines, shards=8)
    impl = core.run_lines(core.harness_exe(ctx), lines, shards=16, timeout=180 if ctx.tier == 'quick' else 1200)
    # A consumer with a budget stops listening after its last receive, so it cannot observe
    # `close` events (not sends) that follow it: compare without trailing closes in that case.
    def strip(case, out):
        if case.get('budget') is None or not isinstance(out, dict) or 'evs' not in out:
            return out
        evs = list(out['evs'])
        while evs and evs[-1] == 'close':
            evs.pop()
        return {'evs': evs, 'res': out['res']}
    model = [strip(c, m) for c, m in zip(cases, model)]
    impl = [strip(c, i) for c, i in zip(cases, impl)]
    st = core.judge(ctx, cases, model, impl, oracle, label='split')
    rl = [core.req('streamread', c) for c in rcases]
    st2 = core.judge(ctx, rcases, core.run_lines(core.model_exe(), rl), core.run_lines(core.harness_exe(ctx), rl, timeout=180 if ctx.tier == 'quick' else 1200),
                     reader_oracle, label='streamread') if rcases else {'cases': 0, 'disagreements': 0}
    distinct = {core.canon({k: v for k, v in c.items() if k != 'delays'}) for c in cases
                if len(c['msgs']) >= 2 and c['max'] is not None}
    ctx.coverage.update({
        'evaluations': len(cases) + len(rcases),
        'distinct_nontrivial': len(distinct),
        'rule': 'split: block-size lists x max (incl. 1, divisors of the total, total, unlimited) x terminal (eof/err/hang-up/extra) x consumer budget; '
                'non-trivial = at least two messages and a finite max; distinct by canonical JSON. '
                'streamread: random chunk lists x read-buffer sizes',
        'samples': [cases[0], cases[len(cases) // 2]] + rcases[:1],
        'correspondence': {'split': st, 'streamread': st2},
        'disagreements_checked': st['cases'] + st2['cases'],
        'exhaustive': ctx.tier == 'thorough',
        'pipeline': pipeline(ctx) if not ctx.replay else None,
        'explanation': 'thorough tier enumerates all block lists of <= 4 blocks of size 1..4 and samples 5-block lists of size 1..6',
    })
    ctx.assumptions += ['std::sync::mpsc rendezvous semantics (send fails iff the receiver is gone)',
                        'model hand-written; tied to the code by this differential run only']
