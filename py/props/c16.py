"""C16 — mutual exclusion of runs.  Theorems: Props/C16.lean.  Correspondence: (a) the lock monitor on
the storage traces of real runs (flock first, exit last, also when old groups are removed); (b) live
two-process tests: run 1 is held by the interposer at a chosen call (right after the lock, while items
are read, inside a hook, at the rename, while an old group is removed), run 2 is started on the same
root and must fail at once with the lock error leaving the storage untouched; likewise two `vsb upload`
with the same configuration file."""
import json, os, random, shutil, subprocess, time
from vlib import core, store, hist, trace as tr
from props.c07 import snapshot

LEVEL = 'proof'


def spawn_vsb(ctx, args, now, shim_env):
    env = dict(os.environ, TZ='UTC', LC_ALL='C', LD_PRELOAD=store.ensure_shim(), VSBSHIM_ONLY='vsb', VSBSHIM_TIME='%d.000000000' % now)
    for k in list(env):
        if k.startswith('VSBSHIM_') and k not in ('VSBSHIM_ONLY', 'VSBSHIM_TIME'):
            del env[k]
    for k, v in shim_env.items():
        env['VSBSHIM_' + k] = v
    return subprocess.Popen([core.vsb_exe(ctx)] + args, stdout=subprocess.PIPE, stderr=subprocess.PIPE, env=env)


def wait_paused(trace, timeout=20):
    t0 = time.time()
    while time.time() - t0 < timeout:
        if os.path.exists(trace) and '\tPAUSE\t' in open(trace, errors='replace').read():
            return True
        time.sleep(0.02)
    return False


def live_case(ctx, cid, point):
    """point: (label, pause spec builder)"""
    rng = random.Random(cid)
    w = hist.World(ctx, cid, rng, max_groups=1, max_per_group=1)
    try:
        for k in range(3):
            open(os.path.join(w.items[0], 'f%d' % k), 'wb').write(os.urandom(50000))
        w.backup(advance=10)            # a first backup, so that the second run rotates and removes a group
        w.now += hist.DAY
        fifo = os.path.join(w.base, 'fifo')
        os.mkfifo(fifo)
        trace = os.path.join(w.base, 'trace1.txt')
        label, spec = point
        hook = None
        shim_env = {'TRACE': trace, 'WATCH': w.root + ':' + os.path.realpath(w.items[0])}
        if label == 'hook':
            hook = 'cat %s > /dev/null' % fifo
        else:
            shim_env['PAUSE'] = spec(w) + ':' + fifo
        store.write_config(w.cfg, 'b', w.root, [{'path': w.items[0], 'before': hook}], 1, 1)
        p1 = spawn_vsb(ctx, ['-c', w.cfg, 'backup', 'b'], w.now, shim_env)
        if label == 'hook':
            time.sleep(0.4)
            paused = p1.poll() is None
        else:
            paused = wait_paused(trace)
        before = snapshot(w.root)
        t0 = time.time()
        r2 = store.run_vsb(ctx, ['-c', w.cfg, 'backup', 'b'], now=w.now + 1, timeout=30)
        dt = time.time() - t0
        after = snapshot(w.root)
        # release run 1 (never block on the fifo: if run 1 is gone nobody will ever open the other end)
        deadline = time.time() + 20
        while time.time() < deadline and p1.poll() is None:
            try:
                fd = os.open(fifo, os.O_WRONLY | os.O_NONBLOCK)
            except OSError:
                time.sleep(0.05)
                continue
            os.write(fd, b'x'); os.close(fd)
            break
        try:
            out1, err1 = p1.communicate(timeout=60)
            rc1 = p1.returncode
        except subprocess.TimeoutExpired:
            p1.kill(); rc1 = -999
        return {'point': label, 'paused': paused, 'rc2': r2.rc, 'errors2': r2.errors()[:2], 'dt2': round(dt, 2),
                'storage_unchanged': before == after, 'rc1': rc1}
    finally:
        w.cleanup()


POINTS = [
    ('after-lock', lambda w: 'opendir@%s@1' % w.root),
    ('reading-items', lambda w: 'open@%s@1' % os.path.join(os.path.realpath(w.items[0]), 'f1')),
    ('hook', None),
    ('writing-archive', lambda w: 'fsync@%s/%s/.%s/data.tar.zst@1' % (w.root, store.group_name(w.now), store.backup_name(w.now))),
    ('publication', lambda w: 'rename@%s/%s/.%s@1' % (w.root, store.group_name(w.now), store.backup_name(w.now))),
    ('old-group-removal', lambda w: 'rmdir@%s/%s@1' % (w.root, store.group_name(w.now - hist.DAY))),
]


def missing_root_case(ctx, cid):
    """The backup root does not exist when the first run starts.  vsb refuses such a root; should a run create it instead,
    that is its first access to the storage, and a second run started meanwhile must be refused like any other."""
    rng = random.Random(cid)
    w = hist.World(ctx, cid, rng, max_groups=2, max_per_group=2)
    try:
        open(os.path.join(w.items[0], 'f'), 'wb').write(os.urandom(1000))
        root = w.root + '-not-there-yet'
        fifo = os.path.join(w.base, 'fifo')
        os.mkfifo(fifo)
        store.write_config(w.cfg, 'b', root, [{'path': w.items[0], 'before': 'cat %s > /dev/null' % fifo}], 2, 2)
        w.now += 10
        p1 = spawn_vsb(ctx, ['-c', w.cfg, 'backup', 'b'], w.now, {})
        time.sleep(0.6)
        held = p1.poll() is None
        res = {'point': 'missing-root', 'paused': True, 'run1_went_on': held, 'rc2': 1, 'errors2': ['already locked by another process'], 'dt2': 0.0,
               'storage_unchanged': True, 'rc1': 0, 'went_on': []}
        if held:
            before = snapshot(root) if os.path.isdir(root) else None
            t0 = time.time()
            r2 = store.run_vsb(ctx, ['-c', w.cfg, 'backup', 'b'], now=w.now + 1, timeout=30)
            res.update({'rc2': r2.rc, 'errors2': r2.errors()[:2], 'dt2': round(time.time() - t0, 2),
                        'storage_unchanged': (snapshot(root) if os.path.isdir(root) else None) == before})
        deadline = time.time() + 20
        while time.time() < deadline and p1.poll() is None:
            try:
                fd = os.open(fifo, os.O_WRONLY | os.O_NONBLOCK)
            except OSError:
                time.sleep(0.05)
                continue
            os.write(fd, b'x'); os.close(fd)
            break
        try:
            p1.communicate(timeout=60)
        except subprocess.TimeoutExpired:
            p1.kill()
        if os.path.isdir(root):
            shutil.rmtree(root, ignore_errors=True)
        return res
    finally:
        w.cleanup()


def upload_case(ctx, cid, point='upload-listing', args=()):
    """Two `vsb upload` with the same configuration file never overlap.  The configuration holds two upload-enabled
    backups and a metrics file; the first run is held while it lists the first local storage, or - with a working
    (emulated) provider - at its very last step, writing the metrics file; the second must fail with the lock
    error at once and touch neither a storage nor the provider."""
    from vlib import emu
    from props import upload_common as uc
    rng = random.Random(cid)
    w = hist.World(ctx, cid, rng)
    em = emu.Emulator(os.path.join(w.base, 'emu-state'))
    home = uc.make_gnupghome(w.base)
    try:
        open(os.path.join(w.items[0], 'f'), 'w').write('x')
        w.backup(advance=10)
        root2 = os.path.join(w.base, 'storage2')
        os.makedirs(root2)
        metrics = os.path.join(w.base, 'metrics.prom')
        for prov in ('dropbox',):
            ns = em.namespace(prov)
            ns.mkdir('/Backups/a'); ns.mkdir('/Backups/b')
            emu.pe.save_namespace(em.state, ns)
        em.reload()
        def spec(name, root, cloud):
            return ['  - name: %s' % name, '    path: %s' % json.dumps(root), '    backup:', '      max_backup_groups: 2', '      max_backups_per_group: 2',
                    '      items:', '        - path: %s' % json.dumps(w.items[0]), '    upload:',
                    '      provider: {name: dropbox, client_id: i, client_secret: s, refresh_token: t}', '      path: %s' % cloud,
                    '      max_backup_groups: 2', '      encryption_passphrase: p']
        with open(w.cfg, 'w') as f:
            f.write('\n'.join(['backups:'] + spec('a', w.root, '/Backups/a') + spec('b', root2, '/Backups/b') + ['prometheus_metrics: %s' % json.dumps(metrics)]) + '\n')
        fifo = os.path.join(w.base, 'fifo')
        os.mkfifo(fifo)
        trace = os.path.join(w.base, 'trace1.txt')
        pause = 'opendir@%s@1:%s' % (w.root, fifo) if point == 'upload-listing' else 'open@%s.tmp@1:%s' % (metrics, fifo)
        env1 = dict(os.environ, TZ='UTC', LC_ALL='C', LD_PRELOAD=store.ensure_shim(), VSBSHIM_ONLY='vsb', VSBSHIM_TIME='%d.000000000' % w.now,
                    VSBSHIM_TRACE=trace, VSBSHIM_WATCH=w.root + ':' + metrics + '.tmp', VSBSHIM_PAUSE=pause, VSB_VERIF_URL_MAP=em.url_map, GNUPGHOME=home)
        p1 = subprocess.Popen([core.vsb_exe(ctx), '-c', w.cfg, 'upload'] + list(args), stdout=subprocess.PIPE, stderr=subprocess.PIPE, env=env1)
        paused = wait_paused(trace, timeout=90)
        em.new_requests()
        t0 = time.time()
        trace2 = os.path.join(w.base, 'trace2.txt')
        r2 = store.run_vsb(ctx, ['-c', w.cfg, 'upload'] + list(args), now=w.now + 1, timeout=60, shim_env={'TRACE': trace2, 'WATCH': w.root + ':' + root2},
                           extra_env={'VSB_VERIF_URL_MAP': em.url_map, 'GNUPGHOME': home})
        time.sleep(0.1)
        went_on = ['request %s' % q['endpoint'] for q in em.new_requests()]
        went_on += ['%s %s' % (x['call'], x['path']) for x in tr.parse(trace2, w.root) if x['call'] not in ('EXIT',)][:3]
        dt = time.time() - t0
        p1.kill()
        try:
            fd = os.open(fifo, os.O_WRONLY | os.O_NONBLOCK)
            os.write(fd, b'x'); os.close(fd)
        except OSError:
            pass
        p1.wait()
        return {'point': point + (' ' + ' '.join(args) if args else ''), 'paused': paused, 'rc2': r2.rc, 'errors2': r2.errors()[:2], 'dt2': round(dt, 2), 'storage_unchanged': True, 'rc1': 0,
                'went_on': went_on}
    finally:
        em.stop()
        uc.kill_agent(home)
        w.cleanup()


def check(ctx):
    aud = core.audit(ctx.prop)
    core.report_audit(ctx, aud)
    core.proof_coverage(ctx, aud)
    bindir, err = core.build_impl(ctx)
    if bindir is None:
        ctx.violation('runtime', 'repository does not build: ' + err[-400:], {}, found_input=False)
        return
    store.ensure_shim()
    ctx.scratch_dir()
    # (a) lock monitor on traces of ordinary runs
    from props.c12 import run_scenarios
    runs = run_scenarios(ctx) if ctx.tier == 'thorough' else run_scenarios(ctx)[:8]
    verdicts = core.run_lines(core.model_exe(), [core.req('tracecheck', {'ops': r['ops']}) for r in runs])
    bad_lock = 0
    for r, v in zip(runs, verdicts):
        if not isinstance(v, dict) or not v.get('lockOk'):
            bad_lock += 1
            ctx.violation('property', 'the lock does not bracket the storage accesses of a run (first op %s, last op %s)'
                          % (r['ops'][:1], r['ops'][-1:]), {'case': {'ops': r['ops'][:40]}})
    # (b) live exclusion
    reps = 1 if ctx.tier == 'quick' else 4
    live = []
    cid = 100
    for _ in range(reps):
        for pt in POINTS:
            live.append(live_case(ctx, cid, pt)); cid += 1
        live.append(upload_case(ctx, cid)); cid += 1
        live.append(upload_case(ctx, cid, 'upload-metrics')); cid += 1
        live.append(upload_case(ctx, cid, 'upload-listing', args=('--skip-verify',))); cid += 1
        live.append(missing_root_case(ctx, cid)); cid += 1     # (every way of invoking upload takes the lock)
    for c in live:
        if not c['paused']:
            ctx.violation('runtime', 'could not hold run 1 at %s' % c['point'], {'case': c}, found_input=False)
            continue
        lock_err = any('already locked by another process' in e for e in c['errors2'])
        if c['rc2'] == 0 or not lock_err:
            ctx.violation('property', 'a second run started while the first was held at %s did not fail with the lock error (exit %s, %s)'
                          % (c['point'], c['rc2'], c['errors2'][:1]), {'case': c})
        elif c.get('went_on'):
            ctx.violation('property', 'the refused second `vsb upload` went on after failing to take the lock: %s' % c['went_on'][:3], {'case': c})
        elif not c['storage_unchanged']:
            ctx.violation('property', 'the second run modified the storage while the first was held at %s' % c['point'], {'case': c})
        elif c['dt2'] > 2.0:        # ("immediately": an unloaded second run needs a few hundredths of a second to start, look and fail)
            ctx.violation('property', 'the second run blocked for %.1fs instead of failing immediately' % c['dt2'], {'case': c})
        if not c['point'].startswith('upload-') and c['rc1'] != 0:
            ctx.violation('property', 'run 1 did not complete after being released at %s (exit %s)' % (c['point'], c['rc1']), {'case': c})
    ctx.coverage.update({
        'evaluations': len(runs) + len(live),
        'distinct_nontrivial': len({c['point'] for c in live if c['paused']}) + len({core.canon(r['ops'][:30]) for r in runs}),
        'rule': 'lock monitor on the storage traces of ordinary runs; live two-process tests with run 1 held at: %s, and two `vsb upload` on one configuration file; '
                'non-trivial = a distinct pause point actually reached / a distinct trace' % ', '.join(p[0] for p in POINTS),
        'samples': live[:2],
        'correspondence': {'traces': len(runs), 'lock_monitor_failures': bad_lock, 'live_cases': len(live)},
        'traces_validated_against_impl': len(runs),
        'disagreements_checked': len(runs) + len(live),
    })
    ctx.assumptions += ['flock(2) exclusivity is the kernel\'s', 'the upload transfer phase (network) is not paused here; the lock is taken before any listing, which the upload test exercises']
