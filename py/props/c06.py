"""C06 — cloud sync plan.  Theorems: Props/C06.lean.  Correspondence: the real
`uploading::sync::sync_backups` (with a recording mock cloud provider, a no-op gpg) vs the model,
plus an independent declarative oracle for the property itself."""
import itertools, json, os, stat
from vlib import core

LEVEL = 'proof'
NG, NB = 6, 3


def group_name(g):
    return '%04d.%02d.%02d' % (2000 + g // 100, 1 + (g // 10) % 10, 1 + g % 10)


def backup_name(g, b):
    return '%s-00:%02d:%02d' % (group_name(g), b // 60, b % 60)


def prepare_local(ctx):
    root = os.path.join(ctx.scratch_dir(), 'local')
    for g in range(NG):
        for b in range(NB):
            d = os.path.join(root, group_name(g), backup_name(g, b))
            os.makedirs(d, exist_ok=True)
            for n in ('data.tar.zst', 'metadata.zst'):
                with open(os.path.join(d, n), 'wb') as f:
                    f.write(b'x' * 20)
    bindir = os.path.join(ctx.scratch_dir(), 'fakebin')
    os.makedirs(bindir, exist_ok=True)
    gpg = os.path.join(bindir, 'gpg')
    with open(gpg, 'w') as f:
        f.write('#!/bin/sh\nexec cat\n')
    os.chmod(gpg, 0o755)
    return root, bindir


def translate_log(log):
    """harness log (path form) -> model action strings"""
    rev_g = {group_name(g): g for g in range(NG)}
    rev_b = {backup_name(g, b) + '.tar.gpg': (g, b) for g in range(NG) for b in range(NB)}
    out = []
    for e in log:
        if e == 'LIST':
            out.append('LIST')
        elif e.startswith('c:') or e.startswith('d:'):
            out.append('%s:%s' % (e[0], rev_g.get(e[2:], e[2:])))
        elif e.startswith('u:'):
            gname, bname = e[2:].split('/')
            g, b = rev_b.get(bname, (None, bname))
            out.append('u:%s:%s' % (rev_g.get(gname, gname), b))
        else:
            out.append(e)
    return out


def oracle(case, impl):
    if not isinstance(impl, dict) or 'acts' not in impl:
        return 'no action list: ' + core.canon(impl)[:120]
    local = {g: set(bs) for g, bs in case['local']}
    cloud = {g: set(bs) for g, bs in case['cloud']}
    mx = case['max']
    keys = sorted(set(local) | set(cloud))
    tb = {g: local.get(g, set()) | cloud.get(g, set()) for g in keys}
    target = [g for g in keys if sum(1 for k in keys if k > g and tb[k]) < mx]
    acts = impl['acts']
    fails = set(case['fails'])
    local_nonempty = sum(1 for g in local if local[g])
    guard = local_nonempty < 2 and len(cloud) > local_nonempty
    seen = set()
    any_failed = False
    clean = case['ok'] and not guard
    for a in acts:
        if a in seen:
            return 'action %s attempted twice' % a
        seen.add(a)
        k = a.split(':')
        if k[0] == 'u':
            g, b = int(k[1]), int(k[2])
            if b in cloud.get(g, set()):
                return 'backup %s re-uploaded although already in the cloud' % a
            if b not in local.get(g, set()):
                return 'upload of a backup that is not local: %s' % a
            if g not in target:
                return 'upload outside the retention window: %s' % a
        elif k[0] == 'c':
            g = int(k[1])
            if g in cloud:
                return 'existing cloud group re-created: %s' % a
        elif k[0] == 'd':
            g = int(k[1])
            if g not in cloud:
                return 'deleted something that is not a listed cloud group: %s' % a
            if g in target:
                return 'deleted group %d which retention protects' % g
            if target and g > min(target):
                return 'deleted group %d is not older than the window' % g
            if not clean or any_failed:
                return 'group %d deleted although the run observed an error' % g
            if guard:
                return 'group deleted although the wiped-storage safeguard applies'
        elif a == 'LIST' or a.startswith('BAD-TEMP'):
            return 'unexpected provider call %s' % a
        if a in fails and k[0] != 'd':
            any_failed = True
    # completeness: without faults every missing backup of the window is uploaded, every old group deleted
    if not fails:
        want_up = ['u:%d:%d' % (g, b) for g in target for b in sorted(local.get(g, set()) - cloud.get(g, set()))]
        got_up = [a for a in acts if a.startswith('u:')]
        if got_up != want_up:
            return 'uploads %s differ from the expected %s' % (got_up, want_up)
        want_del = ['d:%d' % g for g in sorted(cloud) if g not in target] if clean else []
        got_del = [a for a in acts if a.startswith('d:')]
        if got_del != want_del:
            return 'deletions %s differ from the expected %s' % (got_del, want_del)
        if impl['ok'] != clean:
            return 'returned ok=%s, expected %s' % (impl['ok'], clean)
        # convergence: apply and re-plan
        cloud2 = {g: set(bs) for g, bs in cloud.items() if ('d:%d' % g) not in got_del}
        for a in got_up:
            _, g, b = a.split(':')
            cloud2.setdefault(int(g), set()).add(int(b))
        keys2 = sorted(set(local) | set(cloud2))
        tb2 = {g: local.get(g, set()) | cloud2.get(g, set()) for g in keys2}
        target2 = [g for g in keys2 if sum(1 for k in keys2 if k > g and tb2[k]) < mx]
        again = [(g, b) for g in target2 for b in sorted(local.get(g, set()) - cloud2.get(g, set()))]
        if again and clean:
            return 'a second run would still transfer %s' % again
    else:
        if impl['ok'] and any_failed:
            return 'an upload/creation failed but the result is ok'
    return None


def mk_case(local, cloud, ok, mx, fails):
    return {'local': [[g, sorted(bs)] for g, bs in sorted(local.items())],
            'cloud': [[g, sorted(bs)] for g, bs in sorted(cloud.items())],
            'ok': ok, 'max': mx, 'fails': sorted(fails)}


def planned_actions(case):
    """actions of a fault-free run according to the oracle's arithmetic (for fault placement)"""
    local = {g: set(bs) for g, bs in case['local']}
    cloud = {g: set(bs) for g, bs in case['cloud']}
    keys = sorted(set(local) | set(cloud))
    tb = {g: local.get(g, set()) | cloud.get(g, set()) for g in keys}
    target = [g for g in keys if sum(1 for k in keys if k > g and tb[k]) < case['max']]
    acts = []
    for g in target:
        if not tb[g]:
            continue
        if g not in cloud:
            acts.append('c:%d' % g)
        acts += ['u:%d:%d' % (g, b) for b in sorted(local.get(g, set()) - cloud.get(g, set()))]
    acts += ['d:%d' % g for g in sorted(cloud) if g not in target]
    return acts


def gen_cases(ctx):
    rng = ctx.rng
    cases = []
    loc_opts = [None, [], [0], [0, 1]]
    cl_opts = [None, [], [0], [1], [0, 1]]
    if ctx.tier == 'thorough':
        names = [0, 1, 2]
        for combo in itertools.product(itertools.product(loc_opts, cl_opts), repeat=len(names)):
            local = {g: set(l) for g, (l, c) in zip(names, combo) if l is not None}
            cloud = {g: set(c) for g, (l, c) in zip(names, combo) if c is not None}
            for mx in (1, 2, 3):
                base = mk_case(local, cloud, True, mx, [])
                cases.append(base)
                for a in planned_actions(base):
                    cases.append(mk_case(local, cloud, True, mx, [a]))
                cases.append(mk_case(local, cloud, False, mx, []))
        nrand = 6000
    else:
        nrand = 2500
    for _ in range(nrand):
        ng = rng.choice([1, 2, 3, 4, 4, 5, 6])
        names = sorted(rng.sample(range(NG), ng))
        local, cloud = {}, {}
        for g in names:
            l = rng.choice([None, [], [0], [0, 1], [1, 2], [0, 1, 2]])
            c = rng.choice([None, None, [], [0], [1], [0, 1], [2]])
            if l is None and c is None:
                l = [0]
            if l is not None:
                local[g] = set(l)
            if c is not None:
                cloud[g] = set(c)
        mx = rng.choice([1, 1, 2, 2, 3, 4])
        base = mk_case(local, cloud, rng.random() < 0.9, mx, [])
        fails = []
        pa = planned_actions(base)
        if pa and rng.random() < 0.35:
            fails = rng.sample(pa, min(len(pa), rng.choice([1, 1, 2])))
        base['fails'] = sorted(fails)
        cases.append(base)
    return cases


def end_to_end(ctx):
    """`vsb upload` itself against the emulated providers, listing pages of one or two entries: after a clean run
    the cloud holds every local backup of the window, a second run transfers nothing, and objects that were there are
    untouched; groups beyond the window are deleted as whole groups only."""
    import random
    from props import upload_common as uc
    from vlib import store, hist
    stats = {'runs': 0, 'second_run_transfers': 0}
    provs = uc.PROVIDERS if ctx.tier == 'thorough' else [uc.PROVIDERS[ctx.seed % 3], uc.PROVIDERS[(ctx.seed + 1) % 3]]
    plan = [(idx, prov, page, None) for idx, prov in enumerate(provs) for page in ([1] if ctx.tier == 'quick' else [1, 2, 7])]
    # a damaged local backup (unreadable manifest): local verification fails, so nothing may be deleted in the cloud
    plan += [(len(provs) + i, prov, 2, 'local-corrupt') for i, prov in enumerate(provs[:1] if ctx.tier == 'quick' else provs)]
    for idx, prov, page, special in plan:
        if True:
            rng = random.Random(ctx.seed * 31 + idx * 7 + page)
            e = uc.E2E(ctx, 700 + idx * 10 + page, prov, 'sync pass', nbackups=2, file_sizes=(10, 3000), stage_options=['--page-size', str(page)])
            try:
                # more history: a second and third group (the emulator's namespace and the local storage grow day by day)
                for day in range(2):
                    e.w.write(os.path.join(e.w.items[0], 'day%d' % day), 80 + day, 500)
                    e.w.max_groups = 3
                    r = e.w.backup(advance=hist.DAY)
                    assert r.rc == 0, r.errors()
                store.write_config(e.cfg, 'b', e.w.root, [{'path': e.w.items[0]}], 3, 3,
                                   upload={'provider': {'name': uc.PROVIDER_CFG[prov], 'client_id': 'id', 'client_secret': 'secret', 'refresh_token': 'refresh'},
                                           'path': e.CLOUD_ROOT, 'max_backup_groups': 2, 'encryption_passphrase': e.passphrase})
                # something foreign and something old in the cloud beforehand
                ns = e.stage.emu.namespace(prov)
                ns.mkdir(e.CLOUD_ROOT + '/1999.01.01')
                ns.put_file(e.CLOUD_ROOT + '/1999.01.01/1999.01.01-00:00:00.tar.gpg', b'an old cloud backup')
                stray = (idx + page + ctx.seed) % 2 == 1 and not special
                if special == 'local-corrupt':
                    lg = sorted(g for g in os.listdir(e.w.root) if store.GROUP_RE.match(g))[-1]
                    lb = sorted(b for b in os.listdir(os.path.join(e.w.root, lg)) if store.BACKUP_RE.match(b))[-1]
                    mp = os.path.join(e.w.root, lg, lb, 'metadata.zst')
                    raw = open(mp, 'rb').read()
                    open(mp, 'wb').write(raw[:max(1, len(raw) // 2)])
                    uc.emu.pe.save_namespace(e.stage.dir, ns)
                    e.stage.emu.reload()
                    o1 = e.upload()
                    case = {'provider': prov, 'page_size': page, 'special': special}
                    stats['runs'] += 1
                    stats['local_corrupt'] = stats.get('local_corrupt', 0) + 1
                    if not o1['run'].errors():
                        ctx.violation('property', 'a local backup with an unreadable manifest is not reported [%s]' % prov, {'case': case})
                    if not any(k.startswith('1999.01.01/1999.01.01-') for k in o1['cloud']):
                        ctx.violation('property', 'the cloud group 1999.01.01 was deleted although local verification reported an error (%s) [%s]'
                                      % (o1['run'].errors()[:1], prov), {'case': case})
                    continue
                if not stray:
                    # the leftover of an interrupted upload: a temporary object for the newest local backup in its (window)
                    # group; it is not a backup, so that backup must still be uploaded
                    lg = sorted(g for g in os.listdir(e.w.root) if store.GROUP_RE.match(g))[-1]
                    lb = sorted(b for b in os.listdir(os.path.join(e.w.root, lg)) if store.BACKUP_RE.match(b))[-1]
                    ns.mkdir(e.CLOUD_ROOT + '/' + lg)
                    ns.put_file(e.CLOUD_ROOT + '/%s/.%s.tar.gpg' % (lg, lb), b'partial upload')
                    stats['temporary_leftovers'] = stats.get('temporary_leftovers', 0) + 1
                if stray:
                    # an unexpected object in the cloud: the listing is not clean, nothing may be deleted.  One kind after the
                    # other: a file inside the old cloud group, an empty directory that is no group in the root, a file in the root
                    ns.mkdir(e.CLOUD_ROOT + '/1999.06.01')
                    ns.put_file(e.CLOUD_ROOT + '/1999.06.01/1999.06.01-00:00:00.tar.gpg', b'another old cloud backup')
                    uc.emu.pe.save_namespace(e.stage.dir, ns)
                    e.stage.emu.reload()
                    for skind, spath in (('file-in-group', '/1999.01.01/README.txt'), ('dir-in-root', '/' + ['old', 'lost+found', '1999.01.01.bak'][(idx + page) % 3]),
                                         ('file-in-root', '/notes.txt'),
                                         # a file named like a backup of the window with something appended is no backup
                                         ('suffixed-backup-name', '/%s/%s.tar.gpg%s' % (
                                             sorted(g_ for g_ in os.listdir(e.w.root) if store.GROUP_RE.match(g_))[-1],
                                             sorted(b_ for b_ in os.listdir(os.path.join(e.w.root, sorted(g_ for g_ in os.listdir(e.w.root) if store.GROUP_RE.match(g_))[-1]))
                                                    if store.BACKUP_RE.match(b_))[-1], ['.bak', '~', '.part'][(idx + page) % 3]))):
                        ns = e.stage.emu.namespace(prov)
                        if skind == 'dir-in-root':
                            ns.mkdir(e.CLOUD_ROOT + spath)
                        else:
                            ns.put_file(e.CLOUD_ROOT + spath, b'not a backup')
                        uc.emu.pe.save_namespace(e.stage.dir, ns)
                        e.stage.emu.reload()
                        o1 = e.upload()
                        case = {'provider': prov, 'page_size': page, 'stray_cloud_entry': skind}
                        stats['runs'] += 1
                        stats['stray'] = stats.get('stray', 0) + 1
                        if not any('unexpected' in x for x in o1['run'].errors()):
                            ctx.violation('property', 'an unexpected object in the cloud (%s) is not reported [%s]' % (skind, prov), {'case': case})
                        if not any(k.startswith('1999.01.01/1999.01.01-') for k in o1['cloud']) or not any(k.startswith('1999.06.01/') for k in o1['cloud']):
                            ctx.violation('property', 'the cloud group 1999.01.01 or 1999.06.01 was deleted although the cloud listing is not clean (unexpected object: %s) [%s, page size %d]'
                                          % (skind, prov, page), {'case': case})
                        ns = e.stage.emu.namespace(prov)
                        ns.remove(e.CLOUD_ROOT + spath)
                        uc.emu.pe.save_namespace(e.stage.dir, ns)
                        e.stage.emu.reload()
                    continue
                uc.emu.pe.save_namespace(e.stage.dir, ns)
                e.stage.emu.reload()
                o1 = e.upload()
                case = {'provider': prov, 'page_size': page, 'stray_cloud_entry': stray}
                stats['runs'] += 1
                if o1['run'].errors():
                    ctx.violation('property', 'vsb upload reports errors without any fault [%s, page size %d]: %s' % (prov, page, o1['run'].errors()[:2]), {'case': case})
                    continue
                local = {}
                for g in sorted(os.listdir(e.w.root)):
                    local[g] = sorted(b for b in os.listdir(os.path.join(e.w.root, g)) if store.BACKUP_RE.match(b))
                window = sorted(g for g in local if local[g])[-2:]
                cloud = o1['cloud']
                for g in window:
                    for b in local[g]:
                        if '%s/%s.tar.gpg' % (g, b) not in cloud:
                            ctx.violation('property', 'after a clean upload the cloud lacks %s/%s of the retention window [%s, page size %d]' % (g, b, prov, page), {'case': case})
                if any(k.startswith('1999.01.01/') for k in cloud):
                    ctx.violation('property', 'the cloud group 1999.01.01, older than the window, was not deleted by a clean run [%s, page size %d]' % (prov, page), {'case': case})
                for g in local:
                    if g not in window and any(k.startswith(g + '/') for k in cloud):
                        ctx.violation('property', 'a backup of group %s outside the retention window was uploaded [%s]' % (g, prov), {'case': case})
                o2 = e.upload()
                transfers = [q['endpoint'] for q in o2['requests'] if q.get('upload') and q['endpoint'] not in ('list', 'list-folder')]
                deletes = [q['endpoint'] for q in o2['requests'] if q['endpoint'] == 'delete']
                if transfers or deletes or o2['cloud'] != cloud:
                    stats['second_run_transfers'] += 1
                    ctx.violation('property', 'a second vsb upload run still transfers or deletes (%s) or changes objects that were present [%s, listing page size %d]'
                                  % ((transfers + deletes)[:4], prov, page), {'case': case})
            finally:
                e.close()
    return stats


def listings(ctx):
    """The real `list_directory` of the three providers against the emulator with listing pages of 1..7 entries,
    directories of 0..9 entries, a missing directory, and one fault at every request index: the model's result
    (complete listing / not found / error, number of requests) must equal the real one, and a listing reported
    as successful must be exactly the directory."""
    from props import upload_common as uc
    from vlib import emu as emu_mod
    import random
    rng = random.Random(ctx.seed + 606)
    stats = {'cases': 0, 'faulted': 0, 'disagreements': 0}
    sizes = [1, 2, 3, 7] if ctx.tier == 'thorough' else [rng.choice([1, 2]), rng.choice([3, 7])]
    for ps in sizes:
        stage = uc.Stage(ctx, 'list-%d' % ps, ['--page-size', str(ps)])
        try:
            for prov in uc.PROVIDERS:
                for n in ([0, 1, 2, 3, 5, 9] if ctx.tier == 'thorough' else [0, 1, 3, rng.choice([5, 9])]):
                    names = ['e%02d' % i for i in range(n)]
                    kinds = ['dir' if i % 3 == 0 else 'file' for i in range(n)]
                    ns = emu_mod.pe.load_namespace(stage.dir, prov)
                    if ns.exists('/L'):
                        ns.remove('/L')
                    ns.mkdir('/L/D')
                    for nm, k in zip(names, kinds):
                        if k == 'dir':
                            ns.mkdir('/L/D/' + nm)
                        else:
                            ns.put_file('/L/D/' + nm, b'x')
                    emu_mod.pe.save_namespace(stage.dir, ns)
                    stage.emu.reload()
                    # how many list requests a healthy listing takes (Google resolves the path first: /, L, then D)
                    pre = ([1, 1] if prov == 'google' else [])     # entries of `/` (L and Backups?) and of /L: one page each with ps >= 1? computed by the model below
                    base = run_listing(ctx, stage, prov, '/L/D', [], ps, names, kinds, stats)
                    nreq = base
                    for j in range(nreq):
                        for kind in (['status', 'badjson', 'reset-before'] if ctx.tier == 'thorough' else [['status', 'badjson', 'reset-before'][(j + n) % 3]]):
                            run_listing(ctx, stage, prov, '/L/D', [(j, kind)], ps, names, kinds, stats)
                    run_listing(ctx, stage, prov, '/L/missing', [], ps, None, None, stats)
        finally:
            stage.stop()
    return stats


def run_listing(ctx, stage, prov, path, faults, ps, names, kinds, stats):
    from props import upload_common as uc
    seq0 = stage.emu.seq()
    stage.emu.new_requests()
    stage.emu.set_script([{'fault': kind, 'match': {'seq': seq0 + 2 + j}} for j, kind in faults])
    out = core.run_lines(core.harness_exe(ctx), [core.req('listdir', {'provider': prov, 'path': path, 'url_map': stage.emu.url_map})], timeout=60)[0]
    reqs = [q for q in stage.settled_requests(seq0) if q.get('provider') == prov and q['endpoint'] != 'token']
    stage.emu.set_script([])
    stats['cases'] += 1
    stats['faulted'] += 1 if faults else 0
    script = ['ok'] * (max([j for j, _ in faults], default=-1) + 1)
    for j, kind in faults:
        script[j] = 'reject' if kind in ('status', 'reset-before') else 'lost'
    case = {'provider': prov, 'path': path, 'page_size': ps, 'entries': len(names) if names is not None else None, 'faults': faults}
    # the model: Google first resolves `/L` and `/L/D` by listing `/` and `/L` (one entry each: one page each)
    if prov == 'google':
        chain = [[0], [0]] + ([list(range(len(names)))] if names is not None else [])
        used, res = 0, None
        for idx, level in enumerate(chain):
            m = core.run_lines(core.model_exe(), [core.req('listproto', {'provider': 'google', 'page_size': ps, 'entries': level, 'script': script[used:]})])[0]
            used += m['requests']
            if m['result'] != 'ok':
                res = {'result': 'err', 'requests': used}
                break
            res = {'result': 'ok', 'entries': m['entries'], 'requests': used}
        if names is None and res['result'] == 'ok':
            res = {'result': 'notfound', 'requests': used}
        model = res
    else:
        model = core.run_lines(core.model_exe(), [core.req('listproto', {'provider': prov, 'page_size': ps, 'entries': list(range(len(names))) if names is not None else None,
                                                                         'script': script})])[0]
    real = {'result': out.get('result') if isinstance(out, dict) else str(out)[:80], 'requests': len(reqs)}
    if real['result'] == 'ok':
        got = sorted((e[0], e[1]) for e in out['entries'])
        want = sorted(zip(names, kinds))
        if got != want:
            ctx.violation('property', 'list_directory reports success with a listing that is not the directory: %d of %d entries [%s, page size %d, faults %s]'
                          % (len(got), len(want), prov, ps, faults), {'case': case})
            return len(reqs)
    mview = {'result': model['result'], 'requests': model['requests']}
    if mview != real:
        stats['disagreements'] += 1
        ctx.violation('correspondence', 'listing model and implementation differ: model %s, real %s (%s) [%s, page size %d, %s entries, faults %s]'
                      % (mview, real, (out.get('error') if isinstance(out, dict) else ''), prov, ps, case['entries'], faults), {'case': case}, found_input=False)
    return len(reqs)


def check(ctx):
    aud = core.audit(ctx.prop)
    core.report_audit(ctx, aud)
    core.proof_coverage(ctx, aud)
    bindir, err = core.build_impl(ctx)
    if bindir is None:
        ctx.violation('runtime', 'repository does not build: ' + err[-400:], {}, found_input=False)
        return
    root, fakebin = prepare_local(ctx)
    if ctx.replay:
        cases = [json.load(open(ctx.replay))['case']['case']]
    else:
        cases = [c['case'] for c in core.load_corpus('C06')] + gen_cases(ctx)
    env = dict(os.environ, PATH=fakebin + ':' + os.environ['PATH'])
    hl = [core.req('sync', dict(c, local_root=root)) for c in cases]
    ml = [core.req('sync', c) for c in cases]
    impl = core.run_lines(core.harness_exe(ctx), hl, env=env, shards=16, timeout=3000)
    model = core.run_lines(core.model_exe(), ml, shards=8)
    impl2 = []
    for i in impl:
        if isinstance(i, dict) and 'log' in i:
            impl2.append({'acts': translate_log(i['log']), 'ok': i['ok']})
        else:
            impl2.append(i)
    model2 = [{'acts': m['acts'], 'ok': m['ok']} if isinstance(m, dict) and 'acts' in m else m for m in model]
    st = core.judge(ctx, cases, model2, impl2, oracle, label='sync')
    distinct = {core.canon(c) for c in cases if len(c['local']) + len(c['cloud']) >= 3}
    ctx.coverage.update({
        'evaluations': len(cases),
        'distinct_nontrivial': len(distinct),
        'rule': 'pairs (local groups, cloud groups) over a universe of group/backup names, each group absent/empty/non-empty on each side, '
                'max_backup_groups 1..4, incoming ok flag, fault on any planned provider action; non-trivial = at least three group entries in total',
        'samples': [cases[0], cases[len(cases) // 3], cases[-1]],
        'correspondence': st, 'end_to_end': end_to_end(ctx), 'listings': listings(ctx),
        'disagreements_checked': st['cases'],
        'exhaustive': ctx.tier == 'thorough',
        'explanation': 'thorough: all assignments of {absent,empty,{b0},{b0,b1}} x {absent,empty,{b0},{b1},{b0,b1}} to 3 group names x max 1..3 x (no fault | fault at each planned action | ok=false), plus random states over 6 names',
    })
    ctx.assumptions += ['group/backup names are fixed-width digit strings, so byte order = numeric order (names modelled as Nat)',
                        'listings contain each name once', 'upload_backup itself (gpg, archiver, splitter) is covered by C04/C05/C17']
