"""Shared by C05 and C04: driving the real provider code (harness op `upfile`, or the hooked `vsb upload`)
against the provider emulator, and the model's view of the same conversation."""
import hashlib, json, os, shutil, subprocess
from vlib import core, emu

M64 = (1 << 64) - 1
GROUP_DIR = '/Backups/2001.09.09'
NAME = '2001.09.09-01:46:40.tar.gpg'
TMP = '.' + NAME
PROVIDERS = ['dropbox', 'yandex', 'google']

# endpoints whose success reply the client parses as JSON (a malformed body / missing Content-Type is an error)
JSON_REPLY = {
    'dropbox': {'upload-start', 'upload-append', 'upload-finish', 'move', 'delete'},
    'yandex': {'upload-url', 'operation', 'stat'},
    'google': {'list', 'session-put', 'get-file', 'patch'},
}
DATA_ENDPOINTS = {'dropbox': 'upload-append', 'yandex': 'upload-put', 'google': 'session-put'}
RENAME = {'dropbox': 'move', 'yandex': 'move', 'google': 'patch'}
# the replies that carry the provider's checksum of what it received
CHECKSUM_REPLY = {'dropbox': 'upload-finish', 'yandex': 'stat', 'google': 'get-file'}
FAULT_KINDS = ['status', 'text', 'emptytext', 'badjson', 'noheader', 'reset-before', 'reset-inside', 'corrupt', 'rename-fail']


def payload(seed, index, size):
    x = (seed * 6364136223846793005 + index + 1) & M64
    out = bytearray()
    for _ in range(size):
        x = (x * 6364136223846793005 + 1442695040888963407) & M64
        out.append((x >> 33) & 0xff)
    return bytes(out)


def model_resp(provider, endpoint, kind):
    """What a fault of `kind` on a request of class `endpoint` is in the model's alphabet."""
    if kind in ('status', 'text', 'emptytext', 'reset-before', 'reset-inside'):
        return 'reject'
    if kind == 'rename-fail':
        return 'reject' if endpoint == RENAME[provider] else 'ok'
    if kind == 'corrupt':
        return 'corrupt' if endpoint == DATA_ENDPOINTS[provider] else 'ok'
    if kind == 'badjson':
        return 'lost' if endpoint in JSON_REPLY[provider] else 'ok'
    if kind == 'nofield':
        # (only aimed at the checksum-carrying reply: a well-formed JSON object without the checksum field)
        return 'lost' if endpoint == CHECKSUM_REPLY[provider] else 'ok'
    if kind == 'noheader':
        if provider == 'google' and endpoint == 'session-start':
            return 'lost'          # no Location header
        return 'lost' if endpoint in JSON_REPLY[provider] else 'ok'
    return 'ok'


class Stage:
    """One emulator process reused for many conversations; the provider's namespace is rewritten per case."""
    def __init__(self, ctx, tag, options=()):
        self.ctx = ctx
        self.dir = os.path.join(ctx.scratch_dir(), 'emu-' + tag)
        shutil.rmtree(self.dir, ignore_errors=True)
        self.emu = emu.Emulator(self.dir, options)
        self.harness = None

    def reset(self, provider, preset):
        """preset: {name: bytes} inside GROUP_DIR"""
        for f in (provider + '.json',):
            p = os.path.join(self.dir, f)
            if os.path.exists(p):
                os.unlink(p)
        shutil.rmtree(os.path.join(self.dir, 'blobs', provider), ignore_errors=True)
        ns = emu.pe.load_namespace(self.dir, provider)
        ns.mkdir(GROUP_DIR)
        for n, d in preset.items():
            ns.put_file(GROUP_DIR + '/' + n, d)
        emu.pe.save_namespace(self.dir, ns)
        self.emu.reload()
        self.emu.new_requests()

    def group_files(self, provider):
        out = {}
        for path, typ, sha, size in self.emu.files(provider, GROUP_DIR):
            if path != GROUP_DIR:
                out.setdefault(path[len(GROUP_DIR) + 1:], []).append((sha, size))
        return out

    def settled_requests(self, seq0, wait=5.0):
        """The log is written when a request handler finishes, which for aborted connections can be after the
        client has already returned: wait until every sequence number handed out has its log line."""
        import time
        reqs = []
        t0 = time.time()
        while True:
            reqs += self.emu.new_requests()
            if len(reqs) >= self.emu.seq() - seq0 or time.time() - t0 > wait:
                return reqs
            time.sleep(0.02)

    def stop(self):
        self.emu.stop()


def conversation(requests, provider):
    """Request classes of the upload conversation (token requests are not part of the model)."""
    return [r['endpoint'] for r in requests if r.get('provider') == provider and r['endpoint'] != 'token']


def run_upfile(ctx, stage, provider, sizes, seed, ending, max_request_size, faults, preset, timeout=30):
    """faults: list of (conversation index | 'token', kind).  -> dict(real observation)"""
    stage.reset(provider, preset)
    seq0 = stage.emu.seq()
    rules = []
    for idx, kind in faults:
        seq = seq0 + 1 if idx == 'token' else seq0 + 2 + idx
        rule = {'fault': kind, 'match': {'seq': seq}}
        if kind == 'reset-inside':
            rule['after_bytes'] = 7
        if kind == 'emptytext':      # an error status with Content-Type text/plain and no body at all (a bare 503 of a front end)
            rule = {'fault': 'text', 'body': '', 'match': {'seq': seq}}
        rules.append(rule)
    stage.emu.set_script(rules)
    arg = {'provider': provider, 'dir': GROUP_DIR, 'tmp': TMP, 'name': NAME, 'payloads': sizes, 'seed': seed,
           'ending': {'final': 'eof', 'error': 'err', 'hangup': 'hangup'}[ending], 'url_map': stage.emu.url_map}
    if max_request_size:
        arg['max_request_size'] = max_request_size
    out = core.run_lines(core.harness_exe(ctx), [core.req('upfile', arg)], timeout=timeout)[0]
    reqs = stage.settled_requests(seq0)
    stage.emu.set_script([])
    return {'out': out, 'requests': reqs, 'classes': conversation(reqs, provider), 'files': stage.group_files(provider)}


def model_request(provider, sizes, ending, max_request_size, script, preset_names, depth=3, polls=600):
    ids, payloads = 0, []
    for s in sizes:
        payloads.append(list(range(ids, ids + s)))
        ids += s
    return core.req('proto', {'provider': provider, 'ns': [[n, [100000 + i]] for i, n in enumerate(preset_names)], 'tmp': TMP, 'final': NAME,
                              'payloads': payloads, 'max': max_request_size if provider == 'dropbox' else None, 'ending': ending,
                              'script': script, 'depth': depth, 'polls': polls})


def expected_files(model_out, sizes, seed, preset):
    """Model namespace -> {name: [(sha256|'CORRUPT:<sha of the clean bytes>', size)]}"""
    data = b''.join(payload(seed, i, s) for i, s in enumerate(sizes))
    names = list(preset)
    out = {}
    for name, toks in model_out['ns']:
        corrupt = 999 in toks           # (the marker follows the corrupted body, which need not be the last one)
        if corrupt:
            toks = [t for t in toks if t != 999]
        if toks and toks[0] >= 100000:
            b = preset[names[toks[0] - 100000]]
        else:
            b = bytes(data[t] for t in toks)
        sha = hashlib.sha256(b).hexdigest()
        out.setdefault(name, []).append((('CORRUPT:' + sha) if corrupt else sha, len(b)))
    return out


def files_agree(real, exp):
    if set(real) != set(exp):
        return False
    for n in real:
        a, b = sorted(real[n], key=str), sorted(exp[n], key=str)
        if len(a) != len(b):
            return False
        for (rs, rz), (es, ez) in zip(a, b):
            if es.startswith('CORRUPT:'):
                if rz != ez or rs == es[8:]:
                    return False
            elif (rs, rz) != (es, ez):
                return False
    return True


# ---------------------------------------------------------------------------------------------
# end to end: the hooked `vsb upload` binary, real gpg, emulator

PROVIDER_CFG = {'dropbox': 'dropbox', 'yandex': 'yandex-disk', 'google': 'google-drive'}


def make_gnupghome(base):
    """A warmed private GNUPGHOME (gpg prints 'keybox created' on first use, which vsb treats as an error)."""
    home = os.path.join(base, 'gnupg')
    os.makedirs(home, mode=0o700, exist_ok=True)
    os.chmod(home, 0o700)
    with open(os.path.join(home, 'gpg.conf'), 'w') as f:
        f.write('no-random-seed-file\n')
    env = dict(os.environ, GNUPGHOME=home)
    subprocess.run(['gpg', '--batch', '--list-keys'], env=env, stdout=subprocess.DEVNULL, stderr=subprocess.DEVNULL)
    subprocess.run(['gpg', '--batch', '--symmetric', '--passphrase', 'warm', '--pinentry-mode', 'loopback', '-o', os.path.join(home, 'warm.gpg')],
                   input=b'warm', env=env, stdout=subprocess.DEVNULL, stderr=subprocess.DEVNULL)
    return home


def kill_agent(home):
    subprocess.run(['gpgconf', '--kill', 'gpg-agent'], env=dict(os.environ, GNUPGHOME=home), stdout=subprocess.DEVNULL, stderr=subprocess.DEVNULL)


def gpg_children(home):
    """pids of running `gpg` processes (not gpg-agent) that use this GNUPGHOME (other checks may run gpg too)."""
    out = []
    want = b'GNUPGHOME=' + home.encode()
    for pid in os.listdir('/proc'):
        if pid.isdigit():
            try:
                exe = os.readlink('/proc/%s/exe' % pid)
                if os.path.basename(exe) != 'gpg':
                    continue
                env = open('/proc/%s/environ' % pid, 'rb').read().split(b'\0')
            except OSError:
                continue
            if want in env:
                out.append(int(pid))
    return out


def gpg_decrypt(home, blob, passphrase):
    """-> (rc, plaintext, stderr)"""
    import tempfile
    with tempfile.NamedTemporaryFile(dir=home, suffix='.gpg', delete=False) as f:
        f.write(blob)
        path = f.name
    try:
        r = subprocess.run(['gpg', '--batch', '--pinentry-mode', 'loopback', '--passphrase-fd', '0', '--decrypt', path],
                           input=passphrase.encode() + b'\n', env=dict(os.environ, GNUPGHOME=home), stdout=subprocess.PIPE, stderr=subprocess.PIPE)
        return r.returncode, r.stdout, r.stderr.decode('utf-8', 'replace')
    finally:
        os.unlink(path)


class E2E:
    """A local storage with real backups, a warmed GNUPGHOME, an emulator with the cloud root in place, and a
    configuration with an upload section: everything `vsb upload` needs, offline."""
    CLOUD_ROOT = '/Backups'

    def __init__(self, ctx, hid, provider, passphrase, nbackups=2, file_sizes=(10, 5000, 70000), rng=None, stage_options=()):
        import random
        from vlib import hist, store
        self.ctx, self.provider, self.passphrase = ctx, provider, passphrase
        self.rng = rng or random.Random(hid)
        self.w = w = hist.World(ctx, hid, self.rng, max_groups=2, max_per_group=max(3, nbackups))
        w.now = hist.T0
        for k, sz in enumerate(file_sizes):
            w.write(os.path.join(w.items[0], 'f%d' % k), 40 + k, sz)
        self.backups = []
        for b in range(nbackups):
            w.write(os.path.join(w.items[0], 'new%d' % b), 60 + b + hid * 10, 1000 + b)
            r = w.backup(advance=7)
            assert r.rc == 0, r.errors()
            self.backups.append((store.group_name(w.now), store.backup_name(w.now)))
        self.home = make_gnupghome(w.base)
        self.stage = Stage(ctx, 'e2e-%d' % hid, stage_options)
        ns = emu.pe.load_namespace(self.stage.dir, provider)
        ns.mkdir(self.CLOUD_ROOT)
        emu.pe.save_namespace(self.stage.dir, ns)
        self.stage.emu.reload()
        self.cfg = os.path.join(w.base, 'upload.yaml')
        store.write_config(self.cfg, 'b', w.root, [{'path': w.items[0]}], 2, max(3, nbackups),
                           upload={'provider': {'name': PROVIDER_CFG[provider], 'client_id': 'id', 'client_secret': 'secret', 'refresh_token': 'refresh'},
                                   'path': self.CLOUD_ROOT, 'max_backup_groups': 2, 'encryption_passphrase': passphrase})

    def cloud(self):
        """{relative path below the cloud root: [(sha256, size)]} for files"""
        out = {}
        for path, typ, sha, size in self.stage.emu.files(self.provider, self.CLOUD_ROOT):
            if typ == 'file':
                out.setdefault(path[len(self.CLOUD_ROOT) + 1:], []).append((sha, size))
        return out

    def cloud_blob(self, rel):
        ns = self.stage.emu.namespace(self.provider)
        return ns.read_file(self.CLOUD_ROOT + '/' + rel)

    def upload(self, rules=None, env=None, shim_env=None, timeout=240, max_request_size=None, args=()):
        from vlib import store
        self.stage.emu.new_requests()
        self.stage.emu.set_script(rules or [])
        extra = {'GNUPGHOME': self.home, 'VSB_VERIF_URL_MAP': self.stage.emu.url_map}
        if max_request_size:
            extra['VSB_VERIF_MAX_REQUEST_SIZE'] = str(max_request_size)
        extra.update(env or {})
        before = set(gpg_children(self.home))
        seq0 = self.stage.emu.seq()
        r = store.run_vsb(self.ctx, ['-c', self.cfg, 'upload'] + list(args), now=self.w.now + 60, shim_env=shim_env, extra_env=extra, timeout=timeout)
        left = [p for p in gpg_children(self.home) if p not in before]
        reqs = self.stage.settled_requests(seq0)
        self.stage.emu.set_script([])
        return {'run': r, 'requests': [q for q in reqs if q.get('provider') == self.provider], 'gpg_left': left, 'cloud': self.cloud()}

    def close(self):
        self.stage.stop()
        kill_agent(self.home)
        self.w.cleanup()
