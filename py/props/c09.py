"""C09 — content stored at most once per group; unchanged files are not re-read."""
from vlib import core, store
from props import dedup_common as dc

LEVEL = 'proof'


def check(ctx):
    aud = core.audit(ctx.prop)
    core.report_audit(ctx, aud)
    core.proof_coverage(ctx, aud)
    bindir, err = core.build_impl(ctx)
    if bindir is None:
        ctx.violation('runtime', 'repository does not build: ' + err[-400:], {}, found_input=False)
        return
    store.ensure_shim()
    steps = dc.run_all(ctx, 40, 500, want_reads=True)
    pub, st = dc.correspond(ctx, steps, dc.oracle_c09, 'dedup+reads', with_reads=True)
    distinct = {core.canon(dc.model_request(s)) for s in pub if s['earlier'] and len(s['new']['records'] or []) >= 2}
    ctx.coverage.update({
        'evaluations': len(steps),
        'distinct_nontrivial': len(distinct),
        'rule': 'same histories as C02 with duplicate-heavy edits; per source file the bytes returned by read(2) are taken from the interposer trace and compared with the model\'s read count (0/1/2 passes); '
                'non-trivial = a run appending to an existing group with at least two file records',
        'samples': [dc.model_request(pub[0])] if pub else [],
        'correspondence': st, 'distribution': dc.stats(steps, pub),
        'disagreements_checked': st['cases'],
    })
    ctx.assumptions += ['sources static during a run', 'read(2) byte counts observed through the LD_PRELOAD interposer']
