"""C01 — restoring any retained backup reproduces the backed-up tree exactly.  Theorems:
Props/C01.lean.  Correspondence: random edit/backup histories; after every run every retained backup
is restored with the real `vsb restore`; the result is compared (a) with the snapshot of the source
tree taken when that backup was made (independent oracle: same path set, bytes, types, link targets,
mode, uid/gid, mtime seconds) and (b) with the restore model applied to the independently decoded
group."""
import concurrent.futures, hashlib, json, os, random, shutil, stat
from vlib import core, store, hist
from props import restore_common as rc

LEVEL = 'proof'


def snapshot_items(w):
    """{abs path: meta} of everything under the item roots plus the ancestor directories, minus what the item's
    filter excludes (the histories use only rules that name one item-relative path literally, so the oracle needs no
    glob semantics: such a rule excludes exactly that path and everything beneath it)."""
    snap = {}
    for idx, it in enumerate(w.items):
        real = os.path.realpath(it)
        excluded = [real.lstrip('/') + '/' + l[2:] for l in (w.filters[idx] or '').split('\n') if l.startswith('- ')]
        parts = real.strip('/').split('/')
        for k in range(1, len(parts)):
            p = '/' + '/'.join(parts[:k])
            st = os.lstat(p)
            snap[p.lstrip('/')] = {'kind': 'dir', 'mode': stat.S_IMODE(st.st_mode), 'uid': st.st_uid, 'gid': st.st_gid,
                                   'mtime': int(st.st_mtime_ns // 10**9), 'ancestor': True}
        for rel, v in store.tree_manifest(real, strip='/').items():
            if any(rel == x_ or rel.startswith(x_ + '/') for x_ in excluded):
                continue
            kind, mode, uid, gid, mtime, size, x = v
            d = {'kind': kind, 'uid': uid, 'gid': gid, 'mtime': mtime}
            if kind != 'symlink':
                d['mode'] = mode
            if kind == 'file':
                d['len'] = size; d['sha'] = x
            if kind == 'symlink':
                d['target'] = x
            snap[rel] = d
    return snap


def extreme_metadata(rng, w):
    """Give some nodes extreme metadata: modes, owners, mtimes (pre-1970, far future)."""
    nodes = []
    for it in w.items:
        for d, dn, fn in os.walk(it):
            nodes += [os.path.join(d, x) for x in dn + fn]
    for p in rng.sample(nodes, min(len(nodes), rng.randint(0, 4))):
        try:
            what = rng.choice(['mode', 'owner', 'old', 'future', 'epoch'])
            if what == 'mode' and not os.path.islink(p):
                os.chmod(p, rng.choice([0o000, 0o7777, 0o4755, 0o1777, 0o640]))
            elif what == 'owner':
                os.lchown(p, rng.choice([0, 1000, 65534, 4000000]), rng.choice([0, 100, 4000000]))
            elif what == 'old':
                os.utime(p, (-86400 * 365 * 5, -86400 * 365 * 5 - w.mtime_counter), follow_symlinks=False); w.mtime_counter += 1
            elif what == 'future':
                os.utime(p, (2**33, 2**33 + w.mtime_counter), follow_symlinks=False); w.mtime_counter += 1
            elif what == 'epoch':
                # (second 0 exactly; the sub-second part keeps the (device, inode, mtime) identity fresh, as C01 assumes)
                w.mtime_counter += 1
                os.utime(p, ns=(w.mtime_counter, w.mtime_counter), follow_symlinks=False)
        except OSError:
            pass


def one_history(ctx, hid, seed, tier):
    rng = random.Random(seed)
    w = hist.World(ctx, hid, rng, max_groups=rng.randint(1, 3), max_per_group=rng.randint(1, 3), nitems=rng.choice([1, 1, 2]))
    out = []
    snaps = {}     # (group, backup) -> snapshot
    try:
        if hid % 5 in (1, 3):
            # a filter naming two item-relative paths literally; the same names also occur at other depths, where
            # the rules do not apply
            w.filters[0] = '- skipme\n- nested/inner/drop'
            for d in ('skipme', 'keep/skipme', 'nested/inner/drop', 'nested/inner/keep/skipme', 'nested/drop', 'drop'):
                os.makedirs(os.path.join(w.items[0], d), exist_ok=True)
                w.write(os.path.join(w.items[0], d, 'inside'), 700 + len(d), 40 + len(d))
        for _ in range(rng.randint(3, 10)):
            w.edit()
        for k in range(rng.randint(2, 5 if tier == 'quick' else 8)):
            for _ in range(rng.randint(0, 5)):
                w.edit()
            extreme_metadata(rng, w)
            # hard link sometimes
            files = w.files()
            if files and rng.random() < 0.2:
                try:
                    os.link(rng.choice(files), os.path.join(os.path.dirname(files[0]), 'hardlink%d' % k))
                except OSError:
                    pass
            if rng.random() < 0.25:
                w.max_groups, w.max_per_group = rng.randint(1, 3), rng.randint(1, 3)
            r = w.backup(advance=rng.choice([2, 3600, hist.DAY, hist.DAY]))
            bname = store.backup_name(w.now)
            snap = snapshot_items(w)
            for g in os.listdir(w.root):
                if os.path.isdir(os.path.join(w.root, g, bname)) and (g, bname) not in snaps and r.rc == 0:
                    snaps[(g, bname)] = snap
            # restore every retained backup that we have a snapshot for
            for g in sorted(os.listdir(w.root)):
                gdir = os.path.join(w.root, g)
                if not store.GROUP_RE.match(g):
                    continue
                contents = rc.Contents()
                group = rc.decode_group(gdir, contents)
                names = [b['name'] for b in group]
                for b in names:
                    if (g, b) not in snaps:
                        continue
                    if tier == 'quick' and rng.random() < 0.4 and b != bname:
                        continue
                    rdir = os.path.join(w.base, 'r-%s' % b.replace(':', ''))
                    rr, tree = rc.real_restore(ctx, w, os.path.join(gdir, b), rdir)
                    shutil.rmtree(rdir, ignore_errors=True)
                    out.append({'history': hid, 'after_run': k, 'group': g, 'backup': b, 'rc': rr.rc, 'errors': rr.errors()[:4],
                                'tree': tree, 'snapshot': snaps[(g, b)],
                                'request': rc.model_request(group, names.index(b), contents), 'contents': contents,
                                'item_roots': [os.path.realpath(i).lstrip('/') for i in w.items]})
    finally:
        w.cleanup()
    return out


def oracle(case):
    if case['rc'] != 0:
        return 'vsb restore of a retained backup exited %d: %s' % (case['rc'], case['errors'][:2])
    tree, snap = case['tree'] or {}, case['snapshot']
    if set(tree) != set(snap):
        return 'restored path set differs: missing %s, extra %s' % (sorted(set(snap) - set(tree))[:3], sorted(set(tree) - set(snap))[:3])
    for p, s in snap.items():
        t = tree[p]
        for k, v in s.items():
            if k == 'ancestor':
                continue
            if k == 'mtime' and s.get('ancestor'):
                continue     # directories above the items change while other tests run
            if t.get(k) != v:
                return '%s: %s restored as %r, was %r' % (p, k, t.get(k), v)
    return None


def check(ctx):
    aud = core.audit(ctx.prop)
    core.report_audit(ctx, aud)
    core.proof_coverage(ctx, aud)
    bindir, err = core.build_impl(ctx)
    if bindir is None:
        ctx.violation('runtime', 'repository does not build: ' + err[-400:], {}, found_input=False)
        return
    store.ensure_shim()
    ctx.scratch_dir()
    nh = 16 if ctx.tier == 'quick' else 250
    seeds = [ctx.rng.randrange(1 << 30) for _ in range(nh)]
    with concurrent.futures.ThreadPoolExecutor(16) as ex:
        res = list(ex.map(lambda i: one_history(ctx, i, seeds[i], ctx.tier), range(nh)))
    cases = [c for r in res for c in r]
    lines = [core.req('restore', {k: v for k, v in c['request'].items() if k != 'strict_error'}) for c in cases]
    model = core.run_lines(core.model_exe(), lines, shards=8)
    mv, iv = [], []
    for c, m in zip(cases, model):
        if isinstance(m, dict) and 'result' in m:
            done = m['result'] == 'done'
            diff = rc.compare_trees(rc.model_tree(m, c['contents']), c['tree'] or {}) if done else None
            mv.append({'exit0': done and m['ok'] is True, 'tree_matches': True})
            iv.append({'exit0': c['rc'] == 0, 'tree_matches': diff is None, 'tree_diff': diff})
            if diff is None:
                iv[-1].pop('tree_diff')
        else:
            mv.append(m); iv.append({'exit0': c['rc'] == 0})
    # the hypotheses of `restore_exact_selfcontained` on real backups: a backup whose manifest holds no non-empty
    # extern record must pass the executable well-formedness check and carry exactly the manifest the theorem assumes,
    # and then the model's restore is `fsOf` of its archive (the theorem's conclusion, re-evaluated)
    sc_instances = sc_bad = 0
    for c, m in zip(cases, model):
        grp, tgt = c['request']['group'], c['request']['target']
        if not isinstance(m, dict) or tgt >= len(grp) or not isinstance(m.get('selfcontained'), dict):
            continue
        man = grp[tgt].get('manifest')
        if man is None or any((not r['unique']) and r['size'] > 0 for r in man):
            continue
        sc = m['selfcontained']
        sc_instances += 1
        desc = {k: c[k] for k in ('history', 'after_run', 'group', 'backup')}
        if not (sc['wf'] and sc['manifest_eq'] and sc['complete']):
            sc_bad += 1
            ctx.violation('correspondence', 'a self-contained backup made by vsb does not satisfy the hypotheses of restore_exact_selfcontained '
                          '(well-formed archive: %s, manifest as assumed: %s)' % (sc['wf'], sc['manifest_eq']), {'case': desc}, found_input=False)
        elif m.get('result') != 'done' or m.get('ok') is not True or m.get('fs') != sc['fs']:
            sc_bad += 1
            ctx.violation('proof', 'the restore model does not return fsOf(archive) on an instance of restore_exact_selfcontained', {'case': desc}, found_input=False)
    # the hypotheses of `restore_exact` (general case) on real storages: the model reads the stored group back into its
    # logical description, checks that it renders to exactly what vsb stored, well-formedness and resolvability
    # (`generalCheck`); where that holds, `restore_exact_checked` says the model's restore is the target's tree
    gen_instances = gen_holds = gen_dedup = 0
    for c, m in zip(cases, model):
        if not isinstance(m, dict) or not isinstance(m.get('general'), dict):
            continue
        gen_instances += 1
        g = m['general']
        desc = {k: c[k] for k in ('history', 'after_run', 'group', 'backup')}
        if not g.get('holds'):
            ctx.violation('correspondence', 'a retained backup made by vsb (exit 0, nothing damaged) does not satisfy the hypotheses of restore_exact: '
                          'the stored group is not the rendering of a well-formed, resolvable logical group', {'case': desc}, found_input=False)
            continue
        gen_holds += 1
        gen_dedup += 1 if g.get('extern_files') else 0
        key = lambda e: e['path']
        if m.get('result') != 'done' or m.get('ok') is not True or sorted(m.get('fs', []), key=key) != sorted(g['fs'], key=key):
            ctx.violation('proof', 'the restore model contradicts restore_exact_checked on a real instance', {'case': desc}, found_input=False)
    slim = [{k: v for k, v in c.items() if k not in ('contents', 'request')} for c in cases]
    st = core.judge(ctx, slim, mv, iv, lambda c, i: oracle(c), label='restore-exact')
    ctx.coverage.update({
        'evaluations': len(cases),
        'distinct_nontrivial': len({(c['history'], c['group'], c['backup'], c['after_run']) for c in cases if c['after_run'] >= 1}),
        'rule': 'random histories (add/modify/touch/rename/delete/duplicate/revive/mkdir/symlink/chmod, extreme modes/owners/mtimes incl. pre-1970 and 2^33, hard links, sizes 0..70000 around 4096, unicode/space/120-byte names) interleaved with backups under limits 1..3 x 1..3 changing between runs; two in five histories configure a filter naming item-relative paths literally, the same names recurring at other depths; '
                'after every run every retained backup is restored; one evaluation = one restore; non-trivial = a restore made after at least one later run (rotation/deletion may have happened)',
        'samples': [{k: cases[0][k] for k in ('history', 'after_run', 'group', 'backup', 'rc')}],
        'correspondence': st, 'selfcontained_instances': sc_instances, 'selfcontained_hypothesis_failures': sc_bad,
        'restore_exact_instances': gen_instances, 'restore_exact_hypotheses_hold': gen_holds, 'restore_exact_instances_with_deduplicated_files': gen_dedup,
        'disagreements_checked': st['cases'],
    })
    ctx.assumptions += ['restore runs as root; mtime of directories above the items is not compared (they change while other scenarios run)',
                        'every content change changes (dev, inode, mtime); names UTF-8 without CR/LF; clock monotone']
