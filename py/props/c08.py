"""C08 — exit status 0 means nothing was silently left out."""
import json
from vlib import core, store
from props import walk_common as wc

LEVEL = 'proof'


def oracle(case):
    """C08's own statement on the observed run (independent of the model)."""
    iv = wc.impl_view(case)
    if iv['exit0']:
        if iv['errors'] or iv['item_errors'] or iv['hook_failed'] or iv['other_errors']:
            return 'exit status 0 although an error was reported: %s' % (iv['errors'] or iv['other_errors'])[:2]
        if case['archived'] is None:
            return 'exit status 0 but nothing was published'
        # nothing silently left out (the cases an oracle can decide without glob semantics: items without a filter;
        # paths touched by an injected fault, and what lies beneath them, are left to the model comparison)
        arch = {p_ for _, p_ in case['archived']}
        faulted = [f.split('@', 1)[1].rsplit('=', 1)[0] for f in case['faults'] if '@' in f]
        def missing(node, path, top):
            if any(path == f or path.startswith(f + '/') or f.startswith(path + '/') for f in faulted):
                return None
            k = node.get('kind')
            if k == 'special':
                return ('the configured item %s is of an unsupported type, was skipped, and the exit status is 0' % path) if top else None
            if k in ('file', 'dir', 'symlink') and path not in arch:
                return '%s %s exists, is not filtered out, is not in the published backup, and the exit status is 0' % (k, path)
            if k == 'dir':
                for c in node.get('children', []):
                    if c.get('raw') or not c.get('path_valid', True) or not c.get('utf8', True):
                        continue
                    r = missing(c['node'], path + '/' + c['name'], False)
                    if r:
                        return r
            return None
        for m in case['items']:
            if m['resolved'] is None or m.get('no_faults') or m.get('filter') or 'node' not in m:
                continue
            r = missing(m['node'], '/' + '/'.join(m['resolved']), True)
            if r:
                return r
    if case['archived'] is not None and case['temp_left']:
        return 'temporary directory left behind after a publishing run'
    if case['archived'] is None and case['temp_left']:
        return 'a failed run left its temporary directory: %s' % case['temp_left']
    return None


def guided(a, b):
    """Where the walk model and the run differ: C08's statement on the run, with the model's answer to "exists and is not
    excluded by a filter" (the filter semantics are C14's) - so that the violation is reported with its input."""
    if not isinstance(a, dict) or not isinstance(b, dict) or a == b or 'archived' not in a:
        return None
    if a.get('archived') is not None and b.get('archived') is not None:
        have = {tuple(x) for x in b['archived']}
        def strings(x):
            return [x] if isinstance(x, str) else [y for z in x for y in strings(z)] if isinstance(x, (list, tuple)) else []
        errs = strings(b.get('errors')) + strings(a.get('errors')) + strings(b.get('item_errors')) + strings(a.get('item_errors'))
        miss = [tuple(x) for x in a['archived'] if tuple(x) not in have
                and not any(x[1] == e or x[1].startswith(e.rstrip('/') + '/') for e in errs)]
        if miss and b['exit0']:
            return 'exit status 0, but %s %s - which exists and, by the walk model, is excluded by no filter rule - is absent from the published backup (%d such paths)' % (miss[0][0], miss[0][1], len(miss))
        if miss:
            return 'errors were reported, but the published backup also lacks %s %s, which none of the reported errors concerns (%d such paths)' % (miss[0][0], miss[0][1], len(miss))
    def strs(x):
        return [x] if isinstance(x, str) else [y for z in x for y in strs(z)] if isinstance(x, (list, tuple)) else []
    unreported = [e for e in strs(a.get('errors')) if e not in strs(b.get('errors'))]
    if unreported and '\ufffd' not in ''.join(unreported):
        return '%s could not be read and is not reported at error level (%s)' % (unreported[0], 'a mere warning' if unreported[0] in strs(b.get('warns')) else 'no message')
    if b.get('exit0') and not a.get('exit0') and (a.get('errors') or a.get('item_errors') or a.get('hook_failed')):
        what = (a.get('errors') or a.get('item_errors') or a.get('hook_failed'))
        return 'exit status 0 although %s could not be backed up (no error-level report; the walk model reports it and exits non-zero)' % (what,)
    return None


def check(ctx):
    aud = core.audit(ctx.prop)
    core.report_audit(ctx, aud)
    core.proof_coverage(ctx, aud)
    bindir, err = core.build_impl(ctx)
    if bindir is None:
        ctx.violation('runtime', 'repository does not build: ' + err[-400:], {}, found_input=False)
        return
    n = 150 if ctx.tier == 'quick' else 2500
    cases, model = wc.run_cases(ctx, n, 'faults')
    mv, iv = [], []
    for c, m in zip(cases, model):
        a, b = wc.normalize_pair(wc.model_view(m, c), wc.impl_view(c))
        mv.append(a); iv.append(b)
    slim = [{k: v for k, v in c.items() if k not in ('base',)} for c in cases]
    byimpl = {id(b): a for a, b in zip(mv, iv)}
    st = core.judge(ctx, slim, mv, iv, lambda c, i: oracle(c) or guided(byimpl.get(id(i)), i), label='walk')
    kinds = {}
    for c in cases:
        for f in c['faults']:
            k = f.split('@')[0] + '=' + f.rsplit('=', 1)[1]
            kinds[k] = kinds.get(k, 0) + 1
    outcomes = {}
    for m in model:
        r = m.get('result') if isinstance(m, dict) else '?'
        outcomes[r] = outcomes.get(r, 0) + 1
    distinct = {core.canon(wc.model_request(c)) for c in cases if c['faults'] or any(m['resolved'] is None for m in c['items'])}
    ctx.coverage.update({
        'evaluations': len(cases), 'distinct_nontrivial': len(distinct),
        'rule': 'random item lists (1..3 items: trees with files/dirs/symlinks/fifos/sockets/CR and non-UTF-8 names, missing items, top-level files and fifos, overlapping items, filters, hooks) '
                'with 0..2 injected per-path call failures (lstat/open/fstat/opendir/readdir/readlink x EACCES/EIO/ENOENT/type-change errno) and occasional fsync failure in finish; '
                'non-trivial = at least one fault or unusable item; distinct by model request',
        'samples': [wc.model_request(cases[0])], 'correspondence': st, 'fault_kinds': kinds, 'model_outcomes': outcomes,
        'disagreements_checked': st['cases'],
    })
    ctx.assumptions += ['faults are injected at the libc boundary by the interposer; archive write failures in mid-run (abort) are covered by the theorem and by the fsync-in-finish scenario only',
                        'vsb never mutates sources: observed through the interposer trace in C15/C03 runs, type-level in the model (no mutating source op exists)']
