"""C15 — files changing during a run.  Theorems: Props/C15.lean.  Correspondence: the real
`FileReader` over scripted underlying readers vs the model; end to end, a writer action (truncate,
append, unlink, replace by dir/symlink) performed by the interposer inside the n-th call of the
per-file sequence lstat -> open -> fstat -> reads (pass 1) -> reads (pass 2), for every n; afterwards
the backup must decode, verify and restore, unaffected files must be exact and the affected file's
record must describe exactly what restore produces."""
import concurrent.futures, hashlib, json, os, random, shutil
from vlib import core, store, hist
from props import restore_common as rcm

LEVEL = 'proof'


def gen_reader_cases(ctx):
    rng = ctx.rng
    out = []
    for _ in range(1500 if ctx.tier == 'quick' else 20000):
        src, v = [], 1
        for _ in range(rng.randint(0, 5)):
            if rng.random() < 0.15:
                src.append([])
            else:
                k = rng.choice([1, 2, 3, 5, 9, 17])
                src.append([(v + j) % 251 + 1 for j in range(k)])
                v += k
        total = sum(len(c) for c in src)
        size = rng.choice([0, 1, total, max(0, total - 1), total + 1, total + 7, max(0, total // 2), 3])
        bufs = [rng.choice([1, 2, 3, 4, 8, 64]) for _ in range(size + 2)]
        out.append({'src': src, 'size': size, 'bufs': bufs})
    return out


def reader_oracle(case, i):
    if not isinstance(i, dict) or 'out' not in i:
        return 'FileReader failed: ' + core.canon(i)[:100]
    flat = [b for c in case['src'] for b in c]
    if len(i['out']) != case['size']:
        return 'stream has %d bytes, declared size %d' % (len(i['out']), case['size'])
    n = i['bytes_read']
    if i['out'][:n] != flat[:n] or any(b != 0 for b in i['out'][n:]):
        return 'stream is not (prefix of the file) + zero padding'
    if i.get('hash') and i['hash'] != hashlib.sha512(bytes(flat[:n])).hexdigest():
        return 'hash is not the hash of the first bytes_read bytes'
    return None


ACTIONS = ['truncate:0', 'truncate:half', 'truncate:minus1', 'append:100', 'unlink', 'replace-dir', 'replace-symlink:/nonexistent', 'replace-symlink:OUTSIDE']
SIZES = [1, 4096, 70000]


def scenario(ctx, sid, seed, size, nested, with_prev, call, k, action):
    """One run with one writer action; returns an observation dict or None if the action did not fire."""
    rng = random.Random(seed)
    w = hist.World(ctx, sid, rng, max_groups=3, max_per_group=5, nitems=2)
    try:
        item = w.items[0]
        d = os.path.join(item, 'sub') if nested else item
        os.makedirs(d, exist_ok=True)
        victim = os.path.join(d, 'victim')
        orig = hist.content(42, size)
        open(victim, 'wb').write(orig)
        others = {}
        for n in ('before.bin', 'zz-after.bin'):
            p = os.path.join(d, n)
            c = hist.content({'before.bin': 501, 'zz-after.bin': 502}[n], 5000)
            open(p, 'wb').write(c)
            others[p] = c
        # a later item holds an untouched copy of the victim's original bytes: it must come back intact whatever
        # happens to the victim while it is read
        copyp = os.path.join(w.items[1], 'copy-of-victim')
        open(copyp, 'wb').write(orig)
        others[copyp] = orig
        if with_prev and size > 1:
            # prefixes of the victim are already stored in the group (previous backup): a victim cut down to one of them
            # during the hashing pass is deduplicated by its hash
            for nm, cut in (('half-of-victim', size // 2), ('minus1-of-victim', size - 1)):
                pp = os.path.join(w.items[1], nm)
                open(pp, 'wb').write(orig[:cut])
                others[pp] = orig[:cut]
        if with_prev:
            r0 = w.backup(advance=10)
            if r0.rc != 0:
                return {'skip': 'previous backup failed'}
            # change the file so that the short-cut does not apply
            open(victim, 'wb').write(orig)
            os.utime(victim, (w.now + 1, w.now + 1))
        real = os.path.realpath(victim)
        act = action.replace('half', str(size // 2)).replace('minus1', str(max(0, size - 1)))
        if 'OUTSIDE' in act:
            # the path becomes a symbolic link to a regular file outside the items: its bytes must never be archived as the path's
            outside = os.path.join(os.path.realpath(w.base), 'outside-secret')
            open(outside, 'wb').write(hist.content(599, 3000))
            act = act.replace('OUTSIDE', outside)
        trace = os.path.join(w.base, 'trace.txt')
        spec = '%s@%s@%d=%s' % (call, real, k, act)
        if action == 'shrink-grow':
            # rewritten in place while it is read: cut short just before one read, the cut-off length appended before the next
            spec = '%s@%s@%d=truncate:%d;%s@%s@%d=append:%d' % (call, real, k, size // 3, call, real, k + 1, size - size // 3)
        r = w.backup(advance=100, shim_env={'ACTION': spec, 'TRACE': trace, 'WATCH': os.path.realpath(item)})
        fired = os.path.exists(trace) and any('\tACTION\t' in ln for ln in open(trace, errors='replace'))
        if not fired:
            return None
        obs = {'size': size, 'nested': nested, 'with_prev': with_prev, 'call': call, 'k': k, 'action': action,
               'rc': r.rc, 'errors': r.errors()[:4], 'warnings': r.warnings()[:4]}
        bname = store.backup_name(w.now)
        gdirs = [g for g in os.listdir(w.root) if os.path.isdir(os.path.join(w.root, g, bname))]
        obs['published'] = bool(gdirs)
        if not gdirs:
            return obs
        bdir = os.path.join(w.root, gdirs[0], bname)
        try:
            recs = store.read_manifest(bdir)
            ents, _ = store.read_archive(bdir, with_data=True)
            obs['decodes'] = True
        except Exception as e:
            obs['decodes'] = False
            obs['decode_error'] = repr(e)
            return obs
        rec = [x for x in recs if x['path'] == real]
        ent = [e for e in ents if '/' + e['path'] == real and e['type'] == 'file']
        obs['record'] = {k2: rec[0][k2] for k2 in ('unique', 'size', 'hash')} if rec else None
        if rec and ent and rec[0]['unique']:
            data = ent[0]['data']
            obs['entry_size'] = len(data)
            obs['entry_prefix_hash_ok'] = hashlib.sha512(data[:rec[0]['size']]).hexdigest() == rec[0]['hash']
        # verification through the real code
        v = core.run_lines(core.harness_exe(ctx), [core.req('verify', {'root': w.root})])[0]
        obs['verify_ok'] = v.get('ok') if isinstance(v, dict) else None
        # restore
        rdir = os.path.join(w.base, 'restored')
        rr, rtree = rcm.real_restore(ctx, w, bdir, rdir)
        obs['restore_rc'] = rr.rc
        obs['restore_errors'] = rr.errors()[:3]
        # the hypotheses of `restore_exact` / `changed_file_restores` on this storage: the group as stored - entries of
        # files that shrank being content + zero padding - must be the rendering of a well-formed, resolvable logical
        # group, and then the model's restore (= the theorem's tree) must be what the real restore produced
        try:
            contents = rcm.Contents()
            grp = rcm.decode_group(os.path.join(w.root, gdirs[0]), contents, split_padding=True)
            tgt = [b['name'] for b in grp].index(bname)
            mreq = rcm.model_request(grp, tgt, contents)
            m = core.run_lines(core.model_exe(), [core.req('restore', {k: v for k, v in mreq.items() if k != 'strict_error'})])[0]
            g = m.get('general') if isinstance(m, dict) else None
            obs['padded_entries'] = sum(1 for b in grp for e in b['archive'] if e.get('pad'))
            if isinstance(g, dict):
                obs['general_holds'] = bool(g.get('holds'))
                if g.get('holds') and rr.rc == 0 and rtree is not None:
                    obs['general_tree_diff'] = rcm.compare_trees(rcm.model_tree({'fs': g['fs']}, contents), rtree)
                    obs['general_model_agrees'] = m.get('result') == 'done' and m.get('ok') is True and \
                        sorted(m.get('fs', []), key=lambda e: e['path']) == sorted(g['fs'], key=lambda e: e['path'])
        except Exception as e:
            obs['general_error'] = repr(e)[:200]
        if rr.rc == 0:
            for p, c in others.items():
                q = os.path.join(rdir, os.path.realpath(p).lstrip('/'))
                if not os.path.isfile(q) or open(q, 'rb').read() != c:
                    obs['other_damaged'] = p
            q = os.path.join(rdir, real.lstrip('/'))
            if rec:
                if os.path.isfile(q) and not os.path.islink(q):
                    got = open(q, 'rb').read()
                    obs['restored_matches_record'] = (len(got) == rec[0]['size'] and hashlib.sha512(got).hexdigest() == rec[0]['hash'])
                    # every restored byte was on disk at its offset at some moment of the run
                    versions = [orig + b'Z' * 100]
                    if action == 'shrink-grow':
                        versions.append(orig[:size // 3] + b'Z' * (size - size // 3))
                    obs['restored_is_prefix'] = len(got) <= max(map(len, versions)) and all(
                        any(i < len(v) and v[i] == b for v in versions) for i, b in enumerate(got))
                else:
                    obs['restored_matches_record'] = False
        # the next backup of the group is made while nothing changes any more: it must restore to the file as it now is
        # (what the disturbed run recorded about the file's identity must not pass for knowledge of its present content)
        if rr.rc == 0 and action.split(':')[0] in ('append', 'truncate', 'shrink-grow') and os.path.isfile(real) and sid % 2 == 0:
            r2 = w.backup(advance=50)
            b2 = os.path.join(w.root, gdirs[0], store.backup_name(w.now))
            if not os.path.isdir(b2):
                cand = [os.path.join(w.root, g_, store.backup_name(w.now)) for g_ in os.listdir(w.root)]
                b2 = next((c_ for c_ in cand if os.path.isdir(c_)), b2)
            rd2 = os.path.join(w.base, 'restored-next')
            rr2 = store.run_vsb(ctx, ['-c', w.cfg, 'restore', b2, rd2])
            q2 = os.path.join(rd2, real.lstrip('/'))
            now_ = open(real, 'rb').read()
            obs['next_backup'] = {'rc': r2.rc, 'restore_rc': rr2.rc, 'restore_errors': rr2.errors()[:2],
                                  'victim_exact': os.path.isfile(q2) and open(q2, 'rb').read() == now_, 'size_now': len(now_)}
        return obs
    finally:
        w.cleanup()


def oracle(o):
    if o.get('skip'):
        return None
    if not o['published']:
        return 'the run did not publish a backup (exit %s): %s' % (o['rc'], o['errors'][:1])
    if not o.get('decodes'):
        return 'the published backup does not decode: %s' % o.get('decode_error')
    if o.get('entry_size') is not None and not o.get('entry_prefix_hash_ok'):
        return 'the unique record does not describe the first `size` bytes of its archive entry'
    if o.get('verify_ok') is not True:
        return 'verification rejects the backup'
    if o.get('restore_rc') != 0:
        return 'restore failed: %s' % o.get('restore_errors')
    if o.get('other_damaged'):
        return 'an unaffected file was damaged: %s' % o['other_damaged']
    if o.get('restored_matches_record') is False:
        return 'restore does not produce what the record describes'
    if o.get('restored_is_prefix') is False:
        return 'the restored bytes are not a prefix of what was on disk'
    nb = o.get('next_backup')
    if nb and (nb['rc'] != 0 or nb['restore_rc'] != 0 or not nb['victim_exact']):
        return 'the next backup, made while nothing changed any more, does not restore to the file as it is (backup exit %s, restore exit %s %s, exact: %s)' % (
            nb['rc'], nb['restore_rc'], nb['restore_errors'], nb['victim_exact'])
    if o.get('general_holds') and o.get('general_tree_diff'):
        return 'the restored tree is not the tree of the logical backup (restore_exact on the stored group): %s' % o['general_tree_diff']
    return None


def check(ctx):
    aud = core.audit(ctx.prop)
    core.report_audit(ctx, aud)
    core.proof_coverage(ctx, aud)
    bindir, err = core.build_impl(ctx)
    if bindir is None:
        ctx.violation('runtime', 'repository does not build: ' + err[-400:], {}, found_input=False)
        return
    store.ensure_shim()
    ctx.scratch_dir()
    rc = gen_reader_cases(ctx)
    rl = [core.req('filereader', c) for c in rc]
    model = core.run_lines(core.model_exe(), rl, shards=4)
    impl = core.run_lines(core.harness_exe(ctx), rl, shards=4)
    mv = [{'out': m['out'], 'bytes_read': m['bytes_read'], 'hash': hashlib.sha512(bytes(m['hashed'])).hexdigest()} if isinstance(m, dict) and 'out' in m else m for m in model]
    st = core.judge(ctx, rc, mv, impl, reader_oracle, label='filereader')
    # end to end
    plans = []
    sid = 0
    sizes = [4096, 70000] if ctx.tier == 'quick' else SIZES
    for size in sizes:
        for nested in ((True,) if ctx.tier == 'quick' else (True, False)):
            for with_prev in (False, True):
                for call, ks in (('lstat', [1]), ('open', [1]), ('fstat', [1]), ('read', list(range(1, 26)))):
                    for k in ks:
                        if ctx.tier == 'quick' and with_prev and not (call == 'read' and k <= 4):
                            continue        # (quick: with a previous backup only the first reads of the hashing pass)
                        acts = ACTIONS if (ctx.tier == 'thorough' or k <= 3 or k % 4 == 0) else ACTIONS[:3]
                        for a in acts:
                            plans.append((sid, size, nested, with_prev, call, k, a))
                            sid += 1
                        if call == 'read' and size > 4096 and (ctx.tier == 'thorough' or k % 3 == 1):
                            plans.append((sid, size, nested, with_prev, call, k, 'shrink-grow'))
                            sid += 1
    seeds = [ctx.rng.randrange(1 << 30) for _ in plans]
    with concurrent.futures.ThreadPoolExecutor(16) as ex:
        obs = list(ex.map(lambda p: scenario(ctx, p[0], seeds[p[0]], *p[1:]), plans))
    fired = [o for o in obs if o is not None]
    bad = 0
    for o in fired:
        m = oracle(o)
        if m:
            bad += 1
            ctx.violation('property', 'changing file: ' + m, {'case': o})
    gen = {'evaluated': 0, 'hypotheses_hold': 0, 'with_padded_entries': 0, 'hold_with_padded_entries': 0, 'errors': 0}
    for o in fired:
        if 'general_error' in o:
            gen['errors'] += 1
        if 'general_holds' not in o:
            continue
        gen['evaluated'] += 1
        gen['hypotheses_hold'] += 1 if o['general_holds'] else 0
        gen['with_padded_entries'] += 1 if o.get('padded_entries') else 0
        gen['hold_with_padded_entries'] += 1 if o.get('padded_entries') and o['general_holds'] else 0
        if o['general_holds'] and o.get('general_model_agrees') is False:
            ctx.violation('proof', 'the restore model contradicts restore_exact_checked on a real instance with a changing file', {'case': o}, found_input=False)
        if not o['general_holds'] and not oracle(o):
            ctx.violation('correspondence', 'a backup made while a file changed (published, verified, restored) is not the rendering of a well-formed, '
                          'resolvable logical group with padded entries: the hypotheses of restore_exact/changed_file_restores do not hold', {'case': o}, found_input=False)
    dist = {}
    for o in fired:
        k = '%s:%s' % (o.get('call'), o.get('action', '').split(':')[0])
        dist[k] = dist.get(k, 0) + 1
    ctx.coverage.update({
        'evaluations': len(rc) + len(fired),
        'distinct_nontrivial': len({core.canon(c) for c in rc if len(c['src']) >= 2}) + len({(o.get('size'), o.get('call'), o.get('k'), o.get('action'), o.get('nested'), o.get('with_prev')) for o in fired}),
        'rule': 'filereader: random underlying chunk lists (incl. early EOF, more/fewer bytes than declared) x declared sizes x buffer sizes; '
                'end to end: writer action %s inside call lstat/open/fstat/read#k (k=1..25 covers both passes) for file sizes %s, nested/top-level directory, with/without previous backup; only scenarios whose action really fired are counted' % (ACTIONS, sizes),
        'samples': [rc[0]] + fired[:1],
        'correspondence': {'filereader': st, 'e2e_planned': len(plans), 'e2e_fired': len(fired), 'e2e_failures': bad},
        'action_distribution': dist, 'restore_exact_on_changing_files': gen,
        'disagreements_checked': st['cases'],
    })
    ctx.assumptions += ['the writer acts between two system calls of vsb (performed by the interposer inside the intercepted call), i.e. deterministic schedules; truly simultaneous writes inside one read(2) are the kernel\'s',
                        'SHA-512 collision-free']
