"""C18 — chunked SHA-256 / MD5 for every fragmentation.  Theorems: Props/C18.lean.  Correspondence:
real `ChunkedSha256::new(bs)` and the providers' `hasher()` vs the model's block decomposition
(hashed with hashlib) and vs the providers' definition computed independently."""
import hashlib, itertools, json
from vlib import core

LEVEL = 'proof'
MIB4 = 4 * 1024 * 1024


def compositions(n):
    if n == 0:
        yield []
        return
    for mask in range(1 << (n - 1)):
        parts, cur = [], 1
        for i in range(n - 1):
            if mask >> i & 1:
                parts.append(cur); cur = 1
            else:
                cur += 1
        parts.append(cur)
        yield parts


def definition(kind, bs, data):
    if kind in ('md5', 'yandex', 'google'):
        return hashlib.md5(data).hexdigest()
    if kind == 'dropbox':
        bs = MIB4
    acc = b''.join(hashlib.sha256(data[i:i + bs]).digest() for i in range(0, len(data), bs))
    return hashlib.sha256(acc).hexdigest()


def encryptor_feed(ctx):
    """The hasher as the encryptor feeds it: the real `Storage::upload_backup` with the chunked hasher on a ciphertext
    of more than two blocks, gpg's output re-fragmented (by a stand-in that pipes the real gpg through a re-chunker)
    so that fragments straddle the 4 MiB block boundaries; the checksum delivered with the finalisation must be the
    definition's value of the bytes delivered."""
    import os, random
    from vlib import hist, store
    from props import upload_common as uc
    out = []
    # (first = 0: the real gpg's own fragments, and a provider that starts reading 1.2 s late, so that the queue between the
    # reader of gpg's output and the uploader is full most of the time - every block must still be hashed exactly once)
    for i, first in enumerate([3596, 0] if ctx.tier == 'quick' else [3596, 0, 1, 4095, 8191, 5000]):
        rng = random.Random(ctx.seed + i)
        w = hist.World(ctx, 5000 + i, rng)
        home = uc.make_gnupghome(w.base)
        try:
            with open(os.path.join(w.items[0], 'noise'), 'wb') as f:
                f.write(random.Random(i).randbytes(9 * 1024 * 1024 + 12345 * i))
            r = w.backup(advance=5)
            assert r.rc == 0, r.errors()
            g, b = store.group_name(w.now), store.backup_name(w.now)
            d = os.path.join(w.base, 'fakebin')
            os.makedirs(d)
            with open(os.path.join(d, 'rechunk.py'), 'w') as f:
                f.write('import os, sys, time\nfirst = %d\nn = first\nwhile True:\n    buf = b""\n    while len(buf) < n:\n        x = os.read(0, n - len(buf))\n'
                        '        if not x: break\n        buf += x\n    if not buf: break\n    os.write(1, buf)\n    time.sleep(0.0002)\n    n = 4096\n' % first)
            with open(os.path.join(d, 'gpg'), 'w') as f:
                f.write('#!/bin/bash\n/usr/bin/gpg "$@" | /usr/bin/env python3 %s/rechunk.py\n' % d if first else '#!/bin/bash\nexec /usr/bin/gpg "$@"\n')
            os.chmod(os.path.join(d, 'gpg'), 0o755)
            blobf = os.path.join(w.base, 'cipher.bin')
            o = core.run_lines(core.harness_exe(ctx), [core.req('upbackup', {'backup_path': os.path.join(w.root, g, b), 'group': g, 'name': b, 'passphrase': 'pp',
                                                                              'max': None, 'chunked': True, 'out': blobf, 'stall_ms': 0 if first else 1200})],
                               env=dict(os.environ, GNUPGHOME=home, PATH=d + ':' + os.environ.get('PATH', '/usr/bin:/bin')), timeout=600)[0]
            case = {'scenario': 'encryptor-feed', 'first_fragment': first}
            if not isinstance(o, dict) or o.get('result') != 'ok':
                ctx.violation('runtime', 'upload_backup with the re-chunking gpg stand-in failed: %s' % str(o)[:200], {'case': case}, found_input=False)
                continue
            blob = open(blobf, 'rb').read()
            want = definition('dropbox', MIB4, blob)
            got = (o.get('final') or {}).get('checksum')
            if got != want:
                ctx.violation('property', 'the checksum the encryptor delivers (%s...) differs from the chunked SHA-256 (%s...) of the %d bytes it sent when gpg\'s output '
                              'arrives in fragments %d,4096,4096,... (a fragment straddles a 4 MiB block boundary; 0 = gpg\'s own fragments into a stalled provider)' % (str(got)[:12], want[:12], len(blob), first), {'case': case})
            out.append({'bytes': len(blob), 'first_fragment': first})
        finally:
            uc.kill_agent(home)
            w.cleanup()
    return out


def gen_bytes(lens, seed):
    out = []
    i = 0
    for n in lens:
        out.append(bytes(((seed + 31 * (i + k)) % 251) for k in range(n)))
        i += n
    return out


def check(ctx):
    aud = core.audit(ctx.prop)
    core.report_audit(ctx, aud)
    core.proof_coverage(ctx, aud)
    bindir, err = core.build_impl(ctx, need_vsb=False)
    if bindir is None:
        ctx.violation('runtime', 'repository does not build: ' + err[-400:], {}, found_input=False)
        return
    rng = ctx.rng
    small = []
    maxlen = 12 if ctx.tier == 'thorough' else 8
    if ctx.replay:
        small = [json.load(open(ctx.replay))['case']['case']]
    else:
        for bs in range(1, 6):
            for n in range(0, maxlen + 1):
                for comp in compositions(n):
                    data = [(7 * n + 3 * k) % 251 for k in range(n)]
                    parts, pos = [], 0
                    for c in comp:
                        parts.append(data[pos:pos + c]); pos += c
                    # sprinkle empty writes deterministically
                    if (len(comp) + bs) % 3 == 0:
                        parts.insert(len(parts) // 2, [])
                    small.append({'kind': 'chunked', 'bs': bs, 'parts': parts,
                                  'mode': 'write' if (n + bs) % 2 else 'write_all'})
        for _ in range(400 if ctx.tier == 'quick' else 3000):
            bs = rng.choice([1, 2, 3, 4, 5, 7, 16, 64])
            parts = [[rng.randrange(256) for _ in range(rng.choice([0, 1, 2, 3, 5, 8, 16, 33, 64, 65]))]
                     for _ in range(rng.randint(0, 6))]
            small.append({'kind': 'chunked', 'bs': bs, 'parts': parts, 'mode': rng.choice(['write', 'write_all'])})
    lines = [core.req('chash', c) for c in small]
    impl = core.run_lines(core.harness_exe(ctx), lines, shards=8)
    model = core.run_lines(core.model_exe(), lines, shards=4)

    def model_hash(m):
        if not isinstance(m, dict) or 'blocks' not in m:
            return m
        acc = b''.join(hashlib.sha256(bytes(b)).digest() for b in m['blocks'])
        return {'hash': hashlib.sha256(acc).hexdigest(), 'consumed': m['consumed']}

    def norm_impl(case, i):
        if isinstance(i, dict) and 'hash' in i and case.get('mode') != 'write':
            return {'hash': i['hash'], 'consumed': None}
        return i

    model2 = []
    for c, m in zip(small, model):
        mh = model_hash(m)
        if isinstance(mh, dict) and 'hash' in mh and c.get('mode') != 'write':
            mh = {'hash': mh['hash'], 'consumed': None}
        model2.append(mh)
    impl2 = [norm_impl(c, i) for c, i in zip(small, impl)]

    def oracle(case, i):
        if not isinstance(i, dict) or 'hash' not in i:
            return 'hasher failed: ' + core.canon(i)[:120]
        data = bytes(b for p in case['parts'] for b in p)
        want = definition(case['kind'], case.get('bs'), data)
        if i['hash'] != want:
            return 'checksum %s differs from the definition %s for %d bytes in %d writes' % (i['hash'][:12], want[:12], len(data), len(case['parts']))
        if i['hash'] != i['hash'].lower():
            return 'checksum is not lowercase hex'
        return None

    st = core.judge(ctx, small, model2, impl2, oracle, label='chash')

    # real providers' hashers at the real block size (implementation vs definition only)
    big = []
    ks = [1, 2] if ctx.tier == 'quick' else [1, 2, 3]
    for kind in ('dropbox', 'yandex', 'google', 'md5'):
        sizes = [0, 1, 1000]
        for k in ks:
            sizes += [k * MIB4 - 1, k * MIB4, k * MIB4 + 1]
        if kind != 'dropbox':
            sizes = [0, 1, 1000, MIB4, MIB4 + 1]
        for total in sizes:
            for frag in range(3 if ctx.tier == 'quick' else 6):
                lens, left = [], total
                while left > 0:
                    c = min(left, rng.choice([1, 4095, 4096, 65536, 1 << 20, MIB4 - 1, MIB4, MIB4 + 1, left]))
                    lens.append(c); left -= c
                    if rng.random() < 0.1:
                        lens.append(0)
                big.append({'kind': kind, 'gen': {'parts': lens, 'seed': rng.randrange(251)}})
    bl = [core.req('chash', c) for c in big]
    bimpl = core.run_lines(core.harness_exe(ctx), bl, shards=16, timeout=1200)
    big_fail = 0
    for c, i in zip(big, bimpl):
        data = b''.join(gen_bytes(c['gen']['parts'], c['gen']['seed']))
        want = definition(c['kind'], None, data)
        if not isinstance(i, dict) or i.get('hash') != want:
            big_fail += 1
            ctx.violation('property', 'provider hasher %s: checksum differs from the definition for %d bytes' % (c['kind'], len(data)),
                          {'case': c, 'impl': i, 'expected': want})
    feed = encryptor_feed(ctx)
    distinct = {core.canon(c) for c in small if len(c['parts']) >= 2 and sum(len(p) for p in c['parts']) > c['bs']}
    ctx.coverage.update({
        'evaluations': len(small) + len(big),
        'distinct_nontrivial': len(distinct),
        'rule': 'small: block sizes 1..5 x lengths 0..%d x ALL compositions into writes (plus empty writes, write and write_all modes) + random; '
                'non-trivial = at least two writes and more than one block; big: providers\' hasher() at k*4MiB-1,k*4MiB,k*4MiB+1 with random fragmentations' % maxlen,
        'samples': [small[5], small[len(small) // 2], big[0]],
        'correspondence': {'small': st, 'big_cases': len(big), 'big_failures': big_fail},
        'disagreements_checked': st['cases'], 'encryptor_feed': feed,
        'exhaustive': True,
        'explanation': 'exhaustive over bs 1..5 x lengths 0..%d x all partitions; the 4 MiB cases compare the implementation with the definition only (the theorem is size-generic)' % maxlen,
    })
    ctx.assumptions += ['streaming sha2/md5 update == hashing the concatenation (exercised against hashlib)',
                        'model hand-written; tied to util/hash.rs by this differential run only']
