"""C02 — every retained backup is recoverable from its own group alone."""
from vlib import core, store
from props import dedup_common as dc

LEVEL = 'proof'


def check(ctx):
    aud = core.audit(ctx.prop)
    core.report_audit(ctx, aud)
    core.proof_coverage(ctx, aud)
    bindir, err = core.build_impl(ctx)
    if bindir is None:
        ctx.violation('runtime', 'repository does not build: ' + err[-400:], {}, found_input=False)
        return
    store.ensure_shim()
    steps = dc.run_all(ctx, 50, 700)
    pub, st = dc.correspond(ctx, steps, dc.oracle_c02, 'dedup')
    distinct = {core.canon(dc.model_request(s)) for s in pub if s['earlier'] and len(s['new']['records'] or []) >= 2}
    ctx.coverage.update({
        'evaluations': len(steps),
        'distinct_nontrivial': len(distinct),
        'rule': 'random edit/backup histories (add, modify, touch, rename, delete, duplicate, revive earlier content, mkdir, symlink, chmod) under max_backups_per_group 1..4 and max_backup_groups 1..3 '
                'changing between runs, clock steps 1s..2d, an earlier manifest of the group garbled during ~15% of the runs; one evaluation = one run; '
                'non-trivial = a run appending to an existing group with at least two file records; distinct by model request',
        'samples': [dc.model_request(pub[0])] if pub else [],
        'correspondence': st, 'distribution': dc.stats(steps, pub),
        'disagreements_checked': st['cases'],
    })
    ctx.assumptions += ['every content change also changes (device, inode, mtime) — the generator gives each written file a fresh mtime',
                        'sources static during a run', 'SHA-512 collision-free on the generated contents']
