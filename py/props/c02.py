"""C02 — every retained backup is recoverable from its own group alone."""
from vlib import core, store
from props import dedup_common as dc

LEVEL = 'proof'


def racing_writer(ctx, n):
    """A file is rewritten by another process between the two reads vsb makes of it (hashing pass, rewind,
    archiving pass) while a later file still holds the old bytes: whatever vsb stores, every extern record of
    the published backup must still have its unique record.  The rewrite is staged by the interposer exactly
    at the rewind."""
    import os, random
    from vlib import hist
    done = 0
    for i in range(n):
        rng = random.Random(ctx.seed * 1000 + i)
        w = hist.World(ctx, 8000 + i, rng, max_groups=2, max_per_group=3, nitems=2)
        try:
            size = rng.choice([33, 4096, 5000, 70000])
            victim = os.path.join(w.items[0], 'victim')
            w.write(victim, 500 + i, size)
            for k in range(rng.randint(1, 3)):
                w.write(os.path.join(w.items[1], 'copy%d' % k), 500 + i, size)
            if rng.random() < 0.5:
                w.backup(advance=10)
                w.fresh_mtime(victim)
                for k in range(3):
                    p = os.path.join(w.items[1], 'copy%d' % k)
                    if os.path.exists(p):
                        w.fresh_mtime(p)
                if rng.random() < 0.5:
                    w.write(victim, 900 + i, size)
                    for k in range(3):
                        p = os.path.join(w.items[1], 'copy%d' % k)
                        if os.path.exists(p):
                            w.write(p, 900 + i, size)
            action = 'lseek@%s@1=write-at:%d:%d' % (os.path.realpath(victim), rng.choice([0, size // 2]), max(1, size // 3))
            r = w.backup(advance=10, shim_env={'ACTION': action, 'WATCH': os.path.realpath(w.items[0])})
            dec = w.decode_storage(with_entries=False)
            for g in dec:
                seen = set()
                for b in sorted(dec[g]):
                    recs = dec[g][b]['records']
                    if recs is None:
                        continue
                    for rec in recs:
                        if rec['unique']:
                            seen.add(rec['hash'])
                        elif rec['size'] > 0 and rec['hash'] not in seen:
                            ctx.violation('property', 'racing writer: extern record %s of %s/%s (hash %s...) has no unique record in its group'
                                          % (rec['path'], g, b, rec['hash'][:16]),
                                          {'case': {'scenario': 'racing-writer', 'index': i, 'size': size, 'action': action}, 'rc': r.rc})
            done += 1
        finally:
            w.cleanup()
    return done


def same_second(ctx, n):
    """Two or three runs within one second of the clock (backup names have one-second resolution), alone in the
    group or after earlier backups: the later run deduplicates against the backup whose name it would take.  Whatever
    it does, every extern record present afterwards must still resolve inside the group."""
    import os, random
    from vlib import hist
    done = 0
    for i in range(n):
        rng = random.Random(ctx.seed * 1000 + 500 + i)
        w = hist.World(ctx, 8500 + i, rng, max_groups=rng.randint(1, 2), max_per_group=rng.randint(2, 4), nitems=1)
        try:
            for k in range(rng.randint(2, 5)):
                w.write(os.path.join(w.items[0], 'f%d' % k), 700 + i * 10 + k, rng.choice([1, 30, 5000, 20000]))
            rcs = []
            for k in range(rng.randint(0, 2)):
                rcs.append(w.backup(advance=rng.choice([5, 3600])).rc)
                w.edit()
            rcs.append(w.backup(advance=7).rc)
            for k in range(rng.randint(1, 2)):
                if rng.random() < 0.5:
                    w.edit()
                rcs.append(w.backup(advance=0).rc)
            dec = w.decode_storage(with_entries=False)
            for g in dec:
                seen = set()
                for b in sorted(dec[g]):
                    recs = dec[g][b]['records']
                    if recs is None:
                        ctx.violation('property', 'runs in the same second: the manifest of %s/%s is unreadable' % (g, b),
                                      {'case': {'scenario': 'same-second', 'index': i}, 'rcs': rcs})
                        continue
                    for rec in recs:
                        if rec['unique']:
                            seen.add(rec['hash'])
                        elif rec['size'] > 0 and rec['hash'] not in seen:
                            ctx.violation('property', 'runs in the same second: extern record %s of %s/%s (hash %s...) has no unique record in its group'
                                          % (rec['path'], g, b, rec['hash'][:16]), {'case': {'scenario': 'same-second', 'index': i}, 'rcs': rcs})
            done += 1
        finally:
            w.cleanup()
    return done


def members_and_restores(ctx, n):
    """(1) An earlier backup of the group has lost its data archive (its manifest is still there): the next run must not
    refer to bytes that are stored nowhere - every non-empty extern record needs a unique record of its hash in an earlier
    backup of the group *whose archive holds that entry with its data*.  (2) The consequence the property names: every
    backup of a group of three or more, with a file unchanged (and one moved) across them, restores from its group alone."""
    import os, random, shutil
    from vlib import hist
    done = 0
    for i in range(n):
        rng = random.Random(ctx.seed * 1000 + 700 + i)
        # (1)
        w = hist.World(ctx, 8700 + i, rng, max_groups=2, max_per_group=4, nitems=1)
        try:
            bigman = i == 0     # variant: a long manifest that lost its tail (its first compressed blocks still decode)
            for k in range(2500 if bigman else 3):
                w.write(os.path.join(w.items[0], 'f%d' % k), 800 + i * 10 + k if not bigman else 100000 + k, 40 if bigman else rng.choice([30, 5000, 20000]))
            assert w.backup(advance=5).rc == 0
            g1, b1 = store.group_name(w.now), store.backup_name(w.now)
            if bigman:
                mp = os.path.join(w.root, g1, b1, 'metadata.zst')
                with open(mp, 'r+b') as f:
                    f.truncate(os.path.getsize(mp) * 6 // 10)
            elif i % 3 == 2:
                # variant: the backup that alone records some content was never published - it is an abandoned temporary
                # (`.name`) with a readable manifest: it is no member of the group
                w.write(os.path.join(w.items[0], 'only-there'), 850 + i, 9000)
                assert w.backup(advance=7).rc == 0
                bt = store.backup_name(w.now)
                os.rename(os.path.join(w.root, g1, bt), os.path.join(w.root, g1, '.' + bt))
                with open(os.path.join(w.root, g1, '.' + bt, 'data.tar.zst'), 'r+b') as f:
                    f.truncate(100)
            else:
                os.unlink(os.path.join(w.root, g1, b1, 'data.tar.zst'))
            if i % 2:
                for k in range(3):
                    w.fresh_mtime(os.path.join(w.items[0], 'f%d' % k))
            r = w.backup(advance=60)
            if bigman and r.rc == 0 and not r.errors():
                ctx.violation('property', 'a backup of the group has an undecodable manifest and the run appending to the group reports nothing', {'case': {'scenario': 'manifest-lost-its-tail'}})
            b2dir = os.path.join(w.root, g1, store.backup_name(w.now))
            case = {'scenario': 'member-without-data', 'index': i, 'touched': bool(i % 2), 'rc': r.rc}
            if os.path.isdir(b2dir):
                stored = set()
                for b in sorted(os.listdir(os.path.join(w.root, g1))):
                    bd = os.path.join(w.root, g1, b)
                    if not store.BACKUP_RE.match(b):
                        continue
                    try:
                        recs = store.read_manifest(bd)
                    except Exception:
                        recs = []
                    try:
                        ents, _ = store.read_archive(bd, with_data=True)
                        have = {'/' + e['path']: e for e in ents if e['type'] == 'file'}
                    except Exception:
                        have = {}
                    for rec in recs:
                        if rec['unique']:
                            e = have.get(rec['path'])
                            if e is not None and e['size'] >= rec['size']:
                                stored.add(rec['hash'])
                        elif rec['size'] > 0 and rec['hash'] not in stored and bd == b2dir:
                            ctx.violation('property', 'extern record %s of the new backup refers to content that no earlier backup of the group stores '
                                          '(the only backup recording it as unique has no data archive, or its manifest does not decode)' % rec['path'], {'case': case})
                            break
            done += 1
        finally:
            w.cleanup()
        # (2)
        w = hist.World(ctx, 8800 + i, rng, max_groups=2, max_per_group=5, nitems=1)
        try:
            w.write(os.path.join(w.items[0], 'stays'), 900 + i, 3000)
            w.write(os.path.join(w.items[0], 'moves'), 950 + i, 700)
            names = []
            for k in range(rng.randint(3, 4)):
                if k == 1:
                    os.rename(os.path.join(w.items[0], 'moves'), os.path.join(w.items[0], 'moved-to'))
                    # two more paths with the bytes of `stays`: later backups hold several extern records of one hash whose
                    # bytes live in the first backup
                    os.makedirs(os.path.join(w.items[0], 'copies'), exist_ok=True)
                    for cn in ('copies/stays-copy', 'stays-too'):
                        shutil.copyfile(os.path.join(w.items[0], 'stays'), os.path.join(w.items[0], cn))
                        w.fresh_mtime(os.path.join(w.items[0], cn))
                w.write(os.path.join(w.items[0], 'new%d' % k), 1000 + i * 10 + k, 100)
                assert w.backup(advance=30).rc == 0
                names.append((store.group_name(w.now), store.backup_name(w.now)))
            for k, (g, b) in enumerate(names):
                rd = os.path.join(w.base, 'restored-%d' % k)
                rr = store.run_vsb(ctx, ['-c', w.cfg, 'restore', os.path.join(w.root, g, b), rd])
                if rr.rc != 0:
                    ctx.violation('property', 'backup #%d of a group of %d cannot be restored from its group alone: %s' % (k + 1, len(names), rr.errors()[:2]),
                                  {'case': {'scenario': 'restore-each-of-group', 'index': i, 'backup': k}})
                shutil.rmtree(rd, ignore_errors=True)
            done += 1
        finally:
            w.cleanup()
    return done


def future_group(ctx, n):
    """The storage holds a full group whose name sorts after today's (made while the clock was ahead, or copied in): the run
    opens today's group, which is then not the last by name, and its first backup must be recoverable from that group alone."""
    import os, random
    from vlib import hist
    done = 0
    for i in range(n):
        rng = random.Random(ctx.seed * 1000 + 900 + i)
        w = hist.World(ctx, 8900 + i, rng, max_groups=3, max_per_group=1, nitems=1)
        try:
            for k in range(3):
                w.write(os.path.join(w.items[0], 'f%d' % k), 1200 + i * 10 + k, rng.choice([30, 5000, 20000]))
            assert w.backup(advance=5).rc == 0
            g1, b1 = store.group_name(w.now), store.backup_name(w.now)
            os.rename(os.path.join(w.root, g1, b1), os.path.join(w.root, g1, '2031.05.05-10:00:00'))
            os.rename(os.path.join(w.root, g1), os.path.join(w.root, '2031.05.05'))
            r = w.backup(advance=60)
            g2, b2 = store.group_name(w.now), store.backup_name(w.now)
            case = {'scenario': 'group-dated-in-the-future', 'index': i, 'rc': r.rc}
            bd = os.path.join(w.root, g2, b2)
            if not os.path.isdir(bd):
                ctx.violation('property', 'with a full group dated in the future in the storage, the run did not open a group named by today\'s date: %s' % r.errors()[:2], {'case': case})
                continue
            for rec in store.read_manifest(bd):
                if not rec['unique'] and rec['size'] > 0:
                    ctx.violation('property', 'the first backup of group %s records %s as extern: its bytes are in no backup of that group' % (g2, rec['path']), {'case': case})
                    break
            done += 1
        finally:
            w.cleanup()
    return done


def check(ctx):
    aud = core.audit(ctx.prop)
    core.report_audit(ctx, aud)
    core.proof_coverage(ctx, aud)
    bindir, err = core.build_impl(ctx)
    if bindir is None:
        ctx.violation('runtime', 'repository does not build: ' + err[-400:], {}, found_input=False)
        return
    store.ensure_shim()
    steps = dc.run_all(ctx, 50, 700)
    races = racing_writer(ctx, 4 if ctx.tier == 'quick' else 40)
    same = same_second(ctx, 6 if ctx.tier == 'quick' else 60)
    memb = members_and_restores(ctx, 4 if ctx.tier == 'quick' else 30)
    fut = future_group(ctx, 2 if ctx.tier == 'quick' else 10)
    pub, st = dc.correspond(ctx, steps, dc.oracle_c02, 'dedup')
    distinct = {core.canon(dc.model_request(s)) for s in pub if s['earlier'] and len(s['new']['records'] or []) >= 2}
    ctx.coverage.update({
        'evaluations': len(steps),
        'distinct_nontrivial': len(distinct),
        'rule': 'random edit/backup histories (add, modify, touch, rename, delete, duplicate, revive earlier content, mkdir, symlink, chmod) under max_backups_per_group 1..4 and max_backup_groups 1..3 '
                'changing between runs, clock steps 1s..2d, an earlier manifest of the group garbled during ~15% of the runs; one evaluation = one run; '
                'non-trivial = a run appending to an existing group with at least two file records; distinct by model request',
        'samples': [dc.model_request(pub[0])] if pub else [],
        'correspondence': st, 'distribution': dc.stats(steps, pub),
        'disagreements_checked': st['cases'], 'racing_writer_runs': races, 'same_second_histories': same, 'member_and_restore_scenarios': memb, 'future_group_scenarios': fut,
    })
    ctx.assumptions += ['every content change also changes (device, inode, mtime) — the generator gives each written file a fresh mtime',
                        'SHA-512 collision-free on the generated contents']
