HOOKS = {
    'guard': '--cfg vsb_verif',
    'enable': "RUSTFLAGS='--cfg vsb_verif' (set by bin/build-harness for the harness and the vsb binary)",
    'baseline_off_cmd': 'cd /repo && cargo test --workspace --no-fail-fast --offline',
    'source_commits': ['26876a3'],
    'add_only': True,
}
NOTES = ('Every claimed property: Lean 4 theorems about a hand-written executable model (lean/VsbModel), '
         'tied to /repo by a differential correspondence run (Rust harness / vsb binary vs compiled model) on every check.')
NOT_APPLICABLE = {}
TRUST = ('Trusted: Lean 4.33 kernel; axioms propext/Classical.choice/Quot.sound only (audited by #print axioms on every run); '
         'the hand-written model, tied to the code only by the correspondence run; ')
CLAIMED = {
    'C17': {
        'text': 'Lean theorems about the splitter model for every message list, every positive maximum and the unlimited case: bodies concatenate to the stream, are non-empty, <= max, all but the last full, cumulative offsets, finalisation with total+checksum xor error, hang-up fails. Model tied to stream_splitter.rs/body.rs by running the real split() and the private StreamReader against the compiled model.',
        'note': TRUST + 'std::sync::mpsc rendezvous semantics; real thread interleavings are exercised (with injected delays), not proved.',
    },
    'C18': {
        'text': 'Lean theorem chunked_eq_spec: for any digest functions, any block size > 0, any data and any partition into write_all calls (with the partial-write loop) the chunked hasher returns Hout(map H (blocks bs data)); corollaries for empty input, short input, exact multiples, fragmentation independence; MD5 streaming. Tied to util/hash.rs by exhaustive small-block differential runs and by the providers\' hasher() at k*4MiB-1/k*4MiB/k*4MiB+1 against hashlib.',
        'note': TRUST + 'streaming SHA-256/MD5 update == hash of the concatenation (sha2/md-5 crates, exercised against hashlib).',
    },
    'C06': {
        'text': 'Lean theorems about the sync-plan model for arbitrary group lists on both sides, any max >= 1, any incoming ok flag and any failure oracle: target_window (a group is kept iff fewer than max non-empty groups are newer), uploads_only_missing (nothing present is re-uploaded; uploads stay in the window), uploads_complete (error-free run uploads every missing local backup of the window), deletes_old_whole (only listed cloud groups outside and strictly older than the window, only after a run with no error at all), wiped_guard_blocks_delete. Tied to uploading/sync.rs by running the real sync_backups with a recording mock provider against the compiled model, plus an independent declarative oracle incl. convergence of a second run.',
        'note': TRUST + 'names are fixed-width digit strings so byte order = numeric order; listings contain each name once; the convergence of a second run is checked by the oracle on every generated state, not yet proved as a theorem.',
    },
    'C07': {
        'text': 'Lean theorems about create_backup\'s group choice and gc_groups for every listing and all limits >= 1: append_iff_room, new_group_named_today, reuse_is_last, group_bounded, gc_exact, gc_bound, gc_conservative, gc_keeps_newest, and at storage level failed_run_deletes_nothing / done_run_deletes_plan (a run that does not publish removes no root entry; a completed run deletes exactly gcPlan of what the storage lists after publication). Tied to storage/mod.rs, backup_group.rs, backuping/mod.rs by histories of real vsb backup runs under a faked clock on junk-seeded storages, compared step by step with backupRun of the compiled model, plus an independent oracle for the bounds.',
        'note': TRUST + 'chrono formatting of the faked clock (clock-derived names are model inputs); ASCII digits in names; kernel rename/mkdir semantics as observed; that the published group is the newest listed one under a monotone clock is checked by the oracle on every run, not yet proved at storage level.',
    },
}
