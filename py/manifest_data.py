HOOKS = {
    'guard': '--cfg vsb_verif',
    'enable': "RUSTFLAGS='--cfg vsb_verif' (set by bin/build-harness for the harness and the vsb binary)",
    'baseline_off_cmd': 'cd /repo && cargo test --workspace --no-fail-fast --offline',
    'source_commits': ['26876a3'],
    'fix_commits': ['d48cffe', '80441a9'],
    'add_only': True,
}
NOTES = ('Every claimed property: Lean 4 theorems about a hand-written executable model (lean/VsbModel), '
         'tied to /repo by a differential correspondence run (Rust harness / vsb binary vs compiled model) on every check.')
NOT_APPLICABLE = {}
TRUST = ('Trusted: Lean 4.33 kernel; axioms propext/Classical.choice/Quot.sound only (audited by #print axioms on every run); '
         'the hand-written model, tied to the code only by the correspondence run; ')
CLAIMED = {
    'C17': {
        'text': 'Lean theorems about the splitter model for every message list, every positive maximum and the unlimited case: bodies concatenate to the stream, are non-empty, <= max, all but the last full, cumulative offsets, finalisation with total+checksum xor error, hang-up fails. Model tied to stream_splitter.rs/body.rs by running the real split() and the private StreamReader against the compiled model.',
        'note': TRUST + 'std::sync::mpsc rendezvous semantics; real thread interleavings are exercised (with injected delays), not proved.',
    },
    'C18': {
        'text': 'Lean theorem chunked_eq_spec: for any digest functions, any block size > 0, any data and any partition into write_all calls (with the partial-write loop) the chunked hasher returns Hout(map H (blocks bs data)); corollaries for empty input, short input, exact multiples, fragmentation independence; MD5 streaming. Tied to util/hash.rs by exhaustive small-block differential runs and by the providers\' hasher() at k*4MiB-1/k*4MiB/k*4MiB+1 against hashlib.',
        'note': TRUST + 'streaming SHA-256/MD5 update == hash of the concatenation (sha2/md-5 crates, exercised against hashlib).',
    },
    'C06': {
        'text': 'Lean theorems about the sync-plan model for arbitrary group lists on both sides, any max >= 1, any incoming ok flag and any failure oracle: target_window (a group is kept iff fewer than max non-empty groups are newer), uploads_only_missing (nothing present is re-uploaded; uploads stay in the window), uploads_complete (error-free run uploads every missing local backup of the window), deletes_old_whole (only listed cloud groups outside and strictly older than the window, only after a run with no error at all), wiped_guard_blocks_delete. Tied to uploading/sync.rs by running the real sync_backups with a recording mock provider against the compiled model, plus an independent declarative oracle incl. convergence of a second run.',
        'note': TRUST + 'names are fixed-width digit strings so byte order = numeric order; listings contain each name once; the convergence of a second run is checked by the oracle on every generated state, not yet proved as a theorem.',
    },
    'C07': {
        'text': 'Lean theorems about create_backup\'s group choice and gc_groups for every listing and all limits >= 1: append_iff_room, new_group_named_today, reuse_is_last, group_bounded, gc_exact, gc_bound, gc_conservative, gc_keeps_newest, and at storage level failed_run_deletes_nothing / done_run_deletes_plan (a run that does not publish removes no root entry; a completed run deletes exactly gcPlan of what the storage lists after publication). Tied to storage/mod.rs, backup_group.rs, backuping/mod.rs by histories of real vsb backup runs under a faked clock on junk-seeded storages, compared step by step with backupRun of the compiled model, plus an independent oracle for the bounds.',
        'note': TRUST + 'chrono formatting of the faked clock (clock-derived names are model inputs); ASCII digits in names; kernel rename/mkdir semantics as observed; that the published group is the newest listed one under a monotone clock is checked by the oracle on every run, not yet proved at storage level.',
    },
    'C02': {
        'text': 'Lean theorems about the dedup model: resolvable_run (appending a run keeps a group resolvable whichever subset of earlier manifests was unreadable), new_group_fresh, resolvable_history (induction over arbitrary histories of runs with any rotation decision and deletions of arbitrary whole groups: every group of every reachable storage resolves all non-empty externs from itself), plus a proved counter-example showing why the fingerprint assumption is needed. Tied to backuping/backup.rs by random edit/backup histories on the real binary: every new manifest is compared with runBackup of the compiled model and resolved independently in the as-written group prefix.',
        'note': TRUST + 'content change implies fingerprint change (the property\'s own assumption, hypothesis FpSound); sources static during a run; SHA-512 collision-free on the generated contents; rayon/HashMap ordering irrelevant (sets).',
    },
    'C09': {
        'text': 'Lean theorems: unique_iff (a file is stored with data iff non-empty, not short-cut and its hash unknown to the group; bytes are read for storing exactly then), shortcut_no_read, empty_no_data, runFiles_uniques and unique_nodup (with readable metadata the unique hashes of a group stay pairwise distinct and never belong to empty files). Tied to the code by histories whose per-file read(2) byte counts (LD_PRELOAD trace) are compared with the model\'s read count 0/1/2, plus independent oracles (no duplicate unique content per group, unchanged files not read, archive data bytes = sum of unique sizes).',
        'note': TRUST + 'sources static during a run; read(2) counts observed through the interposer.',
    },
    'C10': {
        'text': 'Lean theorems: decode_encode (every record with any hash bytes, u64 device/inode/size, i128 mtime and any path incl. spaces is parsed back exactly from its manifest line; decimal and hex printing/parsing modelled at character level), fingerprint_roundtrip, record_truthful (path/fingerprint/size/hash of a record equal the source file\'s, hash inherited only on the short-cut), records_paths (one record per file in walk order). Tied to the code by decoding every produced backup with libzstd(ctypes)+tarfile+hashlib only (lines <-> regular entries one-to-one in order, unique prefix hash, extern empty, absolute resolved paths, 0600/0700 modes, truthfulness against the source tree) and by pushing generated and adversarial lines through the real MetadataWriter/zstd/MetadataReader against the model.',
        'note': TRUST + 'tar/zstd byte formats are the crates\' (decoded independently, not modelled); Rust integer Display/FromStr as modelled (exercised incl. +sign, leading zeros, range limits).',
    },
    'C13': {
        'text': 'Lean theorems: inspect_iff / verify_iff (a group passes verification iff every manifest decodes completely, records at least one file and every non-empty extern has an earlier unique of its hash in the group — the right-hand side is the declarative Resolvable of C02), listing_ok_iff_no_error (the listing verdict is cleared exactly when an error-class line is logged), inspect_ok_of_resolvable (storages produced by vsb runs alone verify, given non-empty manifests — the proviso is known finding F6), age_iff / age_no_threshold (alarm iff no backup at all or newest backup at least max old; newest = last backup of the last non-empty group). Tied to the code by running the real get_backup_groups(true) on storages after every run of random histories and on 20 kinds of manifest-level corruption, against the compiled model and an independent oracle, and the real check_backups/parse_duration on an age grid around the boundary under a faked clock.',
        'note': TRUST + 'faked CLOCK_REALTIME and TZ=UTC; ASCII digits; the prefix of a partially decodable manifest is not compared (only the verdict); kill/fault histories are covered by C03. Known finding F6 (empty manifest) is listed in known-findings.json.',
    },
    'C14': {
        'text': 'Lean theorems about the filter/glob model: check_first_match / check_default_allow / check_nil (first matching rule in file order decides, default allow), token semantics over bytes — any_step (? = one non-/ byte), star_step (* = run without /), recPrefix_step / recZeroOrMore_step / recSuffix_step (** spans directory levels), alts_step ({a,b}), lit_whole (anchoring at both ends), doublestar_all — ruleline_blank / ruleline_comment; the walk half (archived iff every prefix allowed, root never filtered) is archived_allowed / exp_complete / exit0_complete in Props/C08. The glob parser (globset 0.4.15 incl. its ** and alternation corner cases), rule-line parsing and unescaping are modelled and tied to backuping/filter.rs by running the real PathFilter on structured and raw random rule lists (0 disagreements), an independent regex oracle for the structured grammar, and end-to-end path sets of real filtered backups.',
        'note': TRUST + 'regex-automata implements the regex the glob is translated to; class members ASCII (byte-mode classes); the parser itself is covered by correspondence, the theorems are about token semantics and rule order.',
    },
    'C08': {
        'text': 'Lean theorems about the walk model for every item list, tree and per-call outcome: error_sets_exit (exit 0 iff finish succeeded, no Err aborted the run and not a single error-class event was logged; warnings do not count), abort_publishes_nothing, exit0_complete (unless aborted, exactly the nodes readable without error and reached through readable, allowed, validly named directories are archived, in order), archived_allowed and exp_complete (walk_iff both directions, root unfiltered). Tied to backuping/backuper.rs by real vsb backup runs on generated trees (files, dirs, symlinks, fifos, sockets, CR and non-UTF-8 names, missing/file/fifo/overlapping items, filters, hooks) with injected per-path failures of lstat/open/fstat/opendir/readdir/readlink and of fsync in finish, compared with the compiled model event-by-class and path-by-path.',
        'note': TRUST + 'faults injected at the libc boundary by the LD_PRELOAD interposer; mid-run archive write failures are covered by the theorem and the fsync-in-finish scenario only; vsb never mutates sources: type-level in the model, interposer traces in C15.',
    },
    'C19': {
        'text': 'Lean theorems: hooks_bracket (the trace of every run is a sequence of brackets before-events ++ hook-free body ++ after-events, one per reached item in configuration order; an aborting item still gets its after hook and later items contribute nothing), noHook_itemBody, hook_once, hook_failure_reported. Tied to the code by runs whose before hook creates a file inside its item and whose after hook removes one, so the archive itself shows that the item was read strictly between them, over hook/item combinations incl. failing hooks, missing/overlapping/unreadable items.',
        'note': TRUST + 'hooks run through bash -c; a hook that cannot be started is represented by a failing one.',
    },
    'C20': {
        'text': 'Lean theorems: normalize_canonical / normalize_equiv / rejects_relative / rejects_dotdot (accepted paths are / plus the /-joined non-trivial components; spellings with the same components normalise identically; relative paths and .. are rejected), fieldsOf_ok (a mapping is taken apart only if every key is known and none repeats), validate_valid, finalizeSpecs_ok and load_sound (whatever Config::load accepts passes every validator rule, has distinct backup names and normalised storage/upload/metrics paths), load_before_act / effects_only_if_accepted (main.rs performs no effect of any action unless the configuration was accepted). Tied to config.rs, backuping/config.rs, uploading/config.rs by running the real Config::load on every single-fault mutation of valid documents (delete/duplicate/unknown key at every mapping, retype/empty/zero/negative/huge scalars, perturbed paths/durations/filters, duplicate names) against the schema model and an independent well-formedness oracle, path spellings, and the CLI (backup/upload/restore) on rejected documents under the interposer. Found and fixed F4 (d48cffe) and F5 (80441a9).',
        'note': TRUST + 'YAML surface syntax is serde_yaml\'s (documents fed in JSON flow syntax; plain-scalar-to-string coercion modelled); HOME is the expansion of ~.',
    },
}
