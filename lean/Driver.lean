import Lean.Data.Json
import VsbModel.Model.Split
import VsbModel.Model.ChunkedHash
import VsbModel.Model.Sync
import VsbModel.Model.Rotate
import VsbModel.Model.Dedup
import VsbModel.Model.Metadata
import VsbModel.Model.Verify
import VsbModel.Model.Filter
import VsbModel.Model.Walk
import VsbModel.Model.Config
import VsbModel.Model.FileReader
import VsbModel.Model.Restore
import VsbModel.Model.SelfContained
import VsbModel.Model.Logical
import VsbModel.Model.FsTrace
import VsbModel.Model.Proto
import VsbModel.Model.Upload
import VsbModel.Model.ListProto
import VsbModel.Model.Encryptor

/-!
Line-protocol driver for the executable models: one request per line `<op> <json>`, one JSON
answer per line.  Only model files are imported (no Mathlib, no proofs), so it links as an exe.
-/
open Lean

namespace Drv

def natList (j : Json) : Except String (List Nat) := do
  let arr ← j.getArr?
  arr.toList.mapM (fun x => x.getNat?)

def optNat (j : Json) (k : String) : Except String (Option Nat) :=
  match j.getObjVal? k with
  | .ok .null => pure none
  | .ok v => do pure (some (← v.getNat?))
  | .error _ => pure none

def natsJson (l : List Nat) : Json := Json.arr (l.map (fun (n : Nat) => (n : Json))).toArray

/-! ## split -/
open Vsb.Split in
def parseMsg (j : Json) : Except String (Msg Nat) :=
  match j.getObjVal? "p" with
  | .ok v => do pure (.payload (← natList v))
  | .error _ =>
    match j.getObjVal? "eof" with
    | .ok v => do pure (.eof (← v.getNat?))
    | .error _ => do pure (.err (← (← j.getObjVal? "err").getStr?))

open Vsb.Split in
def evJson : Ev Nat → Json
  | .stream o => Json.mkObj [("stream", o)]
  | .chunk d => Json.mkObj [("chunk", natsJson d)]
  | .close => Json.str "close"
  | .eof o c => Json.mkObj [("eof", Json.arr #[o, c])]
  | .err e => Json.mkObj [("err", e)]

open Vsb.Split in
def resStr : Res → String
  | .ok => "ok" | .recvClosed => "recvClosed" | .sendClosed => "sendClosed"
  | .afterTermination => "afterTermination"

open Vsb.Split in
def opSplit (j : Json) : Except String Json := do
  let max ← optNat j "max"
  let budget ← optNat j "budget"
  let msgs ← (← (← j.getObjVal? "msgs").getArr?).toList.mapM parseMsg
  let (evs, r) := splitter max budget msgs
  pure (Json.mkObj [("evs", Json.arr (evs.map evJson).toArray), ("res", resStr r)])

open Vsb.Split in
/-- `streamread`: messages on one chunk channel + list of buffer sizes → read results. -/
def opStreamRead (j : Json) : Except String Json := do
  let msgs ← (← (← j.getObjVal? "msgs").getArr?).toList.mapM (fun m =>
    match m.getObjVal? "ok" with
    | .ok v => do pure (ChunkMsg.ok (← natList v))
    | .error _ => do pure (ChunkMsg.err (← (← m.getObjVal? "err").getStr?)))
  let bufs ← natList (← j.getObjVal? "bufs")
  let rec go (r : Reader Nat) : List Nat → List Json
    | [] => []
    | b :: bs =>
      let (r', res) := r.read b
      let jr := match res with
        | .data d => Json.mkObj [("data", natsJson d)]
        | .eof => Json.str "eof"
        | .error e => Json.mkObj [("error", e)]
        | .panic => Json.str "panic"
      jr :: go r' bs
  pure (Json.arr (go { pending := msgs } bufs).toArray)

/-! ## chash -/
open Vsb.ChunkedHash in
/-- `chash`: {bs, parts} → the block decomposition the model's hasher digests (H = Hout = id) and
the byte counts consumed by each individual `write` call of the `write_all` loops. -/
def opChash (j : Json) : Except String Json := do
  let bs ← (← j.getObjVal? "bs").getNat?
  let parts ← (← (← j.getObjVal? "parts").getArr?).toList.mapM natList
  let H : List Nat → List Nat := id
  let rec wr (fuel : Nat) (s : St Nat (List Nat)) (buf : List Nat) (acc : List Nat) : Option (St Nat (List Nat) × List Nat) :=
    match fuel with
    | 0 => none
    | fuel+1 =>
      if buf.isEmpty then some (s, acc) else
      let (s', n) := s.write H buf
      if n = 0 then some (s', acc ++ [0]) else wr fuel s' (buf.drop n) (acc ++ [n])
  let rec go (s : St Nat (List Nat)) (ps : List (List Nat)) (acc : List Nat) : Option (St Nat (List Nat) × List Nat) :=
    match ps with
    | [] => some (s, acc)
    | p :: ps => match wr (p.length + 1) s p acc with
      | some (s', acc') => go s' ps acc'
      | none => none
  let consumed := match go { blockSize := bs } parts [] with
    | some (_, c) => natsJson c
    | none => Json.null
  match chunked H (fun ds => ds) bs parts with
  | some blocks => pure (Json.mkObj [("blocks", Json.arr (blocks.map natsJson).toArray), ("consumed", consumed)])
  | none => pure (Json.mkObj [("error", "WriteZero"), ("consumed", consumed)])

/-! ## sync -/
def parseGroups (j : Json) : Except String (List (Nat × List Nat)) := do
  (← j.getArr?).toList.mapM (fun g => do
    let a ← g.getArr?
    match a.toList with
    | [n, bs] => pure ((← n.getNat?), (← natList bs))
    | _ => throw "group")

open Vsb.Sync in
def actStr : Act → String
  | .createGroup g => s!"c:{g}"
  | .upload g b => s!"u:{g}:{b}"
  | .delete g => s!"d:{g}"

open Vsb.Sync in
def opSync (j : Json) : Except String Json := do
  let loc ← parseGroups (← j.getObjVal? "local")
  let cloud ← parseGroups (← j.getObjVal? "cloud")
  let ok ← (← j.getObjVal? "ok").getBool?
  let max ← (← j.getObjVal? "max").getNat?
  let fails ← (← (← j.getObjVal? "fails").getArr?).toList.mapM (fun x => x.getStr?)
  let (acts, ok') := syncBackups loc cloud ok max (fun a => fails.contains (actStr a))
  let tgt := targetGroups loc cloud max
  pure (Json.mkObj [("acts", Json.arr (acts.map (fun a => Json.str (actStr a))).toArray), ("ok", ok'),
    ("target", Json.arr (tgt.map (fun e => Json.arr #[(e.1 : Json), natsJson e.2])).toArray)])

/-! ## listing / rotate -/
open Vsb.Listing in
def parseFType (j : Json) : Except String FType := do
  match (← j.getStr?) with
  | "file" => pure .file
  | "dir" => pure .dir
  | _ => pure .other

open Vsb.Listing in
def ftypeStr : FType → String
  | .file => "file" | .dir => "dir" | .other => "other"

open Vsb.Listing in
def parseStorage (j : Json) : Except String (List REntry) := do
  (← j.getArr?).toList.mapM (fun r => do
    let name ← (← r.getObjVal? "name").getStr?
    let type ← parseFType (← r.getObjVal? "type")
    let entries ← match r.getObjVal? "entries" with
      | .ok .null => pure none
      | .error _ => pure none
      | .ok es => do
        let l ← (← es.getArr?).toList.mapM (fun e => do
          let n ← (← e.getObjVal? "name").getStr?
          let t ← parseFType (← e.getObjVal? "type")
          let files ← match e.getObjVal? "files" with
            | .ok .null => pure none
            | .error _ => pure none
            | .ok fs => do
              let l ← (← fs.getArr?).toList.mapM (fun f => do
                let a ← f.getArr?
                match a.toList with
                | [n, t] => pure ((← n.getStr?), (← parseFType t))
                | _ => throw "file")
              pure (some l)
          pure ({ name := n, type := t, files := files } : GEntry))
        pure (some l)
    pure ({ name := name, type := type, entries := entries } : REntry))

open Vsb.Listing in
def storageJson (st : List REntry) : Json :=
  Json.arr ((sortBy (·.name) st).map (fun r => Json.mkObj [("name", r.name), ("type", ftypeStr r.type),
    ("entries", match r.entries with
      | none => Json.null
      | some es => Json.arr ((sortBy (·.name) es).map (fun e => Json.mkObj [("name", e.name), ("type", ftypeStr e.type),
          ("files", match e.files with
            | none => Json.null
            | some fs => Json.arr ((sortBy (·.1) fs).map (fun f => Json.arr #[Json.str f.1, Json.str (ftypeStr f.2)])).toArray)])).toArray)])).toArray

open Vsb.Listing in
def logJson : Log → Json
  | .unexpectedInRoot n => Json.arr #["unexpected-root", n]
  | .unexpectedInGroup g n => Json.arr #["unexpected-group", g, n]
  | .temporary g n => Json.arr #["temporary", g, n]
  | .suspiciousFirst g n => Json.arr #["suspicious-first", g, n]
  | .backupReadError g n => Json.arr #["backup-read-error", g, n]

open Vsb.Listing in
def groupsJson (gs : List Group) : Json :=
  Json.arr (gs.map (fun g => Json.mkObj [("name", g.name), ("backups", Json.arr (g.backups.map Json.str).toArray),
    ("temps", Json.arr (g.temps.map Json.str).toArray)])).toArray

open Vsb.Listing in
def opList (j : Json) : Except String Json := do
  let st ← parseStorage (← j.getObjVal? "storage")
  let cloud := (j.getObjVal? "cloud").toOption.bind (fun x => x.getBool?.toOption) |>.getD false
  match listRoot (if cloud then cloudTraits else localTraits) st with
  | .err => pure (Json.mkObj [("result", "err")])
  | .ok gs ok logs => pure (Json.mkObj [("result", "ok"), ("groups", groupsJson gs), ("ok", ok),
      ("logs", Json.arr (logs.map logJson).toArray)])

open Vsb.Listing Vsb.Rotate in
def opRotate (j : Json) : Except String Json := do
  let st ← parseStorage (← j.getObjVal? "storage")
  let today ← (← j.getObjVal? "today").getStr?
  let bname ← (← j.getObjVal? "bname").getStr?
  let maxPer ← (← j.getObjVal? "max_per_group").getNat?
  let maxGroups ← (← j.getObjVal? "max_groups").getNat?
  let walkOk : Option Bool := match j.getObjVal? "walk_ok" with
    | .ok (.bool b) => some b
    | _ => none
  match backupRun st today bname maxPer maxGroups walkOk with
  | .failed st' why => pure (Json.mkObj [("result", "failed"), ("why", why), ("storage", storageJson st')])
  | .done st' g b del ok => pure (Json.mkObj [("result", "done"), ("group", g), ("backup", b),
      ("deleted", Json.arr (del.map Json.str).toArray), ("ok", ok), ("storage", storageJson st')])

/-! ## dedup -/
open Vsb.Dedup in
def parseRec (j : Json) : Except String (Rec String String String) := do
  pure { unique := (← (← j.getObjVal? "unique").getBool?), hash := (← (← j.getObjVal? "hash").getStr?),
         fp := (← (← j.getObjVal? "fp").getStr?), size := (← (← j.getObjVal? "size").getNat?),
         path := (← (← j.getObjVal? "path").getStr?) }

open Vsb.Dedup in
/-- `dedup`: {empty, group:[[rec..]|null ..], events:[{path,fp,size,hash}]} → the records a run writes. -/
def opDedup (j : Json) : Except String Json := do
  let empty ← (← j.getObjVal? "empty").getStr?
  let group ← (← (← j.getObjVal? "group").getArr?).toList.mapM (fun b =>
    match b with
    | .null => pure none
    | b => do pure (some (← (← b.getArr?).toList.mapM parseRec)))
  let events ← (← (← j.getObjVal? "events").getArr?).toList.mapM (fun e => do
    pure ({ path := (← (← e.getObjVal? "path").getStr?), fp := (← (← e.getObjVal? "fp").getStr?),
            size := (← (← e.getObjVal? "size").getNat?), hash := (← (← e.getObjVal? "hash").getStr?) } : FileEv String String String))
  let steps := runBackup empty group events
  pure (Json.arr (steps.map (fun s => Json.mkObj [("unique", s.record.unique), ("hash", s.record.hash),
    ("fp", s.record.fp), ("size", s.record.size), ("path", s.record.path), ("reads", s.reads)])).toArray)

/-! ## mdline -/
open Vsb.Metadata in
/-- `mdline`: numeric fields travel as decimal strings (they exceed what JSON readers keep exact). -/
def opMdline (j : Json) : Except String Json := do
  let str (k : String) : Except String String := do (← j.getObjVal? k).getStr?
  let unique ← (← j.getObjVal? "unique").getBool?
  let hash ← str "hash"
  let some hb := hexDecode hash.toList | throw "hash"
  let some dev := (← str "dev").toNat? | throw "dev"
  let some ino := (← str "ino").toNat? | throw "ino"
  let some mt := (← str "mtime_ns").toInt? | throw "mtime"
  let some size := (← str "size").toNat? | throw "size"
  let path ← str "path"
  let item : Item := ⟨unique, hb, ⟨dev, ino, mt⟩, size, path.toList⟩
  let line := item.encode
  let dec := match Item.decode line with
    | some d => Json.mkObj [("unique", d.unique), ("hash", String.ofList (hexEncode d.hash)),
        ("dev", toString d.fp.device), ("ino", toString d.fp.inode), ("mtime_ns", toString d.fp.mtimeNs),
        ("size", toString d.size), ("path", String.ofList d.path)]
    | none => Json.null
  pure (Json.mkObj [("line", String.ofList line ++ "\n"), ("decoded", dec), ("valid_path", validPath path.toList)])

open Vsb.Metadata in
/-- `mdparse`: decode an arbitrary line. -/
def opMdparse (j : Json) : Except String Json := do
  let line ← (← j.getObjVal? "line").getStr?
  match Item.decode line.toList with
  | some d => pure (Json.mkObj [("unique", d.unique), ("hash", String.ofList (hexEncode d.hash)),
        ("dev", toString d.fp.device), ("ino", toString d.fp.inode), ("mtime_ns", toString d.fp.mtimeNs),
        ("size", toString d.size), ("path", String.ofList d.path)])
  | none => pure Json.null

/-! ## verify / age / duration -/
open Vsb.Listing Vsb.Verify Vsb.Dedup in
/-- `verify`: {storage, manifests: {"<group>/<backup>": {recs:[{unique,hash,size}], complete}}} →
listing verdict, per-group inspection, overall `ok` of `get_backup_groups(true)`. -/
def opVerify (j : Json) : Except String Json := do
  let st ← parseStorage (← j.getObjVal? "storage")
  let mans ← j.getObjVal? "manifests"
  match listRoot localTraits st with
  | .err => pure (Json.mkObj [("result", "err")])
  | .ok gs lok logs =>
    let groups ← gs.mapM (fun g => g.backups.mapM (fun b => do
      match mans.getObjVal? (g.name ++ "/" ++ b) with
      | .error _ => pure ({ recs := [], complete := false } : Manifest String Unit Unit)
      | .ok m => do
        let recs ← (← (← m.getObjVal? "recs").getArr?).toList.mapM (fun r => do
          pure ({ unique := (← (← r.getObjVal? "unique").getBool?), hash := (← (← r.getObjVal? "hash").getStr?),
                  fp := (), size := (← (← r.getObjVal? "size").getNat?), path := () } : Rec String Unit Unit))
        pure ({ recs := recs, complete := (← (← m.getObjVal? "complete").getBool?) } : Manifest String Unit Unit)))
    pure (Json.mkObj [("result", "ok"), ("list_ok", lok), ("ok", verifyOk lok groups),
      ("groups_ok", Json.arr (groups.map (fun g => Json.bool (inspectGroup g))).toArray),
      ("logs", Json.arr (logs.map logJson).toArray)])

open Vsb.Verify in
def opAge (j : Json) : Except String Json := do
  let groups ← (← (← j.getObjVal? "groups").getArr?).toList.mapM (fun g => do
    (← g.getArr?).toList.mapM (fun b => match b with
      | .null => pure none
      | b => do pure (some (← b.getNat?))))
  let now ← (← j.getObjVal? "now").getNat?
  let maxAge ← optNat j "max_age"
  let v := checkBackups groups now maxAge
  let s := match v with
    | .noBackups => "no-backups" | .noThreshold => "no-threshold" | .badName => "bad-name"
    | .future => "future" | .fresh => "fresh" | .stale _ => "stale"
  pure (Json.mkObj [("verdict", s), ("alarm", v.isAlarm)])

open Vsb.Verify in
def opDuration (j : Json) : Except String Json := do
  match parseDuration (← (← j.getObjVal? "s").getStr?) with
  | some n => pure (n : Json)
  | none => pure Json.null

/-! ## filter -/
open Vsb.Filter Vsb.Glob in
/-- `filter`: {spec, paths:[..]} → {"error": kind} or {"results":[allow..]} -/
def opFilter (j : Json) : Except String Json := do
  let spec ← (← j.getObjVal? "spec").getStr?
  let paths ← (← (← j.getObjVal? "paths").getArr?).toList.mapM (fun p => p.getStr?)
  match parseSpec spec.toList with
  | .error e => pure (Json.mkObj [("error", if e.startsWith "Invalid glob" then "glob" else "rule")])
  | .ok rules =>
    pure (Json.mkObj [("results", Json.arr (paths.map (fun p => Json.bool (check rules (pathBytes p)))).toArray),
      ("nrules", rules.length)])

/-! ## walk -/
open Vsb.Walk in
def parseErr (j : Json) : Except String (Option Err) :=
  match j with
  | .null => pure none
  | .str "notFound" => pure (some .notFound)
  | .str "typeChange" => pure (some .typeChange)
  | .str _ => pure (some .other)
  | _ => throw "err"

def optField (j : Json) (k : String) : Json := (j.getObjVal? k).toOption.getD Json.null
def boolField (j : Json) (k : String) (dflt : Bool) : Bool :=
  match j.getObjVal? k with
  | .ok (.bool b) => b
  | _ => dflt

open Vsb.Walk in
partial def parseNode (j : Json) : Except String Node := do
  let kind ← (← j.getObjVal? "kind").getStr?
  match kind with
  | "lstatFails" => do
    let some e ← parseErr (optField j "err") | throw "lstatFails needs err"
    pure (.lstatFails e)
  | "file" => pure (.file (← parseErr (optField j "open")) (← parseErr (optField j "fstat"))
      (boolField j "still_file" true) (boolField j "archive_ok" true))
  | "symlink" => pure (.symlink (← parseErr (optField j "readlink")) (boolField j "add_ok" true))
  | "special" => pure .special
  | "dir" => do
    let cs ← (← (← j.getObjVal? "children").getArr?).toList.mapM (fun c => do
      let name ← (← c.getObjVal? "name").getStr?
      let node ← parseNode (← c.getObjVal? "node")
      pure (name, boolField c "utf8" true, boolField c "path_valid" true, node))
    pure (.dir (← parseErr (optField j "opendir")) (← parseErr (optField j "readdir")) (boolField j "add_ok" true) cs)
  | _ => throw "kind"

open Vsb.Walk in
def evJsonW : Vsb.Walk.Ev → Json
  | .archDir p => Json.arr #["dir", "/" ++ "/".intercalate p]
  | .archFile p => Json.arr #["file", "/" ++ "/".intercalate p]
  | .archLink p => Json.arr #["link", "/" ++ "/".intercalate p]
  | .error p => Json.arr #["error", "/" ++ "/".intercalate p]
  | .warn p => Json.arr #["warn", "/" ++ "/".intercalate p]
  | .before i => Json.arr #["before", i]
  | .after i => Json.arr #["after", i]
  | .hookFailed i => Json.arr #["hook-failed", i]
  | .itemError i => Json.arr #["item-error", i]

open Vsb.Walk Vsb.Filter Vsb.Glob in
/-- `walk`: {items:[{before,after,resolved:[..]|null,path_valid,filter,node}], parents:{"/a/b":"lstatErr"|..}, finish_ok} -/
def opWalk (j : Json) : Except String Json := do
  let parents := optField j "parents"
  let parentOf : Path → Parent := fun p =>
    match parents.getObjVal? ("/" ++ "/".intercalate p) with
    | .ok (.str "lstatErr") => .lstatErr
    | .ok (.str "notDir") => .notDir
    | .ok (.str "addFails") => .addFails
    | _ => .ok
  let hook : Json → Hook := fun h => match h with
    | .str "succeeds" => .succeeds
    | .str "fails" => .fails
    | _ => .absent
  let items ← (← (← j.getObjVal? "items").getArr?).toList.mapM (fun it => do
    let resolved ← match optField it "resolved" with
      | .null => pure none
      | r => do pure (some (← (← r.getArr?).toList.mapM (fun c => c.getStr?)))
    let spec := match optField it "filter" with
      | .str s => s
      | _ => ""
    let rules ← match parseSpec spec.toList with
      | .ok r => pure r
      | .error e => throw e
    let node ← match optField it "node" with
      | .null => pure Node.special
      | n => parseNode n
    pure ({ before := hook (optField it "before"), after := hook (optField it "after"), resolved := resolved,
            pathValid := boolField it "path_valid" true, node := node,
            allow := fun rel => check rules (pathBytes ("/".intercalate rel)) } : Item))
  let (evs, res) := run parentOf items (boolField j "finish_ok" true)
  pure (Json.mkObj [("evs", Json.arr (evs.map evJsonW).toArray),
    ("result", match res with | some true => "ok" | some false => "errors" | none => "aborted")])

/-! ## cfgload / cfgpath -/
open Vsb.Config in
partial def parseV (j : Json) : Except String V := do
  match j with
  | .null => pure .null
  | j =>
    match j.getObjVal? "s" with
    | .ok v => do pure (.str (← v.getStr?))
    | .error _ =>
    match j.getObjVal? "n" with
    | .ok v => do pure (.num (← v.getInt?))
    | .error _ =>
    match j.getObjVal? "b" with
    | .ok v => do pure (.bool (← v.getBool?))
    | .error _ =>
    match j.getObjVal? "l" with
    | .ok v => do pure (.list (← (← v.getArr?).toList.mapM parseV))
    | .error _ =>
    match j.getObjVal? "o" with
    | .ok v => do
      let fs ← (← v.getArr?).toList.mapM (fun kv => do
        let a ← kv.getArr?
        match a.toList with
        | [k, x] => pure ((← k.getStr?), (← parseV x))
        | _ => throw "pair")
      pure (.obj fs)
    | .error _ => throw "value"

open Vsb.Config Vsb.Filter Vsb.Verify in
def opCfgload (j : Json) : Except String Json := do
  let doc ← parseV (← j.getObjVal? "doc")
  let home ← (← j.getObjVal? "home").getStr?
  let filterOk : String → Bool := fun s => match parseSpec s.toList with | .ok _ => true | .error _ => false
  let durationOk : String → Bool := fun s => (parseDuration s).isSome
  match load home filterOk durationOk doc with
  | .error _ => pure (Json.mkObj [("result", "rejected")])
  | .ok c => pure (Json.mkObj [("result", "accepted"),
      ("backups", Json.arr (c.backups.map (fun b => Json.mkObj [("name", b.name), ("path", b.path),
        ("upload_path", match b.upload with | some u => Json.str u.path | none => Json.null)])).toArray),
      ("metrics", match c.metrics with | some m => Json.str m | none => Json.null)])

open Vsb.Config in
def opCfgpath (j : Json) : Except String Json := do
  let p ← (← j.getObjVal? "path").getStr?
  let home ← (← j.getObjVal? "home").getStr?
  let loc := boolField j "local" true
  match (if loc then normalizeLocal home p else normalizePath p) with
  | some r => pure (Json.str r)
  | none => pure Json.null

/-! ## filereader -/
open Vsb.FileReader in
def opFileReader (j : Json) : Except String Json := do
  let src ← (← (← j.getObjVal? "src").getArr?).toList.mapM natList
  let size ← (← j.getObjVal? "size").getNat?
  let bufs ← natList (← j.getObjVal? "bufs")
  let (out, n, hashed) := readFile (0 : Nat) src size bufs
  pure (Json.mkObj [("out", natsJson out), ("bytes_read", n), ("hashed", natsJson hashed)])

/-! ## restore -/
open Vsb.Restore in
def parseMeta (j : Json) : Except String Meta := do
  pure { mode := (← (← j.getObjVal? "mode").getNat?), uid := (← (← j.getObjVal? "uid").getNat?),
         gid := (← (← j.getObjVal? "gid").getNat?), mtime := headerMtime (← (← j.getObjVal? "mtime").getNat?) }

open Vsb.Restore in
/-- File data travels as (content id, length): a list of `length` copies of `id`; the hash of a prefix
is looked up in the table the orchestrator computed with hashlib. -/
def parseEntry (j : Json) : Except String (Entry Nat) := do
  let t ← (← j.getObjVal? "type").getStr?
  let path ← (← j.getObjVal? "path").getStr?
  match t with
  | "dir" => pure (.dir path (← parseMeta j))
  | "file" =>
    -- `pad`: zeros following the content in the entry (a file that shrank while it was archived; content ids start at 1)
    let pad := match j.getObjVal? "pad" with
      | .ok p => (p.getNat?).toOption.getD 0
      | _ => 0
    pure (.file path (← parseMeta j) (List.replicate (← (← j.getObjVal? "len").getNat?) (← (← j.getObjVal? "cid").getNat?) ++ List.replicate pad 0))
  | "symlink" => pure (.symlink path (← parseMeta j) (← (← j.getObjVal? "target").getStr?))
  | _ => pure (.other path)

open Vsb.Restore in
def metaJson : Option Meta → Json
  | none => Json.null
  | some m => Json.mkObj [("mode", m.mode), ("uid", m.uid), ("gid", m.gid), ("mtime", Json.num (JsonNumber.fromInt m.mtime))]

open Vsb.Restore in
def fsJson (fs : FS Nat) : Json :=
  Json.arr (fs.map (fun e => match e.2 with
    | .dir m => Json.mkObj [("path", "/".intercalate e.1), ("kind", "dir"), ("meta", metaJson m)]
    | .file d m => Json.mkObj [("path", "/".intercalate e.1), ("kind", "file"), ("len", d.length),
        ("cid", match d.head? with | some c => (c : Json) | none => Json.null), ("meta", metaJson m)]
    | .symlink t m => Json.mkObj [("path", "/".intercalate e.1), ("kind", "symlink"), ("target", t), ("meta", metaJson (some m))])).toArray

open Vsb.Restore in
def opRestore (j : Json) : Except String Json := do
  let emptyHash ← (← j.getObjVal? "empty_hash").getStr?
  let table ← j.getObjVal? "hashes"
  let hashOf : List Nat → String := fun l =>
    match l with
    | [] => emptyHash
    | c :: _ => match table.getObjVal? (toString c ++ ":" ++ toString l.length) with
      | .ok (.str h) => h
      | _ => "unknown-hash-" ++ toString c ++ ":" ++ toString l.length
  let group ← (← (← j.getObjVal? "group").getArr?).toList.mapM (fun b => do
    let name ← (← b.getObjVal? "name").getStr?
    let manifest ← match optField b "manifest" with
      | .null => pure none
      | m => do
        let recs ← (← m.getArr?).toList.mapM (fun r => do
          pure ({ unique := (← (← r.getObjVal? "unique").getBool?), hash := (← (← r.getObjVal? "hash").getStr?),
                  size := (← (← r.getObjVal? "size").getNat?), path := (← (← r.getObjVal? "path").getStr?) } : MRec String))
        pure (some recs)
    let archive ← (← (← b.getObjVal? "archive").getArr?).toList.mapM parseEntry
    pure ({ name := name, manifest := manifest, archive := archive, archiveComplete := boolField b "complete" true } : Backup String Nat))
  let target ← (← j.getObjVal? "target").getNat?
  -- the hypotheses of `restore_exact_selfcontained`, evaluated on the target backup
  let sc : Json := match group[target]? with
    | some b => Json.mkObj [("wf", wfCheck b.archive), ("manifest_eq", decide (b.manifest = some (manifestOf hashOf b.archive))),
        ("complete", b.archiveComplete), ("fs", fsJson (fsOf b.archive))]
    | none => Json.null
  -- the hypotheses of `restore_exact` (`restore_exact_checked`), evaluated on the stored group
  let full := optField j "full"
  let contentOf : String → Nat → Option (List Nat) := fun h n =>
    match full.getObjVal? h with
    | .ok (.arr a) => match a.toList with
      | [c, l] => match c.getNat?, l.getNat? with
        | .ok c, .ok l => if l = n then some (List.replicate n c) else none
        | _, _ => none
      | _ => none
    | _ => none
  let gen : Json := match generalCheck hashOf contentOf group target with
    | some lg => match lg[target]? with
      | some lt => Json.mkObj [("holds", true), ("fs", fsJson (fsOf lt.es)),
          ("extern_files", (lt.es.filter (isExtE lt.stored)).length), ("earlier", target)]
      | none => Json.mkObj [("holds", false)]
    | none => Json.mkObj [("holds", false)]
  match restore hashOf group target with
  | .err fs => pure (Json.mkObj [("result", "err"), ("fs", fsJson fs), ("selfcontained", sc), ("general", gen)])
  | .done fs ok => pure (Json.mkObj [("result", "done"), ("ok", ok), ("fs", fsJson fs), ("selfcontained", sc), ("general", gen)])

/-! ## traces -/
def pathJson (p : List String) : Json := Json.arr (p.map Json.str).toArray
def parsePath (j : Json) : Except String (List String) := do (← j.getArr?).toList.mapM (fun c => c.getStr?)

open Vsb.FsTrace in
def opJson : Vsb.FsTrace.Op → Json
  | .lock ok => Json.arr #["lock", ok]
  | .readdir p => Json.arr #["readdir", pathJson p]
  | .openRead p => Json.arr #["openRead", pathJson p]
  | .mkdir p => Json.arr #["mkdir", pathJson p]
  | .create p => Json.arr #["create", pathJson p]
  | .write p => Json.arr #["write", pathJson p]
  | .fsyncFile p => Json.arr #["fsyncFile", pathJson p]
  | .fsyncDir p => Json.arr #["fsyncDir", pathJson p]
  | .rename a b => Json.arr #["rename", pathJson a, pathJson b]
  | .remove p => Json.arr #["remove", pathJson p]
  | .exit n => Json.arr #["exit", n]

open Vsb.FsTrace in
def parseOp (j : Json) : Except String Vsb.FsTrace.Op := do
  let a ← j.getArr?
  let tag ← (a[0]?.getD Json.null).getStr?
  let arg := a[1]?.getD Json.null
  match tag with
  | "lock" => pure (.lock (← arg.getBool?))
  | "readdir" => pure (.readdir (← parsePath arg))
  | "openRead" => pure (.openRead (← parsePath arg))
  | "mkdir" => pure (.mkdir (← parsePath arg))
  | "create" => pure (.create (← parsePath arg))
  | "write" => pure (.write (← parsePath arg))
  | "fsyncFile" => pure (.fsyncFile (← parsePath arg))
  | "fsyncDir" => pure (.fsyncDir (← parsePath arg))
  | "rename" => pure (.rename (← parsePath arg) (← parsePath (a[2]?.getD Json.null)))
  | "remove" => pure (.remove (← parsePath arg))
  | "exit" => pure (.exit (← arg.getNat?))
  | _ => throw "op"

open Vsb.FsTrace in
/-- `tracecheck`: {ops:[..]} → verdicts of the three monitors on that operation list. -/
def opTraceCheck (j : Json) : Except String Json := do
  let ops ← (← (← j.getObjVal? "ops").getArr?).toList.mapM parseOp
  pure (Json.mkObj [("accept", accept ops), ("orderOk", orderOk ops), ("lockOk", lockOk ops)])

open Vsb.FsTrace in
/-- `runops`: scenario → the operation list of the model. -/
def opRunOps (j : Json) : Except String Json := do
  let str (k : String) : Except String String := do (← j.getObjVal? k).getStr?
  let paths (k : String) : Except String (List (List String)) := do
    (← (← j.getObjVal? k).getArr?).toList.mapM parsePath
  let abandoned ← (← (← j.getObjVal? "abandoned").getArr?).toList.mapM (fun a => do
    let x ← a.getArr?
    pure ((← (x[0]?.getD Json.null).getStr?), (← (← (x[1]?.getD Json.null).getArr?).toList.mapM (fun f => f.getStr?))))
  let old ← (← (← j.getObjVal? "old_groups").getArr?).toList.mapM (fun a => do
    let x ← a.getArr?
    pure ((← (x[0]?.getD Json.null).getStr?), (← (← (x[1]?.getD Json.null).getArr?).toList.mapM parsePath)))
  let group ← str "group"
  let name ← str "name"
  let writes1 ← (← (← j.getObjVal? "writes1").getArr?).toList.mapM (fun b => b.getBool?)
  let writes2 ← (← j.getObjVal? "writes2").getNat?
  let earlier ← (← (← j.getObjVal? "earlier").getArr?).toList.mapM (fun b => b.getStr?)
  let l1 ← paths "listing1"
  let l2 ← paths "listing2"
  let sc : Scenario :=
    { group := group
      newGroup := boolField j "new_group" false
      abandoned := abandoned
      name := name
      writes1 := writes1
      writes2 := writes2
      earlier := earlier
      listing1 := l1
      listing2 := l2
      oldGroups := old }
  pure (Json.arr ((runOps sc).map opJson).toArray)

/-! ## proto (C05) -/
open Vsb.Proto in
def parseResp (s : String) : Resp :=
  match s with
  | "reject" => .reject | "lost" => .lost | "corrupt" => .corrupt
  | "pending" => .pending | "opFailed" => .opFailed | _ => .ok

open Vsb.Proto in
/-- `proto`: {provider, ns:[[name,[tokens]]], tmp, final, payloads:[[tokens]], max, ending, script:[..], depth, polls}
→ {ok, reqs, ns, renamed}: splitter then provider protocol.  Checksums are an injective fold; "corrupt"
appends the token 999. -/
def opProto (j : Json) : Except String Json := do
  let str (k : String) : Except String String := do (← j.getObjVal? k).getStr?
  let ns ← (← (← j.getObjVal? "ns").getArr?).toList.mapM (fun a => do
    let x ← a.getArr?
    pure ((← (x[0]?.getD Json.null).getStr?), (← natList (x[1]?.getD Json.null))))
  let script := ((← (← j.getObjVal? "script").getArr?).toList.map (fun x => parseResp (x.getStr?.toOption.getD "ok")))
  let depth := (← optNat j "depth").getD 3
  let polls := (← optNat j "polls").getD 600
  let hP : List Nat → Nat := fun d => d.foldl (fun a x => a * 1000003 + x + 1) 7
  let c : Cfg Nat Nat := { hP := hP, mangle := fun d => d ++ [999], tmp := ← str "tmp", final := ← str "final", depth := depth, polls := polls }
  let payloads ← (← (← j.getObjVal? "payloads").getArr?).toList.mapM natList
  let msgs : List (Vsb.Split.Msg Nat) := payloads.map .payload ++ (match (← str "ending") with
    | "final" => [.eof (hP payloads.flatten)]
    | "error" => [.err "upstream"]
    | _ => [])
  let p : Provider := match (← str "provider") with
    | "dropbox" => .dropbox | "yandex" => .yandex | _ => .google
  let o := Vsb.Upload.pipeline p c (fun k => script.getD k .ok) { ns := ns } (← optNat j "max") msgs
  pure (Json.mkObj [("ok", o.ok), ("reqs", Json.arr (o.run.log.map (fun (s : String) => (s : Json))).toArray),
    ("ns", Json.arr (o.run.srv.ns.map (fun e => Json.arr #[(e.1 : Json), natsJson e.2])).toArray),
    ("renamed", match o.run.renamed with | some d => natsJson d | none => Json.null)])

/-! ## listproto (C06) -/
open Vsb.ListProto Vsb.Proto in
/-- `listproto`: {provider, page_size, entries: [..]|null, script:[..]} → {result: ok|notfound|err, entries, requests} -/
def opListProto (j : Json) : Except String Json := do
  let prov ← (← j.getObjVal? "provider").getStr?
  let ps ← (← j.getObjVal? "page_size").getNat?
  let script := ((← (← j.getObjVal? "script").getArr?).toList.map (fun x => parseResp (x.getStr?.toOption.getD "ok")))
  let sc : Nat → Resp := fun k => script.getD k .ok
  let dir ← match optField j "entries" with
    | .null => pure none
    | v => do pure (some (← natList v))
  let r := match prov with
    | "dropbox" => dropboxList ps sc dir
    | "yandex" => yandexList ps sc dir
    | _ => match dir with
      | some l => googleChildren ps sc 0 l
      | none => .notFound 0
  pure (match r with
    | .ok es n => Json.mkObj [("result", "ok"), ("entries", natsJson es), ("requests", n)]
    | .notFound n => Json.mkObj [("result", "notfound"), ("requests", n)]
    | .err n => Json.mkObj [("result", "err"), ("requests", n)])

/-! ## encclose (C05) -/
open Vsb.Encryptor Vsb.Split in
/-- `encclose`: {read_ok, stderr_empty, exit: {code|signal: n}, caller_ok, flush_ok} → terminal message kind -/
def opEncClose (j : Json) : Except String Json := do
  let ex ← j.getObjVal? "exit"
  let exit : Exit := match ex.getObjVal? "code" with
    | .ok v => .code (v.getNat?.toOption.getD 0)
    | .error _ => .signal ((ex.getObjVal? "signal").toOption.bind (fun v => v.getNat?.toOption) |>.getD 9)
  let reader := readerResult (boolField j "read_ok" true) (boolField j "stderr_empty" true) exit 7
  let r := close {} (boolField j "caller_ok" true) (boolField j "flush_ok" true) reader
  let kind : String := match r.2.1 with
    | some (.eof _) => "eof" | some (.err _) => "err" | some (.payload _) => "payload" | none => "none"
  pure (Json.mkObj [("terminal", kind), ("finish", if r.2.2 then "ok" else "err")])

def dispatch (op : String) (j : Json) : Except String Json :=
  match op with
  | "split" => opSplit j
  | "streamread" => opStreamRead j
  | "chash" => opChash j
  | "sync" => opSync j
  | "list" => opList j
  | "rotate" => opRotate j
  | "dedup" => opDedup j
  | "filter" => opFilter j
  | "walk" => opWalk j
  | "filereader" => opFileReader j
  | "restore" => opRestore j
  | "tracecheck" => opTraceCheck j
  | "runops" => opRunOps j
  | "proto" => opProto j
  | "listproto" => opListProto j
  | "encclose" => opEncClose j
  | "cfgload" => opCfgload j
  | "cfgpath" => opCfgpath j
  | "verify" => opVerify j
  | "age" => opAge j
  | "duration" => opDuration j
  | "mdline" => opMdline j
  | "mdparse" => opMdparse j
  | _ => .error s!"unknown op {op}"

def handle (line : String) : String :=
  let line := line.trimAscii.toString
  let (op, rest) := match line.splitOn " " with
    | op :: rest => (op, " ".intercalate rest)
    | [] => ("", "")
  match Json.parse rest with
  | .error e => (Json.mkObj [("driver_error", s!"json: {e}")]).compress
  | .ok j =>
    match dispatch op j with
    | .ok r => r.compress
    | .error e => (Json.mkObj [("driver_error", e)]).compress

partial def loop (h : IO.FS.Stream) (out : IO.FS.Stream) : IO Unit := do
  let line ← h.getLine
  if line.isEmpty then return ()
  if line.trimAscii.toString.isEmpty then loop h out else
  out.putStrLn (handle line)
  loop h out

end Drv

def main : IO Unit := do
  let out ← IO.getStdout
  Drv.loop (← IO.getStdin) out
  out.flush
