import Lean.Data.Json
import VsbModel.Model.Split
import VsbModel.Model.ChunkedHash
import VsbModel.Model.Sync

/-!
Line-protocol driver for the executable models: one request per line `<op> <json>`, one JSON
answer per line.  Only model files are imported (no Mathlib, no proofs), so it links as an exe.
-/
open Lean

namespace Drv

def natList (j : Json) : Except String (List Nat) := do
  let arr ← j.getArr?
  arr.toList.mapM (fun x => x.getNat?)

def optNat (j : Json) (k : String) : Except String (Option Nat) :=
  match j.getObjVal? k with
  | .ok .null => pure none
  | .ok v => do pure (some (← v.getNat?))
  | .error _ => pure none

def natsJson (l : List Nat) : Json := Json.arr (l.map (fun (n : Nat) => (n : Json))).toArray

/-! ## split -/
open Vsb.Split in
def parseMsg (j : Json) : Except String (Msg Nat) :=
  match j.getObjVal? "p" with
  | .ok v => do pure (.payload (← natList v))
  | .error _ =>
    match j.getObjVal? "eof" with
    | .ok v => do pure (.eof (← v.getNat?))
    | .error _ => do pure (.err (← (← j.getObjVal? "err").getStr?))

open Vsb.Split in
def evJson : Ev Nat → Json
  | .stream o => Json.mkObj [("stream", o)]
  | .chunk d => Json.mkObj [("chunk", natsJson d)]
  | .close => Json.str "close"
  | .eof o c => Json.mkObj [("eof", Json.arr #[o, c])]
  | .err e => Json.mkObj [("err", e)]

open Vsb.Split in
def resStr : Res → String
  | .ok => "ok" | .recvClosed => "recvClosed" | .sendClosed => "sendClosed"
  | .afterTermination => "afterTermination"

open Vsb.Split in
def opSplit (j : Json) : Except String Json := do
  let max ← optNat j "max"
  let budget ← optNat j "budget"
  let msgs ← (← (← j.getObjVal? "msgs").getArr?).toList.mapM parseMsg
  let (evs, r) := splitter max budget msgs
  pure (Json.mkObj [("evs", Json.arr (evs.map evJson).toArray), ("res", resStr r)])

open Vsb.Split in
/-- `streamread`: messages on one chunk channel + list of buffer sizes → read results. -/
def opStreamRead (j : Json) : Except String Json := do
  let msgs ← (← (← j.getObjVal? "msgs").getArr?).toList.mapM (fun m =>
    match m.getObjVal? "ok" with
    | .ok v => do pure (ChunkMsg.ok (← natList v))
    | .error _ => do pure (ChunkMsg.err (← (← m.getObjVal? "err").getStr?)))
  let bufs ← natList (← j.getObjVal? "bufs")
  let rec go (r : Reader Nat) : List Nat → List Json
    | [] => []
    | b :: bs =>
      let (r', res) := r.read b
      let jr := match res with
        | .data d => Json.mkObj [("data", natsJson d)]
        | .eof => Json.str "eof"
        | .error e => Json.mkObj [("error", e)]
        | .panic => Json.str "panic"
      jr :: go r' bs
  pure (Json.arr (go { pending := msgs } bufs).toArray)

/-! ## chash -/
open Vsb.ChunkedHash in
/-- `chash`: {bs, parts} → the block decomposition the model's hasher digests (H = Hout = id) and
the byte counts consumed by each individual `write` call of the `write_all` loops. -/
def opChash (j : Json) : Except String Json := do
  let bs ← (← j.getObjVal? "bs").getNat?
  let parts ← (← (← j.getObjVal? "parts").getArr?).toList.mapM natList
  let H : List Nat → List Nat := id
  let rec wr (fuel : Nat) (s : St Nat (List Nat)) (buf : List Nat) (acc : List Nat) : Option (St Nat (List Nat) × List Nat) :=
    match fuel with
    | 0 => none
    | fuel+1 =>
      if buf.isEmpty then some (s, acc) else
      let (s', n) := s.write H buf
      if n = 0 then some (s', acc ++ [0]) else wr fuel s' (buf.drop n) (acc ++ [n])
  let rec go (s : St Nat (List Nat)) (ps : List (List Nat)) (acc : List Nat) : Option (St Nat (List Nat) × List Nat) :=
    match ps with
    | [] => some (s, acc)
    | p :: ps => match wr (p.length + 1) s p acc with
      | some (s', acc') => go s' ps acc'
      | none => none
  let consumed := match go { blockSize := bs } parts [] with
    | some (_, c) => natsJson c
    | none => Json.null
  match chunked H (fun ds => ds) bs parts with
  | some blocks => pure (Json.mkObj [("blocks", Json.arr (blocks.map natsJson).toArray), ("consumed", consumed)])
  | none => pure (Json.mkObj [("error", "WriteZero"), ("consumed", consumed)])

/-! ## sync -/
def parseGroups (j : Json) : Except String (List (Nat × List Nat)) := do
  (← j.getArr?).toList.mapM (fun g => do
    let a ← g.getArr?
    match a.toList with
    | [n, bs] => pure ((← n.getNat?), (← natList bs))
    | _ => throw "group")

open Vsb.Sync in
def actStr : Act → String
  | .createGroup g => s!"c:{g}"
  | .upload g b => s!"u:{g}:{b}"
  | .delete g => s!"d:{g}"

open Vsb.Sync in
def opSync (j : Json) : Except String Json := do
  let loc ← parseGroups (← j.getObjVal? "local")
  let cloud ← parseGroups (← j.getObjVal? "cloud")
  let ok ← (← j.getObjVal? "ok").getBool?
  let max ← (← j.getObjVal? "max").getNat?
  let fails ← (← (← j.getObjVal? "fails").getArr?).toList.mapM (fun x => x.getStr?)
  let (acts, ok') := syncBackups loc cloud ok max (fun a => fails.contains (actStr a))
  let tgt := targetGroups loc cloud max
  pure (Json.mkObj [("acts", Json.arr (acts.map (fun a => Json.str (actStr a))).toArray), ("ok", ok'),
    ("target", Json.arr (tgt.map (fun e => Json.arr #[(e.1 : Json), natsJson e.2])).toArray)])

def dispatch (op : String) (j : Json) : Except String Json :=
  match op with
  | "split" => opSplit j
  | "streamread" => opStreamRead j
  | "chash" => opChash j
  | "sync" => opSync j
  | _ => .error s!"unknown op {op}"

def handle (line : String) : String :=
  let line := line.trimAscii.toString
  let (op, rest) := match line.splitOn " " with
    | op :: rest => (op, " ".intercalate rest)
    | [] => ("", "")
  match Json.parse rest with
  | .error e => (Json.mkObj [("driver_error", s!"json: {e}")]).compress
  | .ok j =>
    match dispatch op j with
    | .ok r => r.compress
    | .error e => (Json.mkObj [("driver_error", e)]).compress

partial def loop (h : IO.FS.Stream) (out : IO.FS.Stream) : IO Unit := do
  let line ← h.getLine
  if line.isEmpty then return ()
  if line.trimAscii.toString.isEmpty then loop h out else
  out.putStrLn (handle line)
  loop h out

end Drv

def main : IO Unit := do
  let out ← IO.getStdout
  Drv.loop (← IO.getStdin) out
  out.flush
