import VsbModel.Model.Split
