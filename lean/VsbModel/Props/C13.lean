import VsbModel.Model.Verify
import VsbModel.Props.C02
import VsbModel.Lemmas.LogicalRun
set_option linter.unusedSectionVars false
set_option linter.unusedSimpArgs false

/-!
# C13 — verification and staleness checks flag exactly the unhealthy storages
-/
namespace Vsb.Verify
open Vsb.Dedup Vsb.Listing
variable {H F P : Type} [DecidableEq H] [DecidableEq F] [DecidableEq P]

/-- Loop of `Backup::inspect`, characterised against the declarative `ResolvesIn`. -/
theorem inspect_fold (recs : List (Rec H F P)) (avail : List H) (rcv : Bool) (n : Nat) :
    let step := fun (acc : List H × Bool × Nat) (r : Rec H F P) =>
      let (avail, recoverable, n) := acc
      if r.unique then (r.hash :: avail, recoverable, n + 1)
      else (avail, recoverable && !(r.size ≠ 0 && !avail.contains r.hash), n + 1)
    let out := recs.foldl step (avail, rcv, n)
    (∀ h, h ∈ out.1 ↔ h ∈ uniques recs ∨ h ∈ avail) ∧
    (out.2.1 = true ↔ rcv = true ∧ ResolvesIn avail recs) ∧ out.2.2 = n + recs.length := by
  induction recs generalizing avail rcv n with
  | nil => simp [uniques, ResolvesIn]
  | cons r rs ih =>
    simp only [List.foldl_cons]
    by_cases hu : r.unique = true
    · simp only [hu, if_true]
      obtain ⟨h1, h2, h3⟩ := ih (r.hash :: avail) rcv (n + 1)
      refine ⟨?_, ?_, ?_⟩
      · intro h; rw [h1 h]; simp [uniques, List.filter_cons, hu]; grind
      · rw [h2]; simp [ResolvesIn, hu]
      · rw [h3]; simp; omega
    · have hu' : r.unique = false := by simpa using hu
      simp only [hu', Bool.false_eq_true, if_false]
      obtain ⟨h1, h2, h3⟩ := ih avail (rcv && !(decide (r.size ≠ 0) && !avail.contains r.hash)) (n + 1)
      refine ⟨?_, ?_, ?_⟩
      · intro h; rw [h1 h]; simp [uniques, List.filter_cons, hu']
      · rw [h2]
        simp only [ResolvesIn, hu', Bool.false_eq_true, if_false, Bool.and_eq_true, Bool.not_eq_true',
          Bool.and_eq_false_iff, decide_eq_false_iff_not, Bool.not_eq_false', List.contains_iff_mem]
        constructor
        · rintro ⟨⟨h4, h5⟩, h6⟩
          refine ⟨h4, ?_, h6⟩
          intro _ hs
          rcases h5 with h5 | h5
          · exact absurd hs (by simpa using h5)
          · exact h5
        · rintro ⟨h4, h5, h6⟩
          refine ⟨⟨h4, ?_⟩, h6⟩
          by_cases hs : r.size = 0
          · left; simpa using hs
          · right; exact h5 trivial hs
      · rw [h3]; simp; omega

/-- **One backup.** A manifest that decodes completely is judged recoverable iff it records at
least one file and every non-empty extern resolves against what the group offered so far plus the
manifest's own earlier uniques; a manifest that does not decode is an error. -/
theorem inspectBackup_spec (avail : List H) (m : Manifest H F P) :
    (∀ h, h ∈ (inspectBackup avail m).1 ↔ h ∈ uniques m.recs ∨ h ∈ avail) ∧
    ((inspectBackup avail m).2 = some true ↔ m.complete = true ∧ m.recs ≠ [] ∧ ResolvesIn avail m.recs) := by
  obtain ⟨h1, h2, h3⟩ := inspect_fold m.recs avail true 0
  unfold inspectBackup
  simp only [] at h1 h2 h3 ⊢
  generalize hf : List.foldl _ (avail, true, 0) m.recs = out at h1 h2 h3
  obtain ⟨a, rc, n⟩ := out
  simp only [] at h1 h2 h3 ⊢
  refine ⟨by split <;> exact h1, ?_⟩
  cases hc : m.complete with
  | false => simp
  | true =>
    simp only [if_true, Option.some.injEq, Bool.and_eq_true, bne_iff_ne, ne_eq, true_and]
    rw [h2, h3]
    constructor
    · rintro ⟨hn, _, hr⟩
      refine ⟨?_, hr⟩
      intro he; rw [he] at hn; simp at hn
    · rintro ⟨hn, hr⟩
      refine ⟨?_, trivial, hr⟩
      cases hm : m.recs with
      | nil => exact absurd hm hn
      | cons _ _ => simp

theorem inspectGroup_fold (backups : List (Manifest H F P)) (avail : List H) (ok : Bool) :
    (backups.foldl (fun (acc : List H × Bool) m =>
      let (avail, res) := inspectBackup acc.1 m
      (avail, acc.2 && (res == some true))) (avail, ok)).2 = true ↔
    ok = true ∧ (∀ m ∈ backups, m.complete = true ∧ m.recs ≠ []) ∧ ResolvesIn avail (backups.flatMap (·.recs)) := by
  induction backups generalizing avail ok with
  | nil => simp [ResolvesIn]
  | cons m ms ih =>
    simp only [List.foldl_cons, List.flatMap_cons]
    obtain ⟨h1, h2⟩ := inspectBackup_spec avail m
    rw [ih, resolvesIn_append]
    simp only [Bool.and_eq_true, beq_iff_eq, List.mem_cons, forall_eq_or_imp]
    rw [h2]
    constructor
    · rintro ⟨⟨hok, hc, hn, hr⟩, hall, hres⟩
      refine ⟨hok, ⟨⟨hc, hn⟩, hall⟩, hr, ?_⟩
      intro avail' hav
      exact ResolvesIn.mono (fun x hx => (hav x).mpr ((h1 x).mp hx)) _ hres
    · rintro ⟨hok, ⟨⟨hc, hn⟩, hall⟩, hr, hres⟩
      exact ⟨⟨hok, hc, hn, hr⟩, hall, hres _ h1⟩

/-- **inspect_iff.** A group passes verification iff every manifest decodes completely, records at
least one file, and every non-empty extern record has an earlier unique record of its hash in the
group (earlier in the same manifest or in an earlier backup). -/
theorem inspect_iff (backups : List (Manifest H F P)) :
    inspectGroup backups = true ↔
      (∀ m ∈ backups, m.complete = true ∧ m.recs ≠ []) ∧ Resolvable (backups.map (·.recs)) := by
  unfold inspectGroup Resolvable
  rw [inspectGroup_fold]
  simp [List.flatMap, List.flatten, List.flatMap_def]

/-- **verify_iff.** Verification reports the storage consistent iff the listing found nothing
unexpected and every group passes `inspect_iff`. -/
theorem verify_iff (listOk : Bool) (groups : List (List (Manifest H F P))) :
    verifyOk listOk groups = true ↔
      listOk = true ∧ ∀ g ∈ groups, (∀ m ∈ g, m.complete = true ∧ m.recs ≠ []) ∧ Resolvable (g.map (·.recs)) := by
  simp only [verifyOk, Bool.and_eq_true, List.all_eq_true]
  constructor
  · rintro ⟨h1, h2⟩; exact ⟨h1, fun g hg => (inspect_iff g).mp (h2 g hg)⟩
  · rintro ⟨h1, h2⟩; exact ⟨h1, fun g hg => (inspect_iff g).mpr (h2 g hg)⟩

/-- **runs_keep_consistent (manifest level).** A group produced by vsb runs alone — resolvable by
C02's `resolvable_history` — passes inspection provided every run recorded at least one file.
(The proviso is finding F6: a run over items without any regular file publishes an empty manifest.) -/
theorem inspect_ok_of_resolvable (group : List (List (Rec H F P))) (hres : Resolvable group)
    (hne : ∀ rs ∈ group, rs ≠ []) :
    inspectGroup (group.map (fun rs => ({ recs := rs } : Manifest H F P))) = true := by
  rw [inspect_iff]
  refine ⟨?_, by simpa [List.map_map, Function.comp_def] using hres⟩
  intro m hm
  obtain ⟨rs, hrs, rfl⟩ := List.mem_map.mp hm
  exact ⟨rfl, hne rs hrs⟩

/-- F6 at model level: an empty manifest fails inspection although nothing in it is unresolvable. -/
example : inspectGroup [({ recs := [] } : Manifest Nat Unit Unit)] = false := by decide

/-! ### Listing: `ok` is cleared exactly when an error-level line is logged -/

theorem readEntry_ok (t : Traits) (st : ReadSt) (e : GEntry)
    (h : st.ok = true ↔ ∀ l ∈ st.logs, l.isError = false) :
    ((readEntry t st e).ok = true ↔ ∀ l ∈ (readEntry t st e).logs, l.isError = false) := by
  unfold readEntry
  simp only []
  repeat' split
  all_goals (simp_all [Log.isError])
  all_goals (try (exact ⟨_, Or.inr (Or.inr rfl), rfl⟩))
  all_goals (try grind)

theorem readGroup_ok (t : Traits) (name : String) (entries : List GEntry) :
    ((readGroup t name entries).2.1 = true ↔ ∀ l ∈ (readGroup t name entries).2.2, l.isError = false) := by
  unfold readGroup
  simp only []
  generalize sortBy (·.name) entries = es
  suffices ∀ (st : ReadSt), (st.ok = true ↔ ∀ l ∈ st.logs, l.isError = false) →
      ((es.foldl (readEntry t) st).ok = true ↔ ∀ l ∈ (es.foldl (readEntry t) st).logs, l.isError = false) by
    exact this _ (by simp)
  induction es with
  | nil => intro st h; exact h
  | cons e es ih => intro st h; exact ih _ (readEntry_ok t st e h)

theorem listRoot_go_ok (t : Traits) (es : List REntry) (gs : List Group) (ok : Bool) (logs : List Log)
    (h : ok = true ↔ ∀ l ∈ logs, l.isError = false) (gs' : List Group) (ok' : Bool) (logs' : List Log)
    (hr : listRoot.go t es gs ok logs = .ok gs' ok' logs') :
    (ok' = true ↔ ∀ l ∈ logs', l.isError = false) := by
  induction es generalizing gs ok logs with
  | nil => simp only [listRoot.go] at hr; cases hr; exact h
  | cons e rest ih =>
    simp only [listRoot.go] at hr
    split at hr
    · exact ih gs ok logs h hr
    · split at hr
      · exact ih gs false _ (by simp [Log.isError]) hr
      · split at hr
        · cases hr
        · rename_i es' _
          have hg := readGroup_ok t e.name es'
          refine ih _ _ _ ?_ hr
          simp only [Bool.and_eq_true, List.mem_append]
          rw [h, hg]
          constructor
          · rintro ⟨h1, h2⟩ l (hl | hl)
            · exact h1 l hl
            · exact h2 l hl
          · intro h'; exact ⟨fun l hl => h' l (Or.inl hl), fun l hl => h' l (Or.inr hl)⟩

/-- **Listing verdict.** The listing's `ok` is true iff no error-class line (unexpected entry at root
or group level, suspicious first backup, unreadable backup directory) was logged; temporary backups
only produce warnings. -/
theorem listing_ok_iff_no_error (t : Traits) (root : List REntry) (gs : List Group) (ok : Bool) (logs : List Log)
    (h : listRoot t root = .ok gs ok logs) : ok = true ↔ ∀ l ∈ logs, l.isError = false := by
  unfold listRoot at h
  exact listRoot_go_ok t _ [] true [] (by simp) gs ok logs h

/-! ### Age alarm -/

/-- The newest backup: last backup of the last group that has any. -/
def newest (groups : List (List (Option Nat))) : Option (Option Nat) :=
  (groups.filter (· ≠ [])).getLast?.bind (·.getLast?)

theorem fold_newest (groups : List (List (Option Nat))) (acc : Option (Option Nat)) :
    groups.foldl ageStep acc =
      match newest groups with | some b => some b | none => acc := by
  induction groups generalizing acc with
  | nil => simp [newest]
  | cons g gs ih =>
    simp only [List.foldl_cons, ageStep]
    rw [ih]
    cases hg : g.getLast? with
    | none =>
      have : g = [] := List.getLast?_eq_none_iff.mp hg
      subst this
      simp [newest]
    | some b =>
      have hne : g ≠ [] := by intro h; rw [h] at hg; cases hg
      simp only [newest, List.filter_cons, hne, ne_eq, not_false_eq_true, decide_true, if_true]
      cases hf : (gs.filter (· ≠ [])) with
      | nil => simp [hg]
      | cons x xs =>
        simp only [List.getLast?_cons_cons]
        have hx : x ≠ [] := by
          have : x ∈ gs.filter (· ≠ []) := by rw [hf]; simp
          simpa using (List.mem_filter.mp this).2
        have hl : ((x :: xs).getLast?.bind (·.getLast?)) ≠ none := by
          have hmem : ∀ y ∈ (x :: xs), y ≠ [] := by
            intro y hy
            have : y ∈ gs.filter (· ≠ []) := by rw [hf]; exact hy
            simpa using (List.mem_filter.mp this).2
          cases hlast : (x :: xs).getLast? with
          | none => simp at hlast
          | some y =>
            have hy := hmem y (List.mem_of_getLast? hlast)
            simp only [Option.bind_some]
            intro hc
            exact hy (List.getLast?_eq_none_iff.mp hc)
        cases hb : ((x :: xs).getLast?.bind (·.getLast?)) with
        | none => exact absurd hb hl
        | some b' => simp

/-- **age_iff.** With a threshold configured, an age alarm is raised iff the storage holds no backup
at all, or its newest backup (last backup of the last non-empty group) was made at a time `t ≤ now`
with `now - t ≥ max_time_without_backups`; no alarm is raised otherwise. -/
theorem age_iff (groups : List (List (Option Nat))) (now maxAge : Nat) :
    (checkBackups groups now (some maxAge)).isAlarm = true ↔
      newest groups = none ∨ ∃ t, newest groups = some (some t) ∧ t ≤ now ∧ maxAge ≤ now - t := by
  unfold checkBackups
  rw [fold_newest]
  cases hn : newest groups with
  | none => simp [AgeVerdict.isAlarm]
  | some b =>
    cases b with
    | none => simp [AgeVerdict.isAlarm]
    | some t =>
      simp only [Option.some.injEq, reduceCtorEq, false_or, exists_eq_left']
      by_cases h1 : now < t
      · simp [h1, AgeVerdict.isAlarm]; omega
      · by_cases h2 : now - t < maxAge
        · simp [h1, h2, AgeVerdict.isAlarm]
        · simp [h1, h2, AgeVerdict.isAlarm]; omega

/-- Without a threshold only the total absence of backups is reported. -/
theorem age_no_threshold (groups : List (List (Option Nat))) (now : Nat) :
    (checkBackups groups now none).isAlarm = true ↔ newest groups = none := by
  unfold checkBackups
  rw [fold_newest]
  cases hn : newest groups <;> simp [AgeVerdict.isAlarm]

example : parseDuration "36h" = some (36 * 3600) := by decide
example : parseDuration "0d" = none := by decide
example : parseDuration "7" = none := by decide
example : parseDuration "1w" = none := by decide
example : checkBackups [[some 100], []] 160 (some 60) = .stale 60 := by decide
example : checkBackups [[some 100], []] 159 (some 60) = .fresh := by decide

end Vsb.Verify

/-! ### Histories of completed runs keep the storage consistent (the part of `runs_keep_consistent` that is true) -/
namespace Vsb.Restore
open Vsb.Dedup Vsb.Verify
variable {H β F : Type} [DecidableEq H] [DecidableEq F]

/-- Every backup of a reachable storage was made by one of the runs of the history, from that run's tree. -/
theorem history_backups_from_runs (hashOf : List β → H) (ops : List (LOp β F)) (st : LStore β F) :
    ∀ g ∈ ops.foldl (stepL hashOf) st, ∀ b ∈ g,
      (∃ g0 ∈ st, b ∈ g0) ∨ ∃ name es fpf mask ng pad, LOp.run name es fpf mask ng pad ∈ ops ∧ b.lb.es = es := by
  induction ops generalizing st with
  | nil => intro g hg b hb; exact Or.inl ⟨g, hg, hb⟩
  | cons op ops ih =>
    intro g hg b hb
    simp only [List.foldl_cons] at hg
    rcases ih (stepL hashOf st op) g hg b hb with ⟨g0, hg0, hb0⟩ | ⟨name, es, fpf, mask, ng, pad, hin, hes⟩
    · -- b is in a group of the storage after `op`
      cases op with
      | deleteGroups keep => exact Or.inl ⟨g0, keepMasked_sub st keep g0 hg0, hb0⟩
      | run name es fpf mask ng pad =>
        have hnew : ∀ gg, g0 ∈ st ++ [[runL hashOf gg [] name es fpf pad]] →
            (∃ g0 ∈ st, b ∈ g0) ∨ ∃ name' es' fpf' mask' ng' pad', LOp.run name' es' fpf' mask' ng' pad' ∈ LOp.run name es fpf mask ng pad :: ops ∧ b.lb.es = es' := by
          intro gg h
          rcases List.mem_append.mp h with h | h
          · exact Or.inl ⟨g0, h, hb0⟩
          · simp only [List.mem_singleton] at h
            subst h
            simp only [List.mem_singleton] at hb0
            subst hb0
            exact Or.inr ⟨name, es, fpf, mask, ng, pad, by simp, rfl⟩
        unfold stepL at hg0
        cases hl : st.getLast? with
        | none => simp only [hl] at hg0; exact hnew _ hg0
        | some glast =>
          cases ng with
          | true => simp only [hl] at hg0; exact hnew _ hg0
          | false =>
            simp only [hl] at hg0
            rcases List.mem_append.mp hg0 with h | h
            · exact Or.inl ⟨g0, List.dropLast_subset _ h, hb0⟩
            · simp only [List.mem_singleton] at h
              subst h
              rcases List.mem_append.mp hb0 with h' | h'
              · exact Or.inl ⟨glast, List.mem_of_getLast? hl, h'⟩
              · simp only [List.mem_singleton] at h'
                subst h'
                exact Or.inr ⟨name, es, fpf, mask, false, pad, by simp, rfl⟩
    · exact Or.inr ⟨name, es, fpf, mask, ng, pad, List.mem_cons_of_mem _ hin, hes⟩

/-- **runs_keep_consistent_partial.**  Start from an empty storage; apply any history of *completed* runs (each
appending or opening a new group, any earlier manifests unreadable) and deletions of whole groups, under the
assumptions of `history_restore_exact`, every run having read at least one regular file.  Then every group of the
resulting storage passes `BackupGroup::inspect`: every manifest records a file and every non-empty extern record has
an earlier unique record of its hash in the group.  What the full statement adds and this does not cover: runs that
die between creating a group directory and publishing (finding F2: the empty group is adopted on a later day and
verification then complains about its first backup) and runs over trees without any regular file (finding F6) —
on the current tree the statement is false for those, see `known-findings.json`. -/
theorem runs_keep_consistent_partial (hashOf : List β → H) (ops : List (LOp β F))
    (hs : ∀ (pre : List (LOp β F)) (op : LOp β F) (post : List (LOp β F)), ops = pre ++ op :: post →
        OpSoundL hashOf (pre.foldl (stepL hashOf) []) op)
    (hfile : ∀ name es fpf mask ng pad, LOp.run name es fpf mask ng pad ∈ ops → ∃ p m d, (.file p m d : Entry β) ∈ es) :
    ∀ g ∈ ops.foldl (stepL hashOf) ([] : LStore β F),
      inspectGroup (g.map (fun b => ({ recs := recsD hashOf b } : Manifest H F String))) = true := by
  intro g hg
  have hinv := history_inv hashOf ops [] (by intro g hg; cases hg) hs g hg
  have := inspect_ok_of_resolvable (g.map (recsD hashOf)) hinv.2 (by
    intro rs hrs
    obtain ⟨b, hb, rfl⟩ := List.mem_map.mp hrs
    rcases history_backups_from_runs hashOf ops [] g hg b hb with ⟨g0, hg0, _⟩ | ⟨name, es, fpf, mask, ng, pad, hin, hes⟩
    · cases hg0
    · obtain ⟨p, m, d, hf⟩ := hfile name es fpf mask ng pad hin
      intro hnil
      have : (⟨decide (d.length ≠ 0) && b.lb.stored p, hashOf d, b.fp p, d.length, keyE (.file p m d : Entry β)⟩ : Rec H F String) ∈ recsD hashOf b :=
        List.mem_filterMap.mpr ⟨_, by rw [hes]; exact hf, rfl⟩
      rw [hnil] at this
      cases this)
  simpa [List.map_map, Function.comp_def] using this

end Vsb.Restore
