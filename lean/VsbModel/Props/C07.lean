import VsbModel.Model.Rotate

/-!
# C07 — local rotation and retention stay within the configured bounds

`chooseGroup` is the decision of `Storage::create_backup`, `gcPlan` that of `gc_groups`; both are
functions of what the storage *lists* (see `Vsb.Listing.listRoot`).  All statements hold for every
listing, every `max_backups_per_group ≥ 1`, `max_backup_groups ≥ 1`, whatever the limits of earlier
runs were.
-/
namespace Vsb.Rotate
open Vsb.Listing

/-- Only the newest listed group is ever appended to. -/
theorem reuse_is_last (groups : List Group) (maxPer : Nat) (today : String) (g : Group)
    (h : chooseGroup groups maxPer today = .reuse g) :
    groups.getLast? = some g ∧ g.backups.length < maxPer := by
  unfold chooseGroup at h
  cases hl : groups.getLast? with
  | none => simp [hl] at h
  | some g' =>
    simp only [hl] at h
    split at h
    · rename_i hlt; cases h; exact ⟨rfl, hlt⟩
    · split at h <;> cases h

/-- **append_or_new (1).** The newest listed group is reused iff it holds fewer than
`max_backups_per_group` backups. -/
theorem append_iff_room (gs : List Group) (g : Group) (maxPer : Nat) (today : String) :
    (chooseGroup (gs ++ [g]) maxPer today = .reuse g) ↔ g.backups.length < maxPer := by
  constructor
  · intro h
    exact (reuse_is_last _ _ _ _ h).2
  · intro h
    simp [chooseGroup, h]

/-- **append_or_new (2).** Otherwise a new group named by the current date is opened — unless a
group of that name is already listed, in which case the run fails without touching anything. -/
theorem new_group_named_today (groups : List Group) (maxPer : Nat) (today : String)
    (hfull : ∀ g, groups.getLast? = some g → ¬ g.backups.length < maxPer) :
    chooseGroup groups maxPer today =
      if groups.any (·.name == today) then .exists_ today else .create today := by
  unfold chooseGroup
  cases hl : groups.getLast? with
  | none =>
    have : groups = [] := List.getLast?_eq_none_iff.mp hl
    simp [this]
  | some g => simp [hfull g hl]

/-- **group_bounded.** The group that receives the new backup holds at most
`max_backups_per_group` backups afterwards (all other groups are not touched by `chooseGroup`). -/
theorem group_bounded (groups : List Group) (maxPer : Nat) (hmax : 0 < maxPer) (today : String) :
    match chooseGroup groups maxPer today with
    | .reuse g => g.backups.length + 1 ≤ maxPer
    | .create _ => (0 : Nat) + 1 ≤ maxPer
    | .exists_ _ => True := by
  cases h : chooseGroup groups maxPer today with
  | reuse g => exact (reuse_is_last groups maxPer today g h).2
  | create n => exact hmax
  | exists_ n => trivial

/-- **gc_exact.** After a clean listing, the groups deleted are exactly the oldest
`len - max_backup_groups` listed ones; what remains is the newest `min len max` groups, in order. -/
theorem gc_exact (groups : List Group) (maxGroups : Nat) :
    gcPlan groups true maxGroups = (groups.take (groups.length - maxGroups)).map (·.name) ∧
    (groups.drop (groups.length - maxGroups)).length = min groups.length maxGroups ∧
    groups.take (groups.length - maxGroups) ++ groups.drop (groups.length - maxGroups) = groups := by
  refine ⟨?_, by simp [List.length_drop]; omega, List.take_append_drop _ _⟩
  unfold gcPlan
  by_cases h : groups.length ≤ maxGroups
  · have : groups.length - maxGroups = 0 := by omega
    simp [h, this]
  · simp [h]

/-- At most `max_backup_groups` groups are left once the plan is carried out. -/
theorem gc_bound (groups : List Group) (maxGroups : Nat) :
    (groups.drop (groups.length - maxGroups)).length ≤ maxGroups := by
  simp [List.length_drop]; omega

/-- **gc_conservative.** If the listing reported any problem, nothing is deleted. -/
theorem gc_conservative (groups : List Group) (maxGroups : Nat) : gcPlan groups false maxGroups = [] := by
  unfold gcPlan; split <;> simp

/-- **The newest listed group is never deleted** (`max_backup_groups ≥ 1`): the plan deletes the
first `k` listed groups for some `k` smaller than the number of groups. -/
theorem gc_keeps_newest (groups : List Group) (ok : Bool) (maxGroups : Nat) (hmax : 0 < maxGroups)
    (hne : groups ≠ []) :
    ∃ k, k < groups.length ∧ gcPlan groups ok maxGroups = (groups.take k).map (·.name) := by
  have hl : 0 < groups.length := List.length_pos_iff.mpr hne
  cases ok with
  | false => exact ⟨0, hl, by rw [gc_conservative]; simp⟩
  | true => exact ⟨groups.length - maxGroups, by omega, (gc_exact groups maxGroups).1⟩

/-- `st'` keeps every root entry of `st` (name and type). -/
def Keeps (st st' : Storage) : Prop := ∀ r ∈ st, ∃ r' ∈ st', r'.name = r.name ∧ r'.type = r.type

theorem Keeps.refl (st : Storage) : Keeps st st := fun r hr => ⟨r, hr, rfl, rfl⟩
theorem Keeps.trans {a b c : Storage} (h1 : Keeps a b) (h2 : Keeps b c) : Keeps a c := by
  intro r hr
  obtain ⟨r1, hr1, e1, e2⟩ := h1 r hr
  obtain ⟨r2, hr2, e3, e4⟩ := h2 r1 hr1
  exact ⟨r2, hr2, by rw [e3, e1], by rw [e4, e2]⟩

theorem keeps_removeFromGroup (st : Storage) (g : String) (ns : List String) : Keeps st (removeFromGroup st g ns) := by
  intro r hr
  refine ⟨_, List.mem_map_of_mem (f := fun r => if r.name = g then
    { r with entries := r.entries.map (fun es => es.filter (fun x => !ns.contains x.name)) } else r) hr, ?_⟩
  split <;> simp

theorem keeps_addToGroup (st : Storage) (g : String) (e : GEntry) : Keeps st (addToGroup st g e) := by
  intro r hr
  refine ⟨_, List.mem_map_of_mem (f := fun r => if r.name = g then
    { r with entries := r.entries.map (fun es => es.filter (·.name ≠ e.name) ++ [e]) } else r) hr, ?_⟩
  split <;> simp

theorem keeps_stage1 (st : Storage) (groups : List Group) (maxPer : Nat) (today : String) (st1 : Storage) (g : String)
    (h : stage1 st groups maxPer today = .ok (st1, g)) : Keeps st st1 := by
  unfold stage1 at h
  split at h
  · cases h; exact keeps_removeFromGroup _ _ _
  · cases h
  · split at h
    · cases h
    · cases h; intro r hr; exact ⟨r, List.mem_append_left _ hr, rfl, rfl⟩

theorem keeps_stage3 (st2 : Storage) (gname bname : String) (maxGroups : Nat) (okSoFar : Bool) (st' : Storage) (why : String)
    (h : stage3 st2 gname bname maxGroups okSoFar = .failed st' why) : st' = st2 := by
  unfold stage3 at h
  split at h
  · cases h; rfl
  · cases h

theorem keeps_stage2 (st1 : Storage) (gname bname : String) (maxGroups : Nat) (walkOk : Option Bool) (metaOk : Bool)
    (st' : Storage) (why : String) (h : stage2 st1 gname bname maxGroups walkOk metaOk = .failed st' why) :
    Keeps st1 st' := by
  unfold stage2 at h
  split at h
  · cases h; exact Keeps.refl _
  · split at h
    · cases h; exact Keeps.refl _
    · split at h
      · cases h; exact Keeps.refl _
      · rw [keeps_stage3 _ _ _ _ _ _ _ h]; exact keeps_addToGroup _ _ _

/-- **gc_conservative (run level).** A run that does not complete deletes nothing: every root entry
survives a `failed` run; the only changes are the removal of abandoned temporaries, the creation
of today's (empty) group, or — when only the final listing failed — the published backup. -/
theorem failed_run_deletes_nothing (st : Storage) (today bname : String) (maxPer maxGroups : Nat)
    (walkOk : Option Bool) (metaOk : Bool) (st' : Storage) (why : String)
    (h : backupRun st today bname maxPer maxGroups walkOk metaOk = .failed st' why) : Keeps st st' := by
  unfold backupRun at h
  split at h
  · cases h; exact Keeps.refl _
  · split at h
    · cases h; exact Keeps.refl _
    · rename_i st1 gname hs1
      exact (keeps_stage1 _ _ _ _ _ _ hs1).trans (keeps_stage2 _ _ _ _ _ _ _ _ h)

/-- **gc at run level.** In a completed run the deleted groups are exactly `gcPlan` of what the storage
lists after publication, and the resulting storage is that storage minus the deleted root entries. -/
theorem done_run_deletes_plan (st : Storage) (today bname : String) (maxPer maxGroups : Nat)
    (walkOk : Option Bool) (metaOk : Bool) (st' : Storage) (g b : String) (del : List String) (ok : Bool)
    (h : backupRun st today bname maxPer maxGroups walkOk metaOk = .done st' g b del ok) :
    ∃ st2 groups2 ok2 logs, listRoot localTraits st2 = .ok groups2 ok2 logs ∧
      del = gcPlan groups2 ok2 maxGroups ∧ st' = st2.filter (fun r => !del.contains r.name) ∧
      (ok = true → ok2 = true ∧ walkOk = some true ∧ metaOk = true) := by
  unfold backupRun at h
  split at h
  · cases h
  · split at h
    · cases h
    · unfold stage2 at h
      split at h
      · cases h
      · split at h
        · cases h
        · split at h
          · cases h
          · unfold stage3 at h
            split at h
            · cases h
            · rename_i wok _ _ groups2 ok2 logs hl
              cases h
              refine ⟨_, groups2, ok2, logs, hl, rfl, rfl, ?_⟩
              intro hok
              simp only [Bool.and_eq_true] at hok
              exact ⟨hok.2, by rw [hok.1.2], hok.1.1⟩

/-- Non-vacuity. -/
example : chooseGroup [⟨"2001.09.08", ["2001.09.08-10:00:00"], []⟩] 1 "2001.09.09" = .create "2001.09.09" := by decide
example : gcPlan [⟨"a", [], []⟩, ⟨"b", [], []⟩, ⟨"c", [], []⟩] true 2 = ["a"] := by decide

end Vsb.Rotate
