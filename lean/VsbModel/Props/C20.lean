import VsbModel.Model.Config
set_option linter.unusedSimpArgs false

/-!
# C20 — only a well-formed configuration is ever acted upon
-/
namespace Vsb.Config

/-! ### Path normalisation -/

theorem normalizePath_eq (p : String) (rest : List Char) (h : p.toList = '/' :: rest) :
    normalizePath p =
      if (keptComps rest).any (fun c => c = ['.', '.']) then none
      else some (String.ofList ('/' :: List.intercalate ['/'] (keptComps rest))) := by
  unfold normalizePath
  rw [h]
  simp

/-- **rejects_relative.** A path that does not start at the root is rejected. -/
theorem rejects_relative (p : String) (h : p.toList.head? ≠ some '/') : normalizePath p = none := by
  unfold normalizePath
  cases hp : p.toList with
  | nil => rfl
  | cons c rest =>
    rw [hp] at h
    simp only [List.head?_cons, ne_eq, Option.some.injEq] at h
    split
    · rename_i heq; simp only [List.cons.injEq] at heq; exact absurd heq.1 h
    · rfl

/-- **rejects_dotdot.** A path with a `..` component is rejected. -/
theorem rejects_dotdot (p : String) (rest : List Char) (h : p.toList = '/' :: rest)
    (hdd : ['.', '.'] ∈ splitSlash rest) : normalizePath p = none := by
  rw [normalizePath_eq p rest h]
  have : (keptComps rest).any (fun c => c = ['.', '.']) = true := by
    simp only [keptComps, List.any_eq_true, List.mem_filter]
    exact ⟨['.', '.'], ⟨hdd, by decide⟩, by simp⟩
  simp [this]

/-- **normalize_canonical.** An accepted path is `/` followed by the `/`-joined list of its
non-trivial components: none of them is empty (so no `//` and no trailing `/`), `.` or `..`. -/
theorem normalize_canonical (p q : String) (h : normalizePath p = some q) :
    ∃ comps : List (List Char), q = String.ofList ('/' :: List.intercalate ['/'] comps) ∧
      ∀ c ∈ comps, c ≠ [] ∧ c ≠ ['.'] ∧ c ≠ ['.', '.'] := by
  cases hp : p.toList with
  | nil => rw [rejects_relative p (by simp [hp])] at h; cases h
  | cons c0 rest =>
    by_cases hc0 : c0 = '/'
    · subst hc0
      rw [normalizePath_eq p rest hp] at h
      split at h
      · cases h
      · rename_i hany
        simp only [Option.some.injEq] at h
        refine ⟨_, h.symm, ?_⟩
        intro c hc
        have hf := List.mem_filter.mp hc
        simp only [Bool.and_eq_true, bne_iff_ne, ne_eq, decide_eq_true_eq] at hf
        refine ⟨hf.2.1, hf.2.2, ?_⟩
        intro hdd
        apply hany
        simp only [List.any_eq_true]
        exact ⟨c, hc, by simp [hdd]⟩
    · rw [rejects_relative p (by simp [hp, hc0])] at h; cases h

/-- **normalize_equiv.** The result depends only on the list of non-trivial components: spellings
that differ in repeated slashes, `/./` segments or a trailing slash — i.e. have the same `keptComps` —
are normalised to the same path (and `~` is expanded before, see `normalizeLocal`). -/
theorem normalize_equiv (p₁ p₂ : String) (r₁ r₂ : List Char) (h₁ : p₁.toList = '/' :: r₁) (h₂ : p₂.toList = '/' :: r₂)
    (hc : keptComps r₁ = keptComps r₂) : normalizePath p₁ = normalizePath p₂ := by
  rw [normalizePath_eq p₁ r₁ h₁, normalizePath_eq p₂ r₂ h₂, hc]

/-- Concrete spellings of one storage path, decided by the kernel. -/
example : normalizePath "/a//b/./c/" = some "/a/b/c" := by decide
example : normalizePath "//a/b/c/." = some "/a/b/c" := by decide
example : normalizePath "/./a/b//c" = some "/a/b/c" := by decide
example : normalizeLocal "/home/u" "~/a/b/" = some "/home/u/a/b" := by decide
example : normalizePath "/a/../b" = none := by decide
example : normalizePath "a/b" = none := by decide
example : normalizePath "/" = some "/" := by decide

/-! ### Schema -/

/-- **unknown_keys_rejected / duplicate keys.** A mapping is taken apart only if every key is known to
the section and no key occurs twice. -/
theorem fieldsOf_ok (v : V) (known : List String) (fs : List (String × V)) (h : fieldsOf v known = .ok fs) :
    v = .obj fs ∧ (∀ f ∈ fs, f.1 ∈ known) ∧ (fs.map (·.1)).eraseDups.length = fs.length := by
  unfold fieldsOf at h
  split at h
  · rename_i fs'
    split at h
    · cases h
    · split at h
      · cases h
      · rename_i h1 h2
        cases h
        refine ⟨rfl, ?_, by simpa using h2⟩
        intro f hf
        simp only [List.any_eq_true, not_exists, not_and, Bool.not_eq_true', Bool.not_eq_false] at h1
        have := h1 f hf
        simpa using this
  · cases h

theorem nonEmpty_ok (s : String) (h : nonEmpty s = .ok ()) : 1 ≤ s.length := by
  unfold nonEmpty at h; split at h
  · assumption
  · cases h

theorem positive_ok (n : Nat) (h : positive n = .ok ()) : 1 ≤ n := by
  unfold positive at h; split at h
  · assumption
  · cases h

theorem chk_ok (l : List (R Unit)) : chk l = .ok () ↔ ∀ x ∈ l, x = .ok () := by
  induction l with
  | nil => simp [chk]
  | cons x xs ih =>
    cases x with
    | error e => simp [chk]
    | ok u => cases u; simp [chk, ih]

/-- What `validator` guarantees about a configuration that passes `validate`. -/
structure Valid (c : Cfg) : Prop where
  names : ∀ b ∈ c.backups, 1 ≤ b.name.length ∧ 1 ≤ b.path.length
  backup : ∀ b ∈ c.backups, ∀ bc, b.backup = some bc →
    bc.items ≠ [] ∧ 1 ≤ bc.maxGroups ∧ 1 ≤ bc.maxPerGroup ∧ ∀ it ∈ bc.items, 1 ≤ it.path.length
  upload : ∀ b ∈ c.backups, ∀ u, b.upload = some u →
    1 ≤ u.path.length ∧ 1 ≤ u.maxGroups ∧ 1 ≤ u.passphrase.length
  metrics : ∀ m, c.metrics = some m → 1 ≤ m.length

/-- **schema_sound (validator part).** Zero `max_backup_groups` / `max_backups_per_group`, empty item
lists, empty names, paths and passphrases never pass. -/
theorem validate_valid (c : Cfg) (h : validate c = .ok ()) : Valid c := by
  unfold validate at h
  rw [chk_ok] at h
  have hspec : ∀ b ∈ c.backups, validateSpec b = .ok () := by
    intro b hb; exact h _ (List.mem_append_left _ (List.mem_map_of_mem hb))
  have hm := h _ (List.mem_append_right _ (List.mem_singleton_self _))
  refine ⟨?_, ?_, ?_, ?_⟩
  · intro b hb
    have := hspec b hb
    unfold validateSpec at this; rw [chk_ok] at this
    exact ⟨nonEmpty_ok _ (this _ (by simp)), nonEmpty_ok _ (this _ (by simp))⟩
  · intro b hb bc hbc
    have := hspec b hb
    unfold validateSpec at this; rw [chk_ok] at this
    have hv := this _ (List.mem_cons_of_mem _ (List.mem_cons_of_mem _ (List.mem_cons_self ..)))
    rw [hbc] at hv
    unfold validateBackup at hv; rw [chk_ok] at hv
    refine ⟨?_, positive_ok _ (hv _ (by simp)), positive_ok _ (hv _ (by simp)), ?_⟩
    · have h0 := hv (if bc.items.isEmpty then .error .empty else .ok ()) (by simp)
      intro he; simp [he] at h0
    · intro it hit
      exact nonEmpty_ok _ (hv _ (by simp only [List.mem_append, List.mem_map]; exact Or.inl (Or.inr ⟨it, hit, rfl⟩)))
  · intro b hb u hu
    have := hspec b hb
    unfold validateSpec at this; rw [chk_ok] at this
    have hv := this _ (List.mem_cons_of_mem _ (List.mem_cons_of_mem _ (List.mem_cons_of_mem _ (List.mem_cons_self ..))))
    rw [hu] at hv
    unfold validateUpload at hv; rw [chk_ok] at hv
    exact ⟨nonEmpty_ok _ (hv _ (by simp)), positive_ok _ (hv _ (by simp)), nonEmpty_ok _ (hv _ (by simp))⟩
  · intro m hmm
    rw [hmm] at hm
    exact nonEmpty_ok _ hm

/-- **Duplicate backup names are rejected; accepted storage paths are normalised.** -/
theorem finalizeSpecs_ok (home : String) :
    ∀ (bs : List Spec) (seen : List String) (out : List Spec), finalizeSpecs home seen bs = .ok out →
      out.map (·.name) = bs.map (·.name) ∧ (bs.map (·.name)).Nodup ∧ (∀ n ∈ bs.map (·.name), n ∉ seen) ∧
      bs.map (normSpec home) = out.map some := by
  intro bs
  induction bs with
  | nil => intro seen out h; simp only [finalizeSpecs] at h; cases h; simp
  | cons b rest ih =>
    intro seen out h
    simp only [finalizeSpecs] at h
    by_cases hs : seen.contains b.name = true
    · have hs' : b.name ∈ seen := by simpa using hs
      rw [if_pos hs] at h; cases h
    · have hs' : b.name ∉ seen := by simpa using hs
      rw [if_neg hs] at h
      cases hn : normSpec home b with
      | none => simp [hn] at h
      | some b' =>
        simp only [hn] at h
        cases hr : finalizeSpecs home (b.name :: seen) rest with
        | error e => simp [hr] at h
        | ok rest' =>
          simp only [hr, Except.ok.injEq] at h
          subst h
          obtain ⟨i1, i2, i3, i4⟩ := ih (b.name :: seen) rest' hr
          have hns : b.name ∉ seen := hs'
          have hname : b'.name = b.name := by
            unfold normSpec at hn
            split at hn
            · cases hn
            · split at hn
              · cases hn; rfl
              · split at hn
                · cases hn; rfl
                · cases hn
          refine ⟨by simp [i1, hname], ?_, ?_, by simp [hn, i4]⟩
          · simp only [List.map_cons, List.nodup_cons]
            exact ⟨fun hm => (i3 _ hm) (by simp), i2⟩
          · intro n hn'
            simp only [List.map_cons, List.mem_cons] at hn'
            rcases hn' with rfl | hn'
            · exact hns
            · intro hc; exact i3 n hn' (by simp [hc])

/-- **schema_sound.** Whatever `Config::load` accepts was deserialised without unknown or repeated
keys (`fieldsOf_ok` at every mapping), passes the validator rules, has pairwise distinct backup
names, and its storage / upload / metrics paths are the normalised forms. -/
theorem load_sound (home : String) (filterOk durationOk : String → Bool) (doc : V) (out : Cfg)
    (h : load home filterOk durationOk doc = .ok out) :
    ∃ c, deserialize filterOk durationOk doc = .ok c ∧ Valid c ∧
      (out.backups.map (·.name)) = c.backups.map (·.name) ∧ (out.backups.map (·.name)).Nodup ∧
      c.backups.map (normSpec home) = out.backups.map some ∧
      (∀ m, out.metrics = some m → ∃ m0, c.metrics = some m0 ∧ normalizeLocal home m0 = some m) := by
  unfold load at h
  cases hd : deserialize filterOk durationOk doc with
  | error e => simp [hd] at h
  | ok c =>
    simp only [hd] at h
    cases hv : validate c with
    | error e => simp [hv] at h
    | ok u =>
      cases u
      simp only [hv] at h
      unfold finalize at h
      cases hf : finalizeSpecs home [] c.backups with
      | error e => simp [hf] at h
      | ok bs =>
        simp only [hf] at h
        obtain ⟨f1, f2, _, f4⟩ := finalizeSpecs_ok home c.backups [] bs hf
        refine ⟨c, rfl, validate_valid c hv, ?_⟩
        cases hm : c.metrics with
        | none =>
          simp only [hm, Except.ok.injEq] at h; subst h
          exact ⟨f1, by rw [f1]; exact f2, f4, by intro m hmm; cases hmm⟩
        | some m0 =>
          simp only [hm] at h
          cases hn : normalizeLocal home m0 with
          | none => simp [hn] at h
          | some p =>
            simp only [hn, Except.ok.injEq] at h; subst h
            exact ⟨f1, by rw [f1]; exact f2, f4, by intro m hmm; cases hmm; exact ⟨m0, rfl, hn⟩⟩

/-- **load_before_act.** `main.rs::run` performs no effect of any action unless the configuration was
loaded and accepted; a rejected (or unreadable) configuration gives exit status 1 and no effect. -/
theorem load_before_act (home : String) (filterOk durationOk : String → Bool) (doc : Option V) (act : Action)
    (effects : Cfg → Action → List String)
    (h : ∀ d, doc = some d → ∀ c, load home filterOk durationOk d ≠ .ok c) :
    run home filterOk durationOk doc act effects = (1, []) := by
  unfold run
  cases doc with
  | none => rfl
  | some d =>
    cases hl : load home filterOk durationOk d with
    | error e => simp [hl]
    | ok c => exact absurd hl (h d rfl c)

/-- Conversely every effect stems from an accepted configuration. -/
theorem effects_only_if_accepted (home : String) (filterOk durationOk : String → Bool) (doc : Option V) (act : Action)
    (effects : Cfg → Action → List String) (e : String)
    (h : e ∈ (run home filterOk durationOk doc act effects).2) :
    ∃ d c, doc = some d ∧ load home filterOk durationOk d = .ok c ∧ e ∈ effects c act := by
  unfold run at h
  cases doc with
  | none => cases h
  | some d =>
    cases hl : load home filterOk durationOk d with
    | error _ => simp [hl] at h
    | ok c => simp only [hl] at h; exact ⟨d, c, rfl, hl, h⟩

end Vsb.Config
