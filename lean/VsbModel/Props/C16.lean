import VsbModel.Model.FsTrace
set_option linter.unusedSimpArgs false

/-!
# C16 — runs on the same storage or configuration are mutually exclusive

`flock(2)` exclusivity is the kernel's (trusted base).  What is proved is the part that is vsb's:
the lock attempt is the first thing a run does on the storage, a failed attempt means no storage
access at all, the lock is held until the process ends (past the removal of old groups), and in every
interleaving of two runs that is consistent with `flock` semantics the second run performs no storage
operation while the first one holds the lock.
-/
namespace Vsb.FsTrace

/-- **lock_brackets.** In an operation list accepted by `lockOk` the first operation is the lock
attempt; if it failed, no storage operation follows; if it succeeded, no exit (lock release) occurs
before the last operation. -/
theorem lock_brackets (t : List Op) (h : lockOk t = true) :
    t = [] ∨ (∃ rest, t = Op.lock false :: rest ∧ ∀ o ∈ rest, o.isStorage = false) ∨
    (∃ rest, t = Op.lock true :: rest ∧ ∀ o ∈ rest.dropLast, o.isExit = false) := by
  unfold lockOk at h
  split at h
  · rename_i rest
    right; left
    refine ⟨rest, rfl, ?_⟩
    intro o ho
    simpa using List.all_eq_true.mp h o ho
  · rename_i rest
    right; right
    refine ⟨rest, rfl, ?_⟩
    intro o ho
    simpa using List.all_eq_true.mp h o ho
  · left; rfl
  · cases h

theorem body_no_exit (sc : Scenario) : (body sc).all (fun o => !o.isExit) = true := by
  unfold body
  simp only [List.all_append, List.all_map, List.all_cons, List.all_nil, List.all_flatMap, List.all_replicate,
    Bool.and_eq_true, Function.comp_def, Op.isExit, Bool.not_false, Bool.and_true, Bool.and_self, Bool.or_true,
    List.all_eq_true, implies_true, and_self, and_true, true_and]
  split
  · simp [Op.isExit]
  · simp [Op.isExit]
    rintro x a b _ (⟨f, _, rfl⟩ | rfl) <;> rfl

/-- Every run the model generates takes the lock first and releases it (by exiting) last. -/
theorem runOps_lockOk (sc : Scenario) : lockOk (runOps sc) = true := by
  unfold runOps lockOk
  simp only [List.singleton_append, List.cons_append, List.nil_append, List.dropLast_concat]
  exact body_no_exit sc

/-! ### Two runs -/

/-- An interleaving of the operation lists of two runs: each event is tagged with its run (`false` =
first, `true` = second). -/
abbrev Interleaving := List (Bool × Op)

def opsOf (who : Bool) (il : Interleaving) : List Op := (il.filter (·.1 = who)).map (·.2)

/-- Who holds the lock after the given events (`none` = nobody): a successful lock takes it, exit of
the holder releases it. -/
def holder : Interleaving → Option Bool
  | [] => none
  | il => il.foldl (fun h e => match e.2 with
      | .lock true => some e.1
      | .exit _ => if h = some e.1 then none else h
      | _ => h) none

/-- `flock` semantics: a non-blocking exclusive lock attempt succeeds iff nobody else holds the lock. -/
def FlockConsistent (il : Interleaving) : Prop :=
  ∀ (pre : Interleaving) (who ok : _) (post : Interleaving), il = pre ++ (who, Op.lock ok) :: post →
    (ok = true ↔ (holder pre = none ∨ holder pre = some who))

/-- **exclusion.** Take any interleaving of two runs that respects `flock` semantics and in which each
run, by itself, is accepted by `lockOk`.  If the second run's first operation — its lock attempt —
happens while the first run holds the lock, then the second run performs no storage operation at all. -/
theorem exclusion (il : Interleaving) (hflock : FlockConsistent il)
    (h2 : lockOk (opsOf true il) = true)
    (pre post : Interleaving) (ok : Bool) (hsplit : il = pre ++ (true, Op.lock ok) :: post)
    (hfirst : opsOf true pre = [])                       -- it is the second run's first operation
    (hheld : holder pre = some false) :                   -- the first run holds the lock at that moment
    ∀ o ∈ opsOf true il, o.isStorage = false := by
  have hok : ok = false := by
    cases ok with
    | false => rfl
    | true =>
      have := (hflock pre true true post hsplit).mp rfl
      rcases this with h | h
      · rw [hheld] at h; cases h
      · rw [hheld] at h; cases h
  subst hok
  have hops : opsOf true il = Op.lock false :: opsOf true post := by
    unfold opsOf at *
    rw [hsplit, List.filter_append, List.map_append, hfirst]
    simp [List.filter_cons]
  rw [hops] at h2 ⊢
  intro o ho
  simp only [List.mem_cons] at ho
  rcases ho with rfl | ho
  · rfl
  · unfold lockOk at h2
    simpa using List.all_eq_true.mp h2 o ho

/-- A run that did not get the lock does nothing (model-level form of "fails immediately and leaves the
storage untouched"). -/
example : lockOk [Op.lock false, Op.exit 1] = true := by decide
example : lockOk [Op.lock false, Op.readdir [], Op.exit 1] = false := by decide
/-- Taking the lock after the first storage access is rejected. -/
example : lockOk [Op.readdir [], Op.lock true, Op.exit 0] = false := by decide

end Vsb.FsTrace
