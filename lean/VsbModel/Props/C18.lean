import VsbModel.Lemmas.ChunkedHash

/-!
# C18 — upload checksums equal the providers' definitions for every fragmentation

`H` (digest of one block) and `Hout` (digest of the concatenated block digests) are arbitrary
functions: the theorems hold for SHA-256 in particular.  Nothing is bounded: any block size > 0,
any data, any partition into `write_all` calls (each of which loops over partial `write`s).
-/
namespace Vsb.ChunkedHash
variable {α δ ρ : Type}

/-- **C18 (Dropbox content hash).** For every fragmentation `parts` of the stream the chunked hasher
never fails and returns `Hout (map H (blocks bs data))` where `data` is the concatenation. -/
theorem chunked_eq_spec (H : List α → δ) (Hout : List δ → ρ) (bs : Nat) (hbs : 0 < bs)
    (parts : List (List α)) :
    chunked H Hout bs parts = some (spec H Hout bs parts.flatten) := by
  obtain ⟨s', hs', hi'⟩ := feedParts_inv H bs hbs parts _ [] (inv_init H bs)
  simp only [chunked, hs', Option.map_some]
  rw [finish_of_inv H Hout bs hbs s' _ hi']
  simp

/-- The result does not depend on the fragmentation at all. -/
theorem chunked_fragmentation_independent (H : List α → δ) (Hout : List δ → ρ) (bs : Nat) (hbs : 0 < bs)
    (parts₁ parts₂ : List (List α)) (h : parts₁.flatten = parts₂.flatten) :
    chunked H Hout bs parts₁ = chunked H Hout bs parts₂ := by
  rw [chunked_eq_spec H Hout bs hbs, chunked_eq_spec H Hout bs hbs, h]

/-- Empty input: the hash of no block digests at all (`Hout []`), however many empty writes. -/
theorem chunked_empty (H : List α → δ) (Hout : List δ → ρ) (bs : Nat) (hbs : 0 < bs)
    (parts : List (List α)) (h : parts.flatten = []) :
    chunked H Hout bs parts = some (Hout []) := by
  rw [chunked_eq_spec H Hout bs hbs, h, spec, blocks_nil]; rfl

/-- Shorter than (or exactly) one block: a single block digest. -/
theorem chunked_short (H : List α → δ) (Hout : List δ → ρ) (bs : Nat)
    (parts : List (List α)) (h0 : 0 < parts.flatten.length) (h1 : parts.flatten.length ≤ bs) :
    chunked H Hout bs parts = some (Hout [H parts.flatten]) := by
  rw [chunked_eq_spec H Hout bs (by omega), spec, blocks_short bs _ h0 h1]; rfl

/-- Exact multiple of the block size: exactly `k` full blocks and **no** trailing empty block. -/
theorem blocks_exact_multiple (bs : Nat) (hbs : 0 < bs) (pre : List (List α))
    (hpre : ∀ x ∈ pre, x.length = bs) : blocks bs pre.flatten = pre := by
  have := blocks_flatten bs hbs pre [] hpre hbs
  simpa using this

/-- Shape of the block decomposition: every block is non-empty and at most `bs` long, all but the
last are exactly `bs` long, and they concatenate to the data. -/
theorem blocks_shape (bs : Nat) (hbs : 0 < bs) (data : List α) :
    (blocks bs data).flatten = data ∧ (∀ b ∈ blocks bs data, 0 < b.length ∧ b.length ≤ bs) ∧
    (∀ b ∈ (blocks bs data).dropLast, b.length = bs) := by
  induction h : data.length using Nat.strongRecOn generalizing data with
  | _ n ih =>
    rw [blocks]
    by_cases hd : data = []
    · simp [hd]
    · have hbs' : bs ≠ 0 := by omega
      simp only [hbs', hd, or_self, dite_false]
      have hlen : 0 < data.length := List.length_pos_iff.mpr hd
      obtain ⟨r1, r2, r3⟩ := ih (data.drop bs).length (by simp [List.length_drop]; omega) (data.drop bs) rfl
      refine ⟨by simp [r1], ?_, ?_⟩
      · intro b hb
        simp only [List.mem_cons] at hb
        rcases hb with rfl | hb
        · simp [List.length_take]; omega
        · exact r2 b hb
      · intro b hb
        cases hbl : blocks bs (data.drop bs) with
        | nil => simp [hbl] at hb
        | cons y ys =>
          rw [hbl, List.dropLast_cons_cons] at hb
          simp only [List.mem_cons] at hb
          rcases hb with rfl | hb
          · -- the first block is full because something follows it
            have : (data.drop bs) ≠ [] := by
              intro hnil; rw [hnil, blocks_nil] at hbl; cases hbl
            have : 0 < (data.drop bs).length := List.length_pos_iff.mpr this
            simp [List.length_drop] at this
            simp [List.length_take]; omega
          · exact r3 b (by rw [hbl]; exact hb)

/-- `Md5`: the streaming digest equals the digest of the whole stream for every fragmentation. -/
theorem md5_stream (Hmd5 : List α → ρ) (parts₁ parts₂ : List (List α)) (h : parts₁.flatten = parts₂.flatten) :
    md5Stream Hmd5 parts₁ = md5Stream Hmd5 parts₂ := by
  simp [md5Stream, h]

/-- Non-vacuity: blocks of two bytes over five bytes fed as 3+0+2, `H`/`Hout` symbolic (identity). -/
example : chunked (fun b => b) (fun ds => ds) 2 [[1,2,3],[],[4,5]] = some [[1,2],[3,4],[5]] := by decide
example : blocks 2 ([1,2] ++ [3,4]) = [[1,2],[3,4]] := by
  rw [blocks_cons 2 [1,2] [3,4] rfl (by omega), blocks_short 2 [3,4] (by simp) (by simp)]

end Vsb.ChunkedHash
