import VsbModel.Model.Filter
set_option linter.unusedSimpArgs false

/-!
# C14 — filters decide inclusion by first matching rule; glob semantics

Statements about `Vsb.Filter.check` / `Vsb.Glob` (models of `PathFilter::check` and of the regex
globset generates), over arbitrary byte strings.  The walk-level statement (`walk_iff`: a path is
archived iff every prefix is allowed) lives with the walk model in `Props/C08.lean`.
-/
namespace Vsb.Filter
open Vsb.Glob

def Rule.Matches (r : Rule) (p : Bytes) : Prop := matchTokens r.tokens p = true

/-- **check_first_match (1).** No rule matches: the path is allowed. -/
theorem check_default_allow (rules : List Rule) (p : Bytes) (h : ∀ r ∈ rules, ¬ r.Matches p) :
    check rules p = true := by
  unfold check
  have : rules.find? (fun r => matchTokens r.tokens p) = none := by
    rw [List.find?_eq_none]; intro r hr; simpa [Rule.Matches] using h r hr
  rw [this]

/-- **check_first_match (2).** The first rule, in file order, whose glob matches decides; later
rules are irrelevant. -/
theorem check_first_match (pre post : List Rule) (r : Rule) (p : Bytes)
    (hpre : ∀ x ∈ pre, ¬ x.Matches p) (hr : r.Matches p) :
    check (pre ++ r :: post) p = r.allow := by
  unfold check
  have : (pre ++ r :: post).find? (fun r => matchTokens r.tokens p) = some r := by
    rw [List.find?_append]
    have h1 : pre.find? (fun r => matchTokens r.tokens p) = none := by
      rw [List.find?_eq_none]; intro x hx; simpa [Rule.Matches] using hpre x hx
    rw [h1]
    simp [List.find?_cons, show matchTokens r.tokens p = true from hr]
  rw [this]

/-- An empty rule list (no filter configured) allows everything. -/
theorem check_nil (p : Bytes) : check [] p = true := rfl

/-! ### Token semantics -/

theorem mem_starRems (s rem : Bytes) : rem ∈ starRems s ↔ ∃ a, s = a ++ rem ∧ slash ∉ a := by
  induction s with
  | nil =>
    simp only [starRems, List.mem_singleton]
    constructor
    · rintro rfl; exact ⟨[], rfl, by simp⟩
    · rintro ⟨a, h, _⟩
      have := congrArg List.length h; simp at this
      cases rem with
      | nil => rfl
      | cons _ _ => simp at this
  | cons b rest ih =>
    simp only [starRems, List.mem_cons]
    constructor
    · rintro (rfl | h)
      · exact ⟨[], rfl, by simp⟩
      · split at h
        · rename_i hb
          obtain ⟨a, rfl, ha⟩ := ih.mp h
          refine ⟨b :: a, rfl, ?_⟩
          simp only [List.mem_cons, not_or]; exact ⟨fun h' => hb h'.symm, ha⟩
        · cases h
    · rintro ⟨a, h, ha⟩
      cases a with
      | nil => left; simpa using h.symm
      | cons x xs =>
        simp only [List.cons_append, List.cons.injEq] at h
        obtain ⟨rfl, rfl⟩ := h
        right
        simp only [List.mem_cons, not_or] at ha
        have hb : b ≠ slash := fun h' => ha.1 h'.symm
        simp only [hb, ne_eq, not_false_eq_true, if_true]
        exact ih.mpr ⟨xs, rfl, ha.2⟩

theorem mem_afterSlash (s rem : Bytes) : rem ∈ afterSlash s ↔ ∃ a, s = a ++ slash :: rem := by
  induction s with
  | nil => simp [afterSlash]
  | cons b rest ih =>
    simp only [afterSlash, List.mem_append]
    constructor
    · rintro (h | h)
      · split at h
        · rename_i hb; simp at h; subst h; exact ⟨[], by simp [hb]⟩
        · cases h
      · obtain ⟨a, rfl⟩ := ih.mp h; exact ⟨b :: a, rfl⟩
    · rintro ⟨a, h⟩
      cases a with
      | nil =>
        simp only [List.nil_append, List.cons.injEq] at h
        left; simp [h.1, h.2]
      | cons x xs =>
        simp only [List.cons_append, List.cons.injEq] at h
        right; exact ih.mpr ⟨xs, h.2⟩

theorem mem_suffixes (s rem : Bytes) : rem ∈ suffixes s ↔ ∃ a, s = a ++ rem := by
  induction s with
  | nil =>
    simp only [suffixes, List.mem_singleton]
    constructor
    · rintro rfl; exact ⟨[], rfl⟩
    · rintro ⟨a, h⟩
      have := congrArg List.length h; simp at this
      cases rem with
      | nil => rfl
      | cons _ _ => simp at this
  | cons b rest ih =>
    simp only [suffixes, List.mem_cons]
    constructor
    · rintro (rfl | h)
      · exact ⟨[], rfl⟩
      · obtain ⟨a, rfl⟩ := ih.mp h; exact ⟨b :: a, rfl⟩
    · rintro ⟨a, h⟩
      cases a with
      | nil => left; simpa using h.symm
      | cons x xs =>
        simp only [List.cons_append, List.cons.injEq] at h
        right; exact ih.mpr ⟨xs, h.2⟩

/-- **`?`** consumes exactly one byte, never `/`. -/
theorem any_step (s rem : Bytes) : rem ∈ Tok0.any.step s ↔ ∃ b, s = b :: rem ∧ b ≠ slash := by
  cases s with
  | nil => simp [Tok0.step]
  | cons b rest =>
    simp only [Tok0.step]
    by_cases hb : b = slash
    · simp [hb]
    · simp only [hb, ne_eq, not_false_eq_true, if_true, List.mem_singleton, List.cons.injEq]
      constructor
      · rintro rfl; exact ⟨b, ⟨rfl, rfl⟩, hb⟩
      · rintro ⟨b', ⟨rfl, rfl⟩, _⟩; rfl

/-- **`*`** consumes any run of bytes that contains no `/` (possibly empty). -/
theorem star_step (s rem : Bytes) : rem ∈ Tok0.zeroOrMore.step s ↔ ∃ a, s = a ++ rem ∧ slash ∉ a :=
  mem_starRems s rem

/-- **Leading `**/`** consumes nothing, or everything up to and including any `/` — i.e. it spans any
number of directory levels. -/
theorem recPrefix_step (s rem : Bytes) :
    rem ∈ Tok0.recPrefix.step s ↔ rem = s ∨ ∃ a, s = a ++ slash :: rem := by
  simp only [Tok0.step, List.mem_cons, mem_afterSlash]

/-- **Trailing `/**`** consumes a `/` and then anything. -/
theorem recSuffix_step (s rem : Bytes) :
    rem ∈ Tok0.recSuffix.step s ↔ ∃ a, s = slash :: a ++ rem := by
  cases s with
  | nil => simp [Tok0.step]
  | cons b rest =>
    simp only [Tok0.step]
    by_cases hb : b = slash
    · subst hb
      simp only [if_true, mem_suffixes, List.cons_append, List.cons.injEq, true_and]
    · simp only [hb, if_false, List.not_mem_nil, false_iff, List.cons_append, List.cons.injEq, not_exists, not_and]
      intro a h; exact h.elim

/-- **Inner `/**/`** consumes `/`, or `/`, anything, `/` — zero or more whole directory levels. -/
theorem recZeroOrMore_step (s rem : Bytes) :
    rem ∈ Tok0.recZeroOrMore.step s ↔ s = slash :: rem ∨ ∃ a, s = slash :: a ++ slash :: rem := by
  cases s with
  | nil => simp [Tok0.step]
  | cons b rest =>
    simp only [Tok0.step]
    by_cases hb : b = slash
    · subst hb
      simp only [if_true, List.mem_cons, mem_afterSlash, List.cons.injEq, true_and, List.cons_append]
      constructor
      · rintro (rfl | h)
        · exact Or.inl rfl
        · exact Or.inr h
      · rintro (h | h)
        · exact Or.inl h.symm
        · exact Or.inr h
    · simp only [hb, if_false, List.not_mem_nil, false_iff, List.cons.injEq, List.cons_append, not_or, not_and,
        not_exists]
      exact ⟨fun h => h.elim, fun a h => h.elim⟩

/-- **`{a,b}`** alternates: some non-empty alternative consumes the prefix (empty alternatives are
dropped; if all are empty the group matches the empty string). -/
theorem alts_step (as : List (List Tok0)) (s rem : Bytes) :
    rem ∈ (Tok.alts as).step s ↔
      (∃ a ∈ as, a ≠ [] ∧ rem ∈ seq0 a s) ∨ ((∀ a ∈ as, a = []) ∧ rem = s) := by
  simp only [Tok.step]
  by_cases he : (as.filter (fun a => !a.isEmpty)).isEmpty = true
  · simp only [he, if_true, List.mem_singleton]
    have hall : ∀ a ∈ as, a = [] := by
      intro a ha
      have := List.isEmpty_iff.mp he
      cases a with
      | nil => rfl
      | cons x xs =>
        have hm : (x :: xs) ∈ as.filter (fun a => !a.isEmpty) := by
          simp only [List.mem_filter, ha, true_and]; rfl
        rw [this] at hm; cases hm
    constructor
    · rintro rfl; exact Or.inr ⟨hall, rfl⟩
    · rintro (⟨a, ha, hne, _⟩ | ⟨_, rfl⟩)
      · exact absurd (hall a ha) hne
      · rfl
  · simp only [he, Bool.false_eq_true, if_false, List.mem_flatMap, List.mem_filter]
    constructor
    · rintro ⟨a, ⟨ha, hne⟩, hr⟩
      refine Or.inl ⟨a, ha, ?_, hr⟩
      intro h; subst h; simp at hne
    · rintro (⟨a, ha, hne, hr⟩ | ⟨hall, _⟩)
      · refine ⟨a, ⟨ha, ?_⟩, hr⟩
        cases a <;> simp_all
      · exfalso; apply he
        rw [List.isEmpty_iff, List.filter_eq_nil_iff]
        intro a ha; simp [hall a ha]

/-- **Whole-path matching.** A glob made of a single literal character matches exactly that
character's UTF-8 bytes — nothing shorter, nothing longer (anchoring at both ends). -/
theorem lit_whole (c : Char) (s : Bytes) : matchTokens [.t (.lit c)] s = true ↔ s = utf8 c := by
  simp only [matchTokens, List.cons.injEq, Tok.t.injEq, reduceCtorEq, and_true, if_false, List.foldl_cons,
    List.foldl_nil, List.flatMap_cons, List.flatMap_nil, List.append_nil, Tok.step, Tok0.step]
  by_cases hp : (utf8 c).isPrefixOf s = true
  · simp only [hp, if_true, List.any_cons, List.any_nil, Bool.or_false, List.isEmpty_iff]
    obtain ⟨t, ht⟩ := List.isPrefixOf_iff_prefix.mp hp
    subst ht
    simp
  · simp only [hp, Bool.false_eq_true, if_false, List.any_nil, false_iff]
    intro h; apply hp; rw [h]; exact List.isPrefixOf_iff_prefix.mpr (List.prefix_refl _)

/-- The glob `**` alone matches everything. -/
theorem doublestar_all (s : Bytes) : matchTokens [.t .recPrefix] s = true := by
  simp [matchTokens]

/-! ### Rule lines -/

/-- **Blank lines are ignored** (also lines of spaces and tabs only). -/
theorem ruleline_blank (line : List Char) (h : ∀ c ∈ line, isWs c = true) : parseRuleLine line = .skip := by
  unfold parseRuleLine
  have : line.dropWhile isWs = [] := by
    induction line with
    | nil => rfl
    | cons c cs ih =>
      simp only [List.dropWhile_cons, h c (by simp), if_true]
      exact ih (fun x hx => h x (by simp [hx]))
  simp [this]

/-- **`#` lines are comments** (after optional leading whitespace). -/
theorem ruleline_comment (ws rest : List Char) (h : ∀ c ∈ ws, isWs c = true) :
    parseRuleLine (ws ++ '#' :: rest) = .skip := by
  unfold parseRuleLine
  have : (ws ++ '#' :: rest).dropWhile isWs = '#' :: rest := by
    rw [List.dropWhile_append_of_pos h]; simp [List.dropWhile, isWs]
  simp [this]

/-- Non-vacuity / documentation of the glob grammar on concrete inputs (each decided by the kernel). -/
example : (parse "a/**/b".toList).toOption = some [.t (.lit 'a'), .t .recZeroOrMore, .t (.lit 'b')] := by decide
example : (parse "**/x".toList).toOption = some [.t .recPrefix, .t (.lit 'x')] := by decide
example : (parse "d/**".toList).toOption = some [.t (.lit 'd'), .t .recSuffix] := by decide
example : (parse "{a,b}*".toList).toOption = some [.alts [[.lit 'b'], [.lit 'a']], .t .zeroOrMore] := by decide
example : parseRuleLine "+  with spaces ".toList = .rule " with spaces".toList true := by decide
example : parseRuleLine "+ space at the end\\  ".toList = .rule "space at the end\\ ".toList true := by decide
example : parseRuleLine "* x".toList = .invalid := by decide

end Vsb.Filter
