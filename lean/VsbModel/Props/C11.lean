import VsbModel.Lemmas.RestorePlan
import VsbModel.Lemmas.PlanLive
import VsbModel.Lemmas.Exit0
set_option linter.unusedSimpArgs false
set_option linter.unusedSectionVars false

/-!
# C11 — restore verifies what it writes, reports what it cannot, and stays confined

`restore hashOf group target` models `vsb restore` of backup number `target` of a group into a freshly
created restore directory; `.done fs true` is exit status 0.  The group is arbitrary — valid or
corrupted in any way (any manifests, any archives, unreadable pieces).
-/
namespace Vsb.Restore
variable {H β : Type} [DecidableEq H]

/-- **exit0_sound.**  If `vsb restore` exits 0, every regular file recorded in the target's manifest exists below the
restore directory with exactly the recorded size and hash — for *every* group: any manifests (paths recorded twice,
altered hashes, sizes, statuses, extra or missing lines), any archives, unreadable pieces.  The argument for extern
records goes through the pending-files bookkeeping: a path leaves the pending list only when it is written as part of
the fan-out of a table entry, no path is written twice, and an exit status 0 needs the list empty; together with the
conservation of the target's extern paths through planning (`plan_perm`) this makes them pairwise distinct and puts
each into the fan-out of an entry planned for exactly that record (`plan_fans`), whose size and hash `restore_files`
verified. -/
theorem exit0_sound (hashOf : List β → H) (group : List (Backup H β)) (target : Nat) (fs : FS β)
    (tb : Backup H β) (recs : List (MRec H))
    (htb : group[target]? = some tb) (hrecs : tb.manifest = some recs)
    (h : restore hashOf group target = .done fs true) :
    ∀ r ∈ recs, ∃ fp d, manifestPathToFile r.path = some fp ∧ FileAt fs fp d ∧
      d.length = r.size ∧ hashOf d = r.hash :=
  exit0_sound_general hashOf group target fs tb recs htb hrecs h

/-- **exit0_sound (the earlier, partial form: manifests list each data-carrying path once; superseded by `exit0_sound`).**  If `vsb restore` exits 0,
every regular file recorded in the target's manifest exists below the restore directory with exactly
the recorded size and hash.  No assumption is made on archives, hashes, sizes, statuses, missing or
extra entries or lines; the one hypothesis `UniquePathsDistinct` (no manifest of the group lists the
same path in two `unique` records — in that case the plan's `HashMap` silently drops the first, and
the proof would have to go through the pending-files bookkeeping instead) is what keeps this
`_partial`.  The correspondence run and the independent oracle have no such restriction. -/
theorem exit0_sound_partial (hashOf : List β → H) (group : List (Backup H β)) (target : Nat) (fs : FS β)
    (tb : Backup H β) (recs : List (MRec H))
    (hdist : ∀ b ∈ group, ∀ recs, b.manifest = some recs → UniquePathsDistinct recs)
    (htb : group[target]? = some tb) (hrecs : tb.manifest = some recs)
    (h : restore hashOf group target = .done fs true) :
    ∀ r ∈ recs, ∃ fp d, manifestPathToFile r.path = some fp ∧ FileAt fs fp d ∧
      d.length = r.size ∧ hashOf d = r.hash := by
  obtain ⟨p, hp, hw⟩ := exec_sound hashOf group target fs h
  have hc := plan_covers group target p tb recs hdist htb hrecs hp
  intro r hr
  obtain ⟨s, hs, key, info, hg, hpath, hh, hsz⟩ := hc r hr
  have hkey : key ∈ s.files.map (·.1) := by
    have := mapGet_some_any s.files key info hg
    simp only [List.any_eq_true, decide_eq_true_eq] at this
    obtain ⟨e, he, rfl⟩ := this
    exact List.mem_map_of_mem he
  obtain ⟨info', hg', hall⟩ := hw s hs key hkey
  rw [hg] at hg'; cases hg'
  obtain ⟨fp, d, a, b, c, e⟩ := hall r.path hpath
  exact ⟨fp, d, a, b, by rw [c, hsz], by rw [e, hh]⟩

/-- **A run that cannot read the target's manifest, or whose plan needs an unreadable earlier manifest,
never exits 0.** -/
theorem unreadable_manifest_fails (hashOf : List β → H) (group : List (Backup H β)) (target : Nat)
    (h : plan group target = .err) : ∀ fs ok, restore hashOf group target ≠ .done fs ok := by
  intro fs ok hc
  unfold restore at hc
  rw [h] at hc
  cases hc

/-- **Unresolvable extern references are reported.** If planning leaves any extern path without a data
record of its hash in the group, the exit status is non-zero. -/
theorem missing_extern_fails (hashOf : List β → H) (group : List (Backup H β)) (target : Nat) (p : Plan H)
    (h : plan group target = .ok p false) : ∀ fs, restore hashOf group target ≠ .done fs true := by
  intro fs hc
  obtain ⟨p', hp', _⟩ := exec_sound hashOf group target fs hc
  rw [h] at hp'; cases hp'

/-! ### Confinement -/

theorem splitSlash_go_no_slash (cs : List Char) :
    ∀ (cur : List Char), '/' ∉ cur → ∀ c ∈ splitSlash.go cur cs, '/' ∉ c := by
  induction cs with
  | nil => intro cur hc c hm; simp only [splitSlash.go, List.mem_singleton] at hm; subst hm; simpa using hc
  | cons x rest ih =>
    intro cur hc c hm
    by_cases hx : x = '/'
    · subst hx
      simp only [splitSlash.go, List.mem_cons] at hm
      rcases hm with rfl | hm
      · simpa using hc
      · exact ih [] (by simp) c hm
    · have : splitSlash.go cur (x :: rest) = splitSlash.go (x :: cur) rest := by
        rw [splitSlash.go]
        intro heq; exact absurd heq hx
      rw [this] at hm
      exact ih (x :: cur) (by simp only [List.mem_cons, not_or]; exact ⟨fun h => hx h.symm, hc⟩) c hm

theorem compsOf_normal (isAbs0 : Bool) (rest : List Char) (isAbs : Bool) (comps : List String)
    (h : compsOf isAbs0 rest = some (isAbs, comps)) :
    isAbs = isAbs0 ∧ ∀ c ∈ comps, c.toList ≠ [] ∧ c.toList ≠ ['.'] ∧ c.toList ≠ ['.', '.'] ∧ '/' ∉ c.toList := by
  unfold compsOf at h
  split at h
  · cases h
  · split at h
    · cases h
    · rename_i hdd
      simp only [Option.some.injEq, Prod.mk.injEq] at h
      obtain ⟨rfl, rfl⟩ := h
      refine ⟨rfl, ?_⟩
      intro c hc
      obtain ⟨cs, hcs, rfl⟩ := List.mem_map.mp hc
      have hf := List.mem_filter.mp hcs
      simp only [Bool.and_eq_true, bne_iff_ne, ne_eq, decide_eq_true_eq] at hf
      simp only [String.toList_ofList]
      refine ⟨hf.2.1, hf.2.2, ?_, ?_⟩
      · intro hd; apply hdd; simp only [List.any_eq_true]; exact ⟨cs, hcs, by simp [hd]⟩
      · exact splitSlash_go_no_slash _ [] (by simp) cs hf.1

/-- Whatever `components` accepts consists of normal components only: non-empty, not `.`, not `..`,
and free of `/`; and it is reported absolute exactly when the string starts with `/`. -/
theorem components_normal (p : String) (isAbs : Bool) (comps : List String) (h : components p = some (isAbs, comps)) :
    (isAbs = true ↔ p.toList.head? = some '/') ∧
    ∀ c ∈ comps, c.toList ≠ [] ∧ c.toList ≠ ['.'] ∧ c.toList ≠ ['.', '.'] ∧ '/' ∉ c.toList := by
  unfold components at h
  split at h
  · rename_i r heq
    obtain ⟨h1, h2⟩ := compsOf_normal true r isAbs comps h
    exact ⟨by rw [h1, heq]; simp, h2⟩
  · rename_i r hne
    obtain ⟨h1, h2⟩ := compsOf_normal false _ isAbs comps h
    refine ⟨?_, h2⟩
    rw [h1]
    constructor
    · intro hc; cases hc
    · intro hc
      cases hp : p.toList with
      | nil => rw [hp] at hc; cases hc
      | cons x xs =>
        rw [hp] at hc
        simp only [List.head?_cons, Option.some.injEq] at hc
        subst hc
        exact absurd hp (hne xs)

/-- **confined (archive side).** An archive path is used only if it is relative and made of normal
components: every entry is created at `restoreDir ++ comps` with no `..`, no empty or `.` component —
absolute paths and paths containing `..` are rejected before anything is created for the entry. -/
theorem tar_path_confined (p : String) (fp : FPath) (h : tarPathToFile p = some fp) :
    fp ≠ [] ∧ (∀ c ∈ fp, c.toList ≠ [] ∧ c.toList ≠ ['.'] ∧ c.toList ≠ ['.', '.'] ∧ '/' ∉ c.toList) ∧
    p.toList.head? ≠ some '/' := by
  unfold tarPathToFile at h
  cases hc : components p with
  | none => simp [hc] at h
  | some r =>
    obtain ⟨isAbs, comps⟩ := r
    simp only [hc] at h
    obtain ⟨n1, n2⟩ := components_normal p isAbs comps hc
    cases isAbs with
    | true => simp at h
    | false =>
      cases comps with
      | nil => simp at h
      | cons c cs =>
        simp only [Option.some.injEq] at h
        subst h
        exact ⟨by simp, n2, fun habs => by have := n1.mpr habs; cases this⟩

/-- **confined (manifest side).** A manifest path is used only if it is absolute and made of normal
components; relative paths and paths containing `..` are rejected. -/
theorem manifest_path_confined (p : String) (fp : FPath) (h : manifestPathToFile p = some fp) :
    fp ≠ [] ∧ (∀ c ∈ fp, c.toList ≠ [] ∧ c.toList ≠ ['.'] ∧ c.toList ≠ ['.', '.'] ∧ '/' ∉ c.toList) ∧
    p.toList.head? = some '/' := by
  unfold manifestPathToFile at h
  cases hc : components p with
  | none => simp [hc] at h
  | some r =>
    obtain ⟨isAbs, comps⟩ := r
    simp only [hc] at h
    obtain ⟨n1, n2⟩ := components_normal p isAbs comps hc
    cases isAbs with
    | false => simp at h
    | true =>
      cases comps with
      | nil => simp at h
      | cons c cs =>
        simp only [Option.some.injEq] at h
        subst h
        exact ⟨by simp, n2, n1.mp rfl⟩

/-- **no_overwrite.** Creating a file, directory or symlink succeeds only where nothing exists, and
only adds that node (models `create_new` + `O_NOFOLLOW`, `mkdir`, `symlink`). -/
theorem no_overwrite (fs fs' : FS β) (p : FPath) (n : FNode β) (h : fsCreate fs p n = some fs') :
    fsGet fs p = none ∧ fs' = fs ++ [(p, n)] ∧ p ≠ [] := fsCreate_spec fs fs' p n h

/-- Concrete rejections. -/
example : tarPathToFile "../escape" = none := by decide
example : tarPathToFile "/abs" = none := by decide
example : tarPathToFile "a/../../b" = none := by decide
example : tarPathToFile "./a" = none := by decide
example : tarPathToFile "a/./b//c" = some ["a", "b", "c"] := by decide
example : manifestPathToFile "rel/path" = none := by decide
example : manifestPathToFile "/a/../b" = none := by decide
example : manifestPathToFile "/" = none := by decide


/-! ### Planning liveness: a resolvable backup is planned without complaint -/

/-- What C02 guarantees of a backup made by vsb, seen from restore: the earlier manifests of the group are
readable, no path is recorded twice among the data-carrying records, every non-empty extern record has a
supplier — a data-carrying record of the same hash in the target itself or a `unique` record of that hash in an
earlier backup of the group — and records of one hash agree on the size (they describe the same content). -/
structure Resolvable (group : List (Backup H β)) (target : Nat) (recs : List (MRec H)) : Prop where
  readable : ∀ i, i < target → ∃ b rs, group[i]? = some b ∧ b.manifest = some rs
  ownDistinct : ((recs.filter isOwn).map (·.path)).Nodup
  supplied : ∀ x ∈ recs, isOwn x = false →
    (∃ r ∈ recs, isOwn r = true ∧ r.hash = x.hash) ∨
    (∃ i, i < target ∧ ∃ b rs, group[i]? = some b ∧ b.manifest = some rs ∧ ∃ u ∈ rs, u.unique = true ∧ u.hash = x.hash)
  sizesOwn : ∀ x ∈ recs, isOwn x = false → ∀ r ∈ recs, isOwn r = true → r.hash = x.hash → x.size = r.size
  sizesEarlier : ∀ x ∈ recs, isOwn x = false → ∀ i, i < target → ∀ b rs, group[i]? = some b → b.manifest = some rs →
    ∀ u ∈ rs, u.unique = true → u.hash = x.hash → x.size = u.size

/-- **plan_ok_of_resolvable.**  For a resolvable backup `RestorePlan::new` succeeds, reports nothing missing and
raises no complaint: the converse of `missing_extern_fails`, and the bridge from C02 (every backup vsb keeps is
resolvable inside its group) to restore. -/
theorem plan_ok_of_resolvable (group : List (Backup H β)) (target : Nat) (tb : Backup H β) (recs : List (MRec H))
    (htb : group[target]? = some tb) (hrecs : tb.manifest = some recs) (hr : Resolvable group target recs) :
    ∃ p, plan group target = .ok p true ∧ p.missingFiles = [] := by
  unfold plan
  simp only [htb, hrecs]
  -- the target's own step
  let X := recs.filter (fun r => !isOwn r)
  have hX : ∀ x ∈ X, x ∈ recs ∧ isOwn x = false := by
    intro x hx
    have := List.mem_filter.mp hx
    exact ⟨this.1, by simpa using this.2⟩
  obtain ⟨t1, _, _⟩ := pushFold_inv X ([] : ToFind H) (by simp)
  have tfrom := pushFold_from X ([] : ToFind H) X (by intro p h s ⟨l, hl, _⟩; cases hl) (fun e he => he)
  have h0 : OwnLive X [] ({ tf := X.foldl (fun tf r => toFindPush tf r.hash r.path r.size) [] } : PlanAcc H) :=
    ⟨rfl, t1, tfrom, (by intro p h s _ r hr'; cases hr'), (by intro k hk; simp at hk)⟩
  have hown := ownFold_live X (recs.filter isOwn) [] _ h0 (by simpa using hr.ownDistinct)
    (by
      intro r hr' x hx hxh
      obtain ⟨h1, h2⟩ := hX x hx
      have hrm := List.mem_filter.mp hr'
      exact hr.sizesOwn x h1 h2 r hrm.1 hrm.2 hxh.symm)
  simp only [List.nil_append] at hown
  have hpt : planTarget recs = (recs.filter isOwn).foldl ownStep { tf := X.foldl (fun tf r => toFindPush tf r.hash r.path r.size) [] } := rfl
  rw [hpt]
  generalize (recs.filter isOwn).foldl ownStep { tf := X.foldl (fun tf r => toFindPush tf r.hash r.path r.size) [] } = a0 at hown
  -- the earlier backups
  have hidx : ∀ i ∈ (List.range target).reverse, ∃ b rs, group[i]? = some b ∧ b.manifest = some rs ∧
      ∀ u ∈ rs, u.unique = true → ∀ x ∈ X, x.hash = u.hash → x.size = u.size := by
    intro i hi
    have hlt : i < target := by simpa using hi
    obtain ⟨b, rs, hb, hm⟩ := hr.readable i hlt
    refine ⟨b, rs, hb, hm, ?_⟩
    intro u hu huu x hx hxh
    obtain ⟨h1, h2⟩ := hX x hx
    exact hr.sizesEarlier x h1 h2 i hlt b rs hb hm u hu huu hxh.symm
  obtain ⟨steps', ext', tf', he, hrest⟩ := earlierBackups_live X group (List.range target).reverse
    [⟨target, a0.files⟩] a0.ext a0.tf hown.keys hown.from_ hidx
  rw [hown.ok, he]
  -- nothing is left to find
  have hnone : ∀ p h s, ¬ InTf tf' p h s := by
    intro p h s hin
    obtain ⟨h1, h2⟩ := hrest p h s hin
    obtain ⟨x, hx, _, hxh, _⟩ := hown.from_ p h s h1
    obtain ⟨hx1, hx2⟩ := hX x hx
    rcases hr.supplied x hx1 hx2 with ⟨r, hr1, hr2, hr3⟩ | ⟨i, hi, b, rs, hb, hm, u, hu, huu, huh⟩
    · exact hown.notDone p h s h1 r (List.mem_filter.mpr ⟨hr1, hr2⟩) (by rw [hr3, hxh])
    · exact h2 i (by simpa using hi) b rs hb hm u hu huu (by rw [huh, hxh])
  have hmiss : tf'.flatMap (fun e => e.2.map (·.1)) = [] := by
    rw [List.flatMap_eq_nil_iff]
    intro e he'
    rw [List.map_eq_nil_iff]
    cases hl : e.2 with
    | nil => rfl
    | cons ps rest =>
      exfalso
      exact hnone ps.1 e.1 ps.2 ⟨e.2, (by cases e; exact he'), (by rw [hl]; simp)⟩
  refine ⟨{ steps := steps', externFiles := ext', missingFiles := tf'.flatMap (fun e => e.2.map (·.1)) }, ?_, hmiss⟩
  simp only [hmiss, List.isEmpty_nil, Bool.and_self]

end Vsb.Restore
