import VsbModel.Lemmas.RestorePlan
set_option linter.unusedSimpArgs false
set_option linter.unusedSectionVars false

/-!
# C11 — restore verifies what it writes, reports what it cannot, and stays confined

`restore hashOf group target` models `vsb restore` of backup number `target` of a group into a freshly
created restore directory; `.done fs true` is exit status 0.  The group is arbitrary — valid or
corrupted in any way (any manifests, any archives, unreadable pieces).
-/
namespace Vsb.Restore
variable {H β : Type} [DecidableEq H]

/-- **exit0_sound (partial: manifests list each data-carrying path once).**  If `vsb restore` exits 0,
every regular file recorded in the target's manifest exists below the restore directory with exactly
the recorded size and hash.  No assumption is made on archives, hashes, sizes, statuses, missing or
extra entries or lines; the one hypothesis `UniquePathsDistinct` (no manifest of the group lists the
same path in two `unique` records — in that case the plan's `HashMap` silently drops the first, and
the proof would have to go through the pending-files bookkeeping instead) is what keeps this
`_partial`.  The correspondence run and the independent oracle have no such restriction. -/
theorem exit0_sound_partial (hashOf : List β → H) (group : List (Backup H β)) (target : Nat) (fs : FS β)
    (tb : Backup H β) (recs : List (MRec H))
    (hdist : ∀ b ∈ group, ∀ recs, b.manifest = some recs → UniquePathsDistinct recs)
    (htb : group[target]? = some tb) (hrecs : tb.manifest = some recs)
    (h : restore hashOf group target = .done fs true) :
    ∀ r ∈ recs, ∃ fp d, manifestPathToFile r.path = some fp ∧ FileAt fs fp d ∧
      d.length = r.size ∧ hashOf d = r.hash := by
  obtain ⟨p, hp, hw⟩ := exec_sound hashOf group target fs h
  have hc := plan_covers group target p tb recs hdist htb hrecs hp
  intro r hr
  obtain ⟨s, hs, key, info, hg, hpath, hh, hsz⟩ := hc r hr
  have hkey : key ∈ s.files.map (·.1) := by
    have := mapGet_some_any s.files key info hg
    simp only [List.any_eq_true, decide_eq_true_eq] at this
    obtain ⟨e, he, rfl⟩ := this
    exact List.mem_map_of_mem he
  obtain ⟨info', hg', hall⟩ := hw s hs key hkey
  rw [hg] at hg'; cases hg'
  obtain ⟨fp, d, a, b, c, e⟩ := hall r.path hpath
  exact ⟨fp, d, a, b, by rw [c, hsz], by rw [e, hh]⟩

/-- **A run that cannot read the target's manifest, or whose plan needs an unreadable earlier manifest,
never exits 0.** -/
theorem unreadable_manifest_fails (hashOf : List β → H) (group : List (Backup H β)) (target : Nat)
    (h : plan group target = .err) : ∀ fs ok, restore hashOf group target ≠ .done fs ok := by
  intro fs ok hc
  unfold restore at hc
  rw [h] at hc
  cases hc

/-- **Unresolvable extern references are reported.** If planning leaves any extern path without a data
record of its hash in the group, the exit status is non-zero. -/
theorem missing_extern_fails (hashOf : List β → H) (group : List (Backup H β)) (target : Nat) (p : Plan H)
    (h : plan group target = .ok p false) : ∀ fs, restore hashOf group target ≠ .done fs true := by
  intro fs hc
  obtain ⟨p', hp', _⟩ := exec_sound hashOf group target fs hc
  rw [h] at hp'; cases hp'

/-! ### Confinement -/

theorem splitSlash_go_no_slash (cs : List Char) :
    ∀ (cur : List Char), '/' ∉ cur → ∀ c ∈ splitSlash.go cur cs, '/' ∉ c := by
  induction cs with
  | nil => intro cur hc c hm; simp only [splitSlash.go, List.mem_singleton] at hm; subst hm; simpa using hc
  | cons x rest ih =>
    intro cur hc c hm
    by_cases hx : x = '/'
    · subst hx
      simp only [splitSlash.go, List.mem_cons] at hm
      rcases hm with rfl | hm
      · simpa using hc
      · exact ih [] (by simp) c hm
    · have : splitSlash.go cur (x :: rest) = splitSlash.go (x :: cur) rest := by
        rw [splitSlash.go]
        intro heq; exact absurd heq hx
      rw [this] at hm
      exact ih (x :: cur) (by simp only [List.mem_cons, not_or]; exact ⟨fun h => hx h.symm, hc⟩) c hm

theorem compsOf_normal (isAbs0 : Bool) (rest : List Char) (isAbs : Bool) (comps : List String)
    (h : compsOf isAbs0 rest = some (isAbs, comps)) :
    isAbs = isAbs0 ∧ ∀ c ∈ comps, c.toList ≠ [] ∧ c.toList ≠ ['.'] ∧ c.toList ≠ ['.', '.'] ∧ '/' ∉ c.toList := by
  unfold compsOf at h
  split at h
  · cases h
  · split at h
    · cases h
    · rename_i hdd
      simp only [Option.some.injEq, Prod.mk.injEq] at h
      obtain ⟨rfl, rfl⟩ := h
      refine ⟨rfl, ?_⟩
      intro c hc
      obtain ⟨cs, hcs, rfl⟩ := List.mem_map.mp hc
      have hf := List.mem_filter.mp hcs
      simp only [Bool.and_eq_true, bne_iff_ne, ne_eq, decide_eq_true_eq] at hf
      simp only [String.toList_ofList]
      refine ⟨hf.2.1, hf.2.2, ?_, ?_⟩
      · intro hd; apply hdd; simp only [List.any_eq_true]; exact ⟨cs, hcs, by simp [hd]⟩
      · exact splitSlash_go_no_slash _ [] (by simp) cs hf.1

/-- Whatever `components` accepts consists of normal components only: non-empty, not `.`, not `..`,
and free of `/`; and it is reported absolute exactly when the string starts with `/`. -/
theorem components_normal (p : String) (isAbs : Bool) (comps : List String) (h : components p = some (isAbs, comps)) :
    (isAbs = true ↔ p.toList.head? = some '/') ∧
    ∀ c ∈ comps, c.toList ≠ [] ∧ c.toList ≠ ['.'] ∧ c.toList ≠ ['.', '.'] ∧ '/' ∉ c.toList := by
  unfold components at h
  split at h
  · rename_i r heq
    obtain ⟨h1, h2⟩ := compsOf_normal true r isAbs comps h
    exact ⟨by rw [h1, heq]; simp, h2⟩
  · rename_i r hne
    obtain ⟨h1, h2⟩ := compsOf_normal false _ isAbs comps h
    refine ⟨?_, h2⟩
    rw [h1]
    constructor
    · intro hc; cases hc
    · intro hc
      cases hp : p.toList with
      | nil => rw [hp] at hc; cases hc
      | cons x xs =>
        rw [hp] at hc
        simp only [List.head?_cons, Option.some.injEq] at hc
        subst hc
        exact absurd hp (hne xs)

/-- **confined (archive side).** An archive path is used only if it is relative and made of normal
components: every entry is created at `restoreDir ++ comps` with no `..`, no empty or `.` component —
absolute paths and paths containing `..` are rejected before anything is created for the entry. -/
theorem tar_path_confined (p : String) (fp : FPath) (h : tarPathToFile p = some fp) :
    fp ≠ [] ∧ (∀ c ∈ fp, c.toList ≠ [] ∧ c.toList ≠ ['.'] ∧ c.toList ≠ ['.', '.'] ∧ '/' ∉ c.toList) ∧
    p.toList.head? ≠ some '/' := by
  unfold tarPathToFile at h
  cases hc : components p with
  | none => simp [hc] at h
  | some r =>
    obtain ⟨isAbs, comps⟩ := r
    simp only [hc] at h
    obtain ⟨n1, n2⟩ := components_normal p isAbs comps hc
    cases isAbs with
    | true => simp at h
    | false =>
      cases comps with
      | nil => simp at h
      | cons c cs =>
        simp only [Option.some.injEq] at h
        subst h
        exact ⟨by simp, n2, fun habs => by have := n1.mpr habs; cases this⟩

/-- **confined (manifest side).** A manifest path is used only if it is absolute and made of normal
components; relative paths and paths containing `..` are rejected. -/
theorem manifest_path_confined (p : String) (fp : FPath) (h : manifestPathToFile p = some fp) :
    fp ≠ [] ∧ (∀ c ∈ fp, c.toList ≠ [] ∧ c.toList ≠ ['.'] ∧ c.toList ≠ ['.', '.'] ∧ '/' ∉ c.toList) ∧
    p.toList.head? = some '/' := by
  unfold manifestPathToFile at h
  cases hc : components p with
  | none => simp [hc] at h
  | some r =>
    obtain ⟨isAbs, comps⟩ := r
    simp only [hc] at h
    obtain ⟨n1, n2⟩ := components_normal p isAbs comps hc
    cases isAbs with
    | false => simp at h
    | true =>
      cases comps with
      | nil => simp at h
      | cons c cs =>
        simp only [Option.some.injEq] at h
        subst h
        exact ⟨by simp, n2, n1.mp rfl⟩

/-- **no_overwrite.** Creating a file, directory or symlink succeeds only where nothing exists, and
only adds that node (models `create_new` + `O_NOFOLLOW`, `mkdir`, `symlink`). -/
theorem no_overwrite (fs fs' : FS β) (p : FPath) (n : FNode β) (h : fsCreate fs p n = some fs') :
    fsGet fs p = none ∧ fs' = fs ++ [(p, n)] ∧ p ≠ [] := fsCreate_spec fs fs' p n h

/-- Concrete rejections. -/
example : tarPathToFile "../escape" = none := by decide
example : tarPathToFile "/abs" = none := by decide
example : tarPathToFile "a/../../b" = none := by decide
example : tarPathToFile "./a" = none := by decide
example : tarPathToFile "a/./b//c" = some ["a", "b", "c"] := by decide
example : manifestPathToFile "rel/path" = none := by decide
example : manifestPathToFile "/a/../b" = none := by decide
example : manifestPathToFile "/" = none := by decide

end Vsb.Restore
