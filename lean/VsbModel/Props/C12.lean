import VsbModel.Model.Crash
set_option linter.unusedSimpArgs false

/-!
# C12 — a backup is durable before it is named and before anything older is deleted
-/
namespace Vsb.Crash
open Vsb.FsTrace

theorem ordStep_ok_mono (st : OrdSt) (op : Op) (h : (ordStep st op).ok = true) : st.ok = true := by
  unfold ordStep at h
  cases op <;> simp only [] at h
  all_goals (try (repeat' split at h))
  all_goals (try (simp only [Bool.and_eq_true] at h))
  all_goals (first | exact h | exact h.1 | exact h.1.1 | exact h.1.1.1 | exact h.1.1.1.1 | cases h)

theorem fold_ok_mono (ops : List Op) (st : OrdSt) (h : (ops.foldl ordStep st).ok = true) : st.ok = true := by
  induction ops generalizing st with
  | nil => exact h
  | cons o rest ih => exact ordStep_ok_mono st o (ih _ h)

/-- If a whole trace is accepted, so is every prefix (a crash may happen anywhere). -/
theorem orderOk_prefix (t : List Op) (k : Nat) (h : orderOk t = true) : orderOk (t.take k) = true := by
  unfold orderOk at *
  have : t = t.take k ++ t.drop k := (List.take_append_drop k t).symm
  rw [this, List.foldl_append] at h
  exact fold_ok_mono _ _ h

/-- Coupling of the monitor's bookkeeping with the persistence semantics. -/
structure Coupled (o : OrdSt) (s : PState) : Prop where
  tmp : o.tmp = s.tmp
  renamed : o.renamed = s.renamed
  renameDur : o.renameDurable = s.renameDur
  created : o.created = s.files.map (·.path)
  clean : ∀ f ∈ s.files, f.path ∉ o.dirty → f.dur = f.vol
  synced : ∀ f ∈ s.files, f.path ∉ o.unsyncedEntries → f.path ∈ s.entriesDur
  flushed : o.ok = true → o.renamed = true → o.dirty = [] ∧ o.unsyncedEntries = [] ∧ 2 ≤ o.created.length
  removals : o.ok = true → s.removed ≠ [] → s.renameDur = true
  exitOk : o.ok = true → s.success = true → s.renameDur = true

theorem coupled_init : Coupled ({} : OrdSt) ({} : PState) := by
  constructor <;> simp

theorem coupled_step (o : OrdSt) (s : PState) (op : Op) (h : Coupled o s) : Coupled (ordStep o op) (pstep s op) := by
  obtain ⟨h1, h2, h3, h4, h5, h6, h7, h8, h9⟩ := h
  cases op with
  | lock b => exact ⟨h1, h2, h3, h4, h5, h6, h7, h8, h9⟩
  | readdir p => exact ⟨h1, h2, h3, h4, h5, h6, h7, h8, h9⟩
  | openRead p => exact ⟨h1, h2, h3, h4, h5, h6, h7, h8, h9⟩
  | mkdir p =>
    simp only [ordStep, pstep]
    by_cases hl : p.length = 2
    · simp only [hl, if_true]
      exact ⟨rfl, h2, h3, h4, h5, h6, h7, h8, h9⟩
    · simp only [hl, if_false]
      exact ⟨h1, h2, h3, h4, h5, h6, h7, h8, h9⟩
  | create p =>
    simp only [ordStep, pstep]
    refine ⟨h1, h2, h3, by simp [h4], ?_, ?_, ?_, ?_, ?_⟩
    · intro f hf hnd
      simp only [List.mem_append, List.mem_singleton] at hf
      rcases hf with hf | rfl
      · exact h5 f hf (fun hc => hnd (by simp [hc]))
      · simp at hnd
    · intro f hf hns
      simp only [List.mem_append, List.mem_singleton] at hf
      rcases hf with hf | rfl
      · exact h6 f hf (fun hc => hns (by simp [hc]))
      · simp at hns
    · intro hok hr
      simp only [Bool.and_eq_true, Bool.not_eq_true'] at hok
      simp only at hr
      rw [hr] at hok; exact absurd hok.2 (by simp)
    · intro hok; simp only [Bool.and_eq_true] at hok; exact h8 hok.1
    · intro hok; simp only [Bool.and_eq_true] at hok; exact h9 hok.1
  | write p =>
    simp only [ordStep, pstep]
    refine ⟨h1, h2, h3, ?_, ?_, ?_, ?_, ?_, ?_⟩
    · rw [h4, List.map_map]; apply List.map_congr_left; intro f _; simp only [Function.comp]; split <;> rfl
    · intro f hf hnd
      obtain ⟨f0, hf0, rfl⟩ := List.mem_map.mp hf
      by_cases hp : f0.path = p
      · simp only [hp, if_true] at hnd ⊢
        exfalso; apply hnd
        split
        · rename_i hc; simpa using hc
        · simp
      · simp only [hp, if_false] at hnd ⊢
        apply h5 f0 hf0
        intro hc; apply hnd
        split
        · exact hc
        · exact List.mem_append_left _ hc
    · intro f hf hns
      obtain ⟨f0, hf0, rfl⟩ := List.mem_map.mp hf
      have hpath : (if f0.path = p then { f0 with vol := f0.vol + 1 } else f0).path = f0.path := by split <;> rfl
      rw [hpath] at hns ⊢
      exact h6 f0 hf0 hns
    · intro hok hr
      simp only [Bool.and_eq_true, Bool.not_eq_true'] at hok
      simp only at hr
      rw [hr] at hok; exact absurd hok.2 (by simp)
    · intro hok; simp only [Bool.and_eq_true] at hok; exact h8 hok.1
    · intro hok; simp only [Bool.and_eq_true] at hok; exact h9 hok.1
  | fsyncFile p =>
    simp only [ordStep, pstep]
    refine ⟨h1, h2, h3, ?_, ?_, ?_, ?_, h8, h9⟩
    · rw [h4, List.map_map]; apply List.map_congr_left; intro f _; simp only [Function.comp]; split <;> rfl
    · intro f hf hnd
      obtain ⟨f0, hf0, rfl⟩ := List.mem_map.mp hf
      by_cases hp : f0.path = p
      · simp [hp]
      · simp only [hp, if_false] at hnd ⊢
        apply h5 f0 hf0
        intro hc; apply hnd
        exact List.mem_filter.mpr ⟨hc, by simpa using hp⟩
    · intro f hf hns
      obtain ⟨f0, hf0, rfl⟩ := List.mem_map.mp hf
      have hpath : (if f0.path = p then { f0 with dur := f0.vol } else f0).path = f0.path := by split <;> rfl
      rw [hpath] at hns ⊢
      exact h6 f0 hf0 hns
    · intro hok hr
      obtain ⟨a, b, c⟩ := h7 hok hr
      exact ⟨by simp [a], b, c⟩
  | fsyncDir p =>
    simp only [ordStep, pstep]
    by_cases ht : some p = o.tmp
    · have ht' : some p = s.tmp := by rw [← h1]; exact ht
      rw [if_pos ht, if_pos ht']
      refine ⟨h1, h2, h3, h4, h5, ?_, ?_, h8, h9⟩
      · intro f hf _; exact List.mem_map_of_mem (f := (·.path)) hf
      · intro hok hr
        obtain ⟨a, _, c⟩ := h7 hok hr
        exact ⟨a, rfl, c⟩
    · have ht' : ¬ (some p = s.tmp) := by rw [← h1]; exact ht
      rw [if_neg ht, if_neg ht']
      by_cases hg : o.renamed = true ∧ o.tmp.map List.dropLast = some p
      · have hg' : s.renamed = true ∧ s.tmp.map List.dropLast = some p := by rw [← h2, ← h1]; exact hg
        rw [if_pos hg, if_pos hg']
        exact ⟨h1, h2, rfl, h4, h5, h6, h7, fun _ _ => rfl, fun _ _ => rfl⟩
      · have hg' : ¬ (s.renamed = true ∧ s.tmp.map List.dropLast = some p) := by rw [← h2, ← h1]; exact hg
        rw [if_neg hg, if_neg hg']
        exact ⟨h1, h2, h3, h4, h5, h6, h7, h8, h9⟩
  | rename a b =>
    simp only [ordStep, pstep]
    refine ⟨h1, rfl, h3, h4, h5, h6, ?_, ?_, ?_⟩
    · intro hok _
      simp only [Bool.and_eq_true, List.isEmpty_iff, decide_eq_true_eq] at hok
      exact ⟨hok.1.1.2, hok.1.2, hok.2⟩
    · intro hok; simp only [Bool.and_eq_true] at hok; exact h8 hok.1.1.1
    · intro hok; simp only [Bool.and_eq_true] at hok; exact h9 hok.1.1.1
  | remove p =>
    simp only [ordStep, pstep]
    by_cases hr : o.renamed = true
    · have hr' : s.renamed = true := by rw [← h2]; exact hr
      rw [if_pos hr, if_pos hr']
      refine ⟨h1, h2, h3, h4, h5, h6, ?_, ?_, ?_⟩
      · intro hok hr''; simp only [Bool.and_eq_true] at hok; exact h7 hok.1 hr''
      · intro hok _; simp only [Bool.and_eq_true] at hok; rw [← h3]; exact hok.2
      · intro hok; simp only [Bool.and_eq_true] at hok; exact h9 hok.1
    · have hr' : ¬ s.renamed = true := by rw [← h2]; exact hr
      rw [if_neg hr, if_neg hr']
      by_cases ht : inTemp p = true
      · rw [if_pos ht]
        exact ⟨h1, h2, h3, h4, h5, h6, h7, h8, h9⟩
      · rw [if_neg ht]
        exact ⟨h1, h2, h3, h4, h5, h6, (fun hok => by cases hok), (fun hok => by cases hok), (fun hok => by cases hok)⟩
  | exit status =>
    simp only [ordStep, pstep]
    by_cases hs : status = 0
    · rw [if_pos hs, if_pos hs]
      refine ⟨h1, h2, h3, h4, h5, h6, ?_, ?_, ?_⟩
      · intro hok hr'; simp only [Bool.and_eq_true] at hok; exact h7 hok.1.1 hr'
      · intro hok; simp only [Bool.and_eq_true] at hok; exact h8 hok.1.1
      · intro hok _; simp only [Bool.and_eq_true] at hok; rw [← h3]; exact hok.2
    · rw [if_neg hs, if_neg hs]
      exact ⟨h1, h2, h3, h4, h5, h6, h7, h8, h9⟩

theorem coupled_fold (ops : List Op) (o : OrdSt) (s : PState) (h : Coupled o s) :
    Coupled (ops.foldl ordStep o) (ops.foldl pstep s) := by
  induction ops generalizing o s with
  | nil => exact h
  | cons op rest ih => exact ih _ _ (coupled_step o s op h)

/-- **power_safe / no_double_loss / success_after_flush.**  For every operation list accepted by the
order monitor, every power-loss point `k` and every state `r` the disk may then be in: a backup visible
under its final name has all its files with all their content; either the new backup is visible or no
removal of anything older has taken effect; and if success was reported the rename is durable. -/
theorem power_safe (t : List Op) (h : orderOk t = true) (k : Nat) (r : Recovered)
    (hr : recovers (psem (t.take k)) r) :
    Safe (psem (t.take k)) r ∧ NoDoubleLoss r ∧ ((psem (t.take k)).success = true → (psem (t.take k)).renameDur = true) := by
  have hk := orderOk_prefix t k h
  have hc := coupled_fold (t.take k) {} {} coupled_init
  unfold orderOk at hk
  unfold psem at *
  generalize (t.take k).foldl ordStep {} = o at hk hc
  generalize (t.take k).foldl pstep {} = s at hr hc ⊢
  obtain ⟨r1, r2, r3, r4, r5, r6⟩ := hr
  refine ⟨?_, ?_, hc.exitOk hk⟩
  · intro hv
    have hren : o.renamed = true := by rw [hc.renamed]; exact r2 hv
    obtain ⟨a, b, c⟩ := hc.flushed hk hren
    refine ⟨by rw [hc.created] at c; simpa using c, ?_⟩
    intro f hf
    refine ⟨r3 _ (hc.synced f hf (by rw [b]; simp)), ?_⟩
    have := hc.clean f hf (by rw [a]; simp)
    have := r5 f hf
    omega
  · by_cases hv : r.finalVisible = true
    · exact Or.inl hv
    · right
      cases hra : r.removedApplied with
      | nil => rfl
      | cons x xs =>
        have hx : x ∈ s.removed := r6 x (by rw [hra]; simp)
        have : s.removed ≠ [] := by intro hc'; rw [hc'] at hx; cases hx
        exact absurd (r1 (hc.removals hk this)) hv

end Vsb.Crash

namespace Vsb.Crash
open Vsb.FsTrace

theorem fold_reads (ps : List Path) (st : OrdSt) : (ps.map Op.readdir).foldl ordStep st = st := by
  induction ps generalizing st with
  | nil => rfl
  | cons p rest ih => simp only [List.map_cons, List.foldl_cons, ordStep]; exact ih st

theorem fold_openReads (f : String → Path) (bs : List String) (st : OrdSt) :
    (bs.map (fun b => Op.openRead (f b))).foldl ordStep st = st := by
  induction bs generalizing st with
  | nil => rfl
  | cons p rest ih => simp only [List.map_cons, List.foldl_cons, ordStep]; exact ih st

theorem fold_removes_before (ops : List Op) (st : OrdSt) (hr : st.renamed = false)
    (hops : ∀ o ∈ ops, ∃ p, o = Op.remove p ∧ inTemp p = true) : ops.foldl ordStep st = st := by
  induction ops generalizing st with
  | nil => rfl
  | cons o rest ih =>
    obtain ⟨p, rfl, ht⟩ := hops o (by simp)
    simp only [List.foldl_cons, ordStep, hr, Bool.false_eq_true, if_false, ht, if_true]
    exact ih st hr (fun o ho => hops o (by simp [ho]))

theorem isDot_dot' (a : String) : isDot ("." ++ a) = true := by
  unfold isDot
  rw [String.toList_append]
  rfl

theorem fold_removes_after (ops : List Op) (st : OrdSt) (hr : st.renamed = true) (hd : st.renameDurable = true)
    (hok : st.ok = true) (hops : ∀ o ∈ ops, ∃ p, o = Op.remove p) : ops.foldl ordStep st = st := by
  induction ops generalizing st with
  | nil => rfl
  | cons o rest ih =>
    obtain ⟨p, rfl⟩ := hops o (by simp)
    have : ordStep st (Op.remove p) = st := by
      cases st; simp_all [ordStep]
    simp only [List.foldl_cons, this]
    exact ih st hr hd hok (fun o ho => hops o (by simp [ho]))

/-- State of the monitor while the two files are being written. -/
structure Writing (sc : Scenario) (allowed : List Path) (st : OrdSt) : Prop where
  ok : st.ok = true
  notRenamed : st.renamed = false
  notDurable : st.renameDurable = false
  tmp : st.tmp = some (tmpDir sc)
  created : st.created = [metaFile sc, dataFile sc]
  unsynced : st.unsyncedEntries = [metaFile sc, dataFile sc]
  dirty : ∀ p ∈ st.dirty, p ∈ allowed

theorem writing_write (sc : Scenario) (allowed : List Path) (st : OrdSt) (p : Path) (hp : p ∈ allowed)
    (h : Writing sc allowed st) : Writing sc allowed (ordStep st (.write p)) := by
  obtain ⟨a, b, c, d, e, f, g⟩ := h
  refine ⟨by simp [ordStep, a, b], b, c, d, e, f, ?_⟩
  intro q hq
  simp only [ordStep] at hq
  split at hq
  · exact g q hq
  · simp only [List.mem_append, List.mem_singleton] at hq
    rcases hq with hq | rfl
    · exact g q hq
    · exact hp

theorem writing_writes (sc : Scenario) (allowed : List Path) (ps : List Path) (hps : ∀ p ∈ ps, p ∈ allowed)
    (st : OrdSt) (h : Writing sc allowed st) : Writing sc allowed ((ps.map Op.write).foldl ordStep st) := by
  induction ps generalizing st with
  | nil => exact h
  | cons p rest ih =>
    simp only [List.map_cons, List.foldl_cons]
    exact ih (fun q hq => hps q (by simp [hq])) _ (writing_write sc allowed st p (hps p (by simp)) h)

theorem meta_ne_data (sc : Scenario) : metaFile sc ≠ dataFile sc := by
  intro h
  have := congrArg List.getLast? h
  simp [metaFile, dataFile] at this

/-- **order_of_finish.** Every run the model generates — any group, new or reused, any abandoned
temporaries, any number and interleaving of writes, any listings, any set of old groups removed — is
accepted by the order monitor: files are flushed, then the temporary directory, then comes the rename,
then the group directory is flushed, and only then anything older is removed and success reported. -/
theorem order_of_finish (sc : Scenario) : orderOk (runOps sc) = true := by
  unfold orderOk runOps body
  simp only [List.foldl_append, List.foldl_cons, List.foldl_nil]
  -- lock, first listing
  have s0 : ordStep {} (Op.lock true) = {} := rfl
  simp only [fold_reads, fold_openReads]
  rw [s0]
  -- group creation or removal of abandoned temporaries: no effect on the monitor state
  have s1 : (if sc.newGroup = true then [Op.mkdir [sc.group]] else
      sc.abandoned.flatMap (fun a => (a.2.map (fun f => Op.remove [sc.group, "." ++ a.1, f])) ++ [Op.remove [sc.group, "." ++ a.1]])).foldl
        ordStep ({} : OrdSt) = {} := by
    split
    · simp [ordStep]
    · apply fold_removes_before _ _ rfl
      intro o ho
      simp only [List.mem_flatMap, List.mem_append, List.mem_map, List.mem_singleton] at ho
      obtain ⟨a, _, h | h⟩ := ho
      · obtain ⟨f, _, rfl⟩ := h; exact ⟨_, rfl, by simp [inTemp, isDot_dot']⟩
      · exact ⟨_, h, by simp [inTemp, isDot_dot']⟩
  rw [s1]
  -- temporary directory and the two files
  have hlen : (tmpDir sc).length = 2 := rfl
  have w0 : Writing sc [metaFile sc, dataFile sc]
      (ordStep (ordStep (ordStep {} (Op.mkdir (tmpDir sc))) (Op.create (metaFile sc))) (Op.create (dataFile sc))) := by
    simp only [ordStep, hlen, if_true]
    exact ⟨rfl, rfl, rfl, rfl, rfl, rfl, by intro p hp; simpa using hp⟩
  generalize ordStep (ordStep (ordStep {} (Op.mkdir (tmpDir sc))) (Op.create (metaFile sc))) (Op.create (dataFile sc)) = st1 at w0 ⊢
  -- writes before the manifest is flushed
  have hw1 : sc.writes1.map (fun d => Op.write (if d = true then dataFile sc else metaFile sc)) =
      (sc.writes1.map (fun d => if d = true then dataFile sc else metaFile sc)).map Op.write := by
    rw [List.map_map]; rfl
  rw [hw1]
  have w1 := writing_writes sc [metaFile sc, dataFile sc]
    (sc.writes1.map (fun d => if d = true then dataFile sc else metaFile sc)) (by
    intro p hp
    obtain ⟨d, _, rfl⟩ := List.mem_map.mp hp
    cases d <;> simp) st1 w0
  generalize (List.map Op.write _).foldl ordStep st1 = st2 at w1 ⊢
  -- manifest flushed: only the archive can be dirty from now on
  have w2 : Writing sc [dataFile sc] (ordStep st2 (Op.fsyncFile (metaFile sc))) := by
    obtain ⟨a, b, c, d, e, f, g⟩ := w1
    refine ⟨a, b, c, d, e, f, ?_⟩
    intro q hq
    simp only [ordStep, List.mem_filter, bne_iff_ne, ne_eq, decide_eq_true_eq] at hq
    have := g q hq.1
    simp only [List.mem_cons, List.mem_singleton, List.not_mem_nil, or_false] at this ⊢
    rcases this with rfl | rfl
    · exact absurd rfl hq.2
    · rfl
  generalize ordStep st2 (Op.fsyncFile (metaFile sc)) = st3 at w2 ⊢
  have hw2 : List.replicate sc.writes2 (Op.write (dataFile sc)) = (List.replicate sc.writes2 (dataFile sc)).map Op.write := by
    simp
  rw [hw2]
  have w3 := writing_writes sc [dataFile sc] (List.replicate sc.writes2 (dataFile sc))
    (by intro p hp; have := List.eq_of_mem_replicate hp; simp [this]) st3 w2
  generalize (List.map Op.write _).foldl ordStep st3 = st4 at w3 ⊢
  obtain ⟨a, b, c, d, e, f, g⟩ := w3
  -- archive flushed, temporary directory flushed, rename, group directory flushed
  have hd4 : (st4.dirty.filter (· ≠ dataFile sc)) = [] := by
    rw [List.filter_eq_nil_iff]
    intro q hq
    have := g q hq
    simp at this
    simp [this]
  have s5 : ordStep (ordStep (ordStep (ordStep st4 (Op.fsyncFile (dataFile sc))) (Op.fsyncDir (tmpDir sc)))
      (Op.rename (tmpDir sc) (finalDir sc))) (Op.fsyncDir [sc.group]) =
      { st4 with dirty := [], unsyncedEntries := [], renamed := true, renameDurable := true } := by
    simp only [ordStep, hd4, d, if_true, a, b, e, List.isEmpty_nil, Bool.and_self, List.length_cons, List.length_nil]
    have h1 : ¬ (some [sc.group] = some (tmpDir sc)) := by simp [tmpDir]
    have h2 : (Option.map List.dropLast (some (tmpDir sc)) = some [sc.group]) := by simp [tmpDir]
    simp [h1, h2]
  rw [s5]
  rw [fold_removes_after _ ({ st4 with dirty := [], unsyncedEntries := [], renamed := true, renameDurable := true } : OrdSt) rfl rfl a]
  · simp [ordStep, a]
  · intro o ho
    simp only [List.mem_flatMap, List.mem_append, List.mem_map, List.mem_singleton] at ho
    obtain ⟨gq, _, h | h⟩ := ho
    · obtain ⟨q, _, rfl⟩ := h; exact ⟨_, rfl⟩
    · exact ⟨_, h⟩

/-- Non-vacuity: a rotation run with removal of an old group. -/
def exampleRotation : Scenario :=
  { group := "2001.09.10"
    newGroup := true
    name := "2001.09.10-01:47:00"
    writes1 := [true, false]
    writes2 := 8
    listing1 := [[], ["2001.09.09"]]
    listing2 := [[], ["2001.09.09"], ["2001.09.10"]]
    oldGroups := [("2001.09.09", [["2001.09.09", "b", "metadata.zst"], ["2001.09.09", "b"]])] }

example : orderOk (runOps exampleRotation) = true := by decide

/-- A reordering mutant is rejected: rename before the archive is flushed. -/
example : orderOk [.lock true, .mkdir ["g", ".n"], .create ["g", ".n", "metadata.zst"], .create ["g", ".n", "data.tar.zst"],
    .write ["g", ".n", "data.tar.zst"], .fsyncFile ["g", ".n", "metadata.zst"], .fsyncDir ["g", ".n"],
    .rename ["g", ".n"] ["g", "n"], .fsyncFile ["g", ".n", "data.tar.zst"], .fsyncDir ["g"], .exit 0] = false := by decide

end Vsb.Crash
