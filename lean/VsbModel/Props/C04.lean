import VsbModel.Props.C05
import VsbModel.Lemmas.Reader
set_option linter.unusedSimpArgs false
set_option linter.unusedVariables false

/-!
# C04 — the uploaded object decrypts to exactly the local backup

The bytes gpg produces travel: stdout reader → data channel (`Msg.payload` blocks) → splitter → request
bodies (each a channel of chunk messages) → `StreamReader.read` with whatever buffer sizes the HTTP client
uses → provider.  `bytes_delivered` says nothing is lost, repeated or reordered on that way, for every
block sequence, every request-size limit and every sequence of read-buffer sizes; with C05's
`*_final_is_ciphertext` the object that receives the final name is exactly gpg's output, and
`object_roundtrip` turns the round-trip laws of the cipher and of tar into the statement about the backup.
-/
namespace Vsb.Upload
open Vsb.Split Vsb.Proto
variable {α : Type}

/-- Reading request body number `i` to its end with buffer sizes `bufs i k` (k-th `read` call). -/
def readBody (bufs : Nat → Nat → Nat) (i : Nat) (chunks : List (List α)) : Option (List α) :=
  drain (bufs i) (chunks.flatten.length + 1) 0 { pending := chunks.map ChunkMsg.ok } []

theorem readBody_all (bufs : Nat → Nat → Nat) (hb : ∀ i k, 0 < bufs i k) (i : Nat) (chunks : List (List α))
    (hne : ∀ d ∈ chunks, d ≠ []) : readBody bufs i chunks = some chunks.flatten := by
  unfold readBody
  have hclean : ({ pending := chunks.map ChunkMsg.ok } : Reader α).Clean := by
    refine ⟨?_, by intro c hc; cases hc⟩
    intro m hm
    obtain ⟨d, hd, rfl⟩ := List.mem_map.mp hm
    exact ⟨d, rfl, hne d hd⟩
  have hrem : ({ pending := chunks.map ChunkMsg.ok } : Reader α).remaining = chunks.flatten := by
    simp [Reader.remaining, List.map_map, Function.comp_def, okData]
  rw [drain_all (bufs i) (hb i) _ 0 _ [] hclean (by rw [hrem]; omega), hrem]
  simp

/-- **bytes_delivered.** For every sequence of blocks the encryptor sends (followed by anything), every
request-size limit (or none) and every choice of read-buffer sizes, reading the request bodies one after
the other yields, concatenated, exactly the bytes sent before the first terminal message: in order, without
gaps or repeats, whatever the total size is relative to the limit. -/
theorem bytes_delivered (max : Option Nat) (hmax : MaxOk max) (msgs : List (Msg α))
    (bufs : Nat → Nat → Nat) (hb : ∀ i k, 0 < bufs i k) :
    let evs := (splitter max none msgs).1
    (∀ i cs, (chunkLists evs)[i]? = some cs → readBody bufs i cs = some cs.flatten) ∧
    (chunkLists evs).map List.flatten = bodyBytes evs ∧
    (bodyBytes evs).flatten = prefixData msgs := by
  intro evs
  have bs := bodies_spec max hmax msgs
  simp only at bs
  refine ⟨?_, ?_, ?_⟩
  · intro i cs hcs
    apply readBody_all bufs hb
    exact chunkLists_nonempty max none msgs cs (List.mem_of_getElem? hcs)
  · exact chunkLists_flatten _ bs.2.2.2.2.2.2.1
  · rw [bodyBytes, ← List.flatMap_def]; exact bs.1

/-- **object_roundtrip (Dropbox, any request-size limit).** If what gpg wrote is `enc p (tar files)` and the
cipher and tar satisfy their round-trip laws, then whatever the server does short of corrupting data, the
object that receives the final name decrypts with the configured passphrase to exactly the archive of the
local files, and with no other passphrase. -/
theorem object_roundtrip_dropbox {P F : Type} (enc : P → List α → List α) (dec : P → List α → Option (List α))
    (tar : F → List α) (untar : List α → Option F)
    (hdec : ∀ p x, dec p (enc p x) = some x) (hwrong : ∀ p q x, q ≠ p → dec q (enc p x) = none)
    (huntar : ∀ f, untar (tar f) = some f)
    (p : P) (files : F) (c : Cfg α Nat) (script : Nat → Resp) (hnc : ∀ k, script k ≠ .corrupt) (srv : Srv α)
    (max : Option Nat) (hmax : MaxOk max) (payloads : List (List α)) (cs : Nat)
    (hgpg : payloads.flatten = enc p (tar files)) (d : List α)
    (h : (pipeline .dropbox c script srv max (payloads.map Msg.payload ++ [Msg.eof cs])).run.renamed = some d) :
    (dec p d).bind untar = some files ∧ ∀ q, q ≠ p → dec q d = none := by
  have hd := dropbox_final_is_ciphertext c script hnc srv max hmax payloads cs d h
  rw [hd, hgpg]
  exact ⟨by rw [hdec]; exact huntar files, fun q hq => hwrong p q _ hq⟩

/-- **object_roundtrip (Yandex Disk, Google Drive: one streamed request).** -/
theorem object_roundtrip_single_put {P F : Type} (enc : P → List α → List α) (dec : P → List α → Option (List α))
    (tar : F → List α) (untar : List α → Option F)
    (hdec : ∀ p x, dec p (enc p x) = some x) (hwrong : ∀ p q x, q ≠ p → dec q (enc p x) = none)
    (huntar : ∀ f, untar (tar f) = some f) (hnonempty : ∀ p x, enc p x ≠ [])
    (prov : Provider) (hprov : prov ≠ .dropbox)
    (p : P) (files : F) (c : Cfg α Nat) (script : Nat → Resp) (hnc : ∀ k, script k ≠ .corrupt) (srv : Srv α)
    (payloads : List (List α)) (cs : Nat)
    (hgpg : payloads.flatten = enc p (tar files)) (d : List α)
    (h : (pipeline prov c script srv none (payloads.map Msg.payload ++ [Msg.eof cs])).run.renamed = some d) :
    (dec p d).bind untar = some files ∧ ∀ q, q ≠ p → dec q d = none := by
  have hd := single_put_final_is_ciphertext prov hprov c script hnc srv payloads (by rw [hgpg]; exact hnonempty _ _) cs d h
  rw [hd, hgpg]
  exact ⟨by rw [hdec]; exact huntar files, fun q hq => hwrong p q _ hq⟩

/-- The gpg command line of the model: a function of the descriptor number alone — the passphrase is not an
input of it (the real argv / environment are captured by the check). -/
def gpgArgv (passphraseFd : Nat) : List String :=
  ["--batch", "--symmetric", "--passphrase-fd", toString passphraseFd, "--compress-algo", "none"]

/-! Non-vacuity: a two-block stream cut at 2 bytes is read back completely with 1-byte buffers. -/
example : (chunkLists (splitter (some 2) none [Msg.payload [1,2,3], Msg.payload [4], Msg.eof 0]).1) = [[[1,2]], [[3],[4]]] := by decide
example : readBody (fun _ _ => 1) 1 [[3],[4]] = some [3,4] := by decide

end Vsb.Upload
