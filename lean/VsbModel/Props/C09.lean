import VsbModel.Props.C02
import VsbModel.Lemmas.LogicalRun
set_option linter.unusedSectionVars false
set_option linter.unusedSimpArgs false

/-!
# C09 — content is stored at most once per group and unchanged files are not re-read

`Step.reads` counts how often `add_file` reads the file's bytes: 0 (not at all), 1 (hashing pass
only), 2 (hashing pass + the pass that stores the bytes in the archive).
-/
namespace Vsb.Dedup
variable {H F P : Type} [DecidableEq H] [DecidableEq F] [DecidableEq P]

/-- The short-cut applies: same path and fingerprint as in the group's previous backup. -/
def Shortcut (last : Option (List (Rec H F P))) (e : FileEv H F P) : Prop :=
  ∃ l r, last = some l ∧ lookupLast l e.path = some r ∧ r.fp = e.fp

/-- **unique_only_if_new.** A file is stored with data iff it is non-empty, not short-cut, and its
content is not yet known to the group; the bytes are read for storing exactly in that case. -/
theorem unique_iff (emptyHash : H) (known : List H) (last : Option (List (Rec H F P))) (e : FileEv H F P) :
    ((dedupOne emptyHash known last e).record.unique = true ↔
      e.size ≠ 0 ∧ ¬ Shortcut last e ∧ e.hash ∉ known) ∧
    ((dedupOne emptyHash known last e).reads = 2 ↔ (dedupOne emptyHash known last e).record.unique = true) := by
  unfold dedupOne Shortcut
  by_cases hs : e.size = 0
  · simp [hs]
  · cases last with
    | none => by_cases hk : e.hash ∈ known <;> simp [hs, hk]
    | some l =>
      cases hl : lookupLast l e.path with
      | none => by_cases hk : e.hash ∈ known <;> simp [hs, hk, hl]
      | some r =>
        by_cases hf : r.fp = e.fp <;> by_cases hk : e.hash ∈ known <;> simp [hs, hk, hl, hf]

/-- **shortcut_no_read.** Same path and identity as in the previous backup of the group: the content
is not read at all and the record is an extern reference to the previously recorded hash. -/
theorem shortcut_no_read (emptyHash : H) (known : List H) (l : List (Rec H F P)) (e : FileEv H F P)
    (r : Rec H F P) (hl : lookupLast l e.path = some r) (hfp : r.fp = e.fp) :
    (dedupOne emptyHash known (some l) e).reads = 0 ∧
    (dedupOne emptyHash known (some l) e).record.unique = false ∧
    (e.size ≠ 0 → (dedupOne emptyHash known (some l) e).record.hash = r.hash) := by
  unfold dedupOne
  by_cases hs : e.size = 0 <;> simp [hs, hl, hfp]

/-- **empty_no_data.** Empty files never carry data and are never read. -/
theorem empty_no_data (emptyHash : H) (known : List H) (last : Option (List (Rec H F P))) (e : FileEv H F P)
    (hs : e.size = 0) :
    (dedupOne emptyHash known last e).record.unique = false ∧ (dedupOne emptyHash known last e).reads = 0 ∧
    (dedupOne emptyHash known last e).record.hash = emptyHash := by
  simp [dedupOne, hs]

/-- Loop invariant for `unique_nodup`: the uniques produced are pairwise distinct, not in the initial
`known`, and belong to non-empty files. -/
theorem runFiles_uniques (emptyHash : H) (known : List H) (last : Option (List (Rec H F P)))
    (es : List (FileEv H F P)) :
    (uniques (records (runFiles emptyHash known last es))).Nodup ∧
    (∀ h ∈ uniques (records (runFiles emptyHash known last es)), h ∉ known) ∧
    (∀ r ∈ records (runFiles emptyHash known last es), r.unique = true → r.size ≠ 0) := by
  induction es generalizing known with
  | nil => simp [runFiles, records, uniques]
  | cons e es ih =>
    have hu := (unique_iff emptyHash known last e).1
    simp only [runFiles, records, List.map_cons]
    simp only [records] at ih
    by_cases hun : (dedupOne emptyHash known last e).record.unique = true
    · obtain ⟨h1, h2, h3⟩ := hu.mp hun
      have hk : (dedupOne emptyHash known last e).known = e.hash :: known := by
        unfold dedupOne at hun ⊢
        cases last with
        | none => by_cases hkk : e.hash ∈ known <;> simp_all
        | some l =>
          cases hl : lookupLast l e.path with
          | none => by_cases hkk : e.hash ∈ known <;> simp_all
          | some r => by_cases hf : r.fp = e.fp <;> by_cases hkk : e.hash ∈ known <;> simp_all
      have hh : (dedupOne emptyHash known last e).record.hash = e.hash := by
        unfold dedupOne at hun ⊢
        cases last with
        | none => by_cases hkk : e.hash ∈ known <;> simp_all
        | some l =>
          cases hl : lookupLast l e.path with
          | none => by_cases hkk : e.hash ∈ known <;> simp_all
          | some r => by_cases hf : r.fp = e.fp <;> by_cases hkk : e.hash ∈ known <;> simp_all
      have hsz : (dedupOne emptyHash known last e).record.size = e.size := by
        unfold dedupOne
        cases last with
        | none => by_cases hkk : e.hash ∈ known <;> simp_all
        | some l =>
          cases hl : lookupLast l e.path with
          | none => by_cases hkk : e.hash ∈ known <;> simp_all
          | some r => by_cases hf : r.fp = e.fp <;> by_cases hkk : e.hash ∈ known <;> simp_all
      rw [hk]
      obtain ⟨i1, i2, i3⟩ := ih (e.hash :: known)
      simp only [uniques] at i1 i2
      refine ⟨?_, ?_, ?_⟩
      · simp only [uniques, List.filter_cons, hun, if_true, List.map_cons, List.nodup_cons]
        refine ⟨?_, i1⟩
        intro hm
        have := i2 _ hm
        rw [hh] at this; simp at this
      · intro h hm
        simp only [uniques, List.filter_cons, hun, if_true, List.map_cons, List.mem_cons] at hm
        rcases hm with rfl | hm
        · rw [hh]; exact h3
        · have := i2 h hm; simp at this; exact this.2
      · intro r hr hru
        simp only [List.mem_cons] at hr
        rcases hr with rfl | hr
        · rw [hsz]; exact h1
        · exact i3 r hr hru
    · have hk : ∀ h ∈ known, h ∈ (dedupOne emptyHash known last e).known := by
        intro h hh
        unfold dedupOne
        cases last with
        | none => by_cases hs : e.size = 0 <;> by_cases hkk : e.hash ∈ known <;> simp_all
        | some l =>
          cases hl : lookupLast l e.path with
          | none => by_cases hs : e.size = 0 <;> by_cases hkk : e.hash ∈ known <;> simp_all
          | some r => by_cases hs : e.size = 0 <;> by_cases hf : r.fp = e.fp <;> by_cases hkk : e.hash ∈ known <;> simp_all
      obtain ⟨i1, i2, i3⟩ := ih (dedupOne emptyHash known last e).known
      refine ⟨?_, ?_, ?_⟩
      · simpa [uniques, List.filter_cons, hun] using i1
      · intro h hm
        have hm' : h ∈ uniques (List.map (fun x => x.record) (runFiles emptyHash (dedupOne emptyHash known last e).known last es)) := by
          simpa [uniques, List.filter_cons, hun] using hm
        intro hkn
        exact i2 h hm' (hk h hkn)
      · intro r hr hru
        simp only [List.mem_cons] at hr
        rcases hr with rfl | hr
        · exact absurd hru hun
        · exact i3 r hr hru

/-- All earlier manifests readable. -/
def allReadable (group : List (List (Rec H F P))) : List Bool := group.map (fun _ => true)

theorem loadKnown_allReadable (group : List (List (Rec H F P))) :
    loadKnown (view group (allReadable group)) = uniques group.flatten := by
  induction group with
  | nil => simp [view, loadKnown, allReadable, uniques]
  | cons rs rest ih =>
    simp only [allReadable, List.map_cons, view, if_true] at ih ⊢
    simp only [loadKnown, List.flatMap_cons, List.flatten_cons, uniques_append] at ih ⊢
    rw [ih]

/-- **unique_nodup.** With readable metadata, each distinct content is stored at most once in a
group: if the unique hashes of the group were pairwise distinct before a run, they still are after
it, and no unique record belongs to an empty file. -/
theorem unique_nodup (emptyHash : H) (group : List (List (Rec H F P))) (es : List (FileEv H F P))
    (hnd : (uniques group.flatten).Nodup) :
    (uniques (group ++ [records (runBackup emptyHash (view group (allReadable group)) es)]).flatten).Nodup ∧
    ∀ r ∈ records (runBackup emptyHash (view group (allReadable group)) es), r.unique = true → r.size ≠ 0 := by
  obtain ⟨h1, h2, h3⟩ := runFiles_uniques emptyHash (loadKnown (view group (allReadable group)))
    (loadLast (view group (allReadable group))) es
  refine ⟨?_, h3⟩
  simp only [List.flatten_append, List.flatten_cons, List.flatten_nil, List.append_nil, uniques_append]
  rw [List.nodup_append]
  refine ⟨hnd, h1, ?_⟩
  intro a ha b hb hab
  subst hab
  have := h2 a hb
  rw [loadKnown_allReadable] at this
  exact this ha

/-- Non-vacuity: duplicate content within one run is stored once; an empty file carries no data. -/
example : (runFiles (0 : Nat) [] (none : Option (List (Rec Nat Nat String)))
      [⟨"a", 1, 5, 11⟩, ⟨"b", 2, 5, 11⟩, ⟨"e", 3, 0, 0⟩]).map (fun s => (s.record.unique, s.reads))
    = [(true, 2), (false, 1), (false, 0)] := by decide

end Vsb.Dedup

/-! ### Along histories -/
namespace Vsb.Restore
open Vsb.Dedup
variable {H β F : Type} [DecidableEq H] [DecidableEq F]

theorem view_all_true (group : List (List (Rec H F String))) : ∀ (mask : List Bool), (∀ b ∈ mask, b = true) →
    view group mask = group.map some := by
  induction group with
  | nil => intro mask _; cases mask <;> rfl
  | cons rs rest ih =>
    intro mask hm
    cases mask with
    | nil => simp only [view, List.map_cons]; rw [ih [] (by intro b hb; cases hb)]
    | cons m ms =>
      have hmt : m = true := hm m (by simp)
      subst hmt
      simp only [view, if_true, List.map_cons]
      rw [ih ms (fun b hb => hm b (List.mem_cons_of_mem _ hb))]

/-- **stored_once_history.**  Start from an empty storage and apply any history of completed runs (appending or opening a
new group) and deletions of whole groups, every run being able to read the manifests of its group and meeting the
assumptions of `history_restore_exact`.  Then in every group of the resulting storage no content is stored twice: the
hashes of the `unique` records of the group are pairwise distinct. -/
theorem stored_once_history (hashOf : List β → H) (ops : List (LOp β F)) (st : LStore β F)
    (hst : ∀ g ∈ st, (uniques (g.map (recsD hashOf)).flatten).Nodup)
    (hs : ∀ (pre : List (LOp β F)) (op : LOp β F) (post : List (LOp β F)), ops = pre ++ op :: post →
        OpSoundL hashOf (pre.foldl (stepL hashOf) st) op)
    (hread : ∀ name es fpf mask ng pad, LOp.run name es fpf mask ng pad ∈ ops → ∀ b ∈ mask, b = true) :
    ∀ g ∈ ops.foldl (stepL hashOf) st, (uniques (g.map (recsD hashOf)).flatten).Nodup := by
  induction ops generalizing st with
  | nil => simpa using hst
  | cons op ops ih =>
    simp only [List.foldl_cons]
    apply ih
    · have hsound := hs [] op ops rfl
      simp only [List.foldl_nil] at hsound
      cases op with
      | deleteGroups keep => intro g hg; exact hst g (keepMasked_sub st keep g hg)
      | run name es fpf mask newGroup pad =>
        have hmask := hread name es fpf mask newGroup pad (by simp)
        have hfresh : ∀ (hs' : RunSound hashOf ([] : List (LBackupF β F)) [] es fpf),
            (uniques ([runL hashOf ([] : List (LBackupF β F)) [] name es fpf pad].map (recsD hashOf)).flatten).Nodup := by
          intro hs'
          simp only [List.map_cons, List.map_nil]
          rw [recsD_runL hashOf [] [] name es fpf pad hs']
          have := unique_nodup (hashOf []) ([] : List (List (Rec H F String))) (eventsOf hashOf fpf es) (by simp [uniques])
          simpa [view, allReadable] using this.1
        unfold stepL
        unfold OpSoundL at hsound
        cases hl : st.getLast? with
        | none =>
          simp only [hl] at hsound ⊢
          intro g hg
          rcases List.mem_append.mp hg with h | h
          · exact hst g h
          · simp only [List.mem_singleton] at h; subst h; exact hfresh hsound
        | some glast =>
          cases newGroup with
          | true =>
            simp only [hl] at hsound ⊢
            intro g hg
            rcases List.mem_append.mp hg with h | h
            · exact hst g h
            · simp only [List.mem_singleton] at h; subst h; exact hfresh hsound
          | false =>
            simp only [hl] at hsound ⊢
            intro g hg
            rcases List.mem_append.mp hg with h | h
            · exact hst g (List.dropLast_subset _ h)
            · simp only [List.mem_singleton] at h
              subst h
              simp only [List.map_append, List.map_cons, List.map_nil]
              rw [recsD_runL hashOf glast mask name es fpf pad hsound, view_all_true _ mask hmask]
              have := unique_nodup (hashOf []) (glast.map (recsD hashOf)) (eventsOf hashOf fpf es)
                (hst glast (List.mem_of_getLast? hl))
              rw [view_all_true _ (allReadable (glast.map (recsD hashOf))) (by intro b hb; simp [allReadable] at hb; exact hb.2)] at this
              exact this.1
    · intro pre op' post heq
      have := hs (op :: pre) op' post (by simp [heq])
      simpa using this
    · intro name es fpf mask ng pad hin
      exact hread name es fpf mask ng pad (List.mem_cons_of_mem _ hin)

end Vsb.Restore
