import VsbModel.Lemmas.Proto
import VsbModel.Model.Upload
import VsbModel.Props.C17
import VsbModel.Model.Encryptor
set_option linter.unusedSimpArgs false
set_option linter.unusedVariables false
set_option linter.unusedSectionVars false

/-!
# C05 — a cloud backup gets its final name only when complete and checksum-verified

`upload p c script srv bodies ending` is `UploadProvider::upload_file` of provider `p` talking to a server
whose reaction to the k-th request is `script k` (any function: every fault at every request index, any
number of faults), in a directory holding any objects (`srv.ns`: stale temporaries, older backups, foreign
files, even an object already carrying the final name).  `o.run.renamed = some d` records that the server
performed the rename `tmp → final` on content `d`.
-/
namespace Vsb.Proto
variable {β H : Type} [DecidableEq H]

/-- What C05 demands of one `upload_file` call. -/
structure Verified (c : Cfg β H) (script : Nat → Resp) (ns0 : List (Name × List β)) (ending : Ending H)
    (cls : String) (o : Out β) : Prop where
  /-- final-named objects afterwards = those before (unaltered, none removed) + the renamed content -/
  after : After c ns0 o.run
  /-- the final name is given only to content whose provider checksum equals the local checksum, and only
  when the stream was finalised -/
  checked : ∀ d, o.run.renamed = some d → ∃ total, ending = .final total (c.hP d)
  /-- `Ok` ⇒ the final name exists and the rename was the last request -/
  ok_renamed : o.ok = true → o.run.renamed.isSome = true ∧ o.run.log.getLast? = some cls
  /-- a reported failure coexists with a created final name only if a reply was lost after the server
  performed the request (then the object is still complete and verified, by `checked`) -/
  err_only_lost : o.ok = false → ∀ d, o.run.renamed = some d → ∃ k, script k = .lost

theorem fail_verified (c : Cfg β H) (script : Nat → Resp) (ns0 : List (Name × List β)) (ending : Ending H) (cls : String)
    (r : Run β) (h : After c ns0 r) (hr : r.renamed = none) : Verified c script ns0 ending cls ⟨false, r⟩ :=
  ⟨h, (by intro d hd; simp only at hd; rw [hr] at hd; cases hd), (by intro hc; cases hc),
   (by intro _ d hd; simp only at hd; rw [hr] at hd; cases hd)⟩

theorem checked_of (c : Cfg β H) (csum : H) (total : Nat) (R X : Run β)
    (s2 : ∀ d, X.renamed = some d → d = (nsGet R.srv.ns c.tmp).getD [])
    (hck : ¬ c.hP ((nsGet R.srv.ns c.tmp).getD []) ≠ csum) :
    ∀ d, X.renamed = some d → ∃ t, Ending.final total csum = .final t (c.hP d) := by
  intro d hd
  refine ⟨total, ?_⟩
  rw [s2 d hd]
  simp only [ne_eq, Decidable.not_not] at hck
  rw [hck]

theorem init_after (c : Cfg β H) (srv : Srv β) : After c srv.ns ({ srv := srv } : Run β) := by
  intro n d _
  simp

theorem dropbox_verified (c : Cfg β H) (ht : isTemp c.tmp = true) (script : Nat → Resp) (srv : Srv β)
    (bodies : List (List β)) (ending : Ending H) :
    Verified c script srv.ns ending "move" (dropbox c script srv bodies ending) := by
  unfold dropbox
  simp only
  have h0 := init_after c srv
  have a1 := req_after c srv.ns _ script "upload-start" _ (tempOnly_session (fun _ _ => [])) h0
  have n1 : (({ srv := srv } : Run β).req script "upload-start" (fun s _ => some { s with session := [] })).1.renamed = none := by
    rw [req_renamed]
  split
  · exact fail_verified c script _ ending _ _ a1 n1
  · have a2 := dbxAppends_after c srv.ns script bodies _ a1
    have n2 := (dbxAppends_renamed c script bodies _).trans n1
    split
    · exact fail_verified c script _ ending _ _ a2 n2
    · split
      · exact fail_verified c script _ _ _ _ a2 n2
      · exact fail_verified c script _ _ _ _ a2 n2
      · rename_i total csum
        have a3 := req_after c srv.ns _ script "upload-finish" _ (tempOnly_put c ht (fun s cor => dataOf c s.session cor)) a2
        have n3 := (req_renamed _ script "upload-finish" (fun s cor => some { s with ns := nsPut s.ns c.tmp (dataOf c s.session cor) })).trans n2
        split
        · exact fail_verified c script _ _ _ _ a3 n3
        · split
          · exact fail_verified c script _ _ _ _ (req_after c srv.ns _ script _ _ (tempOnly_delTmp c ht) a3)
              ((req_renamed _ script _ _).trans n3)
          · rename_i hck
            obtain ⟨s1, s2, s3, s4, _⟩ := renameStep_spec c ht srv.ns script "move" true _ a3 n3
            unfold dbxRename
            simp only
            refine ⟨s1, ?_, s3, ?_⟩
            · intro d hd
              have := s2 d hd
              refine ⟨total, ?_⟩
              rw [this]
              simp only [ne_eq, Decidable.not_not] at hck
              rw [hck]
            · intro hf d hd
              exact ⟨_, s4 hf d hd⟩

theorem yandex_verified (c : Cfg β H) (ht : isTemp c.tmp = true) (script : Nat → Resp) (srv : Srv β)
    (bodies : List (List β)) (ending : Ending H) :
    Verified c script srv.ns ending "move" (yandex c script srv bodies ending) := by
  unfold yandex
  simp only
  have h0 := init_after c srv
  have a1 := req_after c srv.ns _ script "upload-url" _ tempOnly_noEffect h0
  have n1 : (({ srv := srv } : Run β).req script "upload-url" noEffect).1.renamed = none := by rw [req_renamed]
  split
  · exact fail_verified c script _ ending _ _ a1 n1
  · have a2 := yaPuts_after c ht srv.ns script bodies _ a1
    have n2 := (yaPuts_renamed c script bodies _).trans n1
    split
    · exact fail_verified c script _ ending _ _ a2 n2
    · split
      · exact fail_verified c script _ _ _ _ a2 n2
      · exact fail_verified c script _ _ _ _ a2 n2
      · rename_i total csum
        have a3 := yaPoll_after c srv.ns script c.polls _ a2
        have n3 := (yaPoll_renamed script c.polls _).trans n2
        split
        · exact fail_verified c script _ _ _ _ a3 n3
        · have a4 := req_after c srv.ns _ script "stat" _ tempOnly_noEffect a3
          have n4 := (req_renamed _ script "stat" (noEffect : Effect β)).trans n3
          split
          · exact fail_verified c script _ _ _ _ a4 n4
          · split
            · exact fail_verified c script _ _ _ _ (req_after c srv.ns _ script _ _ (tempOnly_delTmp c ht) a4)
                ((req_renamed _ script _ _).trans n4)
            · rename_i hck
              obtain ⟨s1, s2, s3, s4, _⟩ := renameStep_spec c ht srv.ns script "move" true _ a4 n4
              unfold yaRename
              simp only
              have hchk := checked_of c csum total _ _ s2 hck
              split
              · rename_i hok
                exact ⟨s1, hchk, (fun _ => s3 hok), (fun hf => by cases hf)⟩
              · rename_i hok
                have hok' := Bool.eq_false_iff.mpr hok
                refine ⟨req_after c srv.ns _ script _ _ (tempOnly_delTmp c ht) s1, ?_, (fun hc => by cases hc), ?_⟩
                · intro d hd
                  simp only at hd
                  rw [req_renamed] at hd
                  exact hchk d hd
                · intro _ d hd
                  simp only at hd
                  rw [req_renamed] at hd
                  exact ⟨_, s4 hok' d hd⟩

theorem google_verified (c : Cfg β H) (ht : isTemp c.tmp = true) (script : Nat → Resp) (srv : Srv β)
    (bodies : List (List β)) (ending : Ending H) :
    Verified c script srv.ns ending "patch" (google c script srv bodies ending) := by
  unfold google
  simp only
  have h0 := init_after c srv
  have a1 := gPuts_after c ht srv.ns script bodies _ h0
  have n1 : (gPuts c script bodies ({ srv := srv } : Run β)).1.renamed = none := by rw [gPuts_renamed]
  split
  · exact fail_verified c script _ ending _ _ a1 n1
  · split
    · exact fail_verified c script _ _ _ _ a1 n1
    · split
      · exact fail_verified c script _ _ _ _ a1 n1
      · exact fail_verified c script _ _ _ _ (gDelete_after c ht srv.ns script _ a1) ((gDelete_renamed c script _).trans n1)
    · rename_i total csum
      split
      · exact fail_verified c script _ _ _ _ a1 n1
      · split
        · exact fail_verified c script _ _ _ _ a1 n1
        · have a2 := req_after c srv.ns _ script "get-file" _ tempOnly_noEffect a1
          have n2 := (req_renamed _ script "get-file" (noEffect : Effect β)).trans n1
          split
          · exact fail_verified c script _ _ _ _ a2 n2
          · split
            · exact fail_verified c script _ _ _ _ (gDelete_after c ht srv.ns script _ a2) ((gDelete_renamed c script _).trans n2)
            · rename_i hck
              obtain ⟨s1, s2, s3, s4, _⟩ := renameStep_spec c ht srv.ns script "patch" false _ a2 n2
              unfold gRename
              simp only
              refine ⟨s1, ?_, s3, ?_⟩
              · intro d hd
                have := s2 d hd
                refine ⟨total, ?_⟩
                rw [this]
                simp only [ne_eq, Decidable.not_not] at hck
                rw [hck]
              · intro hf d hd
                exact ⟨_, s4 hf d hd⟩

/-- **final_name_only_verified / failure_leaves_no_final**, for the three providers at once. -/
theorem upload_verified (p : Provider) (c : Cfg β H) (ht : isTemp c.tmp = true) (script : Nat → Resp) (srv : Srv β)
    (bodies : List (List β)) (ending : Ending H) :
    Verified c script srv.ns ending (renameCls p) (upload p c script srv bodies ending) := by
  cases p
  · exact dropbox_verified c ht script srv bodies ending
  · exact yandex_verified c ht script srv bodies ending
  · exact google_verified c ht script srv bodies ending

/-! ### The complete ciphertext: with no server-side corruption the object that gets the final name is
exactly the bytes of the request bodies, in order -/

theorem dropbox_complete (c : Cfg β H) (script : Nat → Resp) (hnc : ∀ k, script k ≠ .corrupt) (srv : Srv β)
    (bodies : List (List β)) (ending : Ending H) (d : List β)
    (h : (dropbox c script srv bodies ending).run.renamed = some d) : d = bodies.flatten := by
  unfold dropbox at h
  simp only at h
  split at h
  · rw [req_renamed] at h; cases h
  · rename_i h1
    split at h
    · rw [dbxAppends_renamed, req_renamed] at h; cases h
    · rename_i h2
      split at h
      · rw [dbxAppends_renamed, req_renamed] at h; cases h
      · rw [dbxAppends_renamed, req_renamed] at h; cases h
      · split at h
        · rw [req_renamed, dbxAppends_renamed, req_renamed] at h; cases h
        · rename_i h3
          split at h
          · rw [req_renamed, req_renamed, dbxAppends_renamed, req_renamed] at h; cases h
          · unfold dbxRename at h
            simp only at h
            have hd := renameStep_renamed c script "move" true _ d h
            have e3 := req_ok_eff _ script "upload-finish" _ (not_not_true h3) (hnc _)
            simp only [Option.some.injEq] at e3
            rw [← e3] at hd
            simp only [dataOf, Bool.false_eq_true, if_false] at hd
            rw [nsGet_nsPut] at hd
            simp only [Option.getD_some] at hd
            rw [dbxAppends_session c script hnc bodies _ (not_not_true h2)] at hd
            have e1 := req_ok_eff ({ srv := srv } : Run β) script "upload-start" _ (not_not_true h1) (hnc _)
            simp only [Option.some.injEq] at e1
            rw [← e1] at hd
            simpa using hd

theorem yandex_complete (c : Cfg β H) (script : Nat → Resp) (hnc : ∀ k, script k ≠ .corrupt) (srv : Srv β)
    (bodies : List (List β)) (ending : Ending H) (d b : List β) (hb : bodies.getLast? = some b)
    (h : (yandex c script srv bodies ending).run.renamed = some d) : d = b := by
  unfold yandex at h
  simp only at h
  split at h
  · rw [req_renamed] at h; cases h
  · split at h
    · rw [yaPuts_renamed, req_renamed] at h; cases h
    · rename_i h2
      split at h
      · rw [yaPuts_renamed, req_renamed] at h; cases h
      · rw [yaPuts_renamed, req_renamed] at h; cases h
      · split at h
        · rw [yaPoll_renamed, yaPuts_renamed, req_renamed] at h; cases h
        · split at h
          · rw [req_renamed, yaPoll_renamed, yaPuts_renamed, req_renamed] at h; cases h
          · split at h
            · rw [req_renamed, req_renamed, yaPoll_renamed, yaPuts_renamed, req_renamed] at h; cases h
            · unfold yaRename at h
              simp only at h
              have hst := yaPuts_stored c script hnc bodies _ (not_not_true h2) b hb
              split at h
              · have hd := renameStep_renamed c script "move" true _ d h
                rw [req_noEffect_srv, yaPoll_srv, hst] at hd
                simpa using hd
              · simp only at h
                rw [req_renamed] at h
                have hd := renameStep_renamed c script "move" true _ d h
                rw [req_noEffect_srv, yaPoll_srv, hst] at hd
                simpa using hd

theorem google_complete (c : Cfg β H) (script : Nat → Resp) (hnc : ∀ k, script k ≠ .corrupt) (srv : Srv β)
    (bodies : List (List β)) (ending : Ending H) (d b : List β) (hb : bodies.getLast? = some b)
    (h : (google c script srv bodies ending).run.renamed = some d) : d = b := by
  unfold google at h
  simp only at h
  split at h
  · rw [gPuts_renamed] at h; cases h
  · rename_i h1
    split at h
    · rw [gPuts_renamed] at h; cases h
    · split at h
      · rw [gPuts_renamed] at h; cases h
      · rw [gDelete_renamed, gPuts_renamed] at h; cases h
    · split at h
      · rw [gPuts_renamed] at h; cases h
      · split at h
        · rw [gPuts_renamed] at h; cases h
        · split at h
          · rw [req_renamed, gPuts_renamed] at h; cases h
          · split at h
            · rw [gDelete_renamed, req_renamed, gPuts_renamed] at h; cases h
            · unfold gRename at h
              simp only at h
              have hd := renameStep_renamed c script "patch" false _ d h
              rw [req_noEffect_srv, gPuts_stored c script hnc bodies _ (not_not_true h1) b hb] at hd
              simpa using hd

end Vsb.Proto

/-! ## From the data channel to the cloud namespace (`Storage::upload_backup` minus archiver and gpg) -/
namespace Vsb.Upload
open Vsb.Split Vsb.Proto
variable {α : Type}

/-- The four clauses of `Verified` hold for the composed pipeline, whatever is put on the data channel,
whatever the request-size limit, whatever the server does. -/
theorem pipeline_verified (p : Provider) (c : Cfg α Nat) (ht : isTemp c.tmp = true) (script : Nat → Resp) (srv : Srv α)
    (max : Option Nat) (msgs : List (Msg α)) :
    Verified c script srv.ns (endingOf (splitter max none msgs).1) (renameCls p) (pipeline p c script srv max msgs) :=
  upload_verified p c ht script srv _ _

/-- **final_name_only_verified.** If the stream is finalised with the checksum `cs` the encryptor computed
over the bytes it sent, any object that receives the final name has a provider checksum equal to `cs`. -/
theorem final_checksum_matches (p : Provider) (c : Cfg α Nat) (ht : isTemp c.tmp = true) (script : Nat → Resp) (srv : Srv α)
    (max : Option Nat) (hmax : MaxOk max) (payloads : List (List α)) (cs : Nat) (d : List α)
    (h : (pipeline p c script srv max (payloads.map Msg.payload ++ [Msg.eof cs])).run.renamed = some d) :
    c.hP d = cs := by
  have v := pipeline_verified p c ht script srv max (payloads.map Msg.payload ++ [Msg.eof cs])
  obtain ⟨total, ht'⟩ := v.checked d h
  have f := (final_total_checksum max hmax payloads cs).2.1
  simp only [endingOf, f] at ht'
  cases ht'
  rfl

/-- **error_replaces_eof ⇒ failure_leaves_no_final.** If anything upstream (archiver, gpg, reader) fails,
the stream ends with an error message instead of the checksum, and then: `upload_file` fails, and the
final-named objects of the directory are exactly those it held before — none created, altered or removed. -/
theorem upstream_error_no_final (p : Provider) (c : Cfg α Nat) (ht : isTemp c.tmp = true) (script : Nat → Resp) (srv : Srv α)
    (max : Option Nat) (hmax : MaxOk max) (payloads : List (List α)) (e : String) (rest : List (Msg α)) :
    let o := pipeline p c script srv max (payloads.map Msg.payload ++ Msg.err e :: rest)
    o.ok = false ∧ o.run.renamed = none ∧
    ∀ n d, isTemp n = false → ((n, d) ∈ o.run.srv.ns ↔ (n, d) ∈ srv.ns) := by
  intro o
  have v := pipeline_verified p c ht script srv max (payloads.map Msg.payload ++ Msg.err e :: rest)
  have ef := error_xor_final max hmax payloads e rest
  have hend : endingOf (splitter max none (payloads.map Msg.payload ++ Msg.err e :: rest)).1 = .error := by
    simp only [endingOf, ef.2.2.1, ef.2.1]
  have hnone : o.run.renamed = none := by
    cases hr : o.run.renamed with
    | none => rfl
    | some d =>
      obtain ⟨total, ht'⟩ := v.checked d hr
      rw [hend] at ht'
      cases ht'
  refine ⟨?_, hnone, ?_⟩
  · cases hok : o.ok with
    | false => rfl
    | true =>
      have := (v.ok_renamed hok).1
      rw [hnone] at this
      cases this
  · intro n d hn
    have := v.after n d hn
    rw [hnone] at this
    simpa using this

/-- The same when the data channel is closed without any terminal message. -/
theorem hangup_no_final (p : Provider) (c : Cfg α Nat) (ht : isTemp c.tmp = true) (script : Nat → Resp) (srv : Srv α)
    (max : Option Nat) (hmax : MaxOk max) (payloads : List (List α)) :
    let o := pipeline p c script srv max (payloads.map Msg.payload)
    o.ok = false ∧ o.run.renamed = none := by
  intro o
  have v := pipeline_verified p c ht script srv max (payloads.map Msg.payload)
  have hf := hangup_fails max hmax payloads
  have hend : endingOf (splitter max none (payloads.map Msg.payload)).1 = .hangup := by
    simp only [endingOf, hf.2.1, hf.2.2]
  have hnone : o.run.renamed = none := by
    cases hr : o.run.renamed with
    | none => rfl
    | some d =>
      obtain ⟨total, ht'⟩ := v.checked d hr
      rw [hend] at ht'
      cases ht'
  refine ⟨?_, hnone⟩
  cases hok : o.ok with
  | false => rfl
  | true =>
    have := (v.ok_renamed hok).1
    rw [hnone] at this
    cases this

/-- **complete ciphertext.** Without server-side corruption, the object that receives the final name is
exactly the concatenation of everything the encryptor sent — for Dropbox whatever the request-size limit
(any number of session requests, incl. sizes that are exact multiples of the limit) … -/
theorem dropbox_final_is_ciphertext (c : Cfg α Nat) (script : Nat → Resp) (hnc : ∀ k, script k ≠ .corrupt) (srv : Srv α)
    (max : Option Nat) (hmax : MaxOk max) (payloads : List (List α)) (cs : Nat) (d : List α)
    (h : (pipeline .dropbox c script srv max (payloads.map Msg.payload ++ [Msg.eof cs])).run.renamed = some d) :
    d = payloads.flatten := by
  have := dropbox_complete c script hnc srv _ _ d h
  rw [this, bodyBytes, ← List.flatMap_def]
  exact (final_total_checksum max hmax payloads cs).2.2.2.1

/-- … and for Yandex Disk and Google Drive, which stream one unlimited request. -/
theorem single_put_final_is_ciphertext (p : Provider) (hp : p ≠ .dropbox) (c : Cfg α Nat) (script : Nat → Resp)
    (hnc : ∀ k, script k ≠ .corrupt) (srv : Srv α) (payloads : List (List α)) (hne : payloads.flatten ≠ [])
    (cs : Nat) (d : List α)
    (h : (pipeline p c script srv none (payloads.map Msg.payload ++ [Msg.eof cs])).run.renamed = some d) :
    d = payloads.flatten := by
  have bs := bodies_spec (α := α) none trivial (payloads.map Msg.payload ++ [Msg.eof cs])
  have ft := final_total_checksum (α := α) none trivial payloads cs
  simp only at bs ft
  have hcat := ft.2.2.2.1
  have hlen := bs.2.2.2.2.2.1 trivial
  -- exactly one body, holding everything
  have hone : ∃ b, bodyBytes (splitter none none (payloads.map Msg.payload ++ [Msg.eof cs])).1 = [b] ∧ b = payloads.flatten := by
    unfold bodyBytes
    cases hb : bodiesOf (splitter none none (payloads.map Msg.payload ++ [Msg.eof cs])).1 with
    | nil =>
      rw [hb] at hcat
      simp only [List.flatMap_nil] at hcat
      exact absurd hcat.symm hne
    | cons x xs =>
      rw [hb] at hlen hcat
      cases xs with
      | nil => exact ⟨x.bytes, by simp, by simpa using hcat⟩
      | cons y ys => simp at hlen
  obtain ⟨b, hb1, hb2⟩ := hone
  unfold pipeline at h
  simp only at h
  rw [hb1] at h
  cases p with
  | dropbox => exact absurd rfl hp
  | yandex => exact (yandex_complete c script hnc srv [b] _ d b (by simp) h).trans hb2
  | google => exact (google_complete c script hnc srv [b] _ d b (by simp) h).trans hb2

end Vsb.Upload

/-! Non-vacuity: concrete conversations that reach the rename, and ones that fail. -/
namespace Vsb.Proto
def cfgEx : Cfg Nat Nat := { hP := fun d => d.sum, mangle := fun d => d ++ [1], tmp := ".n", final := "n" }
example : (dropbox cfgEx (fun _ => .ok) { ns := [("old", [9])] } [[1,2],[3]] (.final 3 6)).ok = true := by decide
example : (dropbox cfgEx (fun _ => .ok) { ns := [] } [[1,2],[3]] (.final 3 6)).run.renamed = some [1,2,3] := by decide
example : (yandex cfgEx (fun _ => .ok) { ns := [(".n", [7,7])] } [[1,2,3]] (.final 3 6)).run.srv.ns = [("n", [1,2,3])] := by decide
example : (google cfgEx (fun _ => .ok) { ns := [("n", [5])] } [[1,2,3]] (.final 3 6)).run.srv.ns = [("n", [5]), ("n", [1,2,3])] := by decide
example : (yandex cfgEx (fun k => if k = 1 then .corrupt else .ok) { ns := [("old", [9])] } [[1,2,3]] (.final 3 6)).run.srv.ns = [("old", [9])] := by decide
example : (dropbox cfgEx (fun k => if k = 4 then .lost else .ok) { ns := [] } [[1,2],[3]] (.final 3 6)).ok = false ∧
    (dropbox cfgEx (fun k => if k = 4 then .lost else .ok) { ns := [] } [[1,2],[3]] (.final 3 6)).run.renamed = some [1,2,3] := by decide
end Vsb.Proto


/-! ## Which terminal message the encryptor sends (`error_replaces_eof`) -/
namespace Vsb.Encryptor
open Vsb.Split

/-- The reader returns a checksum only if reading succeeded, gpg wrote nothing to stderr and exited with
status 0 (a gpg killed by a signal, or exiting non-zero, is an error). -/
theorem reader_ok_iff (readOk stderrEmpty : Bool) (exit : Exit) (c : Nat) (r : Nat) :
    readerResult readOk stderrEmpty exit c = some r ↔ (readOk = true ∧ stderrEmpty = true ∧ exit = .code 0 ∧ r = c) := by
  unfold readerResult
  cases readOk <;> cases stderrEmpty <;> cases exit with
  | code n => cases n <;> simp [Exit.success]; try exact eq_comm
  | signal n => simp [Exit.success]

/-- **error_replaces_eof.**  The first `close` of a fresh encryptor sends exactly one terminal message; it is
the checksum message iff the caller reported success, the flush of gpg's stdin succeeded and the reader
returned a checksum — in every other case it is an error message. -/
theorem close_sends_eof_iff (callerOk flushOk : Bool) (reader : Option Nat) (c : Nat) :
    (close {} callerOk flushOk reader).2.1 = some (.eof c) ↔ (callerOk = true ∧ flushOk = true ∧ reader = some c) := by
  unfold close
  cases callerOk <;> cases flushOk <;> cases reader <;> simp

theorem close_always_sends (callerOk flushOk : Bool) (reader : Option Nat) :
    ∃ m, (close {} callerOk flushOk reader).2.1 = some m ∧ (m = .err "error" ∨ m = .err "reader error" ∨ ∃ c, m = .eof c) := by
  unfold close
  cases callerOk <;> cases flushOk <;> cases reader <;> simp

/-- A second `close` (e.g. `Drop` after `finish`) sends nothing and returns the stored result. -/
theorem close_once (callerOk flushOk : Bool) (reader : Option Nat) (callerOk' flushOk' : Bool) (reader' : Option Nat) :
    (close (close {} callerOk flushOk reader).1 callerOk' flushOk' reader').2.1 = none ∧
    (close (close {} callerOk flushOk reader).1 callerOk' flushOk' reader').2.2 = (close {} callerOk flushOk reader).2.2 := by
  unfold close
  cases callerOk <;> cases flushOk <;> cases reader <;> simp

end Vsb.Encryptor
