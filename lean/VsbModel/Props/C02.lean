import VsbModel.Lemmas.Dedup
set_option linter.unusedSectionVars false
set_option linter.unusedSimpArgs false

/-!
# C02 — every retained backup is recoverable from its own group alone

A group is the list of manifests of its backups, oldest first, *as written*.  What a later run can
read of them is an arbitrary mask (`view`): any subset of earlier manifests may be unreadable.
-/
namespace Vsb.Dedup
variable {H F P : Type} [DecidableEq H] [DecidableEq F] [DecidableEq P]

/-- **The property.** Every non-empty `extern` record has a `unique` record with the same hash
earlier in the same backup or in an earlier backup of the same group. -/
def Resolvable (group : List (List (Rec H F P))) : Prop := ResolvesIn [] group.flatten


/-- The identity-implies-content assumption of the property, for one run: a file whose (device,
inode, mtime) equal those recorded for its path in the group's previous backup has the recorded size. -/
def FpSound (last : Option (List (Rec H F P))) (es : List (FileEv H F P)) : Prop :=
  ∀ l, last = some l → ∀ e ∈ es, ∀ r, lookupLast l e.path = some r → r.fp = e.fp → r.size = e.size

theorem loadKnown_view_sub (group : List (List (Rec H F P))) (mask : List Bool) :
    ∀ h ∈ loadKnown (view group mask), h ∈ uniques group.flatten := by
  induction group generalizing mask with
  | nil => intro h hh; cases mask <;> simp [view, loadKnown] at hh
  | cons rs rest ih =>
    intro h hh
    simp only [List.flatten_cons, uniques_append, List.mem_append]
    cases mask with
    | nil =>
      simp only [view, loadKnown, List.flatMap_cons, List.mem_append] at hh
      rcases hh with hh | hh
      · exact Or.inl hh
      · exact Or.inr (ih [] h hh)
    | cons m ms =>
      simp only [view, loadKnown, List.flatMap_cons, List.mem_append] at hh
      rcases hh with hh | hh
      · cases m <;> simp at hh; exact Or.inl hh
      · exact Or.inr (ih ms h hh)

theorem loadLast_view_mem (group : List (List (Rec H F P))) (mask : List Bool) (l : List (Rec H F P))
    (h : loadLast (view group mask) = some l) : l ∈ group := by
  induction group generalizing mask with
  | nil => cases mask <;> simp [view, loadLast] at h
  | cons rs rest ih =>
    cases rest with
    | nil =>
      cases mask with
      | nil => simp [view, loadLast] at h; simp [h]
      | cons m ms =>
        cases m <;> simp [view, loadLast] at h
        simp [h]
    | cons rs2 rest2 =>
      have key : ∀ (x : Option (List (Rec H F P))) (ms : List Bool),
          loadLast (x :: view (rs2 :: rest2) ms) = loadLast (view (rs2 :: rest2) ms) := by
        intro x ms
        cases ms with
        | nil => simp [loadLast, view, List.getLast?_cons_cons]
        | cons m' ms' => simp [loadLast, view, List.getLast?_cons_cons]
      cases mask with
      | nil =>
        simp only [view] at h
        have := key (some rs) []
        simp only [view] at this
        rw [this] at h
        exact List.mem_cons_of_mem _ (ih [] h)
      | cons m ms =>
        simp only [view] at h
        rw [key] at h
        exact List.mem_cons_of_mem _ (ih ms h)

/-- **resolvable_run.** Appending a run's manifest to a resolvable group keeps it resolvable —
whichever subset of the earlier manifests was unreadable during the run. -/
theorem resolvable_run (emptyHash : H) (group : List (List (Rec H F P))) (mask : List Bool)
    (es : List (FileEv H F P)) (hres : Resolvable group)
    (hfp : FpSound (loadLast (view group mask)) es) :
    Resolvable (group ++ [records (runBackup emptyHash (view group mask) es)]) := by
  unfold Resolvable at *
  simp only [List.flatten_append, List.flatten_cons, List.flatten_nil, List.append_nil]
  rw [resolvesIn_append]
  refine ⟨hres, ?_⟩
  intro avail' hav
  apply runFiles_resolves
  · intro h hh
    exact (hav h).mpr (Or.inl (loadKnown_view_sub group mask h hh))
  · intro l hl r hr hs
    have hmem : l ∈ group := loadLast_view_mem group mask l hl
    have hrf : r ∈ group.flatten := List.mem_flatten.mpr ⟨l, hmem, hr⟩
    rcases hash_available [] group.flatten hres r hrf hs with h' | h'
    · cases h'
    · exact (hav _).mpr (Or.inl h')
  · exact hfp

/-- **new_group_fresh.** The first backup of a new group depends on nothing: it has no non-empty
extern record that is not preceded by a unique one in the same manifest. -/
theorem new_group_fresh (emptyHash : H) (es : List (FileEv H F P)) :
    Resolvable [records (runBackup emptyHash ([] : Loaded H F P) es)] := by
  have := resolvable_run emptyHash ([] : List (List (Rec H F P))) [] es (by simp [Resolvable, ResolvesIn])
    (by intro l hl; simp [view, loadLast] at hl)
  simpa [view] using this

/-! ### Histories: runs, rotations and deletions of whole groups -/

/-- The storage as a list of groups, oldest first. -/
abbrev Store (H F P : Type) := List (List (List (Rec H F P)))

inductive Op (H F P : Type) where
  /-- a run: its files, which earlier manifests are unreadable, and whether it opens a new group
  (any rotation policy, i.e. any `max_backups_per_group`) -/
  | run (es : List (FileEv H F P)) (mask : List Bool) (newGroup : Bool)
  /-- deletion of any set of whole groups (any `max_backup_groups`, local or cloud) -/
  | deleteGroups (keep : List Bool)


def step (emptyHash : H) (st : Store H F P) : Op H F P → Store H F P
  | .run es mask newGroup =>
    match st.getLast?, newGroup with
    | some g, false => st.dropLast ++ [g ++ [records (runBackup emptyHash (view g mask) es)]]
    | _, _ => st ++ [[records (runBackup emptyHash ([] : Loaded H F P) es)]]
  | .deleteGroups keep => keepMasked st keep

/-- The assumption of the property along a history: each appending run sees sound fingerprints. -/
def OpSound (st : Store H F P) : Op H F P → Prop
  | .run es mask false => ∀ g, st.getLast? = some g → FpSound (loadLast (view g mask)) es
  | _ => True

theorem keepMasked_sub {α} (xs : List α) (ks : List Bool) : ∀ x ∈ keepMasked xs ks, x ∈ xs := by
  induction xs generalizing ks with
  | nil => intro x hx; cases ks <;> simp [keepMasked] at hx
  | cons y ys ih =>
    intro x hx
    cases ks with
    | nil => simpa [keepMasked] using hx
    | cons k ks =>
      simp only [keepMasked] at hx
      split at hx
      · simp only [List.mem_cons] at hx ⊢
        rcases hx with rfl | hx
        · exact Or.inl rfl
        · exact Or.inr (ih ks x hx)
      · exact List.mem_cons_of_mem _ (ih ks x hx)

/-- **resolvable_history / group_deletion_safe.** For every history of runs (any rotation, any
unreadable earlier manifests) and deletions of arbitrary whole groups, every group of every
reachable storage is resolvable from itself alone. -/
theorem resolvable_history (emptyHash : H) (ops : List (Op H F P)) (st : Store H F P)
    (hst : ∀ g ∈ st, Resolvable g)
    (hs : ∀ (pre : List (Op H F P)) (op : Op H F P) (post : List (Op H F P)), ops = pre ++ op :: post →
        OpSound (pre.foldl (step emptyHash) st) op) :
    ∀ g ∈ ops.foldl (step emptyHash) st, Resolvable g := by
  induction ops generalizing st with
  | nil => simpa using hst
  | cons op ops ih =>
    simp only [List.foldl_cons]
    apply ih
    · -- one step preserves the invariant
      have hsound := hs [] op ops rfl
      simp only [List.foldl_nil] at hsound
      cases op with
      | deleteGroups keep =>
        intro g hg; exact hst g (keepMasked_sub st keep g hg)
      | run es mask newGroup =>
        simp only [step]
        intro g hg
        cases hl : st.getLast? with
        | none =>
          simp only [hl] at hg
          simp only [List.mem_append, List.mem_singleton] at hg
          rcases hg with hg | rfl
          · exact hst g hg
          · exact new_group_fresh emptyHash es
        | some glast =>
          cases newGroup with
          | true =>
            simp only [hl] at hg
            simp only [List.mem_append, List.mem_singleton] at hg
            rcases hg with hg | rfl
            · exact hst g hg
            · exact new_group_fresh emptyHash es
          | false =>
            simp only [hl] at hg
            simp only [List.mem_append, List.mem_singleton] at hg
            rcases hg with hg | rfl
            · exact hst g (List.dropLast_subset _ hg)
            · apply resolvable_run
              · exact hst glast (List.mem_of_getLast? hl)
              · exact hsound glast hl
    · intro pre op' post heq
      have := hs (op :: pre) op' post (by simp [heq])
      simpa using this

/-- Why the fingerprint assumption is needed: a file that was empty, got content, and kept its
(device, inode, mtime) yields an extern record nothing resolves.  (Replayed on the real binary by
the check as documentation; it is outside the property's assumptions.) -/
example : ¬ Resolvable ([[⟨false, 0, 7, 0, "p"⟩]] ++
    [records (runBackup (0 : Nat) (view [[(⟨false, 0, 7, 0, "p"⟩ : Rec Nat Nat String)]] [true])
      [⟨"p", 7, 5, 99⟩])]) := by
  simp [Resolvable, ResolvesIn, records, runBackup, runFiles, dedupOne, view, loadLast, loadKnown, lookupLast, uniques]

/-- Non-vacuity: a second run in a group, an unchanged file and a moved content. -/
example : records (runBackup (0 : Nat) (view [[(⟨true, 11, 1, 5, "a"⟩ : Rec Nat Nat String)]] [true])
      [⟨"a", 1, 5, 11⟩, ⟨"b", 2, 5, 11⟩, ⟨"c", 3, 4, 12⟩])
    = [⟨false, 11, 1, 5, "a"⟩, ⟨false, 11, 2, 5, "b"⟩, ⟨true, 12, 3, 4, "c"⟩] := by decide

end Vsb.Dedup
