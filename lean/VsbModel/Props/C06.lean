import VsbModel.Lemmas.SyncConv
import VsbModel.Lemmas.ListProto

/-!
# C06 — cloud sync converges and never deletes what retention protects

Theorems about `Vsb.Sync.syncBackups` (model of `uploading/sync.rs::sync_backups`) for arbitrary
finite group lists on both sides, any `max ≥ 1`, any incoming `ok` flag and any failure oracle
`fails : Act → Bool` for the provider actions.
-/
namespace Vsb.Sync

/-- Newer-count is antitone: an older group has at least as many newer non-empty groups. -/
theorem newerNonEmpty_antitone (m : BMap) (g t : Nat) (h : t ≤ g) : newerNonEmpty m g ≤ newerNonEmpty m t := by
  induction m with
  | nil => simp [newerNonEmpty]
  | cons e rest ih =>
    rw [newerNonEmpty_cons, newerNonEmpty_cons]
    by_cases h1 : g < e.1 ∧ e.2 ≠ []
    · have h2 : t < e.1 ∧ e.2 ≠ [] := ⟨by omega, h1.2⟩
      simp [h1, h2]; omega
    · simp only [h1, if_false]; split <;> omega

/-- **Window (`target_window`).** A group is in the target map iff it is listed on either side and
fewer than `max` non-empty groups are newer than it; its backup set is the union of both sides. -/
theorem target_window (localGs cloudGs : List Group) (max : Nat) (hmax : 0 < max) (g : Nat) :
    g ∈ keys (targetGroups localGs cloudGs max) ↔
      (HasGroup localGs g ∨ HasGroup cloudGs g) ∧ InWindow localGs cloudGs max g := by
  simp only [keys, List.mem_map]
  constructor
  · rintro ⟨e, he, rfl⟩
    obtain ⟨h1, h2⟩ := (mem_targetGroups localGs cloudGs max hmax e).mp he
    exact ⟨(mem_keys_merged _ _ _).mp (List.mem_map_of_mem h1), h2⟩
  · rintro ⟨h1, h2⟩
    obtain ⟨e, he, rfl⟩ := List.mem_map.mp ((mem_keys_merged _ _ _).mpr h1)
    exact ⟨e, (mem_targetGroups localGs cloudGs max hmax e).mpr ⟨he, h2⟩, rfl⟩

/-- Facts about one run, unpacked from the loop specifications. -/
theorem run_facts (localGs cloudGs : List Group) (ok : Bool) (max : Nat) (hmax : 0 < max) (fails : Act → Bool) :
    let out := syncBackups localGs cloudGs ok max fails
    (∀ g b, Act.upload g b ∈ out.1 →
        InGroups localGs g b ∧ ¬ InGroups cloudGs g b ∧ InWindow localGs cloudGs max g) ∧
    (∀ g, Act.createGroup g ∈ out.1 → ¬ HasGroup cloudGs g ∧ InWindow localGs cloudGs max g) ∧
    (∀ g, Act.delete g ∈ out.1 →
        HasGroup cloudGs g ∧ ¬ InWindow localGs cloudGs max g ∧ out.2 = true) ∧
    (out.2 = true → ok = true ∧ wipedGuard localGs cloudGs = false ∧
        ∀ g b, InGroups localGs g b → ¬ InGroups cloudGs g b → InWindow localGs cloudGs max g →
          Act.upload g b ∈ out.1 ∧ fails (.upload g b) = false ∧
          (¬ HasGroup cloudGs g → Act.createGroup g ∈ out.1 ∧ fails (.createGroup g) = false)) ∧
    (out.2 = true → ∀ g, Act.createGroup g ∈ out.1 → fails (.createGroup g) = false) := by
  have hasc := asc_keys_merged localGs cloudGs
  have r := uploadGroups_spec fails (mapping cloudGs) (targetGroups localGs cloudGs max)
    (ok && !wipedGuard localGs cloudGs)
  -- entries of the target are entries of the merged map, in the window
  have htm : ∀ g bs, (g, bs) ∈ targetGroups localGs cloudGs max →
      lookup (merged localGs cloudGs) g = some bs ∧ InWindow localGs cloudGs max g := by
    intro g bs h
    obtain ⟨h1, h2⟩ := (mem_targetGroups localGs cloudGs max hmax (g, bs)).mp h
    exact ⟨lookup_of_mem _ hasc g bs h1, h2⟩
  simp only [syncBackups]
  generalize hup : uploadGroups fails (mapping cloudGs) (targetGroups localGs cloudGs max)
    (ok && !wipedGuard localGs cloudGs) = up at r
  obtain ⟨ups, ok'⟩ := up
  simp only []
  refine ⟨?_, ?_, ?_, ?_, ?_⟩
  · intro g b h
    simp only [List.mem_append] at h
    rcases h with h | h
    · obtain ⟨bs, h1, h2, h3⟩ := r.upload g b h
      obtain ⟨h4, h5⟩ := htm g bs h1
      have hb : b ∈ (lookup (merged localGs cloudGs) g).getD [] := by rw [h4]; exact h2
      have hnc : ¬ InGroups cloudGs g b := fun hc => h3 ((mem_mapping_backups cloudGs g b).mpr hc)
      rcases (mem_merged_backups _ _ _ _).mp hb with hl | hc
      · exact ⟨hl, hnc, h5⟩
      · exact absurd hc hnc
    · obtain ⟨g', heq, _⟩ := (mem_deleteGroups _ _ _ _).mp h; cases heq
  · intro g h
    simp only [List.mem_append] at h
    rcases h with h | h
    · obtain ⟨⟨bs, h1, _⟩, h3⟩ := r.create g h
      refine ⟨?_, (htm g bs h1).2⟩
      intro hc
      have := (lookup_isSome_iff (mapping cloudGs) g).mpr ((mem_keys_mapping cloudGs g).mpr hc)
      rw [h3] at this; cases this
    · obtain ⟨g', heq, _⟩ := (mem_deleteGroups _ _ _ _).mp h; cases heq
  · intro g h
    simp only [List.mem_append] at h
    rcases h with h | h
    · exact absurd h (r.noDelete g)
    · obtain ⟨g', heq, h1, h2, h3⟩ := (mem_deleteGroups _ _ _ _).mp h
      cases heq
      have hc : HasGroup cloudGs g := (mem_keys_mapping cloudGs g).mp h1
      refine ⟨hc, ?_, h3⟩
      intro hw
      exact h2 ((target_window localGs cloudGs max hmax g).mpr ⟨Or.inr hc, hw⟩)
  · intro hok
    obtain ⟨h1, h2⟩ := r.okImp hok
    simp only [Bool.and_eq_true, Bool.not_eq_true'] at h1
    refine ⟨h1.1, h1.2, ?_⟩
    intro g b hl hnc hw
    -- the entry of g in the target
    have hk : g ∈ keys (targetGroups localGs cloudGs max) := by
      obtain ⟨e, he, he1, _⟩ := hl
      exact (target_window localGs cloudGs max hmax g).mpr
        ⟨Or.inl (by rw [← he1]; exact List.mem_map_of_mem he), hw⟩
    obtain ⟨e, he, heq⟩ := List.mem_map.mp hk
    obtain ⟨g', bs⟩ := e
    simp only at heq; subst heq
    obtain ⟨h4, _⟩ := htm g' bs he
    have hb : b ∈ bs := by
      have := (mem_merged_backups localGs cloudGs g' b).mpr (Or.inl hl)
      rw [h4] at this; exact this
    have hne : bs ≠ [] := by intro hc; rw [hc] at hb; cases hb
    obtain ⟨h5, h6⟩ := h2 g' bs he hne
    have hnb : b ∉ (lookup (mapping cloudGs) g').getD [] :=
      fun hc => hnc ((mem_mapping_backups cloudGs g' b).mp hc)
    refine ⟨List.mem_append_left _ (h6 b hb hnb).1, (h6 b hb hnb).2, ?_⟩
    intro hng
    have : lookup (mapping cloudGs) g' = none := by
      cases hl' : lookup (mapping cloudGs) g' with
      | none => rfl
      | some x =>
        have := (lookup_isSome_iff (mapping cloudGs) g').mp (by rw [hl']; rfl)
        exact absurd ((mem_keys_mapping cloudGs g').mp this) hng
    exact ⟨List.mem_append_left _ (h5 this).1, (h5 this).2⟩
  · intro hok g h
    obtain ⟨_, h2⟩ := r.okImp hok
    simp only [List.mem_append] at h
    rcases h with h | h
    · obtain ⟨⟨bs, h3, h4⟩, h5⟩ := r.create g h
      exact ((h2 g bs h3 h4).1 h5).2
    · obtain ⟨g', heq, _⟩ := (mem_deleteGroups _ _ _ _).mp h; cases heq

/-- **Nothing already present is re-uploaded; uploads are confined to the window.** -/
theorem uploads_only_missing (localGs cloudGs : List Group) (ok : Bool) (max : Nat) (hmax : 0 < max)
    (fails : Act → Bool) (g b : Nat)
    (h : Act.upload g b ∈ (syncBackups localGs cloudGs ok max fails).1) :
    InGroups localGs g b ∧ ¬ InGroups cloudGs g b ∧ InWindow localGs cloudGs max g :=
  (run_facts localGs cloudGs ok max hmax fails).1 g b h

/-- **Completeness.** If the run ends without any error, every local backup of a group in the
window that the cloud lacked has been uploaded successfully (its group created if it was missing). -/
theorem uploads_complete (localGs cloudGs : List Group) (ok : Bool) (max : Nat) (hmax : 0 < max)
    (fails : Act → Bool) (hok : (syncBackups localGs cloudGs ok max fails).2 = true)
    (g b : Nat) (hl : InGroups localGs g b) (hc : ¬ InGroups cloudGs g b) (hw : InWindow localGs cloudGs max g) :
    Act.upload g b ∈ (syncBackups localGs cloudGs ok max fails).1 ∧ fails (.upload g b) = false :=
  let r := (run_facts localGs cloudGs ok max hmax fails).2.2.2.1 hok
  ⟨(r.2.2 g b hl hc hw).1, (r.2.2 g b hl hc hw).2.1⟩

/-- **Deletion is of whole old groups only, and only after an error-free run.**  A deleted group is a
listed cloud group outside the window, strictly older than every group in the window, and the run's
final `ok` is true — which requires the incoming `ok` (local verification and both listings), the
safeguard and every group creation and upload to have been clean. -/
theorem deletes_old_whole (localGs cloudGs : List Group) (ok : Bool) (max : Nat) (hmax : 0 < max)
    (fails : Act → Bool) (g : Nat)
    (h : Act.delete g ∈ (syncBackups localGs cloudGs ok max fails).1) :
    HasGroup cloudGs g ∧ ¬ InWindow localGs cloudGs max g ∧
    (∀ t, InWindow localGs cloudGs max t → g < t) ∧
    (syncBackups localGs cloudGs ok max fails).2 = true ∧ ok = true ∧ wipedGuard localGs cloudGs = false ∧
    (∀ a ∈ (syncBackups localGs cloudGs ok max fails).1, (∀ g', a ≠ .delete g') → fails a = false) := by
  have f := run_facts localGs cloudGs ok max hmax fails
  obtain ⟨h1, h2, h3⟩ := f.2.2.1 g h
  have f4 := f.2.2.2.1 h3
  refine ⟨h1, h2, ?_, h3, f4.1, f4.2.1, ?_⟩
  · intro t ht
    apply Classical.byContradiction
    intro hlt
    have := newerNonEmpty_antitone (merged localGs cloudGs) g t (by omega)
    exact h2 (by unfold InWindow at *; omega)
  · intro a ha hnd
    cases a with
    | delete g' => exact absurd rfl (hnd g')
    | upload g' b =>
      obtain ⟨u1, u2, u3⟩ := f.1 g' b ha
      exact (f4.2.2 g' b u1 u2 u3).2.1
    | createGroup g' =>
      exact f.2.2.2.2 h3 g' ha

/-- **Safeguard.** When fewer than two local groups are non-empty and the cloud lists more groups
than that, nothing is deleted. -/
theorem wiped_guard_blocks_delete (localGs cloudGs : List Group) (ok : Bool) (max : Nat) (hmax : 0 < max)
    (fails : Act → Bool) (hg : wipedGuard localGs cloudGs = true) (g : Nat) :
    Act.delete g ∉ (syncBackups localGs cloudGs ok max fails).1 := by
  intro h
  have := (deletes_old_whole localGs cloudGs ok max hmax fails g h).2.2.2.2.2.1
  rw [hg] at this; cases this

theorem hasGroup_of_inGroups {gs : List Group} {g b : Nat} (h : InGroups gs g b) : HasGroup gs g := by
  obtain ⟨e, he, rfl, _⟩ := h
  exact List.mem_map_of_mem he

/-- A group is created only for a non-empty target group: some backup of it is listed on either side. -/
theorem createGroup_has_backup (localGs cloudGs : List Group) (ok : Bool) (max : Nat) (hmax : 0 < max)
    (fails : Act → Bool) (g : Nat) (h : Act.createGroup g ∈ (syncBackups localGs cloudGs ok max fails).1) :
    ∃ b, InGroups localGs g b ∨ InGroups cloudGs g b := by
  have r := uploadGroups_spec fails (mapping cloudGs) (targetGroups localGs cloudGs max)
    (ok && !wipedGuard localGs cloudGs)
  simp only [syncBackups] at h
  generalize hup : uploadGroups fails (mapping cloudGs) (targetGroups localGs cloudGs max)
    (ok && !wipedGuard localGs cloudGs) = up at r h
  obtain ⟨ups, ok'⟩ := up
  simp only [List.mem_append] at h
  rcases h with h | h
  · obtain ⟨⟨bs, hmem, hne⟩, _⟩ := r.create g h
    obtain ⟨h1, _⟩ := (mem_targetGroups localGs cloudGs max hmax (g, bs)).mp hmem
    have hl := lookup_of_mem _ (asc_keys_merged localGs cloudGs) g bs h1
    cases bs with
    | nil => exact absurd rfl hne
    | cons b rest =>
      refine ⟨b, (mem_merged_backups localGs cloudGs g b).mp ?_⟩
      rw [hl]; simp
  · obtain ⟨g', hg', _⟩ := (mem_deleteGroups _ _ _ _).mp h
    cases hg'

/-- Deletion is complete: after an error-free run every listed cloud group outside the window was deleted. -/
theorem deletes_complete (localGs cloudGs : List Group) (ok : Bool) (max : Nat) (hmax : 0 < max) (fails : Act → Bool)
    (hok : (syncBackups localGs cloudGs ok max fails).2 = true) (g : Nat)
    (hc : HasGroup cloudGs g) (hw : ¬ InWindow localGs cloudGs max g) :
    Act.delete g ∈ (syncBackups localGs cloudGs ok max fails).1 := by
  simp only [syncBackups] at hok ⊢
  generalize hup : uploadGroups fails (mapping cloudGs) (targetGroups localGs cloudGs max)
    (ok && !wipedGuard localGs cloudGs) = up at hok ⊢
  obtain ⟨ups, ok'⟩ := up
  simp only at hok ⊢
  subst hok
  apply List.mem_append_right
  rw [mem_deleteGroups]
  refine ⟨g, rfl, (mem_keys_mapping cloudGs g).mpr hc, ?_, rfl⟩
  intro hk
  exact hw ((target_window localGs cloudGs max hmax g).mp hk).2

/-- **converges.**  Let a run be fault-free and end without any error, and let `cloudGs'` be any listing
of the cloud afterwards: the groups and backups it had and that were not deleted, plus what was created
and uploaded.  Then a second run — whatever its failure oracle — transfers nothing, creates nothing and
deletes nothing. -/
theorem converges (localGs cloudGs cloudGs' : List Group) (max : Nat) (hmax : 0 < max)
    (hok : (syncBackups localGs cloudGs true max (fun _ => false)).2 = true)
    (hB : ∀ g b, InGroups cloudGs' g b ↔
      (InGroups cloudGs g b ∧ Act.delete g ∉ (syncBackups localGs cloudGs true max (fun _ => false)).1) ∨
      Act.upload g b ∈ (syncBackups localGs cloudGs true max (fun _ => false)).1)
    (hG : ∀ g, HasGroup cloudGs' g ↔
      (HasGroup cloudGs g ∧ Act.delete g ∉ (syncBackups localGs cloudGs true max (fun _ => false)).1) ∨
      Act.createGroup g ∈ (syncBackups localGs cloudGs true max (fun _ => false)).1)
    (ok' : Bool) (fails' : Act → Bool) :
    (syncBackups localGs cloudGs' ok' max fails').1 = [] := by
  have f1 := run_facts localGs cloudGs true max hmax (fun _ => false)
  have f2 := run_facts localGs cloudGs' ok' max hmax fails'
  simp only at f1 f2
  obtain ⟨u1, c1, d1, comp1, _⟩ := f1
  obtain ⟨u2, c2, d2, _, _⟩ := f2
  have comp := (comp1 hok).2.2
  -- the window is the same before and after
  have hkeep : ∀ t, InWindow localGs cloudGs max t → NE localGs cloudGs t → NE localGs cloudGs' t := by
    intro t hw ⟨b, hb⟩
    rcases hb with hl | hc
    · exact ⟨b, Or.inl hl⟩
    · refine ⟨b, Or.inr ((hB t b).mpr (Or.inl ⟨hc, ?_⟩))⟩
      intro hd; exact (d1 t hd).2.1 hw
  have hsub : ∀ t, NE localGs cloudGs' t → NE localGs cloudGs t := by
    intro t ⟨b, hb⟩
    rcases hb with hl | hc
    · exact ⟨b, Or.inl hl⟩
    · rcases (hB t b).mp hc with ⟨h, _⟩ | h
      · exact ⟨b, Or.inr h⟩
      · exact ⟨b, Or.inl (u1 t b h).1⟩
  have w1 : ∀ g, InWindow localGs cloudGs' max g → InWindow localGs cloudGs max g := by
    intro g h
    apply Classical.byContradiction
    intro hn
    exact outside_stays_outside localGs cloudGs cloudGs' max hmax hkeep g hn h
  have w2 : ∀ g, InWindow localGs cloudGs max g → InWindow localGs cloudGs' max g :=
    fun g => inside_stays_inside localGs cloudGs cloudGs' max hsub g
  -- no action of the second run is possible
  cases hacts : (syncBackups localGs cloudGs' ok' max fails').1 with
  | nil => rfl
  | cons a rest =>
    exfalso
    have ha : a ∈ (syncBackups localGs cloudGs' ok' max fails').1 := by rw [hacts]; simp
    cases a with
    | upload g b =>
      obtain ⟨hl, hnc, hw⟩ := u2 g b ha
      have hw1 := w1 g hw
      apply hnc
      by_cases hcb : InGroups cloudGs g b
      · exact (hB g b).mpr (Or.inl ⟨hcb, fun hd => (d1 g hd).2.1 hw1⟩)
      · exact (hB g b).mpr (Or.inr (comp g b hl hcb hw1).1)
    | createGroup g =>
      obtain ⟨hng, hw⟩ := c2 g ha
      have hw1 := w1 g hw
      -- the second run creates a group only for a non-empty target group: get a local backup of it
      -- (a cloud backup would make the group listed)
      apply hng
      by_cases hcg : HasGroup cloudGs g
      · exact (hG g).mpr (Or.inl ⟨hcg, fun hd => (d1 g hd).2.1 hw1⟩)
      · -- not listed before: the first run must have created it if it has a local backup
        obtain ⟨b, hb⟩ := createGroup_has_backup localGs cloudGs' ok' max hmax fails' g ha
        rcases hb with hl | hc
        · have hcb : ¬ InGroups cloudGs g b := fun h => hcg (hasGroup_of_inGroups h)
          exact (hG g).mpr (Or.inr ((comp g b hl hcb hw1).2.2 hcg).1)
        · exact hasGroup_of_inGroups hc
    | delete g =>
      obtain ⟨hg, hnw, _⟩ := d2 g ha
      apply hnw
      rcases (hG g).mp hg with ⟨hcg, hnd⟩ | hcr
      · apply w2
        apply Classical.byContradiction
        intro hn
        exact hnd (deletes_complete localGs cloudGs true max hmax _ hok g hcg hn)
      · exact w2 g (c1 g hcr).2

/-- Non-vacuity: a state with a local-only group, a cloud-only old group and a shared group. -/
example : syncBackups [(1, [1, 2]), (2, []), (3, [1])] [(0, [5]), (1, [1])] true 2 (fun _ => false)
    = ([.upload 1 2, .createGroup 3, .upload 3 1, .delete 0], true) := by decide

example : wipedGuard [(3, [1])] [(1, [1]), (2, [1])] = true := by decide

/-- … and the cloud as that run leaves it: the second run does nothing. -/
example : (syncBackups [(1, [1, 2]), (2, []), (3, [1])] [(1, [1, 2]), (3, [1])] true 2 (fun _ => false)).1 = [] := by decide


end Vsb.Sync

/-! ## The listings the sync decisions are based on -/
namespace Vsb.ListProto
open Vsb.Proto
variable {α : Type}

/-- **listing_never_partial.**  Whatever the provider's page size and whatever the server answers, a listing
that is reported as successful contains exactly the entries of the directory, in order: a lost page turns the
listing into an error, never into a shorter listing (on which uploads and deletions would be decided). -/
theorem listing_never_partial (pageSize : Nat) (script : Nat → Resp) (l r : List α) (n : Nat) :
    (dropboxList pageSize script (some l) = .ok r n → r = l) ∧
    (yandexList pageSize script (some l) = .ok r n → r = l) ∧
    (∀ k0, googleChildren pageSize script k0 l = .ok r n → r = l) := by
  refine ⟨?_, ?_, ?_⟩
  · intro h; simpa using pagedLoop_ok_exact pageSize _ script l _ 0 1 0 [] r n h
  · intro h; simpa using pagedLoop_ok_exact pageSize _ script l _ 0 1 0 [] r n h
  · intro k0 h; simpa using pagedLoop_ok_exact pageSize _ script l _ 0 1 k0 [] r n h

/-- Every request of a successful listing got a usable reply. -/
theorem listing_fault_is_error (pageSize : Nat) (script : Nat → Resp) (l r : List α) (n : Nat)
    (h : dropboxList pageSize script (some l) = .ok r n ∨ yandexList pageSize script (some l) = .ok r n) :
    ∀ j, j < n → (script j).good = true := by
  intro j hj
  rcases h with h | h
  · exact pagedLoop_fault pageSize _ script l _ 0 1 0 [] r n h j (Nat.zero_le _) hj
  · exact pagedLoop_fault pageSize _ script l _ 0 1 0 [] r n h j (Nat.zero_le _) hj

/-- **listing_complete.**  With a healthy server and any positive page size the listing succeeds (Dropbox and
Google give up after 1000 pages; Yandex has no page limit). -/
theorem listing_complete (pageSize : Nat) (hs : 0 < pageSize) (script : Nat → Resp) (hgood : ∀ k, (script k).good = true)
    (l : List α) :
    (l.length / pageSize < 1000 → ∃ n, dropboxList pageSize script (some l) = .ok l n) ∧
    (∃ n, yandexList pageSize script (some l) = .ok l n) := by
  refine ⟨?_, ?_⟩
  · intro hp
    obtain ⟨n, hn⟩ := pagedLoop_complete pageSize hs (some 1000) script l hgood (l.length + 1) 0 1 0 [] (by omega)
      (by intro lim h; cases h; simp only [Nat.sub_zero]; omega)
    exact ⟨n, by simpa [dropboxList] using hn⟩
  · obtain ⟨n, hn⟩ := pagedLoop_complete pageSize hs none script l hgood (l.length + 1) 0 1 0 [] (by omega)
      (by intro lim h; cases h)
    exact ⟨n, by simpa [yandexList] using hn⟩

example : dropboxList 2 (fun _ => .ok) (some [1, 2, 3, 4, 5]) = .ok [1, 2, 3, 4, 5] 3 := by decide
example : yandexList 2 (fun k => if k = 1 then .reject else .ok) (some [1, 2, 3, 4, 5]) = .err 2 := by decide

end Vsb.ListProto

namespace Vsb.Sync
end Vsb.Sync
