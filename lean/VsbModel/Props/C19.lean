import VsbModel.Props.C08
set_option linter.unusedSimpArgs false

/-!
# C19 — before/after hooks bracket each item exactly once, even on failure
-/
namespace Vsb.Walk

theorem noHook_accessError (p : Path) (top : Bool) (e : Err) (tc : Bool) :
    ∀ ev ∈ (accessError p top e tc).evs, ev.isHook = false := by
  unfold accessError typeChange errorAt warnAt
  repeat' split
  all_goals simp [Ev.isHook]

theorem noHook_andThen (a : Out) (b : Unit → Out) (ha : ∀ e ∈ a.evs, e.isHook = false)
    (hb : ∀ e ∈ (b ()).evs, e.isHook = false) : ∀ e ∈ (a.andThen b).evs, e.isHook = false := by
  unfold Out.andThen
  split
  · exact ha
  · intro e he; simp only [List.mem_append] at he
    rcases he with he | he
    · exact ha e he
    · exact hb e he

mutual
theorem noHook_walkNode (allow : Path → Bool) (p rel : Path) (top : Bool) (n : Node) :
    ∀ e ∈ (walkNode allow p rel top n).evs, e.isHook = false := by
  cases n with
  | lstatFails e => simp only [walkNode]; exact noHook_accessError _ _ _ _
  | file o f s a =>
    simp only [walkNode]
    repeat' split
    all_goals first | exact noHook_accessError _ _ _ _ | simp [typeChange, errorAt, warnAt, abortOut, Ev.isHook] | skip
    all_goals (split <;> simp [Ev.isHook])
  | dir r e a cs =>
    simp only [walkNode]
    split
    · exact noHook_accessError _ _ _ _
    · split
      · exact noHook_accessError _ _ _ _
      · apply noHook_andThen
        · repeat' split
          all_goals simp [abortOut, Ev.isHook]
        · exact noHook_walkChildren allow p rel cs
  | symlink r a =>
    simp only [walkNode]
    repeat' split
    all_goals first | exact noHook_accessError _ _ _ _ | simp [abortOut, Ev.isHook]
  | special =>
    simp only [walkNode]
    split <;> simp [errorAt, warnAt, Ev.isHook]

theorem noHook_walkChildren (allow : Path → Bool) (p rel : Path) (cs : List (String × Bool × Bool × Node)) :
    ∀ e ∈ (walkChildren allow p rel cs).evs, e.isHook = false := by
  cases cs with
  | nil => simp [walkChildren]
  | cons c rest =>
    obtain ⟨name, utf8, pv, node⟩ := c
    simp only [walkChildren]
    apply noHook_andThen
    · split
      · simp [errorAt, Ev.isHook]
      · split
        · split
          · simp [errorAt, Ev.isHook]
          · exact noHook_walkNode allow _ _ false node
        · simp
    · exact noHook_walkChildren allow p rel rest
end

theorem noHook_parentsLoop (parentOf : Path → Parent) (p : Path) :
    ∀ (remaining : List String) (pre : Path) (cache : List Path) (evs : List Ev),
      (∀ e ∈ evs, e.isHook = false) →
      ∀ e ∈ (parentsLoop parentOf p pre remaining cache evs).evs, e.isHook = false := by
  intro remaining
  induction remaining with
  | nil => intro pre cache evs h; simpa [parentsLoop] using h
  | cons c rest ih =>
    intro pre cache evs h
    cases rest with
    | nil => simpa [parentsLoop] using h
    | cons c2 rest2 =>
      simp only [parentsLoop]
      split
      · exact ih _ _ _ h
      · split
        · apply ih
          intro e he; simp only [List.mem_append, List.mem_singleton] at he
          rcases he with he | rfl
          · exact h e he
          · rfl
        all_goals
          intro e he
          simp only [List.mem_append, List.mem_singleton] at he
          first
          | (rcases he with he | rfl
             · exact h e he
             · rfl)
          | exact h e he

/-- The body of an item (prepare, ancestors, walk) never contains a hook event: everything between an
item's `before` and `after` is the reading of that item. -/
theorem noHook_itemBody (parentOf : Path → Parent) (i : Nat) (it : Item) (st : St) :
    ∀ e ∈ (itemBody parentOf i it st).1.evs, e.isHook = false := by
  unfold itemBody
  cases hres : it.resolved with
  | none => simp [itemErr, Ev.isHook]
  | some p =>
    simp only []
    by_cases hov : overlaps st.roots p = true
    · simp [hov, itemErr, Ev.isHook]
    · simp only [hov, Bool.false_eq_true, if_false]
      unfold walkTop
      by_cases hv : it.pathValid = true
      · simp only [hv, Bool.not_true, Bool.false_eq_true, if_false]
        have hp := noHook_parentsLoop parentOf p p [] st.rootParents [] (by simp)
        unfold walkParents
        generalize parentsLoop parentOf p [] p st.rootParents [] = r at hp ⊢
        obtain ⟨pevs, cache', go⟩ := r
        simp only [] at hp ⊢
        cases go with
        | none => exact hp
        | some b =>
          cases b with
          | false => exact hp
          | true =>
            intro e he
            simp only [List.mem_append] at he
            rcases he with he | he
            · exact hp e he
            · exact noHook_walkNode _ _ _ _ _ e he
      · have hv' : it.pathValid = false := by simpa using hv
        simp [hv', errorAt, Ev.isHook]

/-- The trace of a run is a sequence of brackets: for every item reached, in configuration order,
the `before` hook's events (none if absent), then the hook-free body, then the `after` hook's events;
`complete = false` means the run ended with `Err` at the last bracket shown — whose `after` hook has
nevertheless run — and the items after it contribute nothing at all. -/
inductive Bracketed : Nat → List Item → List Ev → Bool → Prop
  | done (i : Nat) : Bracketed i [] [] true
  | aborted (i : Nat) (it : Item) (rest : List Item) (body : List Ev) :
      (∀ e ∈ body, e.isHook = false) →
      Bracketed i (it :: rest) ((hookOut i it.before true).evs ++ body ++ (hookOut i it.after false).evs) false
  | item (i : Nat) (it : Item) (rest : List Item) (body tail : List Ev) (c : Bool) :
      (∀ e ∈ body, e.isHook = false) → Bracketed (i + 1) rest tail c →
      Bracketed i (it :: rest) ((hookOut i it.before true).evs ++ body ++ (hookOut i it.after false).evs ++ tail) c

/-- **C19.** Every item the run reaches has its `before` command run exactly once before anything of
the item is read and its `after` command exactly once after the last of it — also when backing the
item up failed with `Err` — items are processed in configuration order, and items after an aborting
one run nothing. -/
theorem hooks_bracket (parentOf : Path → Parent) :
    ∀ (items : List Item) (i : Nat) (st : St),
      Bracketed i items (trace parentOf i items st).1 (trace parentOf i items st).2.isSome := by
  intro items
  induction items with
  | nil => intro i st; simp [trace]; exact Bracketed.done i
  | cons it rest ih =>
    intro i st
    simp only [trace, runItem]
    by_cases ha : (itemBody parentOf i it st).1.abort = true
    · simp only [ha, if_true, Option.isSome_none]
      exact Bracketed.aborted i it rest _ (noHook_itemBody parentOf i it st)
    · simp only [ha, Bool.false_eq_true, if_false]
      exact Bracketed.item i it rest _ _ _ (noHook_itemBody parentOf i it st) (ih (i + 1) _)

/-- A hook's events: nothing when absent, exactly one execution otherwise. -/
theorem hook_once (i : Nat) (h : Hook) (b : Bool) :
    ((hookOut i h b).evs.filter (fun e => e = (if b then Ev.before i else Ev.after i))).length =
      (if h = .absent then 0 else 1) := by
  cases h <;> cases b <;> simp [hookOut]

/-- **hook_failure_reported.** A hook that cannot be started or exits non-zero is reported at error
level and makes the run's status non-zero. -/
theorem hook_failure_reported (parentOf : Path → Parent) (items : List Item) (finishOk : Bool)
    (i : Nat) (h : Ev.hookFailed i ∈ (run parentOf items finishOk).1) :
    (run parentOf items finishOk).2 ≠ some true := by
  intro hc
  have := ((error_sets_exit parentOf items finishOk).mp hc).2.2 _ h
  simp [Ev.isError] at this

example : (hookOut 3 .fails true).evs = [.before 3, .hookFailed 3] := rfl

end Vsb.Walk
