import VsbModel.Model.FileReader
import VsbModel.Props.C01
set_option linter.unusedSimpArgs false

/-!
# C15 — files changing during a run never corrupt the backup

Whatever a concurrently modified file delivers (any chunking, early EOF, more or fewer bytes than
`fstat` announced), the stream `FileReader` hands to tar has exactly the declared length, starts with
exactly the bytes that were hashed, and is padded with zeros; so the (size, hash) written to the
manifest describe precisely the first `size` bytes of the archive entry — what restore extracts.
-/
namespace Vsb.FileReader
variable {α : Type}

theorem underlying_spec (src : List (List α)) (n : Nat) :
    (underlying src n).1 ++ (underlying src n).2.flatten = src.flatten ∧ (underlying src n).1.length ≤ n := by
  unfold underlying
  split
  · simp
  · simp
  · rename_i c rest _
    split
    · rename_i h; simp; exact h
    · refine ⟨by simp [← List.append_assoc, List.take_append_drop], ?_⟩
      simp only [List.length_take]; exact Nat.min_le_left _ _

/-- Invariant of a reader that started with `fed = []` on `src0` with declared `size`; `out` is what it
has handed out so far. -/
structure Inv (zero : α) (src0 : List (List α)) (size : Nat) (s : St α) (out : List α) : Prop where
  total : out.length + s.left = size
  prefix_ : s.fed ++ s.src.flatten = src0.flatten
  shape : out = s.fed ++ List.replicate (out.length - s.fed.length) zero
  fedLe : s.fed.length ≤ out.length
  notTrunc : s.truncated = false → out = s.fed

theorem read_inv (zero : α) (src0 : List (List α)) (size : Nat) (s : St α) (out : List α) (b : Nat)
    (h : Inv zero src0 size s out) :
    Inv zero src0 size (s.read zero b).1 (out ++ (s.read zero b).2) ∧
    ((s.read zero b).2 = [] → b = 0 ∨ s.left = 0) := by
  obtain ⟨h1, h2, h3, h4, h5⟩ := h
  unfold St.read
  simp only []
  by_cases hn : min b s.left = 0
  · simp only [hn, if_true, List.append_nil]
    refine ⟨⟨h1, h2, h3, h4, h5⟩, ?_⟩
    intro _; omega
  · simp only [hn, if_false]
    by_cases ht : s.truncated = true
    · simp only [ht, if_true]
      refine ⟨⟨?_, h2, ?_, ?_, ?_⟩, ?_⟩
      · simp; omega
      · rw [h3]; simp only [List.append_assoc, List.length_append, List.length_replicate]
        rw [List.replicate_append_replicate]
        congr 2
        simp at h4 ⊢
        try omega
      · simp; omega
      · intro hc; simp [ht] at hc
      · intro hc; have := congrArg List.length hc; simp at this; omega
    · have ht' : s.truncated = false := by simpa using ht
      simp only [ht', Bool.false_eq_true, if_false]
      have hu := underlying_spec s.src (min b s.left)
      have hout : out = s.fed := h5 ht'
      by_cases hd : (underlying s.src (min b s.left)).1.length = 0
      · simp only [hd, if_true]
        have hnil : (underlying s.src (min b s.left)).1 = [] := List.eq_nil_of_length_eq_zero hd
        refine ⟨⟨?_, ?_, ?_, ?_, ?_⟩, ?_⟩
        · simp; omega
        · have := hu.1; rw [hnil] at this; simp at this; rw [this]; exact h2
        · simp only [List.length_append, List.length_replicate]
          rw [hout]; simp
        · simp; omega
        · intro hc; simp at hc
        · intro hc; have := congrArg List.length hc; simp at this; omega
      · simp only [hd, if_false]
        refine ⟨⟨?_, ?_, ?_, ?_, ?_⟩, ?_⟩
        · simp; have := hu.2; omega
        · simp only [List.append_assoc]; rw [hu.1]; exact h2
        · rw [hout]; simp
        · rw [hout]; simp
        · intro _; rw [hout]
        · intro hc; rw [hc] at hd; simp at hd

theorem drain_inv (zero : α) (src0 : List (List α)) (size : Nat) :
    ∀ (bufs : List Nat) (s : St α) (out : List α), Inv zero src0 size s out →
      (∀ b ∈ bufs, 0 < b) →
      Inv zero src0 size (St.drain zero s bufs).1 (out ++ (St.drain zero s bufs).2) ∧
      (s.left < bufs.length → (St.drain zero s bufs).1.left = 0) := by
  intro bufs
  induction bufs with
  | nil => intro s out h _; simp [St.drain]; exact h
  | cons b bs ih =>
    intro s out h hpos
    simp only [St.drain]
    obtain ⟨h1, h2⟩ := read_inv zero src0 size s out b h
    by_cases he : (s.read zero b).2.isEmpty = true
    · simp only [he, if_true, List.append_nil]
      have hnil : (s.read zero b).2 = [] := List.isEmpty_iff.mp he
      rw [hnil, List.append_nil] at h1
      refine ⟨h1, ?_⟩
      intro _
      have hb : 0 < b := hpos b (by simp)
      rcases h2 hnil with h0 | h0
      · omega
      · have := h1.total; have := h.total; omega
    · simp only [he, Bool.false_eq_true, if_false]
      obtain ⟨i1, i2⟩ := ih (s.read zero b).1 (out ++ (s.read zero b).2) h1 (fun x hx => hpos x (by simp [hx]))
      refine ⟨by simpa [List.append_assoc] using i1, ?_⟩
      intro hl
      apply i2
      have hne : (s.read zero b).2 ≠ [] := by intro hc; simp [hc] at he
      have hlen : 0 < (s.read zero b).2.length := List.length_pos_iff.mpr hne
      have t1 := h1.total
      have t0 := h.total
      simp only [List.length_append, List.length_cons] at t1 hl ⊢
      omega

/-- **reader_exact_len / reader_prefix / pad_zero.** For every behaviour of the underlying file and
every sequence of positive buffer sizes long enough to drain it: the stream has exactly the declared
length; it consists of the hashed bytes followed by zeros; `bytes_read` is the number of hashed bytes
(≤ size); and the hashed bytes are a prefix of what the file delivered. -/
theorem reader_spec (zero : α) (src : List (List α)) (size : Nat) (bufs : List Nat)
    (hpos : ∀ b ∈ bufs, 0 < b) (hlen : size < bufs.length) :
    let r := readFile zero src size bufs
    r.1.length = size ∧ r.2.1 = r.2.2.length ∧ r.2.1 ≤ size ∧
    r.1 = r.2.2 ++ List.replicate (size - r.2.1) zero ∧ r.2.2 <+: src.flatten := by
  have hinit : Inv zero src size ({ src := src, left := size } : St α) [] :=
    ⟨by simp, by simp, by simp, by simp, by simp⟩
  obtain ⟨hi, hz⟩ := drain_inv zero src size bufs _ [] hinit hpos
  have hz' := hz hlen
  simp only [List.nil_append] at hi
  unfold readFile
  simp only []
  have ht := hi.total
  rw [hz'] at ht
  have ht' : (St.drain zero ({ src := src, left := size } : St α) bufs).2.length = size := by omega
  refine ⟨ht', trivial, ?_, ?_, ?_⟩
  · have := hi.fedLe; omega
  · have := hi.shape; rw [ht'] at this; exact this
  · exact ⟨_, hi.prefix_⟩

/-- **record_describes_restore.** Whatever the file does between and within the two passes: for a
`unique` record the archive entry has exactly the `fstat` size (the tar stream stays aligned, other
files are unaffected), its first `size` bytes are exactly the bytes whose hash is recorded, and they
are a prefix of what the file delivered during the archiving pass; an `extern` record carries the hash
and length of a prefix delivered during the hashing pass, which the group already stores. -/
theorem record_describes_restore (zero : α) (size : Nat) (pass1 pass2 : List (List α)) (bufs1 bufs2 : List Nat)
    (known : List α → Bool)
    (hp1 : ∀ b ∈ bufs1, 0 < b) (hl1 : size < bufs1.length) (hp2 : ∀ b ∈ bufs2, 0 < b) (hl2 : size < bufs2.length) :
    match addFile zero size pass1 pass2 bufs1 bufs2 known with
    | .unique hashed n entry =>
        entry.length = size ∧ n = hashed.length ∧ n ≤ size ∧ entry.take n = hashed ∧ hashed <+: pass2.flatten
    | .extern_ hashed n =>
        n = hashed.length ∧ n ≤ size ∧ hashed <+: pass1.flatten ∧ (size ≠ 0 → known hashed = true) := by
  unfold addFile
  by_cases hs : size = 0
  · simp [hs]
  · simp only [hs, if_false]
    have r1 := reader_spec zero pass1 size bufs1 hp1 hl1
    have r2 := reader_spec zero pass2 size bufs2 hp2 hl2
    simp only [] at r1 r2
    by_cases hk : known (readFile zero pass1 size bufs1).2.2 = true
    · simp only [hk, if_true]
      exact ⟨r1.2.1, r1.2.2.1, r1.2.2.2.2, fun _ => trivial⟩
    · simp only [hk, Bool.false_eq_true, if_false]
      refine ⟨r2.1, r2.2.1, r2.2.2.1, ?_, r2.2.2.2.2⟩
      rw [r2.2.2.2.1, r2.2.1]
      simp

/-- Non-vacuity: a file announced with 6 bytes that delivers 4 and then ends. -/
example : readFile (0 : Nat) [[1, 2], [3, 4], []] 6 [3, 3, 3, 3, 3, 3, 3] = ([1, 2, 3, 4, 0, 0], 4, [1, 2, 3, 4]) := by decide
/-- …and one that grew: only the announced 3 bytes are taken. -/
example : readFile (0 : Nat) [[1, 2, 3, 4, 5]] 3 [8, 8, 8, 8] = ([1, 2, 3], 3, [1, 2, 3]) := by decide

/-! ### From the reader to restore: the archive entry of a file that changed is `padded`, and restores to the bytes read -/

/-- The archive entry `addFile` writes for a stored file is the bytes that were read and hashed, followed by zeros up to the
announced size - the form `Restore.padded` gives to the entries of a logical backup (`LBackup.pad`); the bytes read may be
none at all. -/
theorem unique_entry_padded (zero : α) (size : Nat) (pass1 pass2 : List (List α)) (bufs1 bufs2 : List Nat)
    (known : List α → Bool)
    (hp2 : ∀ b ∈ bufs2, 0 < b) (hl2 : size < bufs2.length)
    (hashed entry : List α) (n : Nat)
    (h : addFile zero size pass1 pass2 bufs1 bufs2 known = .unique hashed n entry) (p : String) :
    entry = Restore.padded (fun _ => List.replicate (size - n) zero) p hashed := by
  have r2 := reader_spec zero pass2 size bufs2 hp2 hl2
  simp only [] at r2
  unfold addFile at h
  by_cases hs : size = 0
  · simp [hs] at h
  · simp only [hs, if_false] at h
    by_cases hk : known (readFile zero pass1 size bufs1).2.2 = true
    · simp [hk] at h
    · simp only [hk, Bool.false_eq_true, if_false, Outcome.unique.injEq] at h
      obtain ⟨h1, h2, h3⟩ := h
      subst h1 h2 h3
      exact r2.2.2.2.1

/-- **changed_file_restores** (C15's "the recorded size and hash describe precisely the bytes restore will produce", through
C01's `restore_exact`).  In a group as `vsb backup` writes it - every stored file's archive entry being its content followed
by arbitrary padding `lb.pad` (zeros up to the size announced before the file shrank; `unique_entry_padded`), its record
carrying the length and hash of the content alone - restoring any well-formed, resolvable target exits 0 and every file,
padded entry or not, holds exactly its content: the bytes that were read and hashed. -/
theorem changed_file_restores {H β : Type} [DecidableEq H] (hashOf : List β → H) (hinj : ∀ a b : List β, hashOf a = hashOf b → a = b)
    (lg : List (Restore.LBackup β)) (group : List (Restore.Backup H β))
    (hG : ∀ (j : Nat) (lb : Restore.LBackup β), lg[j]? = some lb → group[j]? = some (Restore.render hashOf lb))
    (t : Nat) (lt : Restore.LBackup β) (hlt : lg[t]? = some lt)
    (hwf : ∀ (j : Nat) (lb : Restore.LBackup β), j ≤ t → lg[j]? = some lb → Restore.WFArchive lb.es)
    (hres : Restore.ResolvableL lg t lt) :
    ∃ fs, Restore.restore hashOf group t = .done fs true ∧
      ∀ p m d, Restore.Entry.file p m d ∈ lt.es → Restore.fsGet fs (Restore.fpOf (.file p m d : Restore.Entry β)) = some (.file d (some m)) := by
  obtain ⟨fs, h1, h2⟩ := Restore.restore_exact hashOf hinj lg group hG t lt hlt hwf hres
  exact ⟨fs, h1, fun p m d he => by
    rw [h2]
    exact Restore.fsGet_map_mem lt.es Restore.nodeOf _ he (hwf t lt (Nat.le_refl _) hlt).nodup⟩

/-- Non-vacuity of the padded form: the entry of a file announced with 6 bytes of which 4 were there, and of one cut to
nothing before it was read. -/
example : Restore.padded (fun _ => List.replicate (3 - 0) (0 : Nat)) "f" [] = [0, 0, 0] := by decide

example : Restore.padded (fun _ => List.replicate (6 - 4) (0 : Nat)) "f" [1, 2, 3, 4] = [1, 2, 3, 4, 0, 0] := by decide

end Vsb.FileReader
