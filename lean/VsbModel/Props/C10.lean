import VsbModel.Lemmas.Metadata
import VsbModel.Props.C09
import VsbModel.Model.Logical
set_option linter.unusedSimpArgs false

/-!
# C10 — a truthful one-line-per-file manifest

(1) The manifest line format round-trips for every record the code can write (any hash bytes, any
u64 device/inode/size, any i128 mtime, any path without CR/LF — including paths with spaces).
(2) What a run writes is truthful with respect to what it was given (`FileEv` = the source file's
fingerprint, length and SHA-512), with the recorded hash inherited from the previous backup only on
the fingerprint short-cut.
-/
namespace Vsb.Metadata

/-- Records `MetadataWriter` can be asked to write. -/
structure Item.WF (r : Item) : Prop where
  hashBytes : ∀ b ∈ r.hash, b < 256
  device : r.fp.device ≤ u64Max
  inode : r.fp.inode ≤ u64Max
  mtimeLo : i128Min ≤ r.fp.mtimeNs
  mtimeHi : r.fp.mtimeNs ≤ i128Max
  size : r.size ≤ u64Max

theorem fingerprint_roundtrip (f : Fingerprint) (h1 : f.device ≤ u64Max) (h2 : f.inode ≤ u64Max)
    (h3 : i128Min ≤ f.mtimeNs) (h4 : f.mtimeNs ≤ i128Max) : Fingerprint.decode f.encode = some f := by
  unfold Fingerprint.decode Fingerprint.encode
  have c1 : ':' ∉ natDigits f.device := natDigits_no _ _ (by decide)
  have c2 : ':' ∉ natDigits f.inode := natDigits_no _ _ (by decide)
  have c3 : ':' ∉ showInt f.mtimeNs := showInt_no _ _ (by decide) (by decide)
  have : splitOn ':' (natDigits f.device ++ [':'] ++ natDigits f.inode ++ [':'] ++ showInt f.mtimeNs) =
      [natDigits f.device, natDigits f.inode, showInt f.mtimeNs] := by
    have e : natDigits f.device ++ [':'] ++ natDigits f.inode ++ [':'] ++ showInt f.mtimeNs =
        natDigits f.device ++ ':' :: (natDigits f.inode ++ ':' :: showInt f.mtimeNs) := by simp
    rw [e, splitOn_append _ _ _ c1, splitOn_append _ _ _ c2, splitOn_none _ _ c3]
  rw [this]
  simp only [parseU64_natDigits _ h1, parseU64_natDigits _ h2, parseI128_showInt _ h3 h4]

/-- **decode_encode.** Every well-formed record — whatever its path, spaces included — is read back
exactly as written. -/
theorem decode_encode (r : Item) (h : r.WF) : Item.decode r.encode = some r := by
  obtain ⟨u, hash, fp, size, path⟩ := r
  have s1 : ' ' ∉ hexEncode hash := hexEncode_no_space hash h.hashBytes
  have s2 : ' ' ∉ fp.encode := by
    simp only [Fingerprint.encode, List.mem_append, List.mem_singleton, not_or]
    exact ⟨⟨⟨⟨natDigits_no _ _ (by decide), by decide⟩, natDigits_no _ _ (by decide)⟩, by decide⟩,
      showInt_no _ _ (by decide) (by decide)⟩
  have s3 : ' ' ∉ natDigits size := natDigits_no _ _ (by decide)
  have hfp := fingerprint_roundtrip fp h.device h.inode h.mtimeLo h.mtimeHi
  have hsz := parseU64_natDigits size h.size
  have hhx := hexDecode_hexEncode hash h.hashBytes
  cases u with
  | true =>
    have e : Item.encode ⟨true, hash, fp, size, path⟩ =
        "unique".toList ++ ' ' :: (hexEncode hash ++ ' ' :: (fp.encode ++ ' ' :: (natDigits size ++ ' ' :: path))) := by
      simp [Item.encode]
    rw [e]
    unfold Item.decode
    rw [splitSpace_append _ _ (by decide)]
    have d1 : ("unique".toList = "extern".toList) = False := by decide
    simp only [splitSpace_append _ _ s1, splitSpace_append _ _ s2, splitSpace_append _ _ s3, hfp, hsz, hhx, d1,
      if_true, if_false]
  | false =>
    have e : Item.encode ⟨false, hash, fp, size, path⟩ =
        "extern".toList ++ ' ' :: (hexEncode hash ++ ' ' :: (fp.encode ++ ' ' :: (natDigits size ++ ' ' :: path))) := by
      simp [Item.encode]
    rw [e]
    unfold Item.decode
    rw [splitSpace_append _ _ (by decide)]
    have d1 : ("unique".toList = "extern".toList) = False := by decide
    simp only [splitSpace_append _ _ s1, splitSpace_append _ _ s2, splitSpace_append _ _ s3, hfp, hsz, hhx, d1,
      if_true, if_false]

/-- Non-vacuity: a path with spaces, a negative mtime, the largest inode. -/
example : Item.decode (Item.encode ⟨true, [0, 255, 16], ⟨2049, 2^64 - 1, -5⟩, 42, "/a b  c ".toList⟩)
    = some ⟨true, [0, 255, 16], ⟨2049, 2^64 - 1, -5⟩, 42, "/a b  c ".toList⟩ := by
  apply decode_encode
  constructor <;> simp [u64Max, i128Min, i128Max]

end Vsb.Metadata

namespace Vsb.Dedup
variable {H F P : Type} [DecidableEq H] [DecidableEq F] [DecidableEq P]

/-- **truthful (one file).** The record written for a file carries the file's own path,
fingerprint and size (0 for an empty file); its hash is the file's hash, except on the fingerprint
short-cut, where it is the hash recorded for the same path and fingerprint in the previous backup. -/
theorem record_truthful (emptyHash : H) (known : List H) (last : Option (List (Rec H F P))) (e : FileEv H F P) :
    let r := (dedupOne emptyHash known last e).record
    r.path = e.path ∧ r.fp = e.fp ∧ r.size = e.size ∧
    (e.size = 0 → r.hash = emptyHash) ∧
    (e.size ≠ 0 → ¬ Shortcut last e → r.hash = e.hash) ∧
    (e.size ≠ 0 → ∀ l p, last = some l → lookupLast l e.path = some p → p.fp = e.fp → r.hash = p.hash) := by
  unfold dedupOne Shortcut
  by_cases hs : e.size = 0
  · simp [hs]
  · cases last with
    | none => by_cases hk : e.hash ∈ known <;> simp [hs, hk]
    | some l =>
      cases hl : lookupLast l e.path with
      | none =>
        by_cases hk : e.hash ∈ known <;> simp [hs, hk, hl] <;>
          (intro l' p hl' hp; subst hl'; rw [hl] at hp; cases hp)
      | some r =>
        by_cases hf : r.fp = e.fp <;> by_cases hk : e.hash ∈ known <;> simp [hs, hk, hl, hf] <;>
          (intro l' p hl' hp; subst hl'; rw [hl] at hp; cases hp; first | (intro _; rfl) | (intro h'; exact absurd h' hf))

/-- **one line per file, in order** (`lines_entries` at manifest level): the manifest has exactly
one record per file handed to `add_file`, in the same order, for the same paths. -/
theorem records_paths (emptyHash : H) (known : List H) (last : Option (List (Rec H F P))) (es : List (FileEv H F P)) :
    (records (runFiles emptyHash known last es)).map (·.path) = es.map (·.path) := by
  induction es generalizing known with
  | nil => rfl
  | cons e es ih =>
    simp only [runFiles, records, List.map_cons, List.map_map] at ih ⊢
    rw [ih]
    have := (record_truthful emptyHash known last e).1
    rw [this]

end Vsb.Dedup

/-! ### Archive and manifest of one backup agree (the rendering of a logical backup) -/
namespace Vsb.Restore
variable {H β : Type} [DecidableEq H]

def Entry.data : Entry β → List β
  | .file _ _ d => d
  | _ => []

/-- The regular-file entries of an archive, in order. -/
def fileEntries (es : List (Entry β)) : List (Entry β) :=
  es.filter (fun e => match e with | .file _ _ _ => true | _ => false)

/-- **archive_manifest_agree.**  In what `vsb backup` writes for any tree and any choice of stored files (`render`):
the manifest has exactly one record per regular-file entry of the archive, in the same order, for the same path;
a `unique` record's entry carries at least `size` bytes, the first `size` of which hash to `hash` (exactly `size` bytes
when the file did not shrink while it was archived: `pad = []`); the entry of every other record carries no
data; and the archive has the same entries, in the same order and with the same headers, as the tree (only file
data is dropped for files not stored here). -/
theorem archive_manifest_agree (hashOf : List β → H) (lb : LBackup β) :
    ∃ recs, (render hashOf lb).manifest = some recs ∧
      recs.length = (fileEntries (render hashOf lb).archive).length ∧
      (∀ (i : Nat) (r : MRec H) (e : Entry β), recs[i]? = some r → (fileEntries (render hashOf lb).archive)[i]? = some e →
        r.path = keyE e ∧
        (r.unique = true → r.size ≤ e.data.length ∧ hashOf (e.data.take r.size) = r.hash ∧
          (lb.pad = (fun _ => []) → e.data.length = r.size)) ∧
        (r.unique = false → e.data = [])) ∧
      (render hashOf lb).archive.map fpOf = lb.es.map fpOf := by
  refine ⟨_, rfl, ?_, ?_, ?_⟩
  · simp only [render, fileEntries]
    generalize lb.es = es
    induction es with
    | nil => rfl
    | cons e rest ih => cases e <;> simp [List.filterMap_cons, List.filter_cons, recG, stripE, ih]
  · simp only [render, fileEntries]
    generalize lb.es = es
    induction es with
    | nil => intro i r e h; simp at h
    | cons x rest ih =>
      intro i r e hr he
      cases x with
      | file p m d =>
        simp only [List.filterMap_cons, recG, List.map_cons, stripE, List.filter_cons, if_true] at hr he
        cases i with
        | zero =>
          simp only [List.getElem?_cons_zero, Option.some.injEq] at hr he
          subst hr; subst he
          refine ⟨rfl, ?_, ?_⟩
          · intro hu
            have hu' : lb.stored p = true := hu
            simp only [Entry.data, hu', if_true, padded]
            refine ⟨by simp, by simp, ?_⟩
            intro hp
            simp [hp]
          · intro hu
            have hu' : lb.stored p = false := hu
            simp [Entry.data, hu']
        | succ i =>
          simp only [List.getElem?_cons_succ] at hr he
          exact ih i r e hr he
      | dir p m => simpa [List.filterMap_cons, recG, stripE, List.filter_cons] using ih i r e (by simpa [List.filterMap_cons, recG] using hr) (by simpa [stripE, List.filter_cons] using he)
      | symlink p m t => simpa [List.filterMap_cons, recG, stripE, List.filter_cons] using ih i r e (by simpa [List.filterMap_cons, recG] using hr) (by simpa [stripE, List.filter_cons] using he)
      | other p => simpa [List.filterMap_cons, recG, stripE, List.filter_cons] using ih i r e (by simpa [List.filterMap_cons, recG] using hr) (by simpa [stripE, List.filter_cons] using he)
  · simp only [render, List.map_map]
    apply List.map_congr_left
    intro e _
    cases e <;> rfl

end Vsb.Restore
