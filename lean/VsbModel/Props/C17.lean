import VsbModel.Lemmas.Split
import VsbModel.Lemmas.Budget

/-!
# C17 — ciphertext is split into request bodies without loss, overlap or oversize

All theorems are about `Vsb.Split.splitter` (model of `stream_splitter::splitter`) for **every**
message list, every positive maximum (or `none` = unlimited); nothing is bounded.
`bodiesOf evs` is what a consumer reconstructs from the event sequence, oldest body first.
-/
namespace Vsb.Split
variable {α : Type}

/-- Offsets are cumulative, counting from `start` (oldest-first list). -/
def OffsetsFrom : Nat → List (Body α) → Prop
  | _, [] => True
  | start, b :: bs => b.offset = start ∧ OffsetsFrom (start + b.bytes.length) bs

theorem catRev_eq_flatMap (bs : List (Body α)) : catRev bs = bs.reverse.flatMap (·.bytes) := by
  induction bs with
  | nil => rfl
  | cons b bs ih => simp [catRev, ih, List.flatMap_append]

theorem offsetsFrom_append (start : Nat) (xs : List (Body α)) (b : Body α) :
    OffsetsFrom start xs → b.offset = start + total xs → OffsetsFrom start (xs ++ [b]) := by
  induction xs generalizing start with
  | nil => intro _ h; simpa [OffsetsFrom] using h
  | cons x xs ih =>
    intro h hb
    simp only [OffsetsFrom, List.cons_append] at h ⊢
    refine ⟨h.1, ih _ h.2 ?_⟩
    simp at hb; omega

theorem total_reverse (bs : List (Body α)) : total bs.reverse = total bs := by
  simp [total, List.sum_reverse]

theorem offsOk_offsetsFrom (bs : List (Body α)) (h : OffsOk bs) : OffsetsFrom 0 bs.reverse := by
  induction bs with
  | nil => trivial
  | cons b bs ih =>
    simp only [OffsOk] at h
    simp only [List.reverse_cons]
    exact offsetsFrom_append 0 _ _ (ih h.2) (by simp [total_reverse, h.1])

theorem prefixData_payloads (payloads : List (List α)) (rest : List (Msg α))
    (h : prefixData rest = []) :
    prefixData (payloads.map Msg.payload ++ rest) = payloads.flatten := by
  induction payloads with
  | nil => simpa using h
  | cons p ps ih => simp [prefixData, ih]

theorem firstTerm_payloads (payloads : List (List α)) (rest : List (Msg α)) :
    firstTerm (payloads.map Msg.payload ++ rest) = firstTerm rest := by
  induction payloads with
  | nil => simp
  | cons p ps ih => simp [firstTerm, ih]

/-- **C17, main statement.** For every message sequence and a consumer that keeps reading, the
request bodies (1) concatenate, in order, to exactly the payload bytes sent before the first
terminal message, (2) are non-empty, (3) never exceed the maximum, (4) all but the last have
exactly the maximum size, (5) are announced with cumulative offsets, (6) there is a single body
when the size is unlimited, and (7) the consumer never sees a protocol violation nor both a
finalisation and an error. -/
theorem bodies_spec (max : Option Nat) (hmax : MaxOk max) (msgs : List (Msg α)) :
    let evs := (splitter max none msgs).1
    (bodiesOf evs).flatMap (·.bytes) = prefixData msgs ∧
    (∀ b ∈ bodiesOf evs, 0 < b.bytes.length) ∧
    (∀ m, max = some m → ∀ b ∈ bodiesOf evs, b.bytes.length ≤ m) ∧
    (∀ m, max = some m → ∀ b ∈ (bodiesOf evs).dropLast, b.bytes.length = m) ∧
    OffsetsFrom 0 (bodiesOf evs) ∧
    (max = none → (bodiesOf evs).length ≤ 1) ∧
    (view evs).bad = false ∧
    ((view evs).final = none ∨ (view evs).error = none) := by
  have r := run_spec max hmax msgs {} [] (inv_init max)
  have hg := r.good
  have hc := r.cat
  simp only [splitter, bodiesOf]
  refine ⟨?_, ?_, ?_, ?_, ?_, ?_, hg.notBad, hg.notBoth⟩
  · rw [← catRev_eq_flatMap, hc]; simp [view, catRev]
  · intro b hb; exact hg.nonempty b (List.mem_reverse.mp hb)
  · intro m hm b hb; exact hg.leMax m hm b (List.mem_reverse.mp hb)
  · intro m hm b hb
    rw [List.dropLast_reverse] at hb
    exact hg.butLastFull m hm b (List.mem_reverse.mp hb)
  · exact offsOk_offsetsFrom _ hg.offs
  · intro hn; simpa using hg.single hn
  
/-- **Finalisation.** If the upstream ends with `EofWithChecksum c`, the sequence is finalised —
as its very last event — with the total size of all bodies and that checksum, with no error. -/
theorem final_total_checksum (max : Option Nat) (hmax : MaxOk max) (payloads : List (List α)) (c : Nat) :
    let evs := (splitter max none (payloads.map Msg.payload ++ [Msg.eof c])).1
    let n := payloads.flatten.length
    evs.getLast? = some (Ev.eof n c) ∧ (view evs).final = some (n, c) ∧ (view evs).error = none ∧
    (bodiesOf evs).flatMap (·.bytes) = payloads.flatten ∧
    (splitter max none (payloads.map Msg.payload ++ [Msg.eof c])).2 = .ok := by
  have hpd : prefixData (payloads.map Msg.payload ++ [Msg.eof c]) = payloads.flatten :=
    prefixData_payloads payloads _ (by simp [prefixData])
  have hft : firstTerm (payloads.map Msg.payload ++ [Msg.eof c]) = some (Msg.eof c, []) := by
    rw [firstTerm_payloads]; simp [firstTerm]
  have r := run_spec max hmax (payloads.map Msg.payload ++ [Msg.eof c]) {} [] (inv_init max)
  have h := r.eof c [] hft
  have hb := (bodies_spec max hmax (payloads.map Msg.payload ++ [Msg.eof c])).1
  simp only [hpd] at h hb
  simp only [splitter]
  have hz : ({} : St).offset + payloads.flatten.length = payloads.flatten.length := by simp
  rw [hz] at h
  exact ⟨h.2.2.2.1, h.1, h.2.1, hb, by simpa using h.2.2.2.2⟩

/-- **Error instead of finalisation, never both, nothing after.** If the upstream reports an
error `e` (after any payloads, followed by anything), the consumer's last event is that error and
no finalisation is ever seen; all payload bytes before it were delivered. -/
theorem error_xor_final (max : Option Nat) (hmax : MaxOk max) (payloads : List (List α)) (e : String)
    (rest : List (Msg α)) :
    let evs := (splitter max none (payloads.map Msg.payload ++ Msg.err e :: rest)).1
    evs.getLast? = some (Ev.err e) ∧ (view evs).error = some e ∧ (view evs).final = none ∧
    (bodiesOf evs).flatMap (·.bytes) = payloads.flatten := by
  have hpd : prefixData (payloads.map Msg.payload ++ Msg.err e :: rest) = payloads.flatten :=
    prefixData_payloads payloads _ (by simp [prefixData])
  have hft : firstTerm (payloads.map Msg.payload ++ Msg.err e :: rest) = some (Msg.err e, rest) := by
    rw [firstTerm_payloads]; simp [firstTerm]
  have r := run_spec max hmax (payloads.map Msg.payload ++ Msg.err e :: rest) {} [] (inv_init max)
  have h := r.err e rest hft
  have hb := (bodies_spec max hmax (payloads.map Msg.payload ++ Msg.err e :: rest)).1
  simp only [hpd] at hb
  simp only [splitter]
  exact ⟨h.2.2.2.1, h.1, h.2.1, hb⟩

/-- **Sender hang-up.** If all senders disappear without a terminal message the splitter fails
and the consumer sees neither finalisation nor error message (its channel is closed instead). -/
theorem hangup_fails (max : Option Nat) (hmax : MaxOk max) (payloads : List (List α)) :
    let out := splitter max none (payloads.map Msg.payload)
    out.2 = .recvClosed ∧ (view out.1).final = none ∧ (view out.1).error = none := by
  have hft : firstTerm (payloads.map (Msg.payload (α := α))) = none := by
    have := firstTerm_payloads payloads ([] : List (Msg α))
    simpa [firstTerm] using this
  have r := run_spec max hmax (payloads.map Msg.payload) {} [] (inv_init max)
  exact r.hangup hft

/-- Non-vacuity: a concrete run with a split in the middle of a block and an exact fill. -/
example : (bodiesOf (splitter (some 3) none [Msg.payload [1,2], Msg.payload [3,4,5,6], Msg.eof 9]).1)
    = [⟨0, [1,2,3]⟩, ⟨3, [4,5,6]⟩] := by decide

example : (splitter (some 3) none [Msg.payload [1,2], Msg.payload [3,4,5,6], Msg.eof 9]).1
    = [.stream 0, .chunk [1,2], .chunk [3], .close, .stream 3, .chunk [4,5,6], .close, .eof 6 9] := by decide


/-! ### A receiver that stops early -/

theorem firstTerm_not_payload (msgs : List (Msg α)) (m : Msg α) (rest : List (Msg α))
    (h : firstTerm msgs = some (m, rest)) : (∃ c, m = .eof c) ∨ (∃ e, m = .err e) := by
  induction msgs with
  | nil => cases h
  | cons x xs ih =>
    cases x with
    | payload d => exact ih (by simpa [firstTerm] using h)
    | eof c => simp only [firstTerm, Option.some.injEq, Prod.mk.injEq] at h; exact Or.inl ⟨c, h.1.symm⟩
    | err e => simp only [firstTerm, Option.some.injEq, Prod.mk.injEq] at h; exact Or.inr ⟨e, h.1.symm⟩

/-- With a consumer that keeps reading, the splitter never fails on a send. -/
theorem unlimited_never_sendClosed (max : Option Nat) (hmax : MaxOk max) (msgs : List (Msg α)) :
    (splitter max none msgs).2 ≠ .sendClosed := by
  have r := run_spec max hmax msgs {} [] (inv_init max)
  unfold splitter
  cases hft : firstTerm msgs with
  | none => rw [(r.hangup hft).1]; intro h; cases h
  | some mr =>
    obtain ⟨m, rest⟩ := mr
    rcases firstTerm_not_payload msgs m rest hft with ⟨c, rfl⟩ | ⟨e, rfl⟩
    · rw [(r.eof c rest hft).2.2.2.2]; split <;> (intro h; cases h)
    · rw [(r.err e rest hft).2.2.2.2]; split <;> (intro h; cases h)

/-- **abandon_fails.** A consumer that accepts only `n` sends (stream announcements, chunks, the terminal
message) and then goes away: if the whole conversation needs at most `n` sends nothing changes; otherwise
exactly the first `n` sends are made, the next one fails, and the splitter returns the error "the receiver
has been closed" at once instead of blocking — for every message list and every limit. -/
theorem abandon_fails (max : Option Nat) (hmax : MaxOk max) (msgs : List (Msg α)) (n : Nat) :
    (nSends (splitter max none msgs).1 ≤ n → splitter max (some n) msgs = splitter max none msgs) ∧
    (n < nSends (splitter max none msgs).1 →
      (splitter max (some n) msgs).2 = .sendClosed ∧ nSends (splitter max (some n) msgs).1 = n) := by
  have h := run_budget max msgs {} n [] (unlimited_never_sendClosed max hmax msgs)
  unfold splitter
  refine ⟨fun hle => h.2.1 (by simpa using hle), fun hlt => ?_⟩
  have := h.2.2 (by simpa using hlt)
  exact ⟨this.1, (by simpa using this.2)⟩

example : splitter (some 2) (some 3) [Msg.payload [1,2,3], Msg.eof 7] =
    ([Ev.stream 0, Ev.chunk [1,2], Ev.close, Ev.stream 2], .sendClosed) := by decide

end Vsb.Split
