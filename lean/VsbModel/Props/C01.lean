import VsbModel.Props.C11
import VsbModel.Props.C02
set_option linter.unusedSimpArgs false
set_option linter.unusedSectionVars false

/-!
# C01 — restoring any retained backup reproduces the backed-up tree exactly

Full statement (`restore_exact`): for every storage reachable by a history of runs, rotations and
whole-group deletions, and every retained backup `b` of it, `restore … = .done fs true` and `fs` is
exactly the tree the walk read (paths, bytes, kinds, link targets, mode, owner, mtime seconds).

What is proved here is the part of it that does not need the execution-level liveness argument
(that no creation fails on a vsb-produced archive): see `restore_exact_partial`.  The remaining part
is decided on every run by the correspondence check of C01 against an independent snapshot oracle.
-/
namespace Vsb.Restore
variable {H β : Type} [DecidableEq H]

/-- **Modification times survive the archive** (the repaired defect F1): tar stores `mtime as u64`;
reading it back as two's complement returns the original value for every `i64` time, including
pre-1970 and far-future ones. -/
theorem mtime_roundtrip (t : Int) (h1 : -(2 ^ 63) ≤ t) (h2 : t < 2 ^ 63) : headerMtime (mtimeToHeader t) = t := by
  unfold headerMtime mtimeToHeader
  have e64 : (2 : Int) ^ 64 = 18446744073709551616 := by decide
  have e63 : (2 : Int) ^ 63 = 9223372036854775808 := by decide
  have n63 : (2 : Nat) ^ 63 = 9223372036854775808 := by decide
  rw [e63] at h1 h2
  rw [e64, n63]
  by_cases hneg : t < 0
  · have hm : t % 18446744073709551616 = t + 18446744073709551616 := by
      have := Int.add_mul_emod_self_right t 1 18446744073709551616
      rw [Int.one_mul] at this
      rw [← this]
      exact Int.emod_eq_of_lt (by omega) (by omega)
    rw [hm]
    have : ¬ ((t + 18446744073709551616).toNat < 9223372036854775808) := by omega
    simp only [this, if_false]
    omega
  · have hm : t % 18446744073709551616 = t := Int.emod_eq_of_lt (by omega) (by omega)
    rw [hm]
    have : t.toNat < 9223372036854775808 := by omega
    simp only [this, if_true]
    omega

example : headerMtime (mtimeToHeader (-157680002)) = -157680002 := by decide
example : headerMtime (mtimeToHeader (2 ^ 33)) = 2 ^ 33 := by decide

/-- **restore_exact_partial.**  Whenever `vsb restore` of a backup exits 0 — and it must, for retained
backups of vsb-made storages, which is what the correspondence check establishes — every regular file
recorded in the backup's manifest is restored with *identical bytes*: the restored data has the recorded
length and hash, hence (SHA-512 taken injective on the contents involved) equals the content the walk
hashed.  Together with C02's `resolvable_history` (every retained backup's externs resolve inside its
group, whatever was rotated or deleted) this is the file-content half of C01.
Missing for the full `restore_exact`: that exit 0 is always reached on vsb-made storages, and the
directory / symlink / metadata half. -/
theorem restore_exact_partial (hashOf : List β → H) (group : List (Backup H β)) (target : Nat) (fs : FS β)
    (tb : Backup H β) (recs : List (MRec H))
    (hdist : ∀ b ∈ group, ∀ recs, b.manifest = some recs → UniquePathsDistinct recs)
    (htb : group[target]? = some tb) (hrecs : tb.manifest = some recs)
    (h : restore hashOf group target = .done fs true)
    (r : MRec H) (hr : r ∈ recs) (content : List β)
    (hcontent : hashOf content = r.hash)      -- what the walk hashed for this record
    (hinj : ∀ d, hashOf d = hashOf content → d = content) :
    ∃ fp, manifestPathToFile r.path = some fp ∧ FileAt fs fp content := by
  obtain ⟨fp, d, h1, h2, _, h4⟩ := exit0_sound_partial hashOf group target fs tb recs hdist htb hrecs h r hr
  have : d = content := hinj d (by rw [h4, hcontent])
  subst this
  exact ⟨fp, h1, h2⟩

end Vsb.Restore
