import VsbModel.Props.C11
import VsbModel.Props.C02
import VsbModel.Lemmas.RestoreSingle
import VsbModel.Lemmas.PathRoundTrip
import VsbModel.Lemmas.PlanFacts
import VsbModel.Lemmas.GeneralCheck
import VsbModel.Lemmas.LogicalRun
import VsbModel.Lemmas.WalkArchive
set_option linter.unusedSimpArgs false
set_option linter.unusedSectionVars false

/-!
# C01 — restoring any retained backup reproduces the backed-up tree exactly

Full statement (`restore_exact`): for every storage reachable by a history of runs, rotations and
whole-group deletions, and every retained backup `b` of it, `restore … = .done fs true` and `fs` is
exactly the tree the walk read (paths, bytes, kinds, link targets, mode, owner, mtime seconds).

`restore_exact` below proves it for every backup of every group given by its logical description (the
tree each run read, and which file contents each backup stores itself): whatever the group looks like
before or after the target, if the target's deduplicated contents are stored in the target or in an
earlier backup of its group — C02's invariant `resolvable_history`, kept by every history of runs,
rotations and whole-group deletions — then `vsb restore` exits 0 and the restored tree is, node for
node, the tree the run read.  `restore_exact_partial` and `restore_exact_selfcontained` are the earlier,
weaker forms (kept: the correspondence run evaluates their hypotheses too).
-/
namespace Vsb.Restore
variable {H β : Type} [DecidableEq H]

/-- **Modification times survive the archive** (the repaired defect F1): tar stores `mtime as u64`;
reading it back as two's complement returns the original value for every `i64` time, including
pre-1970 and far-future ones. -/
theorem mtime_roundtrip (t : Int) (h1 : -(2 ^ 63) ≤ t) (h2 : t < 2 ^ 63) : headerMtime (mtimeToHeader t) = t := by
  unfold headerMtime mtimeToHeader
  have e64 : (2 : Int) ^ 64 = 18446744073709551616 := by decide
  have e63 : (2 : Int) ^ 63 = 9223372036854775808 := by decide
  have n63 : (2 : Nat) ^ 63 = 9223372036854775808 := by decide
  rw [e63] at h1 h2
  rw [e64, n63]
  by_cases hneg : t < 0
  · have hm : t % 18446744073709551616 = t + 18446744073709551616 := by
      have := Int.add_mul_emod_self_right t 1 18446744073709551616
      rw [Int.one_mul] at this
      rw [← this]
      exact Int.emod_eq_of_lt (by omega) (by omega)
    rw [hm]
    have : ¬ ((t + 18446744073709551616).toNat < 9223372036854775808) := by omega
    simp only [this, if_false]
    omega
  · have hm : t % 18446744073709551616 = t := Int.emod_eq_of_lt (by omega) (by omega)
    rw [hm]
    have : t.toNat < 9223372036854775808 := by omega
    simp only [this, if_true]
    omega

example : headerMtime (mtimeToHeader (-157680002)) = -157680002 := by decide
example : headerMtime (mtimeToHeader (2 ^ 33)) = 2 ^ 33 := by decide

/-- **restore_exact_partial.**  Whenever `vsb restore` of a backup exits 0 — and it must, for retained
backups of vsb-made storages, which is what the correspondence check establishes — every regular file
recorded in the backup's manifest is restored with *identical bytes*: the restored data has the recorded
length and hash, hence (SHA-512 taken injective on the contents involved) equals the content the walk
hashed.  Together with C02's `resolvable_history` (every retained backup's externs resolve inside its
group, whatever was rotated or deleted) this is the file-content half of C01.
Missing for the full `restore_exact`: that exit 0 is always reached on vsb-made storages, and the
directory / symlink / metadata half. -/
theorem restore_exact_partial (hashOf : List β → H) (group : List (Backup H β)) (target : Nat) (fs : FS β)
    (tb : Backup H β) (recs : List (MRec H))
    (htb : group[target]? = some tb) (hrecs : tb.manifest = some recs)
    (h : restore hashOf group target = .done fs true)
    (r : MRec H) (hr : r ∈ recs) (content : List β)
    (hcontent : hashOf content = r.hash)      -- what the walk hashed for this record
    (hinj : ∀ d, hashOf d = hashOf content → d = content) :
    ∃ fp, manifestPathToFile r.path = some fp ∧ FileAt fs fp content := by
  obtain ⟨fp, d, h1, h2, _, h4⟩ := exit0_sound hashOf group target fs tb recs htb hrecs h r hr
  have : d = content := hinj d (by rw [h4, hcontent])
  subst this
  exact ⟨fp, h1, h2⟩


/-! ### Self-contained backups: exit 0 is reached and the whole tree comes back

A backup is *self-contained* when every non-empty file carries its data (the first backup of a group; any
backup without deduplicated content).  For such a backup the missing halves of `restore_exact` are proved:
`vsb restore` succeeds, and the restored tree is exactly the list of archived entries — every path, kind,
byte, link target and metadata field (mode, owner, mtime), nothing more and nothing less. -/

/-- **restore_exact_selfcontained.**  Let backup number `target` of a group (whatever else the group holds) be
self-contained: its archive `es` is well formed (`WFArchive`: supported kinds, valid relative paths, no path
twice, every entry below an earlier directory entry — what `vsb backup` writes) and its manifest records each
file with the hash and length of its own data.  Then restoring it exits 0 and yields exactly `fsOf es`: one
node per archived entry with its path, kind, bytes, link target, mode, owner and mtime. -/
theorem restore_exact_selfcontained (hashOf : List β → H) (group : List (Backup H β)) (target : Nat) (name : String)
    (es : List (Entry β)) (wf : WFArchive es)
    (hb : group[target]? = some ⟨name, some (manifestOf hashOf es), es, true⟩) :
    restore hashOf group target = .done (fsOf es) true := by
  unfold restore
  rw [plan_single hashOf group target name es wf hb]
  simp only [runSteps, hb]
  rw [processStep_single hashOf name es wf target]
  simp only [stOf, List.isEmpty_nil, Bool.and_self]
  have hm := applyMeta_dirs es wf.nodup es.reverse [] (by intro d hd; exact List.mem_reverse.mp hd)
  rw [fsAfter_nil, List.reverse_reverse, List.append_nil, fsAfter_all] at hm
  have hs : (schedOf es).reverse = schedOf es.reverse := by
    simp [schedOf, List.filterMap_reverse]
  rw [hs, hm]

/-- The same with the executable well-formedness check (this is the form evaluated on the archives of real
backups by the correspondence run). -/
theorem restore_exact_selfcontained_checked (hashOf : List β → H) (group : List (Backup H β)) (target : Nat) (name : String)
    (es : List (Entry β)) (hwf : wfCheck es = true)
    (hb : group[target]? = some ⟨name, some (manifestOf hashOf es), es, true⟩) :
    restore hashOf group target = .done (fsOf es) true :=
  restore_exact_selfcontained hashOf group target name es (wfCheck_sound es hwf) hb

/-- Every restored node is the archived one: e.g. a file entry comes back with its bytes and metadata. -/
theorem restored_file (hashOf : List β → H) (group : List (Backup H β)) (target : Nat) (name : String)
    (es : List (Entry β)) (wf : WFArchive es)
    (hb : group[target]? = some ⟨name, some (manifestOf hashOf es), es, true⟩)
    (p : String) (m : Meta) (d : List β) (he : Entry.file p m d ∈ es) :
    ∃ fs, restore hashOf group target = .done fs true ∧
      fsGet fs (fpOf (Entry.file p m d : Entry β)) = some (.file d (some m)) :=
  ⟨fsOf es, restore_exact_selfcontained hashOf group target name es wf hb, fsGet_map_mem es nodeOf _ he wf.nodup⟩

/-- **path_roundtrip.**  The path conditions of `WFArchive` hold for every entry whose path is spelled the way
`vsb backup` spells it — normal components (non-empty, not `.` or `..`, free of `/`) joined by `/`: the archive
spelling and the manifest spelling `/…` are both read back as exactly those components. -/
theorem wf_paths_of_normal (e : Entry β) (fp : FPath) (h : NormalComps fp) (hp : e.path = "/".intercalate fp) :
    tarPathToFile e.path = some (fpOf e) ∧ manifestPathToFile (keyOf (fpOf e)) = some (fpOf e) := by
  have r := path_roundtrip fp h
  have hf : fpOf e = fp := by unfold fpOf; rw [hp, r.1]; rfl
  rw [hf, hp]
  exact r

/-- Non-vacuity: a small archive (ancestor directories, a file, an empty file, a symlink) passes the check. -/
example : wfCheck ([.dir "var" {}, .dir "var/x" { mode := 493 }, .file "var/x/f" { mtime := -5 } [1, 2, 3],
    .file "var/x/empty" {} [], .symlink "var/l" {} "../target"] : List (Entry Nat)) = true := by decide


/-! ### The general case: deduplicated content, fan-outs, earlier backups of the group -/

/-- **restore_exact.**  Let a group be given by its logical description `lg` (oldest first): for each backup the
entries the walk read (`es`, files with their full content) and the set of files whose bytes that backup stores
itself (`stored`); `render` is what `vsb backup` writes for it — the archive with data only for stored files, and
the manifest with `unique` for stored non-empty files and `extern` for the rest.  Let the target `lt = lg[t]` and
every earlier backup be well formed, and let every non-empty file of the target that is not stored in it have the
content of a file stored in the target or in an earlier backup of the group (`ResolvableL`: C02).  SHA-512 is
taken injective on the contents involved.  Then `vsb restore` of the target exits 0 (`.done _ true`) and the
restored tree equals `fsOf lt.es` as a map from paths to nodes: every entry with its kind, bytes, link target,
mode, owner and mtime, and nothing else.  Later backups of the group (`lg` beyond `t`) are arbitrary. -/
theorem restore_exact (hashOf : List β → H) (hinj : ∀ x y, hashOf x = hashOf y → x = y)
    (lg : List (LBackup β)) (group : List (Backup H β))
    (hG : ∀ (j : Nat) (lb : LBackup β), lg[j]? = some lb → group[j]? = some (render hashOf lb))
    (t : Nat) (lt : LBackup β) (hlt : lg[t]? = some lt)
    (hwf : ∀ (j : Nat) (lb : LBackup β), j ≤ t → lg[j]? = some lb → WFArchive lb.es)
    (hres : ResolvableL lg t lt) :
    ∃ fs, restore hashOf group t = .done fs true ∧ ∀ q, fsGet fs q = fsGet (fsOf lt.es) q := by
  obtain ⟨p, hplan, pf⟩ := plan_facts hashOf hinj lg group hG t lt hlt hwf hres
  obtain ⟨st, hrun, fs, hmeta, hflag, hview⟩ := exec_ok hashOf lg group hG t lt hlt p pf
  refine ⟨fs, ?_, hview⟩
  unfold restore
  simp only [hplan, hrun, hmeta, hflag]

/-- Each file of the target comes back with its bytes and metadata, wherever its bytes were stored. -/
theorem restore_exact_file (hashOf : List β → H) (hinj : ∀ x y, hashOf x = hashOf y → x = y)
    (lg : List (LBackup β)) (group : List (Backup H β))
    (hG : ∀ (j : Nat) (lb : LBackup β), lg[j]? = some lb → group[j]? = some (render hashOf lb))
    (t : Nat) (lt : LBackup β) (hlt : lg[t]? = some lt)
    (hwf : ∀ (j : Nat) (lb : LBackup β), j ≤ t → lg[j]? = some lb → WFArchive lb.es)
    (hres : ResolvableL lg t lt) (p : String) (m : Meta) (d : List β) (he : Entry.file p m d ∈ lt.es) :
    ∃ fs, restore hashOf group t = .done fs true ∧
      fsGet fs (fpOf (Entry.file p m d : Entry β)) = some (.file d (some m)) := by
  obtain ⟨fs, h1, h2⟩ := restore_exact hashOf hinj lg group hG t lt hlt hwf hres
  refine ⟨fs, h1, ?_⟩
  rw [h2]
  exact fsGet_map_mem lt.es nodeOf _ he (hwf t lt (Nat.le_refl _) hlt).nodup

/-- The form evaluated on real storages by the correspondence run: `generalCheck` reads the stored group back into
its logical description (contents of `extern` files looked up by hash), checks that it renders to exactly what is
stored, that every backup up to the target is well formed and that the target is resolvable; when it succeeds, the
model's restore of the stored group exits 0 and yields the target's tree. -/
theorem restore_exact_checked [DecidableEq β] (hashOf : List β → H) (hinj : ∀ x y, hashOf x = hashOf y → x = y)
    (contentOf : H → Nat → Option (List β)) (group : List (Backup H β)) (t : Nat) (lg : List (LBackup β))
    (h : generalCheck hashOf contentOf group t = some lg) :
    ∃ lt, lg[t]? = some lt ∧ ∃ fs, restore hashOf group t = .done fs true ∧ ∀ q, fsGet fs q = fsGet (fsOf lt.es) q := by
  obtain ⟨hG, hwf, lt, hlt, hres⟩ := generalCheck_sound hashOf contentOf group t lg h
  exact ⟨lt, hlt, restore_exact hashOf hinj lg group hG t lt hlt hwf hres⟩

/-- Non-vacuity: a group of two backups; the target's `b` is stored in the earlier backup, its `c` duplicates its own
`a`, `e` is empty; all hypotheses of `restore_exact` hold. -/
example :
    let b0 : LBackup Nat := ⟨"b0", [.dir "d" {}, .file "d/old" { mtime := 3 } [7, 7]], fun _ => true, fun _ => [0, 0]⟩
    let b1 : LBackup Nat := ⟨"b1", [.dir "d" { mode := 493 }, .file "d/a" {} [1, 2, 3], .dir "d/s" {}, .file "d/s/b" { mtime := -5 } [7, 7],
        .file "d/s/c" {} [1, 2, 3], .file "d/e" {} [], .symlink "d/l" {} "a"], fun p => p == "d/a", fun _ => [0]⟩
    (∀ (j : Nat) (lb : LBackup Nat), j ≤ 1 → [b0, b1][j]? = some lb → WFArchive lb.es) ∧ ResolvableL [b0, b1] 1 b1 := by
  intro b0 b1
  constructor
  · intro j lb hj hlb
    have h0 : wfCheck b0.es = true := by decide
    have h1 : wfCheck b1.es = true := by decide
    match j, hj, hlb with
    | 0, _, hlb => simp only [List.getElem?_cons_zero, Option.some.injEq] at hlb; subst hlb; exact wfCheck_sound _ h0
    | 1, _, hlb => simp only [List.getElem?_cons_succ, List.getElem?_cons_zero, Option.some.injEq] at hlb; subst hlb; exact wfCheck_sound _ h1
  · intro b hb hext
    simp only [b1, List.mem_cons, List.mem_nil_iff, or_false] at hb
    rcases hb with rfl | rfl | rfl | rfl | rfl | rfl | rfl
    · cases hext
    · simp [isExtE, b1] at hext
    · cases hext
    · right
      exact ⟨0, by omega, b0, rfl, "d/old", { mtime := 3 }, [7, 7], by simp [b0], rfl, rfl⟩
    · left
      exact ⟨.file "d/a" {} [1, 2, 3], by simp [b1], by simp [isOwnE, b1], rfl⟩
    · simp [isExtE, b1] at hext
    · cases hext


/-! ### Histories -/

open Vsb.Dedup in
/-- **history_restore_exact — C01 as stated.**  Start from an empty storage and apply any history of operations:
`vsb backup` runs on arbitrary trees (each appending to the newest group or opening a new one — any rotation policy —
with any subset of the earlier manifests of the group unreadable during the run, and with any padding after the contents
it stores in its archive: files that shrank while they were archived, C15) and deletions of arbitrary whole
groups.  Assume of each run what the property assumes (`OpSoundL`): the walk delivers a well-formed tree, and a file
whose (device, inode, mtime) equal those recorded for its path in the group's previous backup has the recorded
content.  Then for every group `g` of the resulting storage and every backup `lt = g[t]` in it, restoring that backup
from what is stored (`render` of each backup of the group) exits 0 and yields exactly the tree that run read —
every path, kind, byte, link target, mode, owner, mtime.  The deduplication decisions are those of the model of
`BackupInstance` (M5, tied to the code by C02/C09), the restore is the model of `RestorePlan`/`Restorer` (M8, tied by
C01/C11). -/
theorem history_restore_exact {F : Type} [DecidableEq F] (hashOf : List β → H) (hinj : ∀ x y, hashOf x = hashOf y → x = y)
    (ops : List (LOp β F))
    (hs : ∀ (pre : List (LOp β F)) (op : LOp β F) (post : List (LOp β F)), ops = pre ++ op :: post →
        OpSoundL hashOf (pre.foldl (stepL hashOf) []) op) :
    ∀ g ∈ ops.foldl (stepL hashOf) ([] : LStore β F), ∀ (t : Nat) (lt : LBackupF β F), g[t]? = some lt →
      ∃ fs, restore hashOf (g.map (fun b => render hashOf b.lb)) t = .done fs true ∧
        ∀ q, fsGet fs q = fsGet (fsOf lt.lb.es) q := by
  intro g hg t lt hlt
  have hinv := history_inv hashOf ops [] (by intro g hg; cases hg) hs g hg
  have hmap : g.map (fun b => render hashOf b.lb) = (g.map (·.lb)).map (render hashOf) := by simp
  rw [hmap]
  have hlt' : (g.map (·.lb))[t]? = some lt.lb := by rw [List.getElem?_map, hlt]; rfl
  apply restore_exact hashOf hinj (g.map (·.lb)) _ (fun j lb h => by rw [List.getElem?_map, h]; rfl) t lt.lb hlt'
  · intro j lb _ hj
    rw [List.getElem?_map] at hj
    cases hgj : g[j]? with
    | none => rw [hgj] at hj; cases hj
    | some b =>
      rw [hgj] at hj
      simp only [Option.map_some, Option.some.injEq] at hj
      subst hj
      exact hinv.1 b (List.mem_of_getElem? hgj)
  · exact resolvableL_of_resolvable hashOf hinj g hinv.2 t lt hlt


open Vsb.Dedup in
/-- The first half of `OpSoundL` need not be assumed when the tree is what the model of `Backuper` (M2, C08) archives:
for any items, filters, hooks, errors and aborts of the walk over trees whose directories hold no name twice and whose
names are normal path components, the archived entries form a well-formed tree (`archive_wellformed`); what remains of
`RunSound` is the property's own identity⇒content assumption. -/
theorem runSound_of_walk {F : Type} [DecidableEq F] (hashOf : List β → H) (g : List (LBackupF β F)) (mask : List Bool)
    (fpf : String → F) (metaOf : Vsb.Walk.Path → Meta) (dataOf : Vsb.Walk.Path → List β) (targetOf : Vsb.Walk.Path → String)
    (parentOf : Vsb.Walk.Path → Vsb.Walk.Parent) (items : List Vsb.Walk.Item) (finishOk : Bool)
    (hn : ∀ it ∈ items, Vsb.Walk.namesOk it.node = true)
    (hnorm : ∀ q ∈ Vsb.Walk.archs (Vsb.Walk.run parentOf items finishOk).1, NormalComps q)
    (hfp : ∀ p m d, (.file p m d : Entry β) ∈ entriesOf metaOf dataOf targetOf (Vsb.Walk.run parentOf items finishOk).1 →
      ∀ l r, loadLast (view (g.map (recsD hashOf)) mask) = some l →
        lookupLast l (keyE (.file p m d : Entry β)) = some r → r.fp = fpf p → r.hash = hashOf d ∧ r.size = d.length) :
    RunSound hashOf g mask (entriesOf metaOf dataOf targetOf (Vsb.Walk.run parentOf items finishOk).1) fpf :=
  ⟨walk_archive_wf metaOf dataOf targetOf parentOf items finishOk hn hnorm, hfp⟩

/-! Non-vacuity of `history_restore_exact`: a history of two runs in one group — the second finds `d/a` unchanged
(same fingerprint: recorded hash reused), `d/c` with content already stored under another path, an empty file and a
new file — meets `OpSoundL` at every step. -/
section HistoryExample
open Vsb.Dedup

def exEs0 : List (Entry Nat) := [.dir "d" {}, .file "d/a" {} [1, 2], .file "d/b" {} [3]]
def exEs1 : List (Entry Nat) := [.dir "d" {}, .file "d/a" {} [1, 2], .file "d/c" {} [3], .file "d/e" {} [], .file "d/n" {} [9, 9]]
def exFp0 : String → Nat := fun _ => 1
def exFp1 : String → Nat := fun p => if p == "d/a" then 1 else 2
def exOps : List (LOp Nat Nat) := [.run "b0" exEs0 exFp0 [] true (fun _ => []), .run "b1" exEs1 exFp1 [true] false (fun _ => [0, 0])]


theorem exSound0 : RunSound (id : List Nat → List Nat) ([] : List (LBackupF Nat Nat)) [] exEs0 exFp0 := by
  refine ⟨wfCheck_sound _ (by decide), ?_⟩
  intro p m d _ l r hl
  simp [view, loadLast] at hl

theorem exLast1 : loadLast (view ([runL (id : List Nat → List Nat) [] [] "b0" exEs0 exFp0 (fun _ => [])].map (recsD id)) [true]) =
    some [⟨true, [1, 2], 1, 2, "/d/a"⟩, ⟨true, [3], 1, 1, "/d/b"⟩] := by decide

theorem exSound1 : RunSound (id : List Nat → List Nat) [runL id [] [] "b0" exEs0 exFp0 (fun _ => [])] [true] exEs1 exFp1 := by
  refine ⟨wfCheck_sound _ (by decide), ?_⟩
  intro p m d hin l r hl hr hfp
  rw [exLast1] at hl
  cases hl
  simp only [exEs1, List.mem_cons, List.mem_nil_iff, or_false] at hin
  rcases hin with h | h | h | h | h
  · cases h
  · cases h
    have : lookupLast [(⟨true, [1, 2], 1, 2, "/d/a"⟩ : Rec (List Nat) Nat String), ⟨true, [3], 1, 1, "/d/b"⟩] (keyE (Entry.file "d/a" {} [1, 2] : Entry Nat)) = some ⟨true, [1, 2], 1, 2, "/d/a"⟩ := by decide
    rw [this] at hr
    cases hr
    exact ⟨rfl, rfl⟩
  all_goals
    cases h
    revert hr
    first
      | (have : lookupLast [(⟨true, [1, 2], 1, 2, "/d/a"⟩ : Rec (List Nat) Nat String), ⟨true, [3], 1, 1, "/d/b"⟩] (keyE (Entry.file "d/c" {} [3] : Entry Nat)) = none := by decide
         rw [this]; intro hr; cases hr)
      | (have : lookupLast [(⟨true, [1, 2], 1, 2, "/d/a"⟩ : Rec (List Nat) Nat String), ⟨true, [3], 1, 1, "/d/b"⟩] (keyE (Entry.file "d/e" {} [] : Entry Nat)) = none := by decide
         rw [this]; intro hr; cases hr)
      | (have : lookupLast [(⟨true, [1, 2], 1, 2, "/d/a"⟩ : Rec (List Nat) Nat String), ⟨true, [3], 1, 1, "/d/b"⟩] (keyE (Entry.file "d/n" {} [9, 9] : Entry Nat)) = none := by decide
         rw [this]; intro hr; cases hr)

example : ∀ (pre : List (LOp Nat Nat)) (op : LOp Nat Nat) (post : List (LOp Nat Nat)), exOps = pre ++ op :: post →
    OpSoundL (id : List Nat → List Nat) (pre.foldl (stepL id) []) op := by
  intro pre op post h
  match pre, h with
  | [], h =>
    simp only [exOps, List.nil_append, List.cons.injEq] at h
    obtain ⟨rfl, _⟩ := h
    exact exSound0
  | [a], h =>
    simp only [exOps, List.cons_append, List.nil_append, List.cons.injEq] at h
    obtain ⟨rfl, rfl, _⟩ := h
    exact exSound1
  | a :: b :: c, h =>
    simp only [exOps, List.cons_append, List.cons.injEq] at h
    obtain ⟨_, _, h3⟩ := h
    cases c <;> simp at h3

end HistoryExample

end Vsb.Restore
