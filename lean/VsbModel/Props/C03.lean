import VsbModel.Model.FsTrace
set_option linter.unusedSimpArgs false

/-!
# C03 — publication is atomic and completed backups are immutable under crashes/faults

`accept` is the monitor the real operation trace of every run (also of killed and failing runs) is
fed to.  The theorems say what acceptance implies for every prefix of the trace — i.e. for the state
the kernel is left in after a kill at any point — and that every run the model generates is accepted.
-/
namespace Vsb.FsTrace

theorem accStep_ok_mono (st : AccSt) (op : Op) (h : (accStep st op).ok = true) : st.ok = true := by
  unfold accStep at h
  cases op <;> simp only [] at h
  all_goals (try (repeat' split at h))
  all_goals (first | exact h | (simp at h))

theorem accFold_ok_mono (ops : List Op) (st : AccSt) (h : (ops.foldl accStep st).ok = true) : st.ok = true := by
  induction ops generalizing st with
  | nil => exact h
  | cons o rest ih => exact accStep_ok_mono st o (ih _ h)

/-- Acceptance is prefix-closed: what holds of an accepted trace holds at every kill point. -/
theorem accept_prefix (t : List Op) (k : Nat) (h : accept t = true) : accept (t.take k) = true := by
  unfold accept at *
  have : t = t.take k ++ t.drop k := (List.take_append_drop k t).symm
  rw [this, List.foldl_append] at h
  exact accFold_ok_mono _ _ h

/-- What the monitor state knows about the operations seen so far. -/
structure AccInv (ops : List Op) (st : AccSt) : Prop where
  /-- the run's temporary directory is `[group, .name]` -/
  tmpShape : ∀ t, st.tmp = some t → ∃ g e, t = [g, e] ∧ isDot e = true
  /-- before publication every change is inside a dot-prefixed temporary directory, or creates a
  group directory -/
  before : st.published = none → ∀ op ∈ ops, op.mutates = true → ∀ p ∈ op.targets, inTemp p = true ∨ p.length = 1
  /-- once published: a single rename `[g, .n] → [g, n]`; before it only temporaries / group creation;
  after it only removals outside the published backup's group -/
  after : ∀ s d, st.published = some (s, d) →
    ∃ pre post, ops = pre ++ Op.rename s d :: post ∧
      (∀ op ∈ pre, op.mutates = true → ∀ p ∈ op.targets, inTemp p = true ∨ p.length = 1) ∧
      (∀ op ∈ post, op.mutates = true → ∃ p, op = Op.remove p ∧ under p [d.headD ""] = false) ∧
      (∃ g n, d = [g, n] ∧ isDot n = false ∧ s = [g, "." ++ n])

theorem under_tmp_inTemp (p t : Path) (g e : String) (ht : t = [g, e]) (he : isDot e = true) (hu : under p t = true) :
    inTemp p = true := by
  subst ht
  unfold under at hu
  have := List.isPrefixOf_iff_prefix.mp hu
  obtain ⟨r, rfl⟩ := this
  simp [inTemp, he]

theorem accInv_step (ops : List Op) (st : AccSt) (op : Op) (hi : AccInv ops st) (hok : (accStep st op).ok = true) :
    AccInv (ops ++ [op]) (accStep st op) := by
  obtain ⟨hts, hb, ha⟩ := hi
  -- extension by an operation that keeps `published` and `tmp` (or sets a well-shaped `tmp`)
  have ext : ∀ (st' : AccSt), st'.published = st.published →
      (∀ t, st'.tmp = some t → ∃ g e, t = [g, e] ∧ isDot e = true) →
      (st.published = none → op.mutates = true → ∀ p ∈ op.targets, inTemp p = true ∨ p.length = 1) →
      (∀ s d, st.published = some (s, d) → op.mutates = true → ∃ p, op = Op.remove p ∧ under p [d.headD ""] = false) →
      AccInv (ops ++ [op]) st' := by
    intro st' hp hshape h1 h2
    refine ⟨hshape, ?_, ?_⟩
    · intro hn o ho hm p hpt
      rw [hp] at hn
      simp only [List.mem_append, List.mem_singleton] at ho
      rcases ho with ho | rfl
      · exact hb hn o ho hm p hpt
      · exact h1 hn hm p hpt
    · intro s d hsd
      rw [hp] at hsd
      obtain ⟨pre, post, e1, e2, e3, e5⟩ := ha s d hsd
      refine ⟨pre, post ++ [op], by rw [e1]; simp, e2, ?_, e5⟩
      intro o ho hm
      simp only [List.mem_append, List.mem_singleton] at ho
      rcases ho with ho | rfl
      · exact e3 o ho hm
      · exact h2 s d hsd hm
  have nonmut : op.mutates = false → accStep st op = st → AccInv (ops ++ [op]) (accStep st op) := by
    intro hm he
    rw [he]
    exact ext st rfl hts (by intro _ h; rw [hm] at h; cases h) (by intro _ _ _ h; rw [hm] at h; cases h)
  cases op with
  | lock b => exact nonmut rfl rfl
  | readdir p => exact nonmut rfl rfl
  | openRead p => exact nonmut rfl rfl
  | fsyncFile p => exact nonmut rfl rfl
  | fsyncDir p => exact nonmut rfl rfl
  | exit n => exact nonmut rfl rfl
  | mkdir p =>
    simp only [accStep] at hok ⊢
    split at hok
    · rename_i g
      by_cases hp : st.published.isSome = true
      · simp [hp] at hok
      · have hnone : st.published = none := by simpa using hp
        simp only [hp, Bool.false_eq_true, if_false]
        exact ext st rfl hts (by intro _ _ q hq; simp [Op.targets] at hq; subst hq; right; rfl)
          (by intro s d hsd; rw [hnone] at hsd; cases hsd)
    · rename_i g e
      by_cases hc : (isDot e && st.published.isNone) = true
      · simp only [Bool.and_eq_true] at hc
        have hnone : st.published = none := by simpa using hc.2
        simp only [hc.1, hc.2, Bool.and_self, if_true]
        refine ext _ rfl ?_ (by intro _ _ q hq; simp [Op.targets] at hq; subst hq; left; simp [inTemp, hc.1])
          (by intro s d hsd; rw [hnone] at hsd; cases hsd)
        intro t ht; simp only [Option.some.injEq] at ht; subst ht; exact ⟨g, e, rfl, hc.1⟩
      · simp [hc] at hok
    · simp at hok
  | create p =>
    simp only [accStep] at hok ⊢
    cases ht : st.tmp with
    | none => simp [ht] at hok
    | some t =>
      simp only [ht] at hok ⊢
      by_cases hc : (under p t && decide (p ≠ t) && st.published.isNone) = true
      · simp only [hc, if_true]
        simp only [Bool.and_eq_true] at hc
        have hnone : st.published = none := by simpa using hc.2
        obtain ⟨g, e, hte, hde⟩ := hts t ht
        exact ext st rfl hts (by intro _ _ q hq; simp [Op.targets] at hq; subst hq; left; exact under_tmp_inTemp _ _ g e hte hde hc.1.1)
          (by intro s d hsd; rw [hnone] at hsd; cases hsd)
      · rw [if_neg hc] at hok; simp at hok
  | write p =>
    simp only [accStep] at hok ⊢
    cases ht : st.tmp with
    | none => simp [ht] at hok
    | some t =>
      simp only [ht] at hok ⊢
      by_cases hc : (under p t && decide (p ≠ t) && st.published.isNone) = true
      · simp only [hc, if_true]
        simp only [Bool.and_eq_true] at hc
        have hnone : st.published = none := by simpa using hc.2
        obtain ⟨g, e, hte, hde⟩ := hts t ht
        exact ext st rfl hts (by intro _ _ q hq; simp [Op.targets] at hq; subst hq; left; exact under_tmp_inTemp _ _ g e hte hde hc.1.1)
          (by intro s d hsd; rw [hnone] at hsd; cases hsd)
      · rw [if_neg hc] at hok; simp at hok
  | rename s d =>
    simp only [accStep] at hok ⊢
    by_cases hc : st.tmp = some s ∧ st.published.isNone = true ∧ renameShape s d = true
    · rw [if_pos hc]
      obtain ⟨h1, h2, h3⟩ := hc
      have hnone : st.published = none := by simpa using h2
      have hshape : ∃ g n, d = [g, n] ∧ isDot n = false ∧ s = [g, "." ++ n] := by
        unfold renameShape at h3
        split at h3
        · rename_i g e g' e'
          simp only [Bool.and_eq_true, decide_eq_true_eq, Bool.not_eq_true'] at h3
          obtain ⟨⟨rfl, hd⟩, rfl⟩ := h3
          exact ⟨g, e', rfl, hd, rfl⟩
        · cases h3
      refine ⟨hts, ?_, ?_⟩
      · intro hn; simp at hn
      · intro s' d' hsd
        simp only [Option.some.injEq, Prod.mk.injEq] at hsd
        obtain ⟨rfl, rfl⟩ := hsd
        exact ⟨ops, [], rfl, hb hnone, (by intro o ho; cases ho), hshape⟩
    · rw [if_neg hc] at hok; simp at hok
  | remove p =>
    simp only [accStep] at hok ⊢
    cases hp : st.published with
    | none =>
      simp only [hp, Option.isSome_none, Bool.false_eq_true, if_false] at hok ⊢
      by_cases hit : inTemp p = true
      · simp only [hit, if_true]
        exact ext st rfl hts (by intro _ _ q hq; simp [Op.targets] at hq; subst hq; left; exact hit)
          (by intro s d hsd; rw [hp] at hsd; cases hsd)
      · simp [hit] at hok
    | some sd =>
      obtain ⟨s, d⟩ := sd
      simp only [hp, Option.isSome_some, if_true] at hok ⊢
      by_cases hu : under p [d.headD ""] = true
      · rw [if_pos hu] at hok; simp at hok
      · rw [if_neg hu]
        exact ext st rfl hts (by intro hn; rw [hp] at hn; cases hn)
          (by intro s' d' hsd _; rw [hp] at hsd; simp only [Option.some.injEq, Prod.mk.injEq] at hsd
              obtain ⟨rfl, rfl⟩ := hsd; exact ⟨p, rfl, by simpa using hu⟩)

theorem accInv_fold (ops : List Op) :
    ∀ (done : List Op) (st : AccSt), AccInv done st → (ops.foldl accStep st).ok = true →
      AccInv (done ++ ops) (ops.foldl accStep st) := by
  induction ops with
  | nil => intro done st h _; simpa using h
  | cons o rest ih =>
    intro done st h hok
    have hok1 : (accStep st o).ok = true := accFold_ok_mono rest _ hok
    have := ih (done ++ [o]) (accStep st o) (accInv_step done st o h hok1) hok
    simpa [List.append_assoc] using this

/-- **kill_safe / temp_only / collision-free publication.**  For an accepted trace and any kill point
`k`, in the operations performed so far: either the backup is not yet published and every change made
lies inside a dot-prefixed temporary directory (or created a group directory) — so every final-named
backup that existed is untouched and no final-named directory of this run exists; or it was published
by exactly one rename `[g, .n] → [g, n]` (with `n` not dot-prefixed), everything before the rename
was confined to temporaries, and everything after it is a removal outside group `g` — so the
published backup is never written to again and only older groups are removed. -/
theorem kill_safe (t : List Op) (h : accept t = true) (k : Nat) :
    (∀ op ∈ t.take k, op.mutates = true → ∀ p ∈ op.targets, inTemp p = true ∨ p.length = 1) ∨
    (∃ pre post s d g n, t.take k = pre ++ Op.rename s d :: post ∧ d = [g, n] ∧ isDot n = false ∧ s = [g, "." ++ n] ∧
      (∀ op ∈ pre, op.mutates = true → ∀ p ∈ op.targets, inTemp p = true ∨ p.length = 1) ∧
      (∀ op ∈ post, op.mutates = true → ∃ p, op = Op.remove p ∧ under p [g] = false)) := by
  have hk := accept_prefix t k h
  unfold accept at hk
  have hinv := accInv_fold (t.take k) [] {} ⟨(by intro t ht; cases ht), (by intro _ o ho; cases ho), (by intro s d hsd; cases hsd)⟩ hk
  simp only [List.nil_append] at hinv
  cases hp : ((t.take k).foldl accStep {}).published with
  | none => exact Or.inl (hinv.before hp)
  | some sd =>
    obtain ⟨s, d⟩ := sd
    obtain ⟨pre, post, e1, e2, e3, ⟨g, n, rfl, hn, hs⟩⟩ := hinv.after s d hp
    exact Or.inr ⟨pre, post, s, _, g, n, e1, rfl, hn, hs, e2, by simpa using e3⟩

/-- A final-named backup `[g, n]` (n not dot-prefixed) is not inside any temporary directory: the
changes allowed before publication cannot touch it. -/
theorem final_not_temp (g n : String) (rest : List String) (hn : isDot n = false) : inTemp (g :: n :: rest) = false := by
  simp [inTemp, hn]

end Vsb.FsTrace

namespace Vsb.FsTrace

theorem accFold_reads (ps : List Path) (st : AccSt) : (ps.map Op.readdir).foldl accStep st = st := by
  induction ps generalizing st with
  | nil => rfl
  | cons p rest ih => simp only [List.map_cons, List.foldl_cons, accStep]; exact ih st

theorem accFold_openReads (f : String → Path) (bs : List String) (st : AccSt) :
    (bs.map (fun b => Op.openRead (f b))).foldl accStep st = st := by
  induction bs generalizing st with
  | nil => rfl
  | cons p rest ih => simp only [List.map_cons, List.foldl_cons, accStep]; exact ih st

theorem accFold_removes_temp (ops : List Op) (st : AccSt) (hp : st.published = none)
    (hops : ∀ o ∈ ops, ∃ p, o = Op.remove p ∧ inTemp p = true) : ops.foldl accStep st = st := by
  induction ops generalizing st with
  | nil => rfl
  | cons o rest ih =>
    obtain ⟨p, rfl, hit⟩ := hops o (by simp)
    have : accStep st (Op.remove p) = st := by simp [accStep, hp, hit]
    simp only [List.foldl_cons, this]
    exact ih st hp (fun o ho => hops o (by simp [ho]))

theorem accFold_removes_old (ops : List Op) (st : AccSt) (s d : Path) (hp : st.published = some (s, d))
    (hops : ∀ o ∈ ops, ∃ p, o = Op.remove p ∧ under p [d.headD ""] = false) : ops.foldl accStep st = st := by
  induction ops generalizing st with
  | nil => rfl
  | cons o rest ih =>
    obtain ⟨p, rfl, hu⟩ := hops o (by simp)
    have : accStep st (Op.remove p) = st := by
      simp only [accStep, hp, Option.isSome_some, if_true]
      rw [if_neg (by rw [hu]; simp)]
    simp only [List.foldl_cons, this]
    exact ih st hp (fun o ho => hops o (by simp [ho]))

theorem accFold_writes (t : Path) (ps : List Path) (st : AccSt) (ht : st.tmp = some t) (hp : st.published = none)
    (hps : ∀ p ∈ ps, under p t = true ∧ p ≠ t) : (ps.map Op.write).foldl accStep st = st := by
  induction ps generalizing st with
  | nil => rfl
  | cons p rest ih =>
    obtain ⟨h1, h2⟩ := hps p (by simp)
    have : accStep st (Op.write p) = st := by simp [accStep, ht, hp, h1, h2]
    simp only [List.map_cons, List.foldl_cons, this]
    exact ih st ht hp (fun q hq => hps q (by simp [hq]))

/-- Well-formed scenarios: the backup name is not dot-prefixed; the groups removed afterwards are other
groups, and the paths removed lie inside them. -/
structure Scenario.WF (sc : Scenario) : Prop where
  name : isDot sc.name = false
  old : ∀ g ∈ sc.oldGroups, g.1 ≠ sc.group ∧ ∀ p ∈ g.2, under p [g.1] = true

theorem isDot_dot (n : String) : isDot ("." ++ n) = true := by
  simp [isDot, String.toList_append]

theorem under_other_group (p : Path) (g g' : String) (hne : g ≠ g') (hu : under p [g] = true) : under p [g'] = false := by
  unfold under at *
  obtain ⟨r, rfl⟩ := List.isPrefixOf_iff_prefix.mp hu
  cases hc : ([g'].isPrefixOf ([g] ++ r)) with
  | false => rfl
  | true =>
    obtain ⟨r', hr'⟩ := List.isPrefixOf_iff_prefix.mp hc
    simp only [List.cons_append, List.nil_append, List.cons.injEq] at hr'
    exact absurd hr'.1.symm hne

/-- **Every run the model generates is accepted** — first backup, append to a group (with removal of
abandoned temporaries), rotation with removal of old groups; any number of writes and listings. -/
theorem runOps_accept (sc : Scenario) (hwf : sc.WF) : accept (runOps sc) = true := by
  unfold accept runOps body
  simp only [List.foldl_append, List.foldl_cons, List.foldl_nil, accFold_reads, accFold_openReads]
  have s0 : accStep {} (Op.lock true) = {} := rfl
  rw [s0]
  have s1 : (if sc.newGroup = true then [Op.mkdir [sc.group]] else
      sc.abandoned.flatMap (fun a => (a.2.map (fun f => Op.remove [sc.group, "." ++ a.1, f])) ++ [Op.remove [sc.group, "." ++ a.1]])).foldl
        accStep ({} : AccSt) = {} := by
    split
    · simp [accStep]
    · apply accFold_removes_temp _ _ rfl
      intro o ho
      simp only [List.mem_flatMap, List.mem_append, List.mem_map, List.mem_singleton] at ho
      obtain ⟨a, _, h | h⟩ := ho
      · obtain ⟨f, _, rfl⟩ := h; exact ⟨_, rfl, by simp [inTemp, isDot_dot]⟩
      · exact ⟨_, h, by simp [inTemp, isDot_dot]⟩
  rw [s1]
  have hdot : isDot (tmpName sc) = true := isDot_dot sc.name
  have hu1 : under (metaFile sc) (tmpDir sc) = true ∧ metaFile sc ≠ tmpDir sc := by
    simp [under, metaFile, tmpDir]
  have hu2 : under (dataFile sc) (tmpDir sc) = true ∧ dataFile sc ≠ tmpDir sc := by
    simp [under, dataFile, tmpDir]
  have s2 : accStep (accStep (accStep {} (Op.mkdir (tmpDir sc))) (Op.create (metaFile sc))) (Op.create (dataFile sc)) =
      ({ tmp := some (tmpDir sc) } : AccSt) := by
    simp only [accStep, tmpDir, hdot, Option.isNone_none, Bool.and_self, if_true]
    simp [under, metaFile, dataFile, tmpDir]
  rw [s2]
  have hw1 : sc.writes1.map (fun d => Op.write (if d = true then dataFile sc else metaFile sc)) =
      (sc.writes1.map (fun d => if d = true then dataFile sc else metaFile sc)).map Op.write := by
    rw [List.map_map]; rfl
  rw [hw1, accFold_writes (tmpDir sc) _ _ rfl rfl (by
    intro p hp
    obtain ⟨d, _, rfl⟩ := List.mem_map.mp hp
    cases d
    · exact hu1
    · exact hu2)]
  have s3 : accStep ({ tmp := some (tmpDir sc) } : AccSt) (Op.fsyncFile (metaFile sc)) = { tmp := some (tmpDir sc) } := rfl
  rw [s3]
  have hw2 : List.replicate sc.writes2 (Op.write (dataFile sc)) = (List.replicate sc.writes2 (dataFile sc)).map Op.write := by
    simp
  rw [hw2, accFold_writes (tmpDir sc) _ _ rfl rfl (by
    intro p hp; have := List.eq_of_mem_replicate hp; subst this; exact hu2)]
  have s4 : accStep (accStep (accStep (accStep ({ tmp := some (tmpDir sc) } : AccSt) (Op.fsyncFile (dataFile sc)))
      (Op.fsyncDir (tmpDir sc))) (Op.rename (tmpDir sc) (finalDir sc))) (Op.fsyncDir [sc.group]) =
      ({ tmp := some (tmpDir sc), published := some (tmpDir sc, finalDir sc) } : AccSt) := by
    simp only [accStep]
    have : renameShape (tmpDir sc) (finalDir sc) = true := by
      simp [renameShape, tmpDir, finalDir, tmpName, hwf.name]
    simp [this]
  rw [s4]
  rw [accFold_removes_old _ _ (tmpDir sc) (finalDir sc) rfl]
  · rfl
  · intro o ho
    simp only [List.mem_flatMap, List.mem_append, List.mem_map, List.mem_singleton] at ho
    obtain ⟨gq, hg, h | h⟩ := ho
    · obtain ⟨q, hq, rfl⟩ := h
      refine ⟨q, rfl, ?_⟩
      have := hwf.old gq hg
      simpa [finalDir] using under_other_group q gq.1 sc.group this.1 (this.2 q hq)
    · refine ⟨[gq.1], h, ?_⟩
      have := hwf.old gq hg
      simpa [finalDir] using under_other_group [gq.1] gq.1 sc.group this.1 (by simp [under])

/-- A run that writes into the final directory instead of the temporary one is rejected. -/
example : accept [.lock true, .mkdir ["g", "n"], .create ["g", "n", "data.tar.zst"]] = false := by decide
/-- So is touching the published backup after the rename. -/
example : accept [.lock true, .mkdir ["g", ".n"], .create ["g", ".n", "d"], .rename ["g", ".n"] ["g", "n"],
    .write ["g", "n", "d"]] = false := by decide

end Vsb.FsTrace
