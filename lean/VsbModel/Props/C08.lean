import VsbModel.Lemmas.Walk
import VsbModel.Lemmas.WalkArchive
set_option linter.unusedSimpArgs false
set_option linter.unnecessarySimpa false

/-!
# C08 — exit status 0 from backup means nothing was silently left out
(and the walk half of C14: a path is archived iff it exists and every prefix is allowed)

Statements about `Vsb.Walk.run` for every item list, every tree, every combination of per-call
outcomes at every node.
-/
namespace Vsb.Walk

/-! ### Item level -/

theorem okIff_hookOut (i : Nat) (h : Hook) (b : Bool) : OkIff (hookOut i h b) := by
  cases h <;> cases b <;> simp [hookOut, OkIff, Ev.isError]

theorem parentsLoop_spec (parentOf : Path → Parent) (p : Path) :
    ∀ (remaining : List String) (pre : Path) (cache : List Path) (evs : List Ev),
      (∀ e ∈ evs, e.isError = false) →
      ((parentsLoop parentOf p pre remaining cache evs).go = some true →
          ∀ e ∈ (parentsLoop parentOf p pre remaining cache evs).evs, e.isError = false) ∧
      ((parentsLoop parentOf p pre remaining cache evs).go = some false →
          ∃ e ∈ (parentsLoop parentOf p pre remaining cache evs).evs, e.isError = true) := by
  intro remaining
  induction remaining with
  | nil => intro pre cache evs h; simp [parentsLoop]; exact h
  | cons c rest ih =>
    intro pre cache evs h
    cases rest with
    | nil => simp [parentsLoop]; exact h
    | cons c2 rest2 =>
      simp only [parentsLoop]
      split
      · exact ih _ _ _ h
      · split
        · apply ih
          intro e he; simp only [List.mem_append, List.mem_singleton] at he
          rcases he with he | rfl
          · exact h e he
          · rfl
        · simp [Ev.isError]
        · simp [Ev.isError]
        · simp

theorem walkTop_okIff (parentOf : Path → Parent) (it : Item) (p : Path) (cache : List Path)
    (hna : (walkTop parentOf it p cache).1.abort = false) : OkIff (walkTop parentOf it p cache).1 := by
  unfold walkTop at hna ⊢
  by_cases hv : it.pathValid = true
  · simp only [hv, Bool.not_true, Bool.false_eq_true, if_false] at hna ⊢
    have hp := parentsLoop_spec parentOf p p [] cache [] (by simp)
    unfold walkParents at hna ⊢
    generalize parentsLoop parentOf p [] p cache [] = r at hp hna ⊢
    obtain ⟨pevs, cache', go⟩ := r
    simp only [] at hp hna ⊢
    cases go with
    | none => simp at hna
    | some b =>
      cases b with
      | false =>
        simp only [OkIff, Bool.false_eq_true, false_iff]
        obtain ⟨e, he, hee⟩ := hp.2 rfl
        intro hall; rw [hall e he] at hee; cases hee
      | true =>
        have hw := okIff_walkNode it.allow p [] true it.node
        simp only [OkIff, List.mem_append] at hw ⊢
        rw [hw]
        constructor
        · rintro h e (he | he)
          · exact hp.1 rfl e he
          · exact h e he
        · intro h e he; exact h e (Or.inr he)
  · have hv' : it.pathValid = false := by simpa using hv
    simp only [hv', Bool.not_false, if_true]
    exact okIff_errorAt _

theorem itemBody_okIff (parentOf : Path → Parent) (i : Nat) (it : Item) (st : St)
    (hna : (itemBody parentOf i it st).1.abort = false) : OkIff (itemBody parentOf i it st).1 := by
  unfold itemBody at hna ⊢
  cases hres : it.resolved with
  | none => simp [OkIff, itemErr, Ev.isError]
  | some p =>
    simp only [hres] at hna ⊢
    by_cases hov : overlaps st.roots p = true
    · simp [hov, OkIff, itemErr, Ev.isError]
    · simp only [hov, Bool.false_eq_true, if_false] at hna ⊢
      exact walkTop_okIff _ _ _ _ hna

theorem itemBody_ok_state (parentOf : Path → Parent) (i : Nat) (it : Item) (st : St) :
    (itemBody parentOf i it st).2.ok = st.ok := by
  unfold itemBody; split
  · rfl
  · split <;> rfl

/-! ### Run level -/

/-- Starting from `st.ok`, the final `ok` is true iff `st.ok` was and no error-class event was logged. -/
theorem trace_ok (parentOf : Path → Parent) :
    ∀ (items : List Item) (i : Nat) (st : St) (ok : Bool),
      (trace parentOf i items st).2 = some ok →
      (ok = true ↔ st.ok = true ∧ ∀ e ∈ (trace parentOf i items st).1, e.isError = false) := by
  intro items
  induction items with
  | nil => intro i st ok h; simp [trace] at h ⊢; rw [h]
  | cons it rest ih =>
    intro i st ok h
    simp only [trace] at h ⊢
    by_cases ha : (runItem parentOf i it st).2.2 = true
    · simp [ha] at h
    · simp only [ha, Bool.false_eq_true, if_false] at h ⊢
      rw [ih (i + 1) _ ok h]
      simp only [runItem] at ha ⊢
      have hb := okIff_hookOut i it.before true
      have hA := okIff_hookOut i it.after false
      have hbody := itemBody_okIff parentOf i it st (by simpa using ha)
      have hst := itemBody_ok_state parentOf i it st
      simp only [OkIff] at hb hA hbody
      simp only [Bool.and_eq_true, List.mem_append, hst]
      rw [hb, hA, hbody]
      constructor
      · rintro ⟨⟨⟨⟨h1, h2⟩, h3⟩, h4⟩, h5⟩
        refine ⟨h1, ?_⟩
        rintro e (((he | he) | he) | he)
        · exact h2 e he
        · exact h3 e he
        · exact h4 e he
        · exact h5 e he
      · rintro ⟨h1, h2⟩
        exact ⟨⟨⟨⟨h1, fun e he => h2 e (Or.inl (Or.inl (Or.inl he)))⟩, fun e he => h2 e (Or.inl (Or.inl (Or.inr he)))⟩,
          fun e he => h2 e (Or.inl (Or.inr he))⟩, fun e he => h2 e (Or.inr he)⟩

/-- **error_sets_exit.** The run reports success (`Ok(true)`, exit status 0) iff `finish` succeeded,
no `Err` aborted it, and not a single error-class event (unreadable / unrepresentable path, bad
top-level item, overlapping item, failing hook) was logged.  Warnings (vanished or type-changed
nested paths, nested special files) do not affect the status. -/
theorem error_sets_exit (parentOf : Path → Parent) (items : List Item) (finishOk : Bool) :
    (run parentOf items finishOk).2 = some true ↔
      finishOk = true ∧ (∃ ok, (trace parentOf 0 items {}).2 = some ok) ∧
      ∀ e ∈ (run parentOf items finishOk).1, e.isError = false := by
  unfold run
  simp only []
  cases ht : (trace parentOf 0 items {}).2 with
  | none => simp
  | some ok =>
    have := trace_ok parentOf items 0 {} ok ht
    cases finishOk with
    | false => simp
    | true =>
      simp only [if_true, Option.some.injEq, true_and]
      rw [this]
      simp

/-- **publish_or_nothing.** If any archive write fails (`add_directory` / `add_file` / `add_symlink`
returning `Err`) the run ends with `Err`: `finish` is never reached and nothing is published. -/
theorem abort_publishes_nothing (parentOf : Path → Parent) (items : List Item) (finishOk : Bool)
    (h : (trace parentOf 0 items {}).2 = none) : (run parentOf items finishOk).2 = none := by
  unfold run; simp [h]

/-- **exit0_complete (tree level).** Unless an archive write failure aborts the run, the walk of an
item archives exactly the nodes that can be read without error and are reached through readable,
allowed, validly named directories, in order (`expNode`), whatever happens elsewhere in the tree. -/
theorem exit0_complete (allow : Path → Bool) (p : Path) (n : Node)
    (h : (walkNode allow p [] true n).abort = false) :
    (walkNode allow p [] true n).evs.filter Ev.isArch = expNode allow p [] true n :=
  arch_eq_exp_node allow p [] true n h

/-! ### `walk_iff` (C14): archived ⇔ exists ∧ every prefix allowed -/

def Ev.path : Ev → Path
  | .archDir p => p
  | .archFile p => p
  | .archLink p => p
  | .error p => p
  | .warn p => p
  | _ => []

mutual
theorem exp_sound_node (allow : Path → Bool) (p rel : Path) (top : Bool) (n : Node) :
    ∀ e ∈ expNode allow p rel top n, ∃ suffix, e.path = p ++ suffix ∧
      ∀ k, 0 < k → k ≤ suffix.length → allow (rel ++ suffix.take k) = true := by
  cases n with
  | lstatFails e => simp [expNode]
  | special => simp [expNode]
  | file o f s a =>
    intro e he
    cases o <;> cases f <;> cases s <;> cases a <;> simp [expNode] at he
    subst he; exact ⟨[], by simp [Ev.path], by intro k h1 h2; simp at h2; omega⟩
  | symlink r a =>
    intro e he
    cases r <;> cases a <;> simp [expNode] at he
    subst he; exact ⟨[], by simp [Ev.path], by intro k h1 h2; simp at h2; omega⟩
  | dir r e' a cs =>
    intro e he
    cases r <;> cases e' <;> simp only [expNode] at he <;> try (cases he)
    split at he
    · exact exp_sound_children allow p rel cs e he
    · split at he
      · simp only [List.mem_cons] at he
        rcases he with rfl | he
        · exact ⟨[], by simp [Ev.path], by intro k h1 h2; simp at h2; omega⟩
        · exact exp_sound_children allow p rel cs e he
      · cases he

theorem exp_sound_children (allow : Path → Bool) (p rel : Path) (cs : List (String × Bool × Bool × Node)) :
    ∀ e ∈ expChildren allow p rel cs, ∃ suffix, e.path = p ++ suffix ∧
      ∀ k, 0 < k → k ≤ suffix.length → allow (rel ++ suffix.take k) = true := by
  cases cs with
  | nil => simp [expChildren]
  | cons c rest =>
    obtain ⟨name, utf8, pv, node⟩ := c
    intro e he
    simp only [expChildren, List.mem_append] at he
    rcases he with he | he
    · split at he
      · rename_i hc
        simp only [Bool.and_eq_true] at hc
        obtain ⟨suffix, h1, h2⟩ := exp_sound_node allow (p ++ [name]) (rel ++ [name]) false node e he
        refine ⟨name :: suffix, by rw [h1]; simp, ?_⟩
        intro k hk1 hk2
        cases k with
        | zero => omega
        | succ k' =>
          simp only [List.take_succ_cons]
          cases k' with
          | zero => simpa using hc.1.2
          | succ k'' =>
            have := h2 (k'' + 1) (by omega) (by simp at hk2; omega)
            simpa [List.append_assoc] using this
      · cases he
    · exact exp_sound_children allow p rel rest e he
end

/-- **walk_iff (⇒), root_unfiltered.** Everything archived for an item lies at or below the item
root, and every non-empty prefix of its item-relative path is allowed by the filter (the condition
is vacuous for the root itself, which is never filtered). -/
theorem archived_allowed (allow : Path → Bool) (p : Path) (n : Node)
    (h : (walkNode allow p [] true n).abort = false) :
    ∀ e ∈ (walkNode allow p [] true n).evs, e.isArch = true →
      ∃ suffix, e.path = p ++ suffix ∧ ∀ k, 0 < k → k ≤ suffix.length → allow (suffix.take k) = true := by
  intro e he ha
  have hm : e ∈ (walkNode allow p [] true n).evs.filter Ev.isArch := List.mem_filter.mpr ⟨he, ha⟩
  rw [arch_eq_exp_node allow p [] true n h] at hm
  simpa using exp_sound_node allow p [] true n e hm

/-- The node itself can be read and archived without error. -/
def Archivable : Node → Prop
  | .file none none true true => True
  | .dir none none true _ => True
  | .symlink none true => True
  | _ => False

/-- `m` sits at relative path `suffix` below `n`; every directory on the way is readable and
archivable and every name on the way is valid. -/
inductive At : Node → Path → Node → Prop
  | self (n : Node) : At n [] n
  | child (cs : List (String × Bool × Bool × Node)) (name : String) (c : Node)
      (rest : Path) (m : Node) :
      (name, true, true, c) ∈ cs → At c rest m → At (.dir none none true cs) (name :: rest) m

theorem archivable_exp (allow : Path → Bool) (p rel : Path) (top : Bool) (m : Node) (h : Archivable m)
    (hroot : ¬ (top = true ∧ p = [])) :
    ∃ e ∈ expNode allow p rel top m, e.isArch = true ∧ e.path = p := by
  have hr : ¬ ((top && p.isEmpty) = true) := by
    intro hc; simp only [Bool.and_eq_true, List.isEmpty_iff] at hc; exact hroot hc
  cases m with
  | lstatFails e => cases h
  | special => cases h
  | file o f s a =>
    cases o <;> cases f <;> cases s <;> cases a <;> simp [Archivable] at h
    exact ⟨.archFile p, by simp [expNode], rfl, by simp [Ev.path]⟩
  | symlink r a =>
    cases r <;> cases a <;> simp [Archivable] at h
    exact ⟨.archLink p, by simp [expNode], rfl, by simp [Ev.path]⟩
  | dir r e a cs =>
    cases r <;> cases e <;> cases a <;> simp [Archivable] at h
    exact ⟨.archDir p, by simp [expNode, hr], rfl, by simp [Ev.path]⟩

theorem exp_children_mem (allow : Path → Bool) (p rel : Path) (cs : List (String × Bool × Bool × Node))
    (name : String) (c : Node) (hmem : (name, true, true, c) ∈ cs) (ha : allow (rel ++ [name]) = true) :
    ∀ e ∈ expNode allow (p ++ [name]) (rel ++ [name]) false c, e ∈ expChildren allow p rel cs := by
  induction cs with
  | nil => cases hmem
  | cons x rest ih =>
    intro e he
    obtain ⟨n', u', v', c'⟩ := x
    simp only [expChildren, List.mem_append]
    simp only [List.mem_cons] at hmem
    rcases hmem with heq | hmem
    · simp only [Prod.mk.injEq] at heq
      obtain ⟨rfl, rfl, rfl, rfl⟩ := heq
      left; simp [ha, he]
    · right; exact ih hmem e he

/-- **walk_iff (⇐).** Every archivable node that sits below the item root at a relative path all of
whose non-empty prefixes are allowed — reached through readable, archivable, validly named
directories — is expected, hence (by `exit0_complete`) archived unless the run aborts. -/
theorem exp_complete (allow : Path → Bool) :
    ∀ (n : Node) (suffix : Path) (m : Node), At n suffix m → Archivable m →
    ∀ (p rel : Path) (top : Bool), ¬ (top = true ∧ p = []) →
    (∀ k, 0 < k → k ≤ suffix.length → allow (rel ++ suffix.take k) = true) →
    ∃ e ∈ expNode allow p rel top n, e.isArch = true ∧ e.path = p ++ suffix := by
  intro n suffix m hat
  induction hat with
  | self n =>
    intro harch p rel top hroot _
    simpa using archivable_exp allow p rel top n harch hroot
  | child cs name c rest m hmem _ ih =>
    intro harch p rel top hroot hallow
    have ha : allow (rel ++ [name]) = true := by simpa using hallow 1 (by omega) (by simp)
    obtain ⟨e, he, h1, h2⟩ := ih harch (p ++ [name]) (rel ++ [name]) false (by simp)
      (by
        intro k hk1 hk2
        have := hallow (k + 1) (by omega) (by simp; omega)
        simpa [List.append_assoc] using this)
    refine ⟨e, ?_, h1, by rw [h2]; simp⟩
    have hr : ¬ ((top && p.isEmpty) = true) := by
      intro hc; simp only [Bool.and_eq_true, List.isEmpty_iff] at hc; exact hroot hc
    simp only [expNode, hr, if_false, if_true, List.mem_cons]
    right
    exact exp_children_mem allow p rel cs name c hmem ha e he


/-! ### What is archived is a well-formed archive (links C08's walk to C01's restore) -/

/-- The split form of `parentsOk`: before each archived path, its parent directory. -/
theorem parentsOk_split (ex : Path → Bool) (evs : List Ev) (h : parentsOk ex [] evs = true)
    (pre : List Ev) (e : Ev) (post : List Ev) (q : Path) (hs : evs = pre ++ e :: post) (he : e.arch = some q) :
    ex q = true ∨ Ev.archDir q.dropLast ∈ pre := by
  rw [hs, parentsOk_append, Bool.and_eq_true] at h
  have h2 := h.2
  simp only [parentsOk, he, Bool.and_eq_true, Bool.or_eq_true, List.contains_iff_mem, List.nil_append] at h2
  rcases h2.1 with h3 | h3
  · exact Or.inl h3
  · right
    obtain ⟨e', he', hd⟩ := List.mem_filterMap.mp h3
    cases e' <;> simp [Ev.dir] at hd
    rw [← hd]
    exact he'

/-- **archive_order.**  In every run — any items, trees (no directory listing a name twice), filters, hooks, errors
at any call, overlapping or missing items, aborts — no path is archived twice, and every archived path is preceded by
the archiving of its parent directory unless it sits directly below `/`: ancestors of item roots are archived once and
before the roots, directories before their entries. -/
theorem archive_order (parentOf : Path → Parent) (items : List Item) (finishOk : Bool)
    (hn : ∀ it ∈ items, namesOk it.node = true) :
    (archs (run parentOf items finishOk).1).Nodup ∧
    ∀ pre e post q, (run parentOf items finishOk).1 = pre ++ e :: post → e.arch = some q →
      q.dropLast = [] ∨ Ev.archDir q.dropLast ∈ pre := by
  obtain ⟨h1, h2⟩ := run_wf parentOf items finishOk hn
  refine ⟨h1, ?_⟩
  intro pre e post q hs he
  rcases parentsOk_split exTop _ h2 pre e post q hs he with h | h
  · left; simpa [exTop] using h
  · exact Or.inr h

/-- The same for the archive itself: the entries written satisfy `WFArchive`, the hypothesis C01's `restore_exact`
makes about the tree of each backup. -/
theorem archive_wellformed {β : Type} (metaOf : Path → Vsb.Restore.Meta) (dataOf : Path → List β) (targetOf : Path → String)
    (parentOf : Path → Parent) (items : List Item) (finishOk : Bool)
    (hn : ∀ it ∈ items, namesOk it.node = true)
    (hnorm : ∀ q ∈ archs (run parentOf items finishOk).1, Vsb.Restore.NormalComps q) :
    Vsb.Restore.WFArchive (Vsb.Restore.entriesOf metaOf dataOf targetOf (run parentOf items finishOk).1) :=
  Vsb.Restore.walk_archive_wf metaOf dataOf targetOf parentOf items finishOk hn hnorm

/-- Non-vacuity: two items sharing an ancestor, the second below a cached parent. -/
example : (archs (run (fun _ => .ok)
    [{ resolved := some ["a", "x"], node := .dir none none true [("f", true, true, .file none none true true)] },
     { resolved := some ["a", "y"], node := .file none none true true }]).1) =
    [["a"], ["a", "x"], ["a", "x", "f"], ["a", "y"]] := by decide

end Vsb.Walk
