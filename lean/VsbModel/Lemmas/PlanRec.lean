import VsbModel.Lemmas.PlanLive
set_option linter.unusedSimpArgs false
set_option linter.unusedSectionVars false
set_option linter.unusedVariables false

/-!
`RestorePlan::new` at the level of manifest records: the exact shape of the plan (which record supplies which
extern paths, that every extern path is planned exactly once, that nothing is left over) for a target manifest
whose extern records all have a supplier in the target itself or in an earlier manifest of the group.
-/
namespace Vsb.Restore
variable {H β : Type} [DecidableEq H]

/-- The extern paths still looked for (this is what `missing_files` is made of at the end). -/
def tfPaths (tf : ToFind H) : List String := tf.flatMap (fun e => e.2.map (·.1))

theorem map_ite_id {α : Type} (l : List α) (c : α → Prop) [DecidablePred c] (f : α → α) (h : ∀ e ∈ l, ¬ c e) :
    l.map (fun e => if c e then f e else e) = l := by
  induction l with
  | nil => rfl
  | cons x xs ih =>
    simp only [List.map_cons, h x (by simp), if_false]
    rw [ih (fun e he => h e (List.mem_cons_of_mem _ he))]

theorem tfPaths_push (tf : ToFind H) (h : H) (p : String) (sz : Nat) (hn : (tf.map (·.1)).Nodup) :
    (tfPaths (toFindPush tf h p sz)).Perm (tfPaths tf ++ [p]) := by
  unfold toFindPush
  split
  · rename_i hany
    induction tf with
    | nil => simp at hany
    | cons x xs ih =>
      simp only [List.map_cons, List.nodup_cons] at hn
      by_cases hx : x.1 = h
      · have hrest : ∀ e ∈ xs, ¬ (e.1 = h) := by
          intro e he heq
          apply hn.1
          rw [hx, ← heq]
          exact List.mem_map_of_mem (f := (·.1)) he
        simp only [List.map_cons, hx, if_true]
        rw [map_ite_id xs (fun e => e.1 = h) _ hrest]
        simp only [tfPaths, List.flatMap_cons, List.map_append, List.map_cons, List.map_nil]
        rw [List.append_assoc, List.append_assoc]
        exact List.Perm.append_left _ List.perm_append_comm
      · simp only [List.map_cons, hx, if_false]
        have hany' : xs.any (fun e => decide (e.1 = h)) = true := by
          simpa [List.any_cons, hx] using hany
        have := ih hn.2 hany'
        simp only [tfPaths, List.flatMap_cons] at this ⊢
        rw [List.append_assoc]
        exact List.Perm.append_left _ this
  · simp [tfPaths, List.flatMap_append]

theorem tfRemove_none (tf : ToFind H) (h : H) (hf : (toFindRemove tf h).1 = none) : (toFindRemove tf h).2 = tf := by
  unfold toFindRemove at hf ⊢
  simp only [Option.map_eq_none_iff] at hf
  simp only
  rw [List.filter_eq_self]
  intro a ha
  have := List.find?_eq_none.mp hf a ha
  simpa using this

theorem tfPaths_remove (tf : ToFind H) (h : H) (hn : (tf.map (·.1)).Nodup) (found : List (String × Nat))
    (hf : (toFindRemove tf h).1 = some found) :
    (tfPaths tf).Perm (found.map (·.1) ++ tfPaths (toFindRemove tf h).2) := by
  unfold toFindRemove at hf ⊢
  simp only at hf ⊢
  induction tf with
  | nil => simp at hf
  | cons x xs ih =>
    simp only [List.map_cons, List.nodup_cons] at hn
    by_cases hx : x.1 = h
    · simp only [List.find?_cons, hx, decide_true, Option.map_some, Option.some.injEq] at hf
      have hrest : ∀ e ∈ xs, e.1 ≠ h := by
        intro e he heq
        apply hn.1
        rw [hx, ← heq]
        exact List.mem_map_of_mem (f := (·.1)) he
      have hfil : (x :: xs).filter (fun e => e.1 ≠ h) = xs := by
        simp only [List.filter_cons, hx, ne_eq, not_true_eq_false, decide_false, Bool.false_eq_true, if_false]
        rw [List.filter_eq_self]
        intro a ha
        simpa using hrest a ha
      rw [hfil, ← hf]
      simp [tfPaths]
    · simp only [List.find?_cons, hx, decide_false] at hf
      have := ih hn.2 hf
      have hfil : (x :: xs).filter (fun e => e.1 ≠ h) = x :: xs.filter (fun e => e.1 ≠ h) := by
        simp [List.filter_cons, hx]
      rw [hfil]
      simp only [tfPaths, List.flatMap_cons] at this ⊢
      exact (List.Perm.append_left _ this).trans (List.perm_append_comm_assoc _ _ _)

theorem mem_tfPaths (tf : ToFind H) (q : String) : q ∈ tfPaths tf ↔ ∃ h s, InTf tf q h s := by
  unfold tfPaths InTf
  simp only [List.mem_flatMap, List.mem_map]
  constructor
  · rintro ⟨e, he, ⟨ps, hps, rfl⟩⟩
    exact ⟨e.1, ps.2, e.2, he, hps⟩
  · rintro ⟨h, s, l, hl, hp⟩
    exact ⟨(h, l), hl, (q, s), hp, rfl⟩

/-! ### the target's own pass -/

/-- Shape of the target step's table after the own records `done`. -/
structure OwnS (X : List (MRec H)) (done : List (MRec H)) (acc : PlanAcc H) : Prop where
  ok : acc.ok = true
  keys : (acc.tf.map (·.1)).Nodup
  from_ : TfFrom X acc.tf
  fkeys : acc.files.map (·.1) = done.map (·.path)
  ffacts : ∀ kv ∈ acc.files, ∃ r ∈ done, kv.1 = r.path ∧ kv.2.hash = r.hash ∧ kv.2.size = r.size ∧
    ∃ fan, kv.2.paths = fan ++ [r.path] ∧ ∀ q ∈ fan, ∃ x ∈ X, x.path = q ∧ x.hash = r.hash
  ext : acc.ext = acc.files.flatMap (fun kv => kv.2.paths.dropLast)
  perm : (acc.ext ++ tfPaths acc.tf).Perm (X.map (·.path))
  left : ∀ p h s, InTf acc.tf p h s → ∀ r ∈ done, r.hash ≠ h

theorem mapInsert_new {V : Type} (m : List (String × V)) (k : String) (v : V) (h : k ∉ m.map (·.1)) :
    mapInsert m k v = m ++ [(k, v)] := by
  unfold mapInsert
  have : m.any (·.1 = k) = false := by
    rw [List.any_eq_false]
    intro x hx
    simp only [decide_eq_true_eq]
    intro heq
    exact h (heq ▸ List.mem_map_of_mem (f := (·.1)) hx)
  simp [this]

theorem ownStep_shape (X done : List (MRec H)) (acc : PlanAcc H) (r : MRec H) (hi : OwnS X done acc)
    (hnew : r.path ∉ done.map (·.path))
    (hsz : ∀ x ∈ X, x.hash = r.hash → x.size = r.size) : OwnS X (done ++ [r]) (ownStep acc r) := by
  have hnewk : r.path ∉ acc.files.map (·.1) := by rw [hi.fkeys]; exact hnew
  have hany : acc.files.any (·.1 = r.path) = false := by
    rw [List.any_eq_false]
    intro x hx
    simp only [decide_eq_true_eq]
    intro heq
    exact hnewk (heq ▸ List.mem_map_of_mem (f := (·.1)) hx)
  -- what is found under the record's hash
  have hfound : ∀ ps ∈ ((toFindRemove acc.tf r.hash).1).getD [], InTf acc.tf ps.1 r.hash ps.2 := by
    intro ps hps
    cases hf : (toFindRemove acc.tf r.hash).1 with
    | none => rw [hf] at hps; simp at hps
    | some found => rw [hf] at hps; exact found_inTf acc.tf r.hash found hf ps (by simpa using hps)
  have hfoundX : ∀ q ∈ (((toFindRemove acc.tf r.hash).1).getD []).map (·.1), ∃ x ∈ X, x.path = q ∧ x.hash = r.hash := by
    intro q hq
    obtain ⟨ps, hps, rfl⟩ := List.mem_map.mp hq
    obtain ⟨x, hx, h1, h2, _⟩ := hi.from_ _ _ _ (hfound ps hps)
    exact ⟨x, hx, h1, h2⟩
  have hsizes : sizesOk (((toFindRemove acc.tf r.hash).1).getD []) r.size = true := by
    simp only [sizesOk, List.all_eq_true, decide_eq_true_eq]
    intro ps hps
    obtain ⟨x, hx, _, h2, h3⟩ := hi.from_ _ _ _ (hfound ps hps)
    rw [← h3]
    exact hsz x hx h2
  have hperm : ((acc.ext ++ (((toFindRemove acc.tf r.hash).1).getD []).map (·.1)) ++ tfPaths (toFindRemove acc.tf r.hash).2).Perm (X.map (·.path)) := by
    refine List.Perm.trans ?_ hi.perm
    rw [List.append_assoc]
    apply List.Perm.append_left
    cases hf : (toFindRemove acc.tf r.hash).1 with
    | none => simp [tfRemove_none acc.tf r.hash hf]
    | some found => exact (tfPaths_remove acc.tf r.hash hi.keys found hf).symm
  unfold ownStep
  simp only
  rw [mapInsert_new acc.files r.path _ hnewk]
  exact {
    ok := by simp [hi.ok, hany, hsizes]
    keys := tfKeys_remove acc.tf r.hash hi.keys
    from_ := fun p h s hin => hi.from_ p h s (inTf_remove_rev acc.tf r.hash p h s hin).1
    fkeys := by simp [hi.fkeys]
    ffacts := fun kv hkv => by
      rcases List.mem_append.mp hkv with h | h
      · obtain ⟨r', hr', rest⟩ := hi.ffacts kv h
        exact ⟨r', List.mem_append_left _ hr', rest⟩
      · simp only [List.mem_singleton] at h
        subst h
        exact ⟨r, by simp, rfl, rfl, rfl, _, rfl, hfoundX⟩
    ext := by
      simp only [List.flatMap_append, List.flatMap_cons, List.flatMap_nil, List.append_nil, List.dropLast_concat]
      rw [hi.ext]
    perm := hperm
    left := fun p h s hin r' hr' => by
      obtain ⟨e1, e2⟩ := inTf_remove_rev acc.tf r.hash p h s hin
      rcases List.mem_append.mp hr' with h' | h'
      · exact hi.left p h s e1 r' h'
      · simp only [List.mem_singleton] at h'
        subst h'
        exact fun heq => e2 heq.symm }

theorem ownFold_shape (X : List (MRec H)) :
    ∀ (own done : List (MRec H)) (acc : PlanAcc H), OwnS X done acc →
      ((done ++ own).map (·.path)).Nodup →
      (∀ r ∈ own, ∀ x ∈ X, x.hash = r.hash → x.size = r.size) →
      OwnS X (done ++ own) (own.foldl ownStep acc) := by
  intro own
  induction own with
  | nil => intro done acc hi _ _; simpa using hi
  | cons r rest ih =>
    intro done acc hi hnd hsz
    simp only [List.foldl_cons]
    have hnew : r.path ∉ done.map (·.path) := by
      rw [List.map_append, List.map_cons] at hnd
      have := (List.nodup_append.mp hnd).2.2
      intro hin
      exact this r.path hin r.path (by simp) rfl
    have := ih (done ++ [r]) (ownStep acc r) (ownStep_shape X done acc r hi hnew (hsz r (by simp)))
      (by simpa [List.append_assoc] using hnd) (fun r' hr' => hsz r' (List.mem_cons_of_mem _ hr'))
    simpa [List.append_assoc] using this

theorem pushFold_perm : ∀ (ext : List (MRec H)) (tf : ToFind H), (tf.map (·.1)).Nodup →
    (tfPaths (ext.foldl (fun tf r => toFindPush tf r.hash r.path r.size) tf)).Perm (tfPaths tf ++ ext.map (·.path)) := by
  intro ext
  induction ext with
  | nil => intro tf _; simp
  | cons r rest ih =>
    intro tf hn
    simp only [List.foldl_cons, List.map_cons]
    refine (ih _ (tfKeys_push tf r.hash r.path r.size hn)).trans ?_
    have := tfPaths_push tf r.hash r.path r.size hn
    refine (List.Perm.append_right _ this).trans ?_
    simp [List.append_assoc]

/-- Shape of the target's own step. -/
theorem planTarget_shape (recs : List (MRec H)) (hnd : (recs.map (·.path)).Nodup)
    (hsz : ∀ r ∈ recs, isOwn r = true → ∀ x ∈ recs, isOwn x = false → x.hash = r.hash → x.size = r.size) :
    OwnS (recs.filter (fun r => !isOwn r)) (recs.filter isOwn) (planTarget recs) := by
  let X := recs.filter (fun r => !isOwn r)
  obtain ⟨t1, _, _⟩ := pushFold_inv X ([] : ToFind H) (by simp)
  have tfrom := pushFold_from X ([] : ToFind H) X (by intro p h s ⟨l, hl, _⟩; cases hl) (fun e he => he)
  have hperm := pushFold_perm X ([] : ToFind H) (by simp)
  have h0 : OwnS X [] ({ tf := X.foldl (fun tf r => toFindPush tf r.hash r.path r.size) [] } : PlanAcc H) :=
    { ok := rfl, keys := t1, from_ := tfrom, fkeys := rfl
      ffacts := fun kv hkv => by cases hkv
      ext := rfl
      perm := by simpa [tfPaths] using hperm
      left := fun p h s _ r hr => by cases hr }
  have hownnd : ((recs.filter isOwn).map (·.path)).Nodup :=
    hnd.sublist ((List.filter_sublist).map _)
  have := ownFold_shape X (recs.filter isOwn) [] _ h0 (by simpa using hownnd) (by
    intro r hr x hx hxh
    have h1 := List.mem_filter.mp hr
    have h2 := List.mem_filter.mp hx
    exact hsz r h1.1 h1.2 x h2.1 (by simpa using h2.2) hxh)
  have hpt : planTarget recs = (recs.filter isOwn).foldl ownStep { tf := X.foldl (fun tf r => toFindPush tf r.hash r.path r.size) [] } := rfl
  rw [hpt]
  simpa using this


/-! ### one earlier manifest -/

/-- Shape of an earlier backup's table while its manifest is scanned (`seen` = the records scanned so far). -/
structure EarlyS (X : List (MRec H)) (tfIn : ToFind H) (seen : List (MRec H)) (acc : PlanAcc H) : Prop where
  ok : acc.ok = true
  keys : (acc.tf.map (·.1)).Nodup
  from_ : TfFrom X acc.tf
  fkeysNodup : (acc.files.map (·.1)).Nodup
  ffacts : ∀ kv ∈ acc.files, ∃ u ∈ seen, u.unique = true ∧ kv.1 = u.path ∧ kv.2.hash = u.hash ∧ kv.2.size = u.size ∧
    ∀ q ∈ kv.2.paths, ∃ x ∈ X, x.path = q ∧ x.hash = u.hash
  ext : acc.ext = acc.files.flatMap (fun kv => kv.2.paths)
  perm : (acc.ext ++ tfPaths acc.tf).Perm (tfPaths tfIn)
  left : ∀ p h s, InTf acc.tf p h s → InTf tfIn p h s ∧ ∀ u ∈ seen, u.unique = true → u.hash ≠ h

theorem EarlyS.mono {X : List (MRec H)} {tfIn : ToFind H} {seen : List (MRec H)} {acc : PlanAcc H}
    (hi : EarlyS X tfIn seen acc) (more : List (MRec H)) (hempty : acc.tf = []) : EarlyS X tfIn (seen ++ more) acc :=
  { ok := hi.ok, keys := hi.keys, from_ := hi.from_, fkeysNodup := hi.fkeysNodup
    ffacts := fun kv hkv => by
      obtain ⟨u, hu, r⟩ := hi.ffacts kv hkv
      exact ⟨u, List.mem_append_left _ hu, r⟩
    ext := hi.ext, perm := hi.perm
    left := fun p h s hin => by
      obtain ⟨l, hl, _⟩ := hin
      rw [hempty] at hl
      cases hl }

theorem earlierLoop_shape (X : List (MRec H)) (tfIn : ToFind H) : ∀ (rs seen : List (MRec H)) (acc : PlanAcc H),
    EarlyS X tfIn seen acc →
    (((seen ++ rs).filter (·.unique)).map (·.path)).Nodup →
    (∀ u ∈ rs, u.unique = true → ∀ x ∈ X, x.hash = u.hash → x.size = u.size) →
    EarlyS X tfIn (seen ++ rs) (earlierLoop rs acc) := by
  intro rs
  induction rs with
  | nil => intro seen acc hi _ _; simpa [earlierLoop] using hi
  | cons r rest ih =>
    intro seen acc hi hnd hsz
    unfold earlierLoop
    by_cases hemp : acc.tf.isEmpty = true
    · rw [if_pos hemp]
      exact hi.mono _ (by simpa using hemp)
    · rw [if_neg hemp]
      have hnd' : ((((seen ++ [r]) ++ rest).filter (·.unique)).map (·.path)).Nodup := by simpa [List.append_assoc] using hnd
      have hsz' : ∀ u ∈ rest, u.unique = true → ∀ x ∈ X, x.hash = u.hash → x.size = u.size :=
        fun u hu => hsz u (List.mem_cons_of_mem _ hu)
      have hassoc : seen ++ r :: rest = (seen ++ [r]) ++ rest := by simp
      rw [hassoc]
      by_cases hu : r.unique = true
      · simp only [hu, Bool.not_true, Bool.false_eq_true, if_false]
        cases hfnd : (toFindRemove acc.tf r.hash).1 with
        | none =>
          simp only
          apply ih (seen ++ [r]) acc _ hnd' hsz'
          exact { ok := hi.ok, keys := hi.keys, from_ := hi.from_, fkeysNodup := hi.fkeysNodup
                  ffacts := fun kv hkv => by
                    obtain ⟨u, hu', rr⟩ := hi.ffacts kv hkv
                    exact ⟨u, List.mem_append_left _ hu', rr⟩
                  ext := hi.ext, perm := hi.perm
                  left := fun p h s hin => by
                    obtain ⟨d1, d2⟩ := hi.left p h s hin
                    refine ⟨d1, ?_⟩
                    intro u hu' huu
                    rcases List.mem_append.mp hu' with h3 | h3
                    · exact d2 u h3 huu
                    · simp only [List.mem_singleton] at h3
                      subst h3
                      exact fun heq => notFound_noKey acc.tf u.hash hfnd p h s hin heq.symm }
        | some found =>
          simp only
          -- the record's path is new among the table's keys
          have hnewk : r.path ∉ acc.files.map (·.1) := by
            intro hin
            obtain ⟨kv, hkv, hk⟩ := List.mem_map.mp hin
            obtain ⟨u, hu', huu, hku, _⟩ := hi.ffacts kv hkv
            have hn2 : (((seen.filter (·.unique)).map (·.path)) ++ (r.path :: ((rest.filter (·.unique)).map (·.path)))).Nodup := by
              simpa [List.filter_append, List.filter_cons, hu] using hnd
            have := (List.nodup_append.mp hn2).2.2 u.path
              (List.mem_map_of_mem (f := (·.path)) (List.mem_filter.mpr ⟨hu', by simpa using huu⟩)) r.path (by simp)
            exact this (by rw [← hku, hk])
          have hfoundX : ∀ q ∈ found.map (·.1), ∃ x ∈ X, x.path = q ∧ x.hash = r.hash := by
            intro q hq
            obtain ⟨ps, hps, rfl⟩ := List.mem_map.mp hq
            obtain ⟨x, hx, h1, h2, _⟩ := hi.from_ _ _ _ (found_inTf acc.tf r.hash found hfnd ps hps)
            exact ⟨x, hx, h1, h2⟩
          have hok2 : (acc.ok && sizesOk found r.size) = true := by
            simp only [hi.ok, Bool.true_and, sizesOk, List.all_eq_true, decide_eq_true_eq]
            intro ps hps
            obtain ⟨x, hx, _, hxh, hxs⟩ := hi.from_ _ _ _ (found_inTf acc.tf r.hash found hfnd ps hps)
            rw [← hxs]; exact hsz r (by simp) hu x hx hxh
          apply ih (seen ++ [r]) _ _ hnd' hsz'
          rw [mapInsert_new acc.files r.path _ hnewk]
          exact {
            ok := hok2
            keys := tfKeys_remove acc.tf r.hash hi.keys
            from_ := fun p h s hin => hi.from_ p h s (inTf_remove_rev acc.tf r.hash p h s hin).1
            fkeysNodup := by
              simp only [List.map_append, List.map_cons, List.map_nil]
              rw [List.nodup_append]
              refine ⟨hi.fkeysNodup, by simp, ?_⟩
              intro a ha b hb hab
              simp only [List.mem_singleton] at hb
              exact hnewk (hb ▸ hab ▸ ha)
            ffacts := fun kv hkv => by
              rcases List.mem_append.mp hkv with h | h
              · obtain ⟨u, hu', rr⟩ := hi.ffacts kv h
                exact ⟨u, List.mem_append_left _ hu', rr⟩
              · simp only [List.mem_singleton] at h
                subst h
                exact ⟨r, by simp, hu, rfl, rfl, rfl, hfoundX⟩
            ext := by
              simp only [List.flatMap_append, List.flatMap_cons, List.flatMap_nil, List.append_nil]
              rw [hi.ext]
            perm := by
              refine List.Perm.trans ?_ hi.perm
              simp only [List.append_assoc]
              exact List.Perm.append_left _ (tfPaths_remove acc.tf r.hash hi.keys found hfnd).symm
            left := fun p h s hin => by
              obtain ⟨e1, e2⟩ := inTf_remove_rev acc.tf r.hash p h s hin
              obtain ⟨d1, d2⟩ := hi.left p h s e1
              refine ⟨d1, ?_⟩
              intro u hu' huu
              rcases List.mem_append.mp hu' with h3 | h3
              · exact d2 u h3 huu
              · simp only [List.mem_singleton] at h3
                subst h3
                exact fun heq => e2 heq.symm }
      · have hu' : r.unique = false := by simpa using hu
        simp only [hu', Bool.not_false, if_true]
        apply ih (seen ++ [r]) acc _ hnd' hsz'
        exact { ok := hi.ok, keys := hi.keys, from_ := hi.from_, fkeysNodup := hi.fkeysNodup
                ffacts := fun kv hkv => by
                  obtain ⟨u, hu2, rr⟩ := hi.ffacts kv hkv
                  exact ⟨u, List.mem_append_left _ hu2, rr⟩
                ext := hi.ext, perm := hi.perm
                left := fun p h s hin => by
                  obtain ⟨d1, d2⟩ := hi.left p h s hin
                  refine ⟨d1, ?_⟩
                  intro u hu2 huu
                  rcases List.mem_append.mp hu2 with h3 | h3
                  · exact d2 u h3 huu
                  · simp only [List.mem_singleton] at h3
                    subst h3
                    rw [hu'] at huu; cases huu }


/-! ### the walk over the earlier backups -/

/-- What is known about a later step of the plan. -/
def LaterFacts (X : List (MRec H)) (group : List (Backup H β)) (s : Step H) : Prop :=
  ∃ b rs, group[s.backup]? = some b ∧ b.manifest = some rs ∧ (s.files.map (·.1)).Nodup ∧
    ∀ kv ∈ s.files, ∃ u ∈ rs, u.unique = true ∧ kv.1 = u.path ∧ kv.2.hash = u.hash ∧ kv.2.size = u.size ∧
      ∀ q ∈ kv.2.paths, ∃ x ∈ X, x.path = q ∧ x.hash = u.hash

structure EBS (X O : List (MRec H)) (group : List (Backup H β)) (F0 : List (String × RFile H))
    (later : List (Step H)) (ext : List String) (tf : ToFind H) (visited : List Nat) : Prop where
  keys : (tf.map (·.1)).Nodup
  from_ : TfFrom X tf
  laterFacts : ∀ s ∈ later, s.backup ∈ visited ∧ LaterFacts X group s
  extEq : ext = F0.flatMap (fun kv => kv.2.paths.dropLast) ++ later.flatMap (fun s => s.files.flatMap (fun kv => kv.2.paths))
  perm : (ext ++ tfPaths tf).Perm (X.map (·.path))
  left : ∀ p h s, InTf tf p h s → (∀ r ∈ O, r.hash ≠ h) ∧
    ∀ i ∈ visited, ∀ b rs, group[i]? = some b → b.manifest = some rs → ∀ u ∈ rs, u.unique = true → u.hash ≠ h

theorem earlierBackups_shape (X O : List (MRec H)) (group : List (Backup H β)) (t : Nat) (F0 : List (String × RFile H)) :
    ∀ (idx : List Nat) (later : List (Step H)) (ext : List String) (tf : ToFind H) (visited : List Nat),
      EBS X O group F0 later ext tf visited →
      (∀ i ∈ idx, ∃ b rs, group[i]? = some b ∧ b.manifest = some rs ∧ ((rs.filter (·.unique)).map (·.path)).Nodup ∧
        ∀ u ∈ rs, u.unique = true → ∀ x ∈ X, x.hash = u.hash → x.size = u.size) →
      ∃ later' ext' tf', earlierBackups group idx (⟨t, F0⟩ :: later) ext tf true = some (⟨t, F0⟩ :: later', ext', tf', true) ∧
        EBS X O group F0 later' ext' tf' (visited ++ idx) := by
  intro idx
  induction idx with
  | nil =>
    intro later ext tf visited hi _
    exact ⟨later, ext, tf, rfl, by simpa using hi⟩
  | cons i rest ih =>
    intro later ext tf visited hi hread
    unfold earlierBackups
    by_cases hemp : tf.isEmpty = true
    · rw [if_pos hemp]
      have htf : tf = [] := by simpa using hemp
      refine ⟨later, ext, tf, rfl, ?_⟩
      exact { keys := hi.keys, from_ := hi.from_
              laterFacts := fun s hs => ⟨List.mem_append_left _ (hi.laterFacts s hs).1, (hi.laterFacts s hs).2⟩
              extEq := hi.extEq, perm := hi.perm
              left := fun p h s hin => by
                obtain ⟨l, hl, _⟩ := hin
                rw [htf] at hl
                cases hl }
    · rw [if_neg hemp]
      obtain ⟨b, rs, hb, hm, hnd, hsz⟩ := hread i (by simp)
      simp only [hb, hm]
      have h0 : EarlyS X tf [] ({ tf := tf } : PlanAcc H) :=
        { ok := rfl, keys := hi.keys, from_ := hi.from_, fkeysNodup := List.nodup_nil
          ffacts := fun kv hkv => by cases hkv
          ext := rfl, perm := by simp
          left := fun p h s hin => ⟨hin, fun u hu => by cases hu⟩ }
      have ha := earlierLoop_shape X tf rs [] _ h0 (by simpa using hnd) hsz
      simp only [List.nil_append] at ha
      unfold planEarlier
      generalize earlierLoop rs ({ tf := tf } : PlanAcc H) = a at ha
      simp only [Bool.true_and, ha.ok]
      -- the next state
      have hnext : EBS X O group F0 (if a.files.isEmpty then later else later ++ [⟨i, a.files⟩]) (ext ++ a.ext) a.tf (visited ++ [i]) := by
        exact {
          keys := ha.keys, from_ := ha.from_
          laterFacts := fun s hs => by
            by_cases hfe : a.files.isEmpty = true
            · rw [if_pos hfe] at hs
              exact ⟨List.mem_append_left _ (hi.laterFacts s hs).1, (hi.laterFacts s hs).2⟩
            · rw [if_neg hfe] at hs
              rcases List.mem_append.mp hs with h | h
              · exact ⟨List.mem_append_left _ (hi.laterFacts s h).1, (hi.laterFacts s h).2⟩
              · simp only [List.mem_singleton] at h
                subst h
                refine ⟨by simp, b, rs, hb, hm, ha.fkeysNodup, ?_⟩
                intro kv hkv
                obtain ⟨u, hu, r⟩ := ha.ffacts kv hkv
                exact ⟨u, hu, r⟩
          extEq := by
            rw [hi.extEq, ha.ext]
            by_cases hfe : a.files.isEmpty = true
            · rw [if_pos hfe]
              have : a.files = [] := by simpa using hfe
              simp [this]
            · rw [if_neg hfe]
              simp [List.flatMap_append, List.append_assoc]
          perm := by
            refine List.Perm.trans ?_ hi.perm
            rw [List.append_assoc]
            exact List.Perm.append_left _ ha.perm
          left := fun p h s hin => by
            obtain ⟨q1, q2⟩ := ha.left p h s hin
            obtain ⟨r1, r2⟩ := hi.left p h s q1
            refine ⟨r1, ?_⟩
            intro j hj b' rs' hb' hm' u hu huu
            rcases List.mem_append.mp hj with hj' | hj'
            · exact r2 j hj' b' rs' hb' hm' u hu huu
            · simp only [List.mem_singleton] at hj'
              subst hj'
              rw [hb] at hb'; cases hb'
              rw [hm] at hm'; cases hm'
              exact q2 u hu huu }
      have hstepseq : (if a.files.isEmpty then (⟨t, F0⟩ :: later : List (Step H)) else (⟨t, F0⟩ :: later) ++ [⟨i, a.files⟩]) =
          ⟨t, F0⟩ :: (if a.files.isEmpty then later else later ++ [⟨i, a.files⟩]) := by
        split <;> simp
      rw [hstepseq]
      obtain ⟨later', ext', tf', he, hrest⟩ := ih _ (ext ++ a.ext) a.tf (visited ++ [i]) hnext
        (fun j hj => hread j (List.mem_cons_of_mem _ hj))
      exact ⟨later', ext', tf', he, by simpa [List.append_assoc] using hrest⟩

/-- **Shape of the plan** for a target manifest all of whose extern records have a supplier. -/
theorem plan_shape (group : List (Backup H β)) (target : Nat) (tb : Backup H β) (recs : List (MRec H))
    (htb : group[target]? = some tb) (hrecs : tb.manifest = some recs)
    (hnd : (recs.map (·.path)).Nodup)
    (hszOwn : ∀ r ∈ recs, isOwn r = true → ∀ x ∈ recs, isOwn x = false → x.hash = r.hash → x.size = r.size)
    (hread : ∀ i, i < target → ∃ b rs, group[i]? = some b ∧ b.manifest = some rs ∧ ((rs.filter (·.unique)).map (·.path)).Nodup ∧
        ∀ u ∈ rs, u.unique = true → ∀ x ∈ recs, isOwn x = false → x.hash = u.hash → x.size = u.size)
    (hsupplied : ∀ x ∈ recs, isOwn x = false →
      (∃ r ∈ recs, isOwn r = true ∧ r.hash = x.hash) ∨
      (∃ i, i < target ∧ ∃ b rs, group[i]? = some b ∧ b.manifest = some rs ∧ ∃ u ∈ rs, u.unique = true ∧ u.hash = x.hash)) :
    ∃ F0 later ext, plan group target = .ok ⟨⟨target, F0⟩ :: later, ext, []⟩ true ∧
      F0.map (·.1) = (recs.filter isOwn).map (·.path) ∧
      (∀ kv ∈ F0, ∃ r ∈ recs.filter isOwn, kv.1 = r.path ∧ kv.2.hash = r.hash ∧ kv.2.size = r.size ∧
        ∃ fan, kv.2.paths = fan ++ [r.path] ∧ ∀ q ∈ fan, ∃ x ∈ recs.filter (fun r => !isOwn r), x.path = q ∧ x.hash = r.hash) ∧
      (∀ s ∈ later, s.backup < target ∧ LaterFacts (recs.filter (fun r => !isOwn r)) group s) ∧
      ext = F0.flatMap (fun kv => kv.2.paths.dropLast) ++ later.flatMap (fun s => s.files.flatMap (fun kv => kv.2.paths)) ∧
      ext.Perm ((recs.filter (fun r => !isOwn r)).map (·.path)) := by
  have hown := planTarget_shape recs hnd hszOwn
  generalize hX : recs.filter (fun r => !isOwn r) = X at hown ⊢
  generalize hO : recs.filter isOwn = O at hown ⊢
  have hXmem : ∀ x ∈ X, x ∈ recs ∧ isOwn x = false := by
    intro x hx
    rw [← hX] at hx
    have := List.mem_filter.mp hx
    exact ⟨this.1, by simpa using this.2⟩
  unfold plan
  simp only [htb, hrecs]
  generalize planTarget recs = a0 at hown
  have h0 : EBS X O group a0.files [] a0.ext a0.tf [] :=
    { keys := hown.keys, from_ := hown.from_
      laterFacts := fun s hs => by cases hs
      extEq := by simp [hown.ext]
      perm := hown.perm
      left := fun p h s hin => ⟨hown.left p h s hin, fun i hi => by cases hi⟩ }
  have hidx : ∀ i ∈ (List.range target).reverse, ∃ b rs, group[i]? = some b ∧ b.manifest = some rs ∧
      ((rs.filter (·.unique)).map (·.path)).Nodup ∧
      ∀ u ∈ rs, u.unique = true → ∀ x ∈ X, x.hash = u.hash → x.size = u.size := by
    intro i hi
    have hlt : i < target := by simpa using hi
    obtain ⟨b, rs, hb, hm, hn, hs⟩ := hread i hlt
    refine ⟨b, rs, hb, hm, hn, ?_⟩
    intro u hu huu x hx hxh
    obtain ⟨h1, h2⟩ := hXmem x hx
    exact hs u hu huu x h1 h2 hxh
  obtain ⟨later', ext', tf', he, hres⟩ := earlierBackups_shape X O group target a0.files (List.range target).reverse
    [] a0.ext a0.tf [] h0 hidx
  rw [hown.ok, he]
  -- nothing is left to find
  have hnone : ∀ p h s, ¬ InTf tf' p h s := by
    intro p h s hin
    obtain ⟨l1, l2⟩ := hres.left p h s hin
    obtain ⟨x, hx, _, hxh, _⟩ := hres.from_ p h s hin
    obtain ⟨hxr, hxo⟩ := hXmem x hx
    rcases hsupplied x hxr hxo with ⟨r, hr, hro, hrh⟩ | ⟨i, hi, b, rs, hb, hm, u, hu, huu, huh⟩
    · exact l1 r (by rw [← hO]; exact List.mem_filter.mpr ⟨hr, hro⟩) (hrh.trans hxh)
    · exact l2 i (by simpa using hi) b rs hb hm u hu huu (huh.trans hxh)
  have hmiss : tfPaths tf' = [] := by
    apply List.eq_nil_iff_forall_not_mem.mpr
    intro q hq
    obtain ⟨h, s, hin⟩ := (mem_tfPaths tf' q).mp hq
    exact hnone q h s hin
  have hmiss' : tf'.flatMap (fun e => e.2.map (·.1)) = [] := hmiss
  refine ⟨a0.files, later', ext', ?_, hown.fkeys, hown.ffacts, ?_, hres.extEq, ?_⟩
  · simp [hmiss']
  · intro s hs
    obtain ⟨h1, h2⟩ := hres.laterFacts s hs
    exact ⟨by simpa using h1, h2⟩
  · have := hres.perm
    rw [hmiss, List.append_nil] at this
    exact this

end Vsb.Restore
