import VsbModel.Lemmas.Restore
set_option linter.unusedSimpArgs false
set_option linter.unusedSectionVars false
set_option linter.unusedVariables false

/-!
The target file system seen as a function `path ↦ node` (`fsGet`): what each primitive of the restore
model does to that function.  The general restore theorem (`Lemmas/RestoreGroup`) is stated and proved in
this view, so that the order in which nodes were created does not matter.
-/
namespace Vsb.Restore
variable {β : Type}

theorem fsGet_append (fs : FS β) (p q : FPath) (n : FNode β) (h : fsGet fs p = none) :
    fsGet (fs ++ [(p, n)]) q = if q = p then some n else fsGet fs q := by
  by_cases hq : q = p
  · subst hq; simp only [if_true]; exact fsGet_append_new fs q n h
  · simp only [hq, if_false]
    unfold fsGet
    rw [List.find?_append]
    cases hf : fs.find? (fun e => e.1 = q) with
    | some e => simp
    | none =>
      have : ¬ (p = q) := fun h => hq h.symm
      simp [this]

/-- Creation succeeds exactly when the path is free, non-empty and its parent is a directory; it adds the node. -/
theorem fsCreate_ok (fs : FS β) (p : FPath) (n : FNode β) (h1 : fsGet fs p = none) (h2 : parentOk fs p = true) (h3 : p ≠ []) :
    ∃ fs', fsCreate fs p n = some fs' ∧ ∀ q, fsGet fs' q = if q = p then some n else fsGet fs q := by
  refine ⟨fs ++ [(p, n)], ?_, fun q => fsGet_append fs p q n h1⟩
  unfold fsCreate
  have : p.isEmpty = false := by cases p with | nil => exact absurd rfl h3 | cons _ _ => rfl
  simp [h1, h2, this]

theorem fsGet_setMeta (fs : FS β) (p q : FPath) (m : Meta) :
    fsGet (fs.map (fun e => if e.1 = p then (e.1, setMetaNode m e.2) else e)) q =
      if q = p then (fsGet fs q).map (setMetaNode m) else fsGet fs q := by
  induction fs with
  | nil => simp [fsGet]
  | cons x xs ih =>
    unfold fsGet at ih ⊢
    simp only [List.map_cons, List.find?_cons]
    by_cases hx : x.1 = p
    · simp only [hx, if_true]
      by_cases hq : q = p
      · subst hq; simp
      · have : ¬ (p = q) := fun h => hq h.symm
        simp only [this, decide_false, hq, if_false]
        simpa [hq] using ih
    · simp only [hx, if_false]
      by_cases hxq : x.1 = q
      · have hq : ¬ (q = p) := fun h => hx (hxq.trans h)
        simp [hxq, hq]
      · simp only [hxq, decide_false]
        exact ih

theorem fsSetMeta_ok (fs : FS β) (p : FPath) (m : Meta) (x : FNode β) (h : fsGet fs p = some x) :
    ∃ fs', fsSetMeta fs p m = some fs' ∧ ∀ q, fsGet fs' q = if q = p then some (setMetaNode m x) else fsGet fs q := by
  refine ⟨fs.map (fun e => if e.1 = p then (e.1, setMetaNode m e.2) else e), ?_, ?_⟩
  · unfold fsSetMeta; simp [h]
  · intro q
    rw [fsGet_setMeta]
    by_cases hq : q = p
    · subst hq; simp [h]
    · simp [hq]

/-! ### `restore_directories` -/

/-- The proper, non-empty prefixes of `pre ++ rest` that extend `pre`, shortest first. -/
def pps (pre : FPath) : List String → List FPath
  | [] => []
  | [_] => []
  | c :: c' :: rest => (pre ++ [c]) :: pps (pre ++ [c]) (c' :: rest)

theorem pps_length_gt (pre : FPath) (rest : List String) : ∀ q ∈ pps pre rest, pre.length < q.length := by
  induction rest generalizing pre with
  | nil => intro q hq; cases hq
  | cons c rest ih =>
    cases rest with
    | nil => intro q hq; cases hq
    | cons c' rest' =>
      intro q hq
      simp only [pps, List.mem_cons] at hq
      rcases hq with rfl | hq
      · simp
      · have := ih (pre ++ [c]) q hq
        simp only [List.length_append, List.length_cons, List.length_nil] at this
        omega

theorem restoreDirectories_go_spec (rest : List String) :
    ∀ (pre : FPath) (fs : FS β) (made : List FPath),
      (∀ q, fsGet (restoreDirectories.go pre rest fs made).1 q =
        if fsGet fs q = none ∧ q ∈ pps pre rest then some (.dir none) else fsGet fs q) ∧
      (restoreDirectories.go pre rest fs made).2 = made ++ (pps pre rest).filter (fun q => (fsGet fs q).isNone) := by
  induction rest with
  | nil => intro pre fs made; simp [restoreDirectories.go, pps]
  | cons c rest ih =>
    intro pre fs made
    cases rest with
    | nil => simp [restoreDirectories.go, pps]
    | cons c' rest' =>
      simp only [restoreDirectories.go, pps]
      cases hg : fsGet fs (pre ++ [c]) with
      | some x =>
        simp only []
        obtain ⟨i1, i2⟩ := ih (pre ++ [c]) fs made
        refine ⟨?_, ?_⟩
        · intro q
          rw [i1 q]
          by_cases hq : q = pre ++ [c]
          · subst hq; simp [hg]
          · simp [hq]
        · rw [i2]; simp [hg]
      | none =>
        simp only []
        obtain ⟨i1, i2⟩ := ih (pre ++ [c]) (fs ++ [(pre ++ [c], .dir none)]) (made ++ [pre ++ [c]])
        have hlen : ∀ q ∈ pps (pre ++ [c]) (c' :: rest'), q ≠ pre ++ [c] := by
          intro q hq heq
          have := pps_length_gt _ _ q hq
          rw [heq] at this
          omega
        refine ⟨?_, ?_⟩
        · intro q
          rw [i1 q, fsGet_append fs _ q _ hg]
          by_cases hq : q = pre ++ [c]
          · subst hq; simp [hg]
          · simp only [hq, if_false, List.mem_cons, false_or]
        · rw [i2, List.append_assoc]
          congr 1
          simp only [List.filter_cons, hg, Option.isNone_none, if_true, List.singleton_append, List.cons.injEq, true_and]
          apply List.filter_congr
          intro q hq
          rw [fsGet_append fs _ q _ hg]
          simp [hlen q hq]

/-- `restore_directories`: every missing proper ancestor becomes an owner-only directory; `made` lists them. -/
theorem restoreDirectories_spec (fs : FS β) (p : FPath) :
    (∀ q, fsGet (restoreDirectories fs p).1 q =
      if fsGet fs q = none ∧ q ∈ pps [] p then some (.dir none) else fsGet fs q) ∧
    (restoreDirectories fs p).2 = (pps [] p).filter (fun q => (fsGet fs q).isNone) := by
  have := restoreDirectories_go_spec (β := β) p [] fs []
  simpa [restoreDirectories] using this

/-- Membership in `pps`: the proper non-empty prefixes. -/
theorem mem_pps (rest : List String) : ∀ (pre q : FPath),
    q ∈ pps pre rest ↔ ∃ k, 0 < k ∧ k < rest.length ∧ q = pre ++ rest.take k := by
  induction rest with
  | nil => intro pre q; simp [pps]
  | cons c rest ih =>
    intro pre q
    cases rest with
    | nil =>
      simp only [pps, List.not_mem_nil, List.length_cons, List.length_nil, false_iff, not_exists, not_and]
      intro k h1 h2; omega
    | cons c' rest' =>
      simp only [pps, List.mem_cons]
      rw [ih (pre ++ [c]) q]
      constructor
      · rintro (rfl | ⟨k, h1, h2, rfl⟩)
        · exact ⟨1, by omega, by simp, by simp⟩
        · refine ⟨k + 1, by omega, by simp only [List.length_cons] at h2 ⊢; omega, ?_⟩
          simp [List.take_succ_cons, List.append_assoc]
      · rintro ⟨k, h1, h2, rfl⟩
        cases k with
        | zero => omega
        | succ k =>
          cases k with
          | zero => left; simp
          | succ k =>
            right
            refine ⟨k + 1, by omega, by simp only [List.length_cons] at h2 ⊢; omega, ?_⟩
            simp [List.take_succ_cons, List.append_assoc]

theorem dropLast_mem_pps (p : FPath) (h : p.dropLast ≠ []) : p.dropLast ∈ pps [] p := by
  rw [mem_pps]
  refine ⟨p.length - 1, ?_, ?_, ?_⟩
  · cases p with
    | nil => simp at h
    | cons a t => cases t with
      | nil => simp at h
      | cons b t' => simp
  · cases p with
    | nil => simp at h
    | cons a t => simp
  · simp [List.dropLast_eq_take]

theorem pps_nodup (rest : List String) : ∀ pre : FPath, (pps pre rest).Nodup := by
  induction rest with
  | nil => intro pre; simp [pps]
  | cons c rest ih =>
    intro pre
    cases rest with
    | nil => simp [pps]
    | cons c' rest' =>
      simp only [pps, List.nodup_cons]
      refine ⟨?_, ih _⟩
      intro hin
      have := pps_length_gt _ _ _ hin
      omega

theorem pps_ne_self (p q : FPath) (h : q ∈ pps [] p) : q ≠ p := by
  obtain ⟨k, h1, h2, rfl⟩ := (mem_pps p [] q).mp h
  intro heq
  have : (p.take k).length = p.length := by simpa using congrArg List.length heq
  rw [List.length_take] at this
  omega

end Vsb.Restore
