import VsbModel.Lemmas.Restore
import VsbModel.Lemmas.FsView
set_option linter.unusedSimpArgs false
set_option linter.unusedSectionVars false
set_option linter.unusedVariables false

/-!
The bookkeeping of `pending_extern_files` during a restore: a path leaves the list only when it is written as part of
the fan-out of a planned file, and no path is written twice.  Hence, when a restore ends with nothing pending, the
planned extern files are pairwise distinct and each lies in the fan-out of a table entry.  Used by `exit0_sound`.
-/
namespace Vsb.Restore
variable {H β : Type} [DecidableEq H]

/-- Nothing that exists disappears. -/
def Keeps (fs fs' : FS β) : Prop := ∀ p, (fsGet fs p).isSome = true → (fsGet fs' p).isSome = true

theorem Keeps.refl (fs : FS β) : Keeps fs fs := fun _ h => h
theorem Keeps.trans {a b c : FS β} (h1 : Keeps a b) (h2 : Keeps b c) : Keeps a c := fun p h => h2 p (h1 p h)

theorem keeps_none {fs fs' : FS β} (k : Keeps fs fs') (p : FPath) (h : fsGet fs' p = none) : fsGet fs p = none := by
  cases hg : fsGet fs p with
  | none => rfl
  | some x =>
    have := k p (by rw [hg]; rfl)
    rw [h] at this
    cases this

theorem keeps_create (fs fs' : FS β) (q : FPath) (n : FNode β) (h : fsCreate fs q n = some fs') : Keeps fs fs' := by
  obtain ⟨hnone, rfl, _⟩ := fsCreate_spec fs fs' q n h
  intro p hp
  rw [fsGet_append fs q p n hnone]
  split
  · rfl
  · exact hp

theorem keeps_setMeta (fs fs' : FS β) (q : FPath) (m : Meta) (h : fsSetMeta fs q m = some fs') : Keeps fs fs' := by
  intro p hp
  rw [fsSetMeta_spec fs fs' q m h p]
  split
  · cases hg : fsGet fs p with
    | none => rw [hg] at hp; cases hp
    | some x => rfl
  · exact hp

theorem keeps_restoreDirectories (fs : FS β) (p : FPath) : Keeps fs (restoreDirectories fs p).1 := by
  intro q hq
  rw [(restoreDirectories_spec fs p).1 q]
  split
  · rfl
  · exact hq

/-- What the creation loop does to the pending list. -/
theorem createFiles_pend (content : List β) (sourcePath : String) (isTarget : Bool) :
    ∀ (paths : List String) (st st' : RSt β),
      createFiles content sourcePath isTarget paths st = some st' →
      ∃ new, (st'.pending ++ new).Perm st.pending ∧ new.Nodup ∧ Keeps st.fs st'.fs ∧
        ∀ q ∈ new, q ∈ paths ∧ ¬ (isTarget = true ∧ q = sourcePath) ∧
          ∃ fp, manifestPathToFile q = some fp ∧ (fsGet st'.fs fp).isSome = true ∧ fsGet st.fs fp = none := by
  intro paths
  induction paths with
  | nil =>
    intro st st' h
    simp only [createFiles, Option.some.injEq] at h
    subst h
    exact ⟨[], by simp, List.nodup_nil, Keeps.refl _, fun q hq => by cases hq⟩
  | cons p rest ih =>
    intro st st' h
    simp only [createFiles] at h
    cases hm : manifestPathToFile p with
    | none => simp [hm] at h
    | some fp =>
      simp only [hm] at h
      by_cases hsrc : (isTarget && decide (p = sourcePath)) = true
      · -- the record's own path: the pending list is not touched
        simp only [hsrc, Bool.not_true, Bool.false_and, Bool.false_eq_true, if_false, if_true, Bool.and_false] at h
        cases hc : fsCreate st.fs fp (.file content none) with
        | none => simp [hc] at h
        | some fs2 =>
          simp only [hc] at h
          obtain ⟨new, i1, i2, i3, i4⟩ := ih _ st' h
          have k2 : Keeps st.fs fs2 := keeps_create _ _ _ _ hc
          refine ⟨new, i1, i2, k2.trans i3, ?_⟩
          intro q hq
          obtain ⟨a, b, fq, c1, c2, c3⟩ := i4 q hq
          exact ⟨List.mem_cons_of_mem _ a, b, fq, c1, c2, keeps_none k2 fq c3⟩
      · have hsrc' : (isTarget && decide (p = sourcePath)) = false := by simpa using hsrc
        simp only [hsrc', Bool.not_false, Bool.true_and, Bool.false_eq_true, if_false, Bool.and_true] at h
        by_cases hpend : st.pending.contains p = true
        · simp only [hpend, Bool.not_true, Bool.false_eq_true, if_false] at h
          generalize hd : (if isTarget = true then restoreDirectories st.fs fp else (st.fs, [])) = dres at h
          have kd : Keeps st.fs dres.1 := by
            rw [← hd]; split
            · exact keeps_restoreDirectories _ _
            · exact Keeps.refl _
          cases hc : fsCreate dres.1 fp (.file content none) with
          | none => simp [hc] at h
          | some fs2 =>
            simp only [hc] at h
            obtain ⟨new, i1, i2, i3, i4⟩ := ih _ st' h
            simp only at i1 i3 i4
            obtain ⟨hnone, hfs2, _⟩ := fsCreate_spec _ _ _ _ hc
            have k2 : Keeps dres.1 fs2 := keeps_create _ _ _ _ hc
            have hpm : p ∈ st.pending := by simpa using hpend
            have hfp2 : (fsGet fs2 fp).isSome = true := by rw [hfs2, fsGet_append_new _ _ _ hnone]; rfl
            refine ⟨p :: new, ?_, ?_, (kd.trans k2).trans i3, ?_⟩
            · exact (List.perm_middle.trans (List.Perm.cons p i1)).trans (List.perm_cons_erase hpm).symm
            · rw [List.nodup_cons]
              refine ⟨?_, i2⟩
              intro hin
              obtain ⟨_, _, fq, c1, _, c3⟩ := i4 p hin
              rw [hm] at c1
              cases c1
              rw [c3] at hfp2
              cases hfp2
            · intro q hq
              rcases List.mem_cons.mp hq with rfl | hq
              · refine ⟨by simp, ?_, fp, hm, i3 fp hfp2, keeps_none kd fp hnone⟩
                intro hc'
                rw [hc'.1, hc'.2] at hsrc'
                simp at hsrc'
              · obtain ⟨a, b, fq, c1, c2, c3⟩ := i4 q hq
                exact ⟨List.mem_cons_of_mem _ a, b, fq, c1, c2, keeps_none (kd.trans k2) fq c3⟩
        · simp only [hpend, Bool.not_false, if_true] at h
          cases h

theorem restoreFiles_pend (hashOf : List β → H) (st st' : RSt β) (sourcePath : String) (m : Meta) (data : List β)
    (info : RFile H) (isTarget : Bool) (h : restoreFiles hashOf st sourcePath m data info isTarget = some st') :
    ∃ new, (st'.pending ++ new).Perm st.pending ∧ new.Nodup ∧ Keeps st.fs st'.fs ∧
      ∀ q ∈ new, q ∈ info.paths ∧ ¬ (isTarget = true ∧ q = sourcePath) ∧
        ∃ fp, manifestPathToFile q = some fp ∧ (fsGet st'.fs fp).isSome = true ∧ fsGet st.fs fp = none := by
  unfold restoreFiles at h
  cases hc : createFiles (data.take info.size) sourcePath isTarget info.paths st with
  | none => simp [hc] at h
  | some st1 =>
    simp only [hc] at h
    obtain ⟨new, i1, i2, i3, i4⟩ := createFiles_pend _ _ _ _ _ _ hc
    split at h
    · cases h
    · split at h
      · cases h
      · split at h
        · cases hmp : manifestPathToFile sourcePath with
          | none => simp [hmp] at h
          | some fp =>
            simp only [hmp] at h
            cases hs : fsSetMeta st1.fs fp m with
            | none => simp [hs] at h
            | some fs3 =>
              simp only [hs, Option.map_some, Option.some.injEq] at h
              subst h
              have k3 : Keeps st1.fs fs3 := keeps_setMeta _ _ _ _ hs
              refine ⟨new, i1, i2, i3.trans k3, ?_⟩
              intro q hq
              obtain ⟨a, b, fq, c1, c2, c3⟩ := i4 q hq
              exact ⟨a, b, fq, c1, k3 fq c2, c3⟩
        · simp only [Option.some.injEq] at h
          subst h
          exact ⟨new, i1, i2, i3, i4⟩

/-- In a step with table `files`: the path `q` is in the fan-out of an entry (not the entry's own path in the target step). -/
def InFan (files : List (String × RFile H)) (isTarget : Bool) (q : String) : Prop :=
  ∃ key info, mapGet files key = some info ∧ q ∈ info.paths ∧ ¬ (isTarget = true ∧ q = key)

theorem processEntry_pend (hashOf : List β → H) (files : List (String × RFile H)) (isTarget : Bool)
    (st st' : RSt β) (seen seen' : List String) (e : Entry β)
    (h : processEntry hashOf files isTarget st seen e = some (st', seen')) :
    ∃ new, (st'.pending ++ new).Perm st.pending ∧ new.Nodup ∧ Keeps st.fs st'.fs ∧
      ∀ q ∈ new, InFan files isTarget q ∧
        ∃ fp, manifestPathToFile q = some fp ∧ (fsGet st'.fs fp).isSome = true ∧ fsGet st.fs fp = none := by
  have trivial_case : ∀ (hp : st'.pending = st.pending) (hk : Keeps st.fs st'.fs),
      ∃ new, (st'.pending ++ new).Perm st.pending ∧ new.Nodup ∧ Keeps st.fs st'.fs ∧
        ∀ q ∈ new, InFan files isTarget q ∧
          ∃ fp, manifestPathToFile q = some fp ∧ (fsGet st'.fs fp).isSome = true ∧ fsGet st.fs fp = none :=
    fun hp hk => ⟨[], by simp [hp], List.nodup_nil, hk, fun q hq => by cases hq⟩
  cases e with
  | other p => simp [processEntry] at h
  | dir p m =>
    simp only [processEntry] at h
    cases ht : tarPathToFile p with
    | none => simp [ht] at h
    | some fp =>
      simp only [ht] at h
      split at h
      · simp only [Option.some.injEq, Prod.mk.injEq] at h; obtain ⟨rfl, _⟩ := h; exact trivial_case rfl (Keeps.refl _)
      · split at h
        · simp only [Option.some.injEq, Prod.mk.injEq] at h; obtain ⟨rfl, _⟩ := h; exact trivial_case rfl (Keeps.refl _)
        · cases hc : fsCreate st.fs fp (.dir none) with
          | none => simp [hc] at h
          | some fs2 =>
            simp only [hc, Option.some.injEq, Prod.mk.injEq] at h
            obtain ⟨rfl, _⟩ := h
            exact trivial_case rfl (keeps_create _ _ _ _ hc)
  | symlink p m t =>
    simp only [processEntry] at h
    cases ht : tarPathToFile p with
    | none => simp [ht] at h
    | some fp =>
      simp only [ht] at h
      split at h
      · simp only [Option.some.injEq, Prod.mk.injEq] at h; obtain ⟨rfl, _⟩ := h; exact trivial_case rfl (Keeps.refl _)
      · cases hc : fsCreate st.fs fp (.symlink t m) with
        | none => simp [hc] at h
        | some fs2 =>
          simp only [hc, Option.some.injEq, Prod.mk.injEq] at h
          obtain ⟨rfl, _⟩ := h
          exact trivial_case rfl (keeps_create _ _ _ _ hc)
  | file p m data =>
    simp only [processEntry] at h
    cases ht : tarPathToFile p with
    | none => simp [ht] at h
    | some fp =>
      simp only [ht] at h
      cases hg : mapGet files ("/" ++ "/".intercalate fp) with
      | some info =>
        simp only [hg] at h
        cases hr : restoreFiles hashOf st ("/" ++ "/".intercalate fp) m data info isTarget with
        | none => simp [hr] at h
        | some st1 =>
          simp only [hr, Option.map_some, Option.some.injEq, Prod.mk.injEq] at h
          obtain ⟨rfl, _⟩ := h
          obtain ⟨new, i1, i2, i3, i4⟩ := restoreFiles_pend hashOf st st1 _ m data info isTarget hr
          refine ⟨new, i1, i2, i3, ?_⟩
          intro q hq
          obtain ⟨a, b, c⟩ := i4 q hq
          exact ⟨⟨_, info, hg, a, b⟩, c⟩
      | none =>
        simp only [hg] at h
        split at h
        · simp only [Option.some.injEq, Prod.mk.injEq] at h; obtain ⟨rfl, _⟩ := h; exact trivial_case rfl (Keeps.refl _)
        · split at h
          · simp only [Option.some.injEq, Prod.mk.injEq] at h; obtain ⟨rfl, _⟩ := h; exact trivial_case rfl (Keeps.refl _)
          · split at h
            · simp only [Option.some.injEq, Prod.mk.injEq] at h; obtain ⟨rfl, _⟩ := h; exact trivial_case rfl (Keeps.refl _)
            · simp only [Option.some.injEq, Prod.mk.injEq] at h; obtain ⟨rfl, _⟩ := h; exact trivial_case rfl (Keeps.refl _)


/-- Two batches of removed paths, the second removed after the first was written. -/
theorem pend_combine (pending0 pending1 pending2 : List String) (new1 new2 : List String) (fs0 fs1 fs2 : FS β)
    (P : String → Prop)
    (p1 : (pending1 ++ new1).Perm pending0) (n1 : new1.Nodup) (k1 : Keeps fs0 fs1)
    (a1 : ∀ q ∈ new1, P q ∧ ∃ fp, manifestPathToFile q = some fp ∧ (fsGet fs1 fp).isSome = true ∧ fsGet fs0 fp = none)
    (p2 : (pending2 ++ new2).Perm pending1) (n2 : new2.Nodup) (k2 : Keeps fs1 fs2)
    (a2 : ∀ q ∈ new2, P q ∧ ∃ fp, manifestPathToFile q = some fp ∧ (fsGet fs2 fp).isSome = true ∧ fsGet fs1 fp = none) :
    (pending2 ++ (new1 ++ new2)).Perm pending0 ∧ (new1 ++ new2).Nodup ∧ Keeps fs0 fs2 ∧
      ∀ q ∈ new1 ++ new2, P q ∧ ∃ fp, manifestPathToFile q = some fp ∧ (fsGet fs2 fp).isSome = true ∧ fsGet fs0 fp = none := by
  refine ⟨?_, ?_, k1.trans k2, ?_⟩
  · have h1 : (pending2 ++ (new1 ++ new2)).Perm ((pending2 ++ new2) ++ new1) := by
      rw [List.append_assoc]
      exact List.Perm.append_left _ List.perm_append_comm
    exact (h1.trans (List.Perm.append_right _ p2)).trans p1
  · rw [List.nodup_append]
    refine ⟨n1, n2, ?_⟩
    intro x hx y hy hxy
    subst hxy
    obtain ⟨_, f1, m1, s1, _⟩ := a1 x hx
    obtain ⟨_, f2, m2, _, z2⟩ := a2 x hy
    rw [m1] at m2
    cases m2
    rw [z2] at s1
    cases s1
  · intro q hq
    rcases List.mem_append.mp hq with h | h
    · obtain ⟨a, fp, b, c, d⟩ := a1 q h
      exact ⟨a, fp, b, k2 fp c, d⟩
    · obtain ⟨a, fp, b, c, d⟩ := a2 q h
      exact ⟨a, fp, b, c, keeps_none k1 fp d⟩

theorem processEntries_pend (hashOf : List β → H) (files : List (String × RFile H)) (isTarget : Bool) :
    ∀ (es : List (Entry β)) (st st' : RSt β) (seen seen' : List String),
      processEntries hashOf files isTarget es st seen = some (st', seen') →
      ∃ new, (st'.pending ++ new).Perm st.pending ∧ new.Nodup ∧ Keeps st.fs st'.fs ∧
        ∀ q ∈ new, InFan files isTarget q ∧
          ∃ fp, manifestPathToFile q = some fp ∧ (fsGet st'.fs fp).isSome = true ∧ fsGet st.fs fp = none := by
  intro es
  induction es with
  | nil =>
    intro st st' seen seen' h
    simp only [processEntries, Option.some.injEq, Prod.mk.injEq] at h
    obtain ⟨rfl, _⟩ := h
    exact ⟨[], by simp, List.nodup_nil, Keeps.refl _, fun q hq => by cases hq⟩
  | cons e rest ih =>
    intro st st' seen seen' h
    simp only [processEntries] at h
    cases he : processEntry hashOf files isTarget st seen e with
    | none => simp [he] at h
    | some r =>
      obtain ⟨st1, seen1⟩ := r
      simp only [he] at h
      obtain ⟨new1, p1, n1, k1, a1⟩ := processEntry_pend hashOf files isTarget st st1 seen seen1 e he
      obtain ⟨new2, p2, n2, k2, a2⟩ := ih st1 st' seen1 seen' h
      exact ⟨new1 ++ new2, pend_combine _ _ _ _ _ _ _ _ (InFan files isTarget) p1 n1 k1 a1 p2 n2 k2 a2⟩

theorem processStep_pend (hashOf : List β → H) (b : Backup H β) (step : Step H) (isTarget : Bool) (st st' : RSt β)
    (h : processStep hashOf b step isTarget st = some st') :
    ∃ new, (st'.pending ++ new).Perm st.pending ∧ new.Nodup ∧ Keeps st.fs st'.fs ∧
      ∀ q ∈ new, InFan step.files isTarget q ∧
        ∃ fp, manifestPathToFile q = some fp ∧ (fsGet st'.fs fp).isSome = true ∧ fsGet st.fs fp = none := by
  unfold processStep at h
  cases hp : processEntries hashOf step.files isTarget b.archive st [] with
  | none => simp [hp] at h
  | some r =>
    obtain ⟨st1, seen1⟩ := r
    simp only [hp] at h
    split at h
    · cases h
    · simp only [Option.some.injEq] at h
      subst h
      exact processEntries_pend hashOf step.files isTarget b.archive st st1 [] seen1 hp

/-- `q` is in a fan-out of one of the steps (the first of which is the target's iff `first`). -/
def SlotOf : List (Step H) → Bool → String → Prop
  | [], _, _ => False
  | s :: rest, first, q => InFan s.files first q ∨ SlotOf rest false q

theorem runSteps_pend (hashOf : List β → H) (group : List (Backup H β)) :
    ∀ (steps : List (Step H)) (first : Bool) (st st' : RSt β),
      runSteps hashOf group steps first st = some st' →
      ∃ new, (st'.pending ++ new).Perm st.pending ∧ new.Nodup ∧ Keeps st.fs st'.fs ∧
        ∀ q ∈ new, SlotOf steps first q ∧
          ∃ fp, manifestPathToFile q = some fp ∧ (fsGet st'.fs fp).isSome = true ∧ fsGet st.fs fp = none := by
  intro steps
  induction steps with
  | nil =>
    intro first st st' h
    simp only [runSteps, Option.some.injEq] at h
    subst h
    exact ⟨[], by simp, List.nodup_nil, Keeps.refl _, fun q hq => by cases hq⟩
  | cons s rest ih =>
    intro first st st' h
    simp only [runSteps] at h
    cases hb : group[s.backup]? with
    | none => simp [hb] at h
    | some b =>
      simp only [hb] at h
      cases hps : processStep hashOf b s first st with
      | none => simp [hps] at h
      | some st1 =>
        simp only [hps] at h
        obtain ⟨new1, p1, n1, k1, a1⟩ := processStep_pend hashOf b s first st st1 hps
        obtain ⟨new2, p2, n2, k2, a2⟩ := ih false st1 st' h
        have a1' : ∀ q ∈ new1, SlotOf (s :: rest) first q ∧
            ∃ fp, manifestPathToFile q = some fp ∧ (fsGet st1.fs fp).isSome = true ∧ fsGet st.fs fp = none :=
          fun q hq => ⟨Or.inl (a1 q hq).1, (a1 q hq).2⟩
        have a2' : ∀ q ∈ new2, SlotOf (s :: rest) first q ∧
            ∃ fp, manifestPathToFile q = some fp ∧ (fsGet st'.fs fp).isSome = true ∧ fsGet st1.fs fp = none :=
          fun q hq => ⟨Or.inr (a2 q hq).1, (a2 q hq).2⟩
        exact ⟨new1 ++ new2, pend_combine _ _ _ _ _ _ _ _ (SlotOf (s :: rest) first) p1 n1 k1 a1' p2 n2 k2 a2'⟩

/-- **Nothing pending at the end**: the planned extern files are pairwise distinct and each was written as part of a
fan-out. -/
theorem runSteps_all_written (hashOf : List β → H) (group : List (Backup H β)) (steps : List (Step H)) (st st' : RSt β)
    (h : runSteps hashOf group steps true st = some st') (hp : st'.pending = []) :
    st.pending.Nodup ∧ ∀ q ∈ st.pending, SlotOf steps true q := by
  obtain ⟨new, p, n, _, a⟩ := runSteps_pend hashOf group steps true st st' h
  rw [hp, List.nil_append] at p
  exact ⟨p.nodup_iff.mp n, fun q hq => (a q (p.mem_iff.mpr hq)).1⟩

end Vsb.Restore
