import VsbModel.Lemmas.PlanFacts
set_option linter.unusedSimpArgs false
set_option linter.unusedSectionVars false
set_option linter.unusedVariables false

/-!
Soundness of the executable hypotheses check of `restore_exact` (`generalCheck`), which the correspondence
run evaluates on real storages.
-/
namespace Vsb.Restore
variable {H β : Type} [DecidableEq H] [DecidableEq β]

theorem backupEq_sound (a b : Backup H β) (h : backupEq a b = true) : a = b := by
  unfold backupEq at h
  simp only [Bool.and_eq_true, beq_iff_eq, decide_eq_true_eq] at h
  obtain ⟨⟨⟨h1, h2⟩, h3⟩, h4⟩ := h
  cases a; cases b
  simp_all

theorem resolvableCheck_sound (lg : List (LBackup β)) (t : Nat) (lt : LBackup β) (h : resolvableCheck lg t lt = true) :
    ResolvableL lg t lt := by
  intro b hb hext
  unfold resolvableCheck at h
  rw [List.all_eq_true] at h
  have hb' := h b hb
  simp only [hext, Bool.not_true, Bool.false_or, Bool.or_eq_true, List.any_eq_true, Bool.and_eq_true, decide_eq_true_eq] at hb'
  rcases hb' with ⟨a, ha, hown, hc⟩ | ⟨j, hj, hrest⟩
  · exact Or.inl ⟨a, ha, hown, hc⟩
  · right
    have hjt : j < t := by simpa using hj
    cases hl : lg[j]? with
    | none => rw [hl] at hrest; cases hrest
    | some lb =>
      rw [hl] at hrest
      simp only [List.any_eq_true] at hrest
      obtain ⟨a, ha, hm⟩ := hrest
      cases a with
      | file p m d =>
        simp only [Bool.and_eq_true, decide_eq_true_eq] at hm
        exact ⟨j, hjt, lb, hl, p, m, d, ha, hm.1, hm.2⟩
      | dir p m => cases hm
      | symlink p m t' => cases hm
      | other p => cases hm

/-- What a successful `generalCheck` establishes. -/
theorem generalCheck_sound (hashOf : List β → H) (contentOf : H → Nat → Option (List β)) (group : List (Backup H β)) (t : Nat)
    (lg : List (LBackup β)) (h : generalCheck hashOf contentOf group t = some lg) :
    (∀ (j : Nat) (lb : LBackup β), lg[j]? = some lb → group[j]? = some (render hashOf lb)) ∧
    (∀ (j : Nat) (lb : LBackup β), j ≤ t → lg[j]? = some lb → WFArchive lb.es) ∧
    ∃ lt, lg[t]? = some lt ∧ ResolvableL lg t lt := by
  unfold generalCheck at h
  cases hm : (group.take (t + 1)).mapM (logicalOf contentOf) with
  | none => rw [hm] at h; cases h
  | some lg' =>
    rw [hm] at h
    simp only at h
    split at h
    · rename_i hc
      obtain ⟨hlen, hall⟩ := hc
      cases hlt : lg'[t]? with
      | none => rw [hlt] at h; cases h
      | some lt =>
        rw [hlt] at h
        simp only at h
        split at h
        · rename_i hr
          simp only [Option.some.injEq] at h
          subst h
          rw [List.all_eq_true] at hall
          have hper : ∀ (j : Nat) (lb : LBackup β), lg'[j]? = some lb → group[j]? = some (render hashOf lb) ∧ WFArchive lb.es := by
            intro j lb hj
            have hjlt : j < t + 1 := by
              have := (List.getElem?_eq_some_iff.mp hj).1
              omega
            have := hall j (by simpa using hjlt)
            rw [hj] at this
            cases hg : group[j]? with
            | none => rw [hg] at this; cases this
            | some b =>
              rw [hg] at this
              simp only [Bool.and_eq_true] at this
              rw [backupEq_sound _ _ this.1]
              exact ⟨rfl, wfCheck_sound _ this.2⟩
          exact ⟨fun j lb hj => (hper j lb hj).1, fun j lb _ hj => (hper j lb hj).2, lt, hlt, resolvableCheck_sound _ _ _ hr⟩
        · cases h
    · cases h

end Vsb.Restore
