import VsbModel.Model.Dedup
set_option linter.unusedSectionVars false
set_option linter.unusedSimpArgs false

namespace Vsb.Dedup
variable {H F P : Type} [DecidableEq H] [DecidableEq F] [DecidableEq P]

/-- Every non-empty `extern` record of `rs` has its hash in `avail` or among the `unique` records
that precede it in `rs`. -/
def ResolvesIn (avail : List H) : List (Rec H F P) → Prop
  | [] => True
  | r :: rs => (r.unique = false → r.size ≠ 0 → r.hash ∈ avail) ∧
               ResolvesIn (if r.unique then r.hash :: avail else avail) rs

theorem ResolvesIn.mono {a b : List H} (hab : ∀ h ∈ a, h ∈ b) :
    ∀ (rs : List (Rec H F P)), ResolvesIn a rs → ResolvesIn b rs := by
  intro rs
  induction rs generalizing a b with
  | nil => intro _; trivial
  | cons r rs ih =>
    intro h
    refine ⟨fun h1 h2 => hab _ (h.1 h1 h2), ?_⟩
    refine ih ?_ h.2
    intro x hx
    split at hx <;> split <;> simp_all <;> grind

theorem mem_uniques (rs : List (Rec H F P)) (h : H) : h ∈ uniques rs ↔ ∃ r ∈ rs, r.unique = true ∧ r.hash = h := by
  simp [uniques, and_assoc]

theorem uniques_append (a b : List (Rec H F P)) : uniques (a ++ b) = uniques a ++ uniques b := by
  simp [uniques]

theorem resolvesIn_append (avail : List H) (a b : List (Rec H F P)) :
    ResolvesIn avail (a ++ b) ↔ ResolvesIn avail a ∧
      ∀ avail', (∀ h, h ∈ avail' ↔ h ∈ uniques a ∨ h ∈ avail) → ResolvesIn avail' b := by
  induction a generalizing avail with
  | nil =>
    simp only [List.nil_append, ResolvesIn, true_and]
    constructor
    · intro h avail' hav; exact ResolvesIn.mono (fun x hx => (hav x).mpr (Or.inr hx)) b h
    · intro h; exact h avail (by simp [uniques])
  | cons r rs ih =>
    simp only [List.cons_append, ResolvesIn]
    rw [ih]
    constructor
    · rintro ⟨h1, h2, h3⟩
      refine ⟨⟨h1, h2⟩, ?_⟩
      intro avail' hav
      apply h3
      intro h; rw [hav h]
      by_cases hu : r.unique = true <;> simp [uniques, hu, List.filter_cons] <;> grind
    · rintro ⟨⟨h1, h2⟩, h3⟩
      refine ⟨h1, h2, ?_⟩
      intro avail' hav
      apply h3
      intro h; rw [hav h]
      by_cases hu : r.unique = true <;> simp [uniques, hu, List.filter_cons] <;> grind

/-- In a resolvable sequence every record with data (unique or non-empty extern) has its hash among
the uniques of the sequence (or in `avail`). -/
theorem hash_available (avail : List H) (rs : List (Rec H F P)) (h : ResolvesIn avail rs) :
    ∀ r ∈ rs, r.size ≠ 0 → r.hash ∈ avail ∨ r.hash ∈ uniques rs := by
  induction rs generalizing avail with
  | nil => intro r hr; cases hr
  | cons x xs ih =>
    intro r hr hs
    simp only [List.mem_cons] at hr
    rcases hr with rfl | hr
    · by_cases hu : r.unique = true
      · right; simp [uniques, hu, List.filter_cons]
      · left; exact h.1 (by simpa using hu) hs
    · have := ih _ h.2 r hr hs
      by_cases hu : x.unique = true
      · simp only [hu, if_true, List.mem_cons] at this
        rcases this with (h' | h') | h'
        · right; simp [uniques, hu, List.filter_cons, h']
        · left; exact h'
        · right; simp only [uniques, List.filter_cons, hu, if_true, List.map_cons, List.mem_cons]; right; exact h'
      · simp only [hu] at this
        rcases this with h' | h'
        · left; simpa using h'
        · right; simp only [uniques, List.filter_cons, hu]; simpa [uniques] using h'

theorem lookupLast_mem {l : List (Rec H F P)} {p : P} {r : Rec H F P} (h : lookupLast l p = some r) : r ∈ l := by
  unfold lookupLast at h
  have := List.mem_of_find?_eq_some h
  simpa using this

theorem lookupLast_path {l : List (Rec H F P)} {p : P} {r : Rec H F P} (h : lookupLast l p = some r) : r.path = p := by
  unfold lookupLast at h
  have := List.find?_some h
  simpa using this

/-- The dedup loop preserves resolvability (design appendix A). -/
theorem runFiles_resolves (emptyHash : H) (avail known : List H) (last : Option (List (Rec H F P)))
    (es : List (FileEv H F P))
    (hk : ∀ h ∈ known, h ∈ avail)
    (hl : ∀ l, last = some l → ∀ r ∈ l, r.size ≠ 0 → r.hash ∈ avail)
    (hfp : ∀ l, last = some l → ∀ e ∈ es, ∀ r, lookupLast l e.path = some r → r.fp = e.fp → r.size = e.size) :
    ResolvesIn avail (records (runFiles emptyHash known last es)) := by
  induction es generalizing avail known with
  | nil => simp [runFiles, records, ResolvesIn]
  | cons e es ih =>
    have hfp' : ∀ l, last = some l → ∀ e ∈ es, ∀ r, lookupLast l e.path = some r → r.fp = e.fp → r.size = e.size :=
      fun l hl' e' he' => hfp l hl' e' (List.mem_cons_of_mem _ he')
    have ih1 := ih avail known hk hl hfp'
    have ih2 := ih (e.hash :: avail) (e.hash :: known) (by grind) (by grind) hfp'
    have hm := @lookupLast_mem H F P _ _ _
    have hfe := fun l hl' => hfp l hl' e (List.mem_cons_self ..)
    simp only [runFiles, records, List.map_cons, dedupOne]
    simp only [records] at ih1 ih2
    cases last with
    | none => simp only [Option.bind]; grind [ResolvesIn]
    | some l =>
      simp only [Option.bind]
      cases hlk : lookupLast l e.path with
      | none => grind [ResolvesIn]
      | some r =>
        have := hm hlk
        have := hfe l rfl r hlk
        grind [ResolvesIn]

end Vsb.Dedup
