import VsbModel.Lemmas.PlanRec
set_option linter.unusedSimpArgs false
set_option linter.unusedSectionVars false
set_option linter.unusedVariables false

/-!
Facts about `RestorePlan::new` that hold for *every* group and target manifest — corrupted ones included, no
distinctness of paths assumed: conservation of the extern paths (each one ends up planned or missing, with
multiplicity) and the origin of every fan-out entry.  Used by `exit0_sound`.
-/
namespace Vsb.Restore
variable {H β : Type} [DecidableEq H]

/-! ### conservation -/

theorem ownStep_perm (acc : PlanAcc H) (r : MRec H) (hk : (acc.tf.map (·.1)).Nodup) :
    ((ownStep acc r).ext ++ tfPaths (ownStep acc r).tf).Perm (acc.ext ++ tfPaths acc.tf) := by
  unfold ownStep
  simp only
  rw [List.append_assoc]
  apply List.Perm.append_left
  cases hf : (toFindRemove acc.tf r.hash).1 with
  | none => simp [tfRemove_none acc.tf r.hash hf]
  | some found => exact (tfPaths_remove acc.tf r.hash hk found hf).symm

theorem ownStep_keys (acc : PlanAcc H) (r : MRec H) (hk : (acc.tf.map (·.1)).Nodup) :
    ((ownStep acc r).tf.map (·.1)).Nodup := tfKeys_remove acc.tf r.hash hk

theorem ownFold_perm : ∀ (own : List (MRec H)) (acc : PlanAcc H), (acc.tf.map (·.1)).Nodup →
    ((own.foldl ownStep acc).tf.map (·.1)).Nodup ∧
    ((own.foldl ownStep acc).ext ++ tfPaths (own.foldl ownStep acc).tf).Perm (acc.ext ++ tfPaths acc.tf) := by
  intro own
  induction own with
  | nil => intro acc hk; exact ⟨hk, List.Perm.refl _⟩
  | cons r rest ih =>
    intro acc hk
    simp only [List.foldl_cons]
    obtain ⟨h1, h2⟩ := ih (ownStep acc r) (ownStep_keys acc r hk)
    exact ⟨h1, h2.trans (ownStep_perm acc r hk)⟩

theorem planTarget_perm (recs : List (MRec H)) :
    ((planTarget recs).tf.map (·.1)).Nodup ∧
    ((planTarget recs).ext ++ tfPaths (planTarget recs).tf).Perm ((recs.filter (fun r => !isOwn r)).map (·.path)) := by
  obtain ⟨t1, _, _⟩ := pushFold_inv (recs.filter (fun r => !isOwn r)) ([] : ToFind H) (by simp)
  have hp := pushFold_perm (recs.filter (fun r => !isOwn r)) ([] : ToFind H) (by simp)
  obtain ⟨h1, h2⟩ := ownFold_perm (recs.filter isOwn)
    ({ tf := (recs.filter (fun r => !isOwn r)).foldl (fun tf r => toFindPush tf r.hash r.path r.size) [] } : PlanAcc H) t1
  refine ⟨h1, ?_⟩
  have : planTarget recs = (recs.filter isOwn).foldl ownStep
      { tf := (recs.filter (fun r => !isOwn r)).foldl (fun tf r => toFindPush tf r.hash r.path r.size) [] } := rfl
  rw [this]
  refine h2.trans ?_
  simpa [tfPaths] using hp

theorem earlierLoop_perm : ∀ (rs : List (MRec H)) (acc : PlanAcc H), (acc.tf.map (·.1)).Nodup →
    ((earlierLoop rs acc).tf.map (·.1)).Nodup ∧
    ((earlierLoop rs acc).ext ++ tfPaths (earlierLoop rs acc).tf).Perm (acc.ext ++ tfPaths acc.tf) := by
  intro rs
  induction rs with
  | nil => intro acc hk; exact ⟨hk, List.Perm.refl _⟩
  | cons r rest ih =>
    intro acc hk
    unfold earlierLoop
    by_cases hemp : acc.tf.isEmpty = true
    · rw [if_pos hemp]; exact ⟨hk, List.Perm.refl _⟩
    · rw [if_neg hemp]
      by_cases hu : r.unique = true
      · simp only [hu, Bool.not_true, Bool.false_eq_true, if_false]
        cases hf : (toFindRemove acc.tf r.hash).1 with
        | none => simp only; exact ih acc hk
        | some found =>
          simp only
          obtain ⟨h1, h2⟩ := ih (PlanAcc.mk (mapInsert acc.files r.path ⟨r.hash, r.size, found.map (·.1)⟩)
            (acc.ext ++ found.map (·.1)) (toFindRemove acc.tf r.hash).2 (acc.ok && sizesOk found r.size))
            (tfKeys_remove acc.tf r.hash hk)
          refine ⟨h1, h2.trans ?_⟩
          simp only [List.append_assoc]
          exact List.Perm.append_left _ (tfPaths_remove acc.tf r.hash hk found hf).symm
      · have hu' : r.unique = false := by simpa using hu
        simp only [hu', Bool.not_false, if_true]
        exact ih acc hk

theorem earlierBackups_perm (group : List (Backup H β)) :
    ∀ (idx : List Nat) (steps : List (Step H)) (ext : List String) (tf : ToFind H) (ok : Bool)
      (steps' : List (Step H)) (ext' : List String) (tf' : ToFind H) (ok' : Bool),
      earlierBackups group idx steps ext tf ok = some (steps', ext', tf', ok') → (tf.map (·.1)).Nodup →
      (ext' ++ tfPaths tf').Perm (ext ++ tfPaths tf) := by
  intro idx
  induction idx with
  | nil =>
    intro steps ext tf ok steps' ext' tf' ok' h _
    simp only [earlierBackups, Option.some.injEq, Prod.mk.injEq] at h
    obtain ⟨_, rfl, rfl, _⟩ := h
    exact List.Perm.refl _
  | cons i rest ih =>
    intro steps ext tf ok steps' ext' tf' ok' h hk
    simp only [earlierBackups] at h
    split at h
    · simp only [Option.some.injEq, Prod.mk.injEq] at h
      obtain ⟨_, rfl, rfl, _⟩ := h
      exact List.Perm.refl _
    · cases hb : group[i]? with
      | none =>
        simp only [hb, Option.some.injEq, Prod.mk.injEq] at h
        obtain ⟨_, rfl, rfl, _⟩ := h
        exact List.Perm.refl _
      | some b =>
        simp only [hb] at h
        cases hm : b.manifest with
        | none => simp [hm] at h
        | some recs =>
          simp only [hm] at h
          obtain ⟨k1, k2⟩ := earlierLoop_perm recs ({ tf := tf } : PlanAcc H) hk
          have := ih _ _ _ _ _ _ _ _ h k1
          refine this.trans ?_
          rw [List.append_assoc]
          apply List.Perm.append_left
          simpa [planEarlier] using k2

/-- **Conservation.**  Whatever the manifests look like: the extern paths of the target (with multiplicity) are exactly
the planned extern files plus the missing ones. -/
theorem plan_perm (group : List (Backup H β)) (target : Nat) (tb : Backup H β) (recs : List (MRec H))
    (htb : group[target]? = some tb) (hrecs : tb.manifest = some recs) (p : Plan H) (ok : Bool)
    (h : plan group target = .ok p ok) :
    (p.externFiles ++ p.missingFiles).Perm ((recs.filter (fun r => !isOwn r)).map (·.path)) := by
  unfold plan at h
  simp only [htb, hrecs] at h
  cases he : earlierBackups group ((List.range target).reverse) [⟨target, (planTarget recs).files⟩]
      (planTarget recs).ext (planTarget recs).tf (planTarget recs).ok with
  | none => simp [he] at h
  | some res =>
    obtain ⟨steps, ext, tf, ok'⟩ := res
    simp only [he, PlanRes.ok.injEq] at h
    obtain ⟨rfl, _⟩ := h
    obtain ⟨k1, k2⟩ := planTarget_perm recs
    exact (earlierBackups_perm group _ _ _ _ _ _ _ _ _ he k1).trans k2


/-! ### where fan-out entries come from -/

theorem mem_mapInsert {V : Type} (m : List (String × V)) (k : String) (v : V) (kv : String × V)
    (h : kv ∈ mapInsert m k v) : kv ∈ m ∨ kv = (k, v) := by
  unfold mapInsert at h
  split at h
  · obtain ⟨e, he, hm⟩ := List.mem_map.mp h
    by_cases hk : e.1 = k
    · rw [if_pos hk] at hm; exact Or.inr hm.symm
    · rw [if_neg hk] at hm; exact Or.inl (hm ▸ he)
  · rcases List.mem_append.mp h with h | h
    · exact Or.inl h
    · exact Or.inr (List.mem_singleton.mp h)

/-- Fan-out entries of the target step's table (all paths but the record's own, which comes last). -/
def FanT (X : List (MRec H)) (files : List (String × RFile H)) : Prop :=
  ∀ kv ∈ files, ∀ q ∈ kv.2.paths.dropLast, ∃ x ∈ X, x.path = q ∧ x.hash = kv.2.hash ∧ x.size = kv.2.size

/-- Fan-out entries of an earlier backup's table. -/
def FanE (X : List (MRec H)) (files : List (String × RFile H)) : Prop :=
  ∀ kv ∈ files, ∀ q ∈ kv.2.paths, ∃ x ∈ X, x.path = q ∧ x.hash = kv.2.hash ∧ x.size = kv.2.size

theorem found_from (X : List (MRec H)) (tf : ToFind H) (hf : TfFrom X tf) (h : H) (size : Nat)
    (hs : sizesOk (((toFindRemove tf h).1).getD []) size = true) :
    ∀ q ∈ (((toFindRemove tf h).1).getD []).map (·.1), ∃ x ∈ X, x.path = q ∧ x.hash = h ∧ x.size = size := by
  intro q hq
  obtain ⟨ps, hps, rfl⟩ := List.mem_map.mp hq
  cases hfd : (toFindRemove tf h).1 with
  | none => rw [hfd] at hps; simp at hps
  | some found =>
    rw [hfd] at hps hs
    simp only [Option.getD_some] at hps hs
    obtain ⟨x, hx, h1, h2, h3⟩ := hf _ _ _ (found_inTf tf h found hfd ps hps)
    simp only [sizesOk, List.all_eq_true, decide_eq_true_eq] at hs
    exact ⟨x, hx, h1, h2, by rw [h3]; exact hs ps hps⟩

theorem ownStep_fan (X : List (MRec H)) (acc : PlanAcc H) (r : MRec H) (hf : TfFrom X acc.tf)
    (hi : acc.ok = true → FanT X acc.files) :
    TfFrom X (ownStep acc r).tf ∧ ((ownStep acc r).ok = true → FanT X (ownStep acc r).files) := by
  refine ⟨fun p h s hin => hf p h s (inTf_remove_rev acc.tf r.hash p h s hin).1, ?_⟩
  intro hok
  simp only [ownStep, Bool.and_eq_true, Bool.not_eq_true'] at hok
  obtain ⟨⟨hok0, _⟩, hsz⟩ := hok
  intro kv hkv
  simp only [ownStep] at hkv
  rcases mem_mapInsert _ _ _ _ hkv with h | h
  · exact hi hok0 kv h
  · subst h
    intro q hq
    simp only [List.dropLast_concat] at hq
    exact found_from X acc.tf hf r.hash r.size hsz q hq

theorem ownFold_fan (X : List (MRec H)) : ∀ (own : List (MRec H)) (acc : PlanAcc H), TfFrom X acc.tf →
    (acc.ok = true → FanT X acc.files) →
    TfFrom X (own.foldl ownStep acc).tf ∧ ((own.foldl ownStep acc).ok = true → FanT X (own.foldl ownStep acc).files) := by
  intro own
  induction own with
  | nil => intro acc hf hi; exact ⟨hf, hi⟩
  | cons r rest ih =>
    intro acc hf hi
    simp only [List.foldl_cons]
    obtain ⟨h1, h2⟩ := ownStep_fan X acc r hf hi
    exact ih _ h1 h2

theorem planTarget_fan (recs : List (MRec H)) :
    TfFrom (recs.filter (fun r => !isOwn r)) (planTarget recs).tf ∧
    ((planTarget recs).ok = true → FanT (recs.filter (fun r => !isOwn r)) (planTarget recs).files) := by
  have tfrom := pushFold_from (recs.filter (fun r => !isOwn r)) ([] : ToFind H) (recs.filter (fun r => !isOwn r))
    (by intro p h s ⟨l, hl, _⟩; cases hl) (fun e he => he)
  exact ownFold_fan _ (recs.filter isOwn) _ tfrom (fun _ kv hkv => by cases hkv)

theorem earlierLoop_fan (X : List (MRec H)) : ∀ (rs : List (MRec H)) (acc : PlanAcc H), TfFrom X acc.tf →
    (acc.ok = true → FanE X acc.files) →
    TfFrom X (earlierLoop rs acc).tf ∧ ((earlierLoop rs acc).ok = true → acc.ok = true ∧ FanE X (earlierLoop rs acc).files) := by
  intro rs
  induction rs with
  | nil => intro acc hf hi; exact ⟨hf, fun h => ⟨h, hi h⟩⟩
  | cons r rest ih =>
    intro acc hf hi
    unfold earlierLoop
    by_cases hemp : acc.tf.isEmpty = true
    · rw [if_pos hemp]; exact ⟨hf, fun h => ⟨h, hi h⟩⟩
    · rw [if_neg hemp]
      by_cases hu : r.unique = true
      · simp only [hu, Bool.not_true, Bool.false_eq_true, if_false]
        cases hfd : (toFindRemove acc.tf r.hash).1 with
        | none => simp only; exact ih acc hf hi
        | some found =>
          simp only
          obtain ⟨h1, h2⟩ := ih (PlanAcc.mk (mapInsert acc.files r.path ⟨r.hash, r.size, found.map (·.1)⟩)
            (acc.ext ++ found.map (·.1)) (toFindRemove acc.tf r.hash).2 (acc.ok && sizesOk found r.size))
            (fun p h s hin => hf p h s (inTf_remove_rev acc.tf r.hash p h s hin).1)
            (by
              intro hok
              simp only [Bool.and_eq_true] at hok
              intro kv hkv
              rcases mem_mapInsert _ _ _ _ hkv with h | h
              · exact hi hok.1 kv h
              · subst h
                intro q hq
                have := found_from X acc.tf hf r.hash r.size (by rw [hfd]; exact hok.2) q (by rw [hfd]; exact hq)
                exact this)
          refine ⟨h1, fun hok => ?_⟩
          obtain ⟨a, b⟩ := h2 hok
          simp only [Bool.and_eq_true] at a
          exact ⟨a.1, b⟩
      · have hu' : r.unique = false := by simpa using hu
        simp only [hu', Bool.not_false, if_true]
        exact ih acc hf hi

theorem earlierBackups_fan (X : List (MRec H)) (group : List (Backup H β)) :
    ∀ (idx : List Nat) (steps : List (Step H)) (ext : List String) (tf : ToFind H) (ok : Bool)
      (steps' : List (Step H)) (ext' : List String) (tf' : ToFind H) (ok' : Bool),
      earlierBackups group idx steps ext tf ok = some (steps', ext', tf', ok') → TfFrom X tf →
      ∃ extra, steps' = steps ++ extra ∧ (ok' = true → ok = true ∧ ∀ s ∈ extra, FanE X s.files) := by
  intro idx
  induction idx with
  | nil =>
    intro steps ext tf ok steps' ext' tf' ok' h _
    simp only [earlierBackups, Option.some.injEq, Prod.mk.injEq] at h
    obtain ⟨rfl, _, _, rfl⟩ := h
    exact ⟨[], by simp, fun h => ⟨h, fun s hs => by cases hs⟩⟩
  | cons i rest ih =>
    intro steps ext tf ok steps' ext' tf' ok' h hf
    simp only [earlierBackups] at h
    split at h
    · simp only [Option.some.injEq, Prod.mk.injEq] at h
      obtain ⟨rfl, _, _, rfl⟩ := h
      exact ⟨[], by simp, fun h => ⟨h, fun s hs => by cases hs⟩⟩
    · cases hb : group[i]? with
      | none =>
        simp only [hb, Option.some.injEq, Prod.mk.injEq] at h
        obtain ⟨rfl, _, _, rfl⟩ := h
        exact ⟨[], by simp, fun h => ⟨h, fun s hs => by cases hs⟩⟩
      | some b =>
        simp only [hb] at h
        cases hm : b.manifest with
        | none => simp [hm] at h
        | some recs =>
          simp only [hm] at h
          obtain ⟨k1, k2⟩ := earlierLoop_fan X recs ({ tf := tf } : PlanAcc H) hf (fun _ kv hkv => by cases hkv)
          obtain ⟨extra, he, hx⟩ := ih _ _ _ _ _ _ _ _ h (by simpa [planEarlier] using k1)
          by_cases hfe : (planEarlier recs tf).files.isEmpty = true
          · rw [if_pos hfe] at he
            refine ⟨extra, he, fun hok => ?_⟩
            obtain ⟨a, b⟩ := hx hok
            simp only [Bool.and_eq_true] at a
            exact ⟨a.1, b⟩
          · rw [if_neg hfe] at he
            refine ⟨⟨i, (planEarlier recs tf).files⟩ :: extra, by rw [he]; simp, fun hok => ?_⟩
            obtain ⟨a, b⟩ := hx hok
            simp only [Bool.and_eq_true] at a
            refine ⟨a.1, ?_⟩
            intro s hs
            rcases List.mem_cons.mp hs with rfl | hs
            · exact (k2 (by simpa [planEarlier] using a.2)).2
            · exact b s hs

/-- **Origin of the fan-outs.**  In a plan built without a complaint, the first step is the target's with table `F0`,
every path in a fan-out of `F0` (all but the record's own path) and every path in a table of a later step is the path
of an extern record of the target with the table entry's hash and size. -/
theorem plan_fans (group : List (Backup H β)) (target : Nat) (tb : Backup H β) (recs : List (MRec H))
    (htb : group[target]? = some tb) (hrecs : tb.manifest = some recs) (p : Plan H)
    (h : plan group target = .ok p true) :
    ∃ later, p.steps = ⟨target, (planTarget recs).files⟩ :: later ∧ (planTarget recs).ok = true ∧
      FanT (recs.filter (fun r => !isOwn r)) (planTarget recs).files ∧
      ∀ s ∈ later, FanE (recs.filter (fun r => !isOwn r)) s.files := by
  unfold plan at h
  simp only [htb, hrecs] at h
  cases he : earlierBackups group ((List.range target).reverse) [⟨target, (planTarget recs).files⟩]
      (planTarget recs).ext (planTarget recs).tf (planTarget recs).ok with
  | none => simp [he] at h
  | some res =>
    obtain ⟨steps, ext, tf, ok'⟩ := res
    simp only [he, PlanRes.ok.injEq] at h
    obtain ⟨rfl, hok⟩ := h
    simp only [Bool.and_eq_true] at hok
    obtain ⟨t1, t2⟩ := planTarget_fan recs
    obtain ⟨extra, hs, hx⟩ := earlierBackups_fan _ group _ _ _ _ _ _ _ _ _ he t1
    obtain ⟨a, b⟩ := hx hok.1
    exact ⟨extra, by simpa using hs, a, t2 a, b⟩

end Vsb.Restore
