import VsbModel.Model.Walk

namespace Vsb.Walk

def Ev.isHook : Ev → Bool
  | .before _ => true
  | .after _ => true
  | .hookFailed _ => true
  | _ => false

/-- Events that clear `ok`. -/
def Ev.isError : Ev → Bool
  | .error _ => true
  | .hookFailed _ => true
  | .itemError _ => true
  | _ => false

theorem andThen_evs_of_not_abort (a : Out) (b : Unit → Out) (h : (a.andThen b).abort = false) :
    a.abort = false ∧ (b ()).abort = false ∧ (a.andThen b).evs = a.evs ++ (b ()).evs ∧
    (a.andThen b).ok = (a.ok && (b ()).ok) := by
  unfold Out.andThen at *
  by_cases ha : a.abort = true
  · simp [ha] at h
  · simp only [ha, Bool.false_eq_true, if_false] at h ⊢
    exact ⟨by simpa using ha, h, trivial, trivial⟩

theorem andThen_prefix (a : Out) (b : Unit → Out) : ∃ t, (a.andThen b).evs = a.evs ++ t := by
  unfold Out.andThen
  split
  · exact ⟨[], by simp⟩
  · exact ⟨_, rfl⟩

/-- `ok` is true iff no error-class event was emitted (for fragments that start from `ok = true`). -/
def OkIff (o : Out) : Prop := o.ok = true ↔ ∀ e ∈ o.evs, e.isError = false

theorem okIff_errorAt (p : Path) : OkIff (errorAt p) := by simp [OkIff, errorAt, Ev.isError]
theorem okIff_warnAt (p : Path) : OkIff (warnAt p) := by simp [OkIff, warnAt, Ev.isError]
theorem okIff_abort : OkIff abortOut := by simp [OkIff, abortOut]
theorem okIff_empty : OkIff ({} : Out) := by simp [OkIff]
theorem okIff_typeChange (p : Path) (top : Bool) : OkIff (typeChange p top) := by
  unfold typeChange; split
  · exact okIff_errorAt p
  · exact okIff_warnAt p
theorem okIff_accessError (p : Path) (top : Bool) (e : Err) (tc : Bool) : OkIff (accessError p top e tc) := by
  unfold accessError
  split
  · exact okIff_typeChange p top
  · split
    · exact okIff_warnAt p
    · exact okIff_errorAt p

theorem okIff_andThen (a : Out) (b : Unit → Out) (ha : OkIff a) (hb : OkIff (b ())) : OkIff (a.andThen b) := by
  unfold Out.andThen
  split
  · exact ha
  · simp only [OkIff, Bool.and_eq_true, List.mem_append] at *
    rw [ha, hb]
    constructor
    · rintro ⟨h1, h2⟩ e (he | he)
      · exact h1 e he
      · exact h2 e he
    · intro h; exact ⟨fun e he => h e (Or.inl he), fun e he => h e (Or.inr he)⟩

mutual
theorem okIff_walkNode (allow : Path → Bool) (p rel : Path) (top : Bool) (n : Node) :
    OkIff (walkNode allow p rel top n) := by
  cases n with
  | lstatFails e => simp only [walkNode]; exact okIff_accessError _ _ _ _
  | file o f s a =>
    simp only [walkNode]
    split
    · exact okIff_accessError _ _ _ _
    · split
      · exact okIff_accessError _ _ _ _
      · split
        · exact okIff_typeChange _ _
        · split
          · simp [OkIff, Ev.isError]
          · exact okIff_abort
  | dir r e a cs =>
    simp only [walkNode]
    split
    · exact okIff_accessError _ _ _ _
    · split
      · exact okIff_accessError _ _ _ _
      · apply okIff_andThen
        · split
          · exact okIff_empty
          · split
            · simp [OkIff, Ev.isError]
            · exact okIff_abort
        · exact okIff_walkChildren allow p rel cs
  | symlink r a =>
    simp only [walkNode]
    split
    · exact okIff_accessError _ _ _ _
    · split
      · simp [OkIff, Ev.isError]
      · exact okIff_abort
  | special =>
    simp only [walkNode]
    split
    · exact okIff_errorAt p
    · exact okIff_warnAt p

theorem okIff_walkChildren (allow : Path → Bool) (p rel : Path) (cs : List (String × Bool × Bool × Node)) :
    OkIff (walkChildren allow p rel cs) := by
  cases cs with
  | nil => simp only [walkChildren]; exact okIff_empty
  | cons c rest =>
    obtain ⟨name, utf8, pv, node⟩ := c
    simp only [walkChildren]
    apply okIff_andThen
    · split
      · exact okIff_errorAt _
      · split
        · split
          · exact okIff_errorAt _
          · exact okIff_walkNode allow _ _ false node
        · exact okIff_empty
    · exact okIff_walkChildren allow p rel rest
end

end Vsb.Walk

namespace Vsb.Walk

def Ev.isArch : Ev → Bool
  | .archDir _ => true
  | .archFile _ => true
  | .archLink _ => true
  | _ => false

mutual
/-- What a fault-free reading of the tree archives: every node that can be read without error and is
reached through readable, allowed, validly named directories — in walk order. -/
def expNode (allow : Path → Bool) (p rel : Path) (top : Bool) : Node → List Ev
  | .file none none true true => [.archFile p]
  | .dir none none addOk cs =>
    if top && p.isEmpty then expChildren allow p rel cs          -- the item is `/` itself: never archived as an entry
    else if addOk then .archDir p :: expChildren allow p rel cs else []
  | .symlink none true => [.archLink p]
  | _ => []
def expChildren (allow : Path → Bool) (p rel : Path) : List (String × Bool × Bool × Node) → List Ev
  | [] => []
  | (name, utf8, pathValid, node) :: rest =>
    (if utf8 && allow (rel ++ [name]) && pathValid then expNode allow (p ++ [name]) (rel ++ [name]) false node else []) ++
      expChildren allow p rel rest
end

theorem filter_arch_accessError (p : Path) (top : Bool) (e : Err) (tc : Bool) :
    (accessError p top e tc).evs.filter Ev.isArch = [] ∧ (accessError p top e tc).abort = false := by
  unfold accessError typeChange errorAt warnAt
  repeat' split
  all_goals simp [Ev.isArch]

theorem filter_arch_typeChange (p : Path) (top : Bool) :
    (typeChange p top).evs.filter Ev.isArch = [] ∧ (typeChange p top).abort = false := by
  unfold typeChange errorAt warnAt
  split <;> simp [Ev.isArch]

mutual
/-- **archived = expected** whenever the walk is not aborted by an archive write failure. -/
theorem arch_eq_exp_node (allow : Path → Bool) (p rel : Path) (top : Bool) (n : Node)
    (h : (walkNode allow p rel top n).abort = false) :
    (walkNode allow p rel top n).evs.filter Ev.isArch = expNode allow p rel top n := by
  cases n with
  | lstatFails e => simp only [walkNode, expNode]; exact (filter_arch_accessError _ _ _ _).1
  | file o f s a =>
    cases o with
    | some e => simp only [walkNode, expNode]; exact (filter_arch_accessError _ _ _ _).1
    | none =>
      cases f with
      | some e => simp only [walkNode, expNode]; exact (filter_arch_accessError _ _ _ _).1
      | none =>
        cases s with
        | false => simp only [walkNode, expNode]; exact (filter_arch_typeChange _ _).1
        | true =>
          cases a with
          | true => simp [walkNode, expNode, Ev.isArch]
          | false => simp [walkNode, abortOut] at h
  | dir r e a cs =>
    cases r with
    | some e' => simp only [walkNode, expNode]; exact (filter_arch_accessError _ _ _ _).1
    | none =>
      cases e with
      | some e' => simp only [walkNode, expNode]; exact (filter_arch_accessError _ _ _ _).1
      | none =>
        simp only [walkNode] at h ⊢
        obtain ⟨h1, h2, h3, _⟩ := andThen_evs_of_not_abort _ _ h
        rw [h3, List.filter_append, arch_eq_exp_children allow p rel cs h2]
        simp only [expNode]
        by_cases ht : (top && p.isEmpty) = true
        · simp [ht]
        · cases a with
          | true => simp [ht]; rfl
          | false => simp [ht, abortOut] at h1
  | symlink r a =>
    cases r with
    | some e => simp only [walkNode, expNode]; exact (filter_arch_accessError _ _ _ _).1
    | none =>
      cases a with
      | true => simp [walkNode, expNode, Ev.isArch]
      | false => simp [walkNode, abortOut] at h
  | special =>
    simp only [walkNode, expNode]
    split <;> simp [errorAt, warnAt, Ev.isArch]

theorem arch_eq_exp_children (allow : Path → Bool) (p rel : Path) (cs : List (String × Bool × Bool × Node))
    (h : (walkChildren allow p rel cs).abort = false) :
    (walkChildren allow p rel cs).evs.filter Ev.isArch = expChildren allow p rel cs := by
  cases cs with
  | nil => simp [walkChildren, expChildren]
  | cons c rest =>
    obtain ⟨name, utf8, pv, node⟩ := c
    simp only [walkChildren] at h ⊢
    obtain ⟨h1, h2, h3, _⟩ := andThen_evs_of_not_abort _ _ h
    rw [h3, List.filter_append, arch_eq_exp_children allow p rel rest h2]
    simp only [expChildren]
    congr 1
    cases utf8 with
    | false => simp [errorAt, Ev.isArch]
    | true =>
      by_cases ha : allow (rel ++ [name]) = true
      · cases pv with
        | false => simp [ha, errorAt, Ev.isArch]
        | true =>
          simp only [ha, Bool.not_true, Bool.false_eq_true, if_false, if_true, Bool.and_self] at h1 ⊢
          exact arch_eq_exp_node allow _ _ false node h1
      · simp [ha]
end

end Vsb.Walk
