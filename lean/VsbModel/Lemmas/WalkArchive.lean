import VsbModel.Lemmas.WalkWFItems
import VsbModel.Lemmas.RestoreSingle
import VsbModel.Lemmas.PathRoundTrip
set_option linter.unusedSimpArgs false
set_option linter.unusedSectionVars false
set_option linter.unusedVariables false

/-!
From the walk's events to the archive: the entries written for the archived paths of any run form a
`WFArchive` — the hypothesis of C01's `restore_exact` about the tree of each backup.
-/
namespace Vsb.Restore
open Vsb.Walk
variable {β : Type}

/-- The archive entry written for an archiving event (metadata, data and link target are whatever was read). -/
def entryOf (metaOf : Walk.Path → Meta) (dataOf : Walk.Path → List β) (targetOf : Walk.Path → String) : Ev → Option (Entry β)
  | .archDir p => some (.dir ("/".intercalate p) (metaOf p))
  | .archFile p => some (.file ("/".intercalate p) (metaOf p) (dataOf p))
  | .archLink p => some (.symlink ("/".intercalate p) (metaOf p) (targetOf p))
  | _ => none

def entriesOf (metaOf : Walk.Path → Meta) (dataOf : Walk.Path → List β) (targetOf : Walk.Path → String) (evs : List Ev) : List (Entry β) :=
  evs.filterMap (entryOf metaOf dataOf targetOf)

theorem wfGo_of_walk (metaOf : Walk.Path → Meta) (dataOf : Walk.Path → List β) (targetOf : Walk.Path → String) :
    ∀ (evs : List Ev) (seen dirs all : List FPath),
      (∀ q, q ∈ seen → q ∈ dirs) →
      (archs evs).Nodup → (∀ q ∈ archs evs, q ∉ all) → (∀ q ∈ archs evs, NormalComps q) →
      parentsOk exTop seen evs = true →
      wfGo dirs all (entriesOf metaOf dataOf targetOf evs) = true := by
  intro evs
  induction evs with
  | nil => intro _ _ _ _ _ _ _ _; rfl
  | cons e rest ih =>
    intro seen dirs all hsd hnd hall hnorm hpar
    cases ha : e.arch with
    | none =>
      have hent : entryOf metaOf dataOf targetOf e = none := by
        cases e <;> simp [Ev.arch] at ha <;> rfl
      have hd : e.dir = none := by cases e <;> simp [Ev.arch] at ha <;> rfl
      simp only [entriesOf, List.filterMap_cons, hent]
      simp only [parentsOk, ha, hd, Bool.true_and] at hpar
      apply ih seen dirs all hsd
      · simpa [archs, List.filterMap_cons, ha] using hnd
      · intro q hq; exact hall q (by simpa [archs, List.filterMap_cons, ha] using hq)
      · intro q hq; exact hnorm q (by simpa [archs, List.filterMap_cons, ha] using hq)
      · exact hpar
    | some q =>
      have hqmem : q ∈ archs (e :: rest) := by simp [archs, List.filterMap_cons, ha]
      have hqn := hnorm q hqmem
      obtain ⟨hr1, hr2⟩ := path_roundtrip q hqn
      have harchs : archs (e :: rest) = q :: archs rest := by simp [archs, List.filterMap_cons, ha]
      rw [harchs] at hnd hall hnorm
      simp only [List.nodup_cons] at hnd
      simp only [parentsOk, ha, Bool.and_eq_true, Bool.or_eq_true, List.contains_iff_mem] at hpar
      obtain ⟨hpq, hprest⟩ := hpar
      have hparent : (q.dropLast == [] || dirs.contains q.dropLast) = true := by
        rcases hpq with h | h
        · simp only [exTop] at h; simp [h]
        · simp [hsd _ h]
      have hnotall : (!all.contains q) = true := by
        have := hall q (by simp)
        simpa using this
      -- the entry and the recursive call, per kind of event
      cases e with
      | archDir p =>
        simp only [Ev.arch, Option.some.injEq] at ha
        subst ha
        simp only [entriesOf, List.filterMap_cons, entryOf]
        have hfp : fpOf (Entry.dir ("/".intercalate p) (metaOf p) : Entry β) = p := by simp [fpOf, Entry.path, hr1]
        simp only [wfGo, hfp, Entry.isOther, Entry.path, hr1, hr2, Entry.isDir, Bool.not_false, beq_self_eq_true,
          Bool.true_and, hnotall, hparent, if_true]
        simp only [Ev.dir] at hprest
        apply ih (seen ++ [p]) (p :: dirs) (p :: all) _ hnd.2 _ (fun q' hq' => hnorm q' (List.mem_cons_of_mem _ hq')) hprest
        · intro q' hq'
          rcases List.mem_append.mp hq' with h | h
          · exact List.mem_cons_of_mem _ (hsd _ h)
          · simp only [List.mem_singleton] at h; simp [h]
        · intro q' hq' hin
          rcases List.mem_cons.mp hin with h | h
          · exact hnd.1 (h ▸ hq')
          · exact hall q' (List.mem_cons_of_mem _ hq') h
      | archFile p =>
        simp only [Ev.arch, Option.some.injEq] at ha
        subst ha
        simp only [entriesOf, List.filterMap_cons, entryOf]
        have hfp : fpOf (Entry.file ("/".intercalate p) (metaOf p) (dataOf p) : Entry β) = p := by simp [fpOf, Entry.path, hr1]
        simp only [wfGo, hfp, Entry.isOther, Entry.path, hr1, hr2, Entry.isDir, Bool.not_false, beq_self_eq_true,
          Bool.true_and, hnotall, hparent, Bool.false_eq_true, if_false]
        simp only [Ev.dir] at hprest
        apply ih seen dirs (p :: all) hsd hnd.2 _ (fun q' hq' => hnorm q' (List.mem_cons_of_mem _ hq')) hprest
        intro q' hq' hin
        rcases List.mem_cons.mp hin with h | h
        · exact hnd.1 (h ▸ hq')
        · exact hall q' (List.mem_cons_of_mem _ hq') h
      | archLink p =>
        simp only [Ev.arch, Option.some.injEq] at ha
        subst ha
        simp only [entriesOf, List.filterMap_cons, entryOf]
        have hfp : fpOf (Entry.symlink ("/".intercalate p) (metaOf p) (targetOf p) : Entry β) = p := by simp [fpOf, Entry.path, hr1]
        simp only [wfGo, hfp, Entry.isOther, Entry.path, hr1, hr2, Entry.isDir, Bool.not_false, beq_self_eq_true,
          Bool.true_and, hnotall, hparent, Bool.false_eq_true, if_false]
        simp only [Ev.dir] at hprest
        apply ih seen dirs (p :: all) hsd hnd.2 _ (fun q' hq' => hnorm q' (List.mem_cons_of_mem _ hq')) hprest
        intro q' hq' hin
        rcases List.mem_cons.mp hin with h | h
        · exact hnd.1 (h ▸ hq')
        · exact hall q' (List.mem_cons_of_mem _ hq') h
      | error p => cases ha
      | warn p => cases ha
      | before i => cases ha
      | after i => cases ha
      | hookFailed i => cases ha
      | itemError i => cases ha

/-- **The archive of any run is well formed.**  Whatever the items, hooks, errors and aborts: the entries written for
the archived paths of a run (`Walk.run`) over trees whose directories hold no name twice and whose path components
are normal (non-empty, not `.`/`..`, no `/`) satisfy `WFArchive`. -/
theorem walk_archive_wf (metaOf : Walk.Path → Meta) (dataOf : Walk.Path → List β) (targetOf : Walk.Path → String)
    (parentOf : Walk.Path → Parent) (items : List Item) (finishOk : Bool)
    (hn : ∀ it ∈ items, namesOk it.node = true)
    (hnorm : ∀ q ∈ archs (run parentOf items finishOk).1, NormalComps q) :
    WFArchive (entriesOf metaOf dataOf targetOf (run parentOf items finishOk).1) := by
  obtain ⟨h1, h2⟩ := run_wf parentOf items finishOk hn
  apply wfCheck_sound
  unfold wfCheck
  exact wfGo_of_walk metaOf dataOf targetOf _ [] [] [] (fun q hq => by cases hq) h1 (fun q _ h => by cases h) hnorm h2

end Vsb.Restore
