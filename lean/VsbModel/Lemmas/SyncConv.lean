import VsbModel.Lemmas.SyncDefs
set_option linter.unusedSimpArgs false
set_option linter.unusedVariables false

/-! Lemmas for C06 `converges`: the retention window is stable under a fault-free run. -/
namespace Vsb.Sync

/-- Names of the non-empty groups of `m` that are newer than `g`. -/
def newerNames (m : BMap) (g : Nat) : List Nat :=
  (m.filter (fun e => decide (g < e.1) && !e.2.isEmpty)).map (·.1)

theorem newerNames_length (m : BMap) (g : Nat) : (newerNames m g).length = newerNonEmpty m g := by
  simp [newerNames, newerNonEmpty]

theorem asc_newerNames (m : BMap) (hm : Asc (keys m)) (g : Nat) : Asc (newerNames m g) := by
  unfold newerNames Asc
  have hsub : ((m.filter (fun e => decide (g < e.1) && !e.2.isEmpty)).map (·.1)).Sublist (m.map (·.1)) :=
    List.Sublist.map _ List.filter_sublist
  exact List.Pairwise.sublist hsub hm

theorem asc_nodup (l : List Nat) (h : Asc l) : l.Nodup := by
  unfold Asc at h
  exact List.Pairwise.imp (fun hlt => Nat.ne_of_lt hlt) h

/-- Some backup is listed in group `t` on either side. -/
def NE (localGs cloudGs : List Group) (t : Nat) : Prop := ∃ b, InGroups localGs t b ∨ InGroups cloudGs t b

theorem mem_newerNames_merged (localGs cloudGs : List Group) (g t : Nat) :
    t ∈ newerNames (merged localGs cloudGs) g ↔ g < t ∧ NE localGs cloudGs t := by
  have hasc := asc_keys_merged localGs cloudGs
  unfold newerNames NE
  simp only [List.mem_map, List.mem_filter, Bool.and_eq_true, decide_eq_true_eq, Bool.not_eq_true']
  constructor
  · rintro ⟨e, ⟨he, hlt, hne⟩, rfl⟩
    refine ⟨hlt, ?_⟩
    have hl := lookup_of_mem _ hasc e.1 e.2 he
    cases hb : e.2 with
    | nil => rw [hb] at hne; simp at hne
    | cons b bs =>
      refine ⟨b, (mem_merged_backups localGs cloudGs e.1 b).mp ?_⟩
      rw [hl, hb]; simp
  · rintro ⟨hlt, b, hb⟩
    have hb' := (mem_merged_backups localGs cloudGs t b).mpr hb
    cases hl : lookup (merged localGs cloudGs) t with
    | none => rw [hl] at hb'; simp at hb'
    | some bs =>
      rw [hl] at hb'
      simp only [Option.getD_some] at hb'
      have hmem : (t, bs) ∈ merged localGs cloudGs := by
        unfold lookup at hl
        cases hf : (merged localGs cloudGs).find? (·.1 = t) with
        | none => rw [hf] at hl; cases hl
        | some e =>
          rw [hf] at hl
          simp only [Option.map_some, Option.some.injEq] at hl
          have h1 := List.find?_some hf
          have h2 := List.mem_of_find?_eq_some hf
          simp only [decide_eq_true_eq] at h1
          have : e = (t, bs) := by cases e; simp_all
          rw [← this]; exact h2
      refine ⟨(t, bs), ⟨hmem, hlt, ?_⟩, rfl⟩
      cases bs with
      | nil => simp at hb'
      | cons x xs => rfl

/-- In an ascending list, everything greater than an element of the tail `drop i` is in that tail too. -/
theorem asc_drop_upper (l : List Nat) (h : Asc l) (i : Nat) (t u : Nat) (ht : t ∈ l.drop i) (hu : u ∈ l) (hlt : t < u) :
    u ∈ l.drop i := by
  induction i generalizing l with
  | zero => simpa using hu
  | succ i ih =>
    cases l with
    | nil => simp at hu
    | cons x xs =>
      simp only [List.drop_succ_cons] at ht ⊢
      have hp := List.pairwise_cons.mp h
      rcases List.mem_cons.mp hu with rfl | hu'
      · -- u = x is smaller than everything in xs, in particular than t
        have : u < t := hp.1 t (List.mem_of_mem_drop ht)
        omega
      · exact ih xs hp.2 ht hu'

/-- Window stability, the hard direction: a group outside the window before a fault-free run is outside it
afterwards, because the `max` newest non-empty groups all survive the run. -/
theorem outside_stays_outside (localGs cloudGs cloudGs' : List Group) (max : Nat) (hmax : 0 < max)
    (hkeep : ∀ t, InWindow localGs cloudGs max t → NE localGs cloudGs t → NE localGs cloudGs' t)
    (g : Nat) (hout : ¬ InWindow localGs cloudGs max g) : ¬ InWindow localGs cloudGs' max g := by
  unfold InWindow at hout ⊢
  have hk : max ≤ newerNonEmpty (merged localGs cloudGs) g := by omega
  rw [← newerNames_length] at hk
  let N := newerNames (merged localGs cloudGs) g
  have hN : Asc N := asc_newerNames _ (asc_keys_merged localGs cloudGs) g
  have hNlen : max ≤ N.length := hk
  let T := N.drop (N.length - max)
  have hTlen : T.length = max := by simp only [T, List.length_drop]; omega
  have hTnd : T.Nodup := List.Nodup.sublist (List.drop_sublist _ _) (asc_nodup N hN)
  -- every element of T is in the window before the run
  have hTwin : ∀ t ∈ T, InWindow localGs cloudGs max t := by
    intro t ht
    unfold InWindow
    rw [← newerNames_length]
    have hsub : newerNames (merged localGs cloudGs) t ⊆ T.erase t := by
      intro u hu
      obtain ⟨hlt, hne⟩ := (mem_newerNames_merged localGs cloudGs t u).mp hu
      have htN : t ∈ N := List.mem_of_mem_drop ht
      obtain ⟨hgt, _⟩ := (mem_newerNames_merged localGs cloudGs g t).mp htN
      have huN : u ∈ N := (mem_newerNames_merged localGs cloudGs g u).mpr ⟨by omega, hne⟩
      have huT : u ∈ T := asc_drop_upper N hN _ t u ht huN hlt
      exact (List.mem_erase_of_ne (by omega)).mpr huT
    have hnd := asc_nodup _ (asc_newerNames _ (asc_keys_merged localGs cloudGs) t)
    have := List.Nodup.length_le_of_subset hnd hsub
    rw [List.length_erase_of_mem ht, hTlen] at this
    omega
  -- hence every element of T is still a newer non-empty group afterwards
  have hTsub : T ⊆ newerNames (merged localGs cloudGs') g := by
    intro t ht
    have htN : t ∈ N := List.mem_of_mem_drop ht
    obtain ⟨hgt, hne⟩ := (mem_newerNames_merged localGs cloudGs g t).mp htN
    exact (mem_newerNames_merged localGs cloudGs' g t).mpr ⟨hgt, hkeep t (hTwin t ht) hne⟩
  have := List.Nodup.length_le_of_subset hTnd hTsub
  rw [hTlen, newerNames_length] at this
  omega

/-- Window stability, the easy direction: no group becomes non-empty by a run, so nothing leaves the window. -/
theorem inside_stays_inside (localGs cloudGs cloudGs' : List Group) (max : Nat)
    (hsub : ∀ t, NE localGs cloudGs' t → NE localGs cloudGs t)
    (g : Nat) (hin : InWindow localGs cloudGs max g) : InWindow localGs cloudGs' max g := by
  unfold InWindow at hin ⊢
  rw [← newerNames_length] at hin ⊢
  have hs : newerNames (merged localGs cloudGs') g ⊆ newerNames (merged localGs cloudGs) g := by
    intro t ht
    obtain ⟨h1, h2⟩ := (mem_newerNames_merged localGs cloudGs' g t).mp ht
    exact (mem_newerNames_merged localGs cloudGs g t).mpr ⟨h1, hsub t h2⟩
  have hnd := asc_nodup _ (asc_newerNames _ (asc_keys_merged localGs cloudGs') g)
  have := List.Nodup.length_le_of_subset hnd hs
  omega

end Vsb.Sync
