import VsbModel.Lemmas.PlanGeneral
import VsbModel.Lemmas.ExecPending
set_option linter.unusedSimpArgs false
set_option linter.unusedSectionVars false
set_option linter.unusedVariables false

/-!
`exit0_sound` without any assumption on the manifests: the pieces.
-/
namespace Vsb.Restore
variable {H β : Type} [DecidableEq H]

/-- What an exit status 0 tells about the run. -/
theorem restore_done_inv (hashOf : List β → H) (group : List (Backup H β)) (target : Nat) (fs : FS β)
    (h : restore hashOf group target = .done fs true) :
    ∃ p st, plan group target = .ok p true ∧
      runSteps hashOf group p.steps true ({ ok := true, pending := p.externFiles, missing := p.missingFiles } : RSt β) = some st ∧
      st.pending = [] := by
  unfold restore at h
  cases hp : plan group target with
  | err => simp [hp] at h
  | ok p planOk =>
    simp only [hp] at h
    cases hr : runSteps hashOf group p.steps true
        { ok := planOk, pending := p.externFiles, missing := p.missingFiles } with
    | none => simp [hr] at h
    | some st =>
      simp only [hr] at h
      cases ha : applyMeta st.pending st.scheduled.reverse st.fs with
      | none => simp [ha] at h
      | some fs1 =>
        simp only [ha, RRes.done.injEq] at h
        obtain ⟨_, hok⟩ := h
        simp only [Bool.and_eq_true, List.isEmpty_iff] at hok
        obtain ⟨_, r2⟩ := runSteps_spec _ _ _ _ _ _ hr
        obtain ⟨q1, _⟩ := r2 hok.1.1
        simp only at q1
        subst q1
        exact ⟨p, st, rfl, hr, hok.1.2⟩

theorem plan_ok_missing (group : List (Backup H β)) (target : Nat) (p : Plan H) (h : plan group target = .ok p true) :
    p.missingFiles = [] := by
  unfold plan at h
  cases hb : group[target]? with
  | none => simp [hb] at h
  | some tb =>
    simp only [hb] at h
    cases hm : tb.manifest with
    | none => simp [hm] at h
    | some recs =>
      simp only [hm] at h
      cases he : earlierBackups group ((List.range target).reverse) [⟨target, (planTarget recs).files⟩]
          (planTarget recs).ext (planTarget recs).tf (planTarget recs).ok with
      | none => simp [he] at h
      | some res =>
        obtain ⟨steps, ext, tf, ok'⟩ := res
        simp only [he, PlanRes.ok.injEq] at h
        obtain ⟨rfl, hok⟩ := h
        simp only [Bool.and_eq_true, List.isEmpty_iff] at hok
        exact hok.2

/-- Every entry of the target step's table ends with the record's own path. -/
theorem ownFold_last : ∀ (own : List (MRec H)) (acc : PlanAcc H),
    (∀ kv ∈ acc.files, ∃ fan, kv.2.paths = fan ++ [kv.1]) →
    ∀ kv ∈ (own.foldl ownStep acc).files, ∃ fan, kv.2.paths = fan ++ [kv.1] := by
  intro own
  induction own with
  | nil => intro acc h; exact h
  | cons r rest ih =>
    intro acc h
    simp only [List.foldl_cons]
    apply ih
    intro kv hkv
    simp only [ownStep] at hkv
    rcases mem_mapInsert _ _ _ _ hkv with h' | h'
    · exact h kv h'
    · subst h'; exact ⟨_, rfl⟩

theorem planTarget_last (recs : List (MRec H)) : ∀ kv ∈ (planTarget recs).files, ∃ fan, kv.2.paths = fan ++ [kv.1] := by
  unfold planTarget
  exact ownFold_last _ _ (fun kv hkv => by cases hkv)

theorem mem_of_mapGet' {V : Type} (m : List (String × V)) (k : String) (v : V) (h : mapGet m k = some v) : (k, v) ∈ m := by
  unfold mapGet at h
  cases hf : m.find? (fun e => e.1 = k) with
  | none => simp [hf] at h
  | some e =>
    simp only [hf, Option.map_some, Option.some.injEq] at h
    have hm := List.mem_of_find?_eq_some hf
    have hk := List.find?_some hf
    simp only [decide_eq_true_eq] at hk
    rw [← hk, ← h]
    exact hm

theorem slotOf_later (later : List (Step H)) (q : String) (h : SlotOf later false q) :
    ∃ s ∈ later, InFan s.files false q := by
  induction later with
  | nil => cases h
  | cons s rest ih =>
    rcases h with h | h
    · exact ⟨s, by simp, h⟩
    · obtain ⟨s', hs', r⟩ := ih h
      exact ⟨s', List.mem_cons_of_mem _ hs', r⟩

theorem nodup_path_inj (X : List (MRec H)) (hn : (X.map (·.path)).Nodup) (a b : MRec H) (ha : a ∈ X) (hb : b ∈ X)
    (h : a.path = b.path) : a = b := by
  induction X with
  | nil => cases ha
  | cons x xs ih =>
    simp only [List.map_cons, List.nodup_cons] at hn
    rcases List.mem_cons.mp ha with rfl | ha'
    · rcases List.mem_cons.mp hb with rfl | hb'
      · rfl
      · exfalso; apply hn.1; rw [h]; exact List.mem_map_of_mem (f := (·.path)) hb'
    · rcases List.mem_cons.mp hb with rfl | hb'
      · exfalso; apply hn.1; rw [← h]; exact List.mem_map_of_mem (f := (·.path)) ha'
      · exact ih hn.2 ha' hb'

/-- **exit0_sound.**  No assumption on the group: any manifests, any archives. -/
theorem exit0_sound_general (hashOf : List β → H) (group : List (Backup H β)) (target : Nat) (fs : FS β)
    (tb : Backup H β) (recs : List (MRec H))
    (htb : group[target]? = some tb) (hrecs : tb.manifest = some recs)
    (h : restore hashOf group target = .done fs true) :
    ∀ r ∈ recs, ∃ fp d, manifestPathToFile r.path = some fp ∧ FileAt fs fp d ∧ d.length = r.size ∧ hashOf d = r.hash := by
  obtain ⟨p, hp, hw⟩ := exec_sound hashOf group target fs h
  obtain ⟨p', st, hp', hrun, hpend⟩ := restore_done_inv hashOf group target fs h
  rw [hp] at hp'
  cases hp'
  obtain ⟨hextnd, hslots⟩ := runSteps_all_written hashOf group p.steps _ st hrun hpend
  simp only at hextnd hslots
  have hperm := plan_perm group target tb recs htb hrecs p true hp
  rw [plan_ok_missing group target p hp, List.append_nil] at hperm
  have hXnd : (((recs.filter (fun r => !isOwn r))).map (·.path)).Nodup := hperm.nodup_iff.mp hextnd
  obtain ⟨later, hsteps, hok0, hfanT, hfanE⟩ := plan_fans group target tb recs htb hrecs p hp
  obtain ⟨_, hcov⟩ := planTarget_covers recs hok0
  have hhead : (⟨target, (planTarget recs).files⟩ : Step H) ∈ p.steps := by rw [hsteps]; simp
  -- reading a file off a table entry
  have hread : ∀ (s : Step H), s ∈ p.steps → ∀ key info, mapGet s.files key = some info → ∀ q ∈ info.paths,
      ∃ fp d, manifestPathToFile q = some fp ∧ FileAt fs fp d ∧ d.length = info.size ∧ hashOf d = info.hash := by
    intro s hs key info hg q hq
    have hkey : key ∈ s.files.map (·.1) := by
      have := mapGet_some_any s.files key info hg
      simp only [List.any_eq_true, decide_eq_true_eq] at this
      obtain ⟨e, he, rfl⟩ := this
      exact List.mem_map_of_mem he
    obtain ⟨info', hg', hall⟩ := hw s hs key hkey
    rw [hg] at hg'
    cases hg'
    exact hall q hq
  intro r hr
  cases ho : isOwn r with
  | true =>
    obtain ⟨key, info, hg, hpath, hh, hsz⟩ := (hcov r hr).1 ho
    obtain ⟨fp, d, a, b, c, e⟩ := hread _ hhead key info hg r.path hpath
    exact ⟨fp, d, a, b, by rw [c, hsz], by rw [e, hh]⟩
  | false =>
    have hrX : r ∈ recs.filter (fun r => !isOwn r) := List.mem_filter.mpr ⟨hr, by simp [ho]⟩
    have hrext : r.path ∈ p.externFiles := hperm.mem_iff.mpr (List.mem_map_of_mem (f := (·.path)) hrX)
    have hslot := hslots r.path hrext
    rw [hsteps] at hslot
    -- the table entry whose fan-out holds the path, and the extern record it was planned for
    have hfin : ∀ (s : Step H), s ∈ p.steps → ∀ key info, mapGet s.files key = some info → r.path ∈ info.paths →
        (∃ x ∈ recs.filter (fun r => !isOwn r), x.path = r.path ∧ x.hash = info.hash ∧ x.size = info.size) →
        ∃ fp d, manifestPathToFile r.path = some fp ∧ FileAt fs fp d ∧ d.length = r.size ∧ hashOf d = r.hash := by
      intro s hs key info hg hq ⟨x, hx, hxp, hxh, hxs⟩
      have : x = r := nodup_path_inj _ hXnd x r hx hrX hxp
      subst this
      obtain ⟨fp, d, a, b, c, e⟩ := hread s hs key info hg x.path hq
      exact ⟨fp, d, a, b, by rw [c, hxs], by rw [e, hxh]⟩
    rcases hslot with ⟨key, info, hg, hq, hne⟩ | hl
    · have hkv := mem_of_mapGet' _ _ _ hg
      obtain ⟨fan, hfan⟩ := planTarget_last recs _ hkv
      simp only at hfan
      have hqfan : r.path ∈ info.paths.dropLast := by
        rw [hfan, List.dropLast_concat]
        rw [hfan] at hq
        rcases List.mem_append.mp hq with h' | h'
        · exact h'
        · simp only [List.mem_singleton] at h'
          exact absurd ⟨rfl, h'⟩ hne
      exact hfin _ hhead key info hg hq (hfanT _ hkv r.path hqfan)
    · obtain ⟨s, hs, key, info, hg, hq, _⟩ := slotOf_later later r.path hl
      have hsin : s ∈ p.steps := by rw [hsteps]; exact List.mem_cons_of_mem _ hs
      exact hfin s hsin key info hg hq (hfanE s hs _ (mem_of_mapGet' _ _ _ hg) r.path hq)

end Vsb.Restore
