import VsbModel.Model.Restore
set_option linter.unusedSimpArgs false
set_option linter.unusedSectionVars false

namespace Vsb.Restore
variable {H β : Type} [DecidableEq H]

/-! ### File system facts -/

/-- The file system only grows: `fs'` extends `fs` when every path of `fs` keeps its kind and, for
files, its data (metadata may be applied). -/
def FileAt (fs : FS β) (p : FPath) (data : List β) : Prop := ∃ m, fsGet fs p = some (.file data m)

theorem fsGet_append_left (fs : FS β) (p q : FPath) (n : FNode β) (x : FNode β) (h : fsGet fs p = some x) :
    fsGet (fs ++ [(q, n)]) p = some x := by
  unfold fsGet at *
  rw [List.find?_append]
  cases hf : fs.find? (fun e => e.1 = p) with
  | none => simp [hf] at h
  | some e => simp [hf] at h ⊢; exact h

theorem fsGet_append_new (fs : FS β) (p : FPath) (n : FNode β) (h : fsGet fs p = none) :
    fsGet (fs ++ [(p, n)]) p = some n := by
  unfold fsGet at *
  rw [List.find?_append]
  cases hf : fs.find? (fun e => e.1 = p) with
  | none => simp
  | some e => simp [hf] at h

/-- **no_overwrite.** Creation never replaces anything: it succeeds only if nothing is at that path,
and then only adds the new node. -/
theorem fsCreate_spec (fs fs' : FS β) (p : FPath) (n : FNode β) (h : fsCreate fs p n = some fs') :
    fsGet fs p = none ∧ fs' = fs ++ [(p, n)] ∧ p ≠ [] := by
  unfold fsCreate at h
  split at h
  · cases h
  · rename_i hc
    simp only [Bool.or_eq_true, not_or, Bool.not_eq_true, Option.isSome_eq_false_iff, Option.isNone_iff_eq_none,
      Bool.not_eq_eq_eq_not, Bool.not_true, List.isEmpty_eq_false_iff] at hc
    cases h
    exact ⟨hc.1.1, rfl, hc.2⟩

theorem fileAt_create (fs fs' : FS β) (p q : FPath) (n : FNode β) (d : List β)
    (hc : fsCreate fs q n = some fs') (h : FileAt fs p d) : FileAt fs' p d := by
  obtain ⟨_, rfl, _⟩ := fsCreate_spec fs fs' q n hc
  obtain ⟨m, hm⟩ := h
  exact ⟨m, fsGet_append_left fs p q n _ hm⟩

theorem fsGet_mapKey (fs : FS β) (q p : FPath) (g : FNode β → FNode β) :
    fsGet (fs.map (fun e => if e.1 = q then (e.1, g e.2) else e)) p =
      if p = q then (fsGet fs p).map g else fsGet fs p := by
  unfold fsGet
  induction fs with
  | nil => simp
  | cons e rest ih =>
    simp only [List.map_cons, List.find?_cons]
    by_cases hq : e.1 = q
    · by_cases hp : e.1 = p
      · have : p = q := by rw [← hp, hq]
        simp [hq, hp, this]
      · have hpq : ¬ p = q := by intro h; apply hp; rw [hq, h]
        simp only [hq, if_true]
        have hd : decide (q = p) = false := by simp; intro h; exact hpq h.symm
        have hd2 : decide (e.1 = p) = false := by simpa using hp
        simp only [hd, hd2]
        rw [ih]
    · by_cases hp : e.1 = p
      · have hpq : ¬ p = q := by intro h; exact hq (hp.trans h)
        simp [hq, hp, hpq]
      · have hd2 : decide (e.1 = p) = false := by simpa using hp
        simp only [hq, if_false, hd2]
        rw [ih]

theorem fsSetMeta_spec (fs fs' : FS β) (q : FPath) (m : Meta) (hs : fsSetMeta fs q m = some fs') :
    ∀ p, fsGet fs' p = if p = q then (fsGet fs p).map (setMetaNode m) else fsGet fs p := by
  unfold fsSetMeta at hs
  split at hs
  · cases hs
  · cases hs
    intro p
    exact fsGet_mapKey fs q p (setMetaNode m)

theorem fileAt_setMeta (fs fs' : FS β) (p q : FPath) (m : Meta) (d : List β)
    (hs : fsSetMeta fs q m = some fs') (h : FileAt fs p d) : FileAt fs' p d := by
  obtain ⟨m0, hm⟩ := h
  have := fsSetMeta_spec fs fs' q m hs p
  unfold FileAt
  by_cases hpq : p = q
  · rw [this, if_pos hpq, hm]; exact ⟨some m, rfl⟩
  · rw [this, if_neg hpq]; exact ⟨m0, hm⟩


/-- Files persist: whatever file exists in `fs` exists with the same data in `fs'`. -/
def Grows (fs fs' : FS β) : Prop := ∀ p d, FileAt fs p d → FileAt fs' p d

theorem Grows.refl (fs : FS β) : Grows fs fs := fun _ _ h => h
theorem Grows.trans {a b c : FS β} (h1 : Grows a b) (h2 : Grows b c) : Grows a c := fun p d h => h2 p d (h1 p d h)

theorem grows_create (fs fs' : FS β) (q : FPath) (n : FNode β) (h : fsCreate fs q n = some fs') : Grows fs fs' :=
  fun p d hf => fileAt_create fs fs' p q n d h hf

theorem grows_setMeta (fs fs' : FS β) (q : FPath) (m : Meta) (h : fsSetMeta fs q m = some fs') : Grows fs fs' :=
  fun p d hf => fileAt_setMeta fs fs' p q m d h hf

theorem grows_append_dir (fs : FS β) (q : FPath) (h : fsGet fs q = none) : Grows fs (fs ++ [(q, .dir none)]) := by
  intro p d ⟨m, hm⟩
  exact ⟨m, fsGet_append_left fs p q _ _ hm⟩

theorem grows_restoreDirectories_go (rest : List String) :
    ∀ (pre : FPath) (fs : FS β) (made : List FPath), Grows fs (restoreDirectories.go pre rest fs made).1 := by
  induction rest with
  | nil => intro pre fs made; simp [restoreDirectories.go]; exact Grows.refl _
  | cons c rest ih =>
    intro pre fs made
    cases rest with
    | nil => simp [restoreDirectories.go]; exact Grows.refl _
    | cons c2 rest2 =>
      simp only [restoreDirectories.go]
      cases hg : fsGet fs (pre ++ [c]) with
      | some x => simp only [hg]; exact ih _ _ _
      | none => simp only [hg]; exact (grows_append_dir fs _ hg).trans (ih _ _ _)

theorem grows_restoreDirectories (fs : FS β) (p : FPath) : Grows fs (restoreDirectories fs p).1 :=
  grows_restoreDirectories_go p [] fs []

/-- The creation loop of `restore_files`: every path of the fan-out gets a file holding exactly
`content`, and nothing that existed is lost. -/
theorem createFiles_spec (content : List β) (sourcePath : String) (isTarget : Bool) :
    ∀ (paths : List String) (st st' : RSt β),
      createFiles content sourcePath isTarget paths st = some st' →
      Grows st.fs st'.fs ∧ st'.ok = st.ok ∧
      ∀ p ∈ paths, ∃ fp, manifestPathToFile p = some fp ∧ FileAt st'.fs fp content := by
  intro paths
  induction paths with
  | nil => intro st st' h; simp only [createFiles, Option.some.injEq] at h; subst h; exact ⟨Grows.refl _, rfl, by simp⟩
  | cons p rest ih =>
    intro st st' h
    simp only [createFiles] at h
    cases hm : manifestPathToFile p with
    | none => simp [hm] at h
    | some fp =>
      simp only [hm] at h
      split at h
      · cases h
      · generalize hst1 : (if (isTarget && decide (p = sourcePath)) = true then st
            else { st with pending := st.pending.erase p, restored := st.restored ++ [p] }) = st1 at h
        have hfs1 : st1.fs = st.fs ∧ st1.ok = st.ok := by rw [← hst1]; split <;> exact ⟨rfl, rfl⟩
        generalize hd : (if (isTarget && !(isTarget && decide (p = sourcePath))) = true then restoreDirectories st1.fs fp
            else (st1.fs, [])) = dres at h
        have hgd : Grows st1.fs dres.1 := by
          rw [← hd]; split
          · exact grows_restoreDirectories _ _
          · exact Grows.refl _
        cases hc : fsCreate dres.1 fp (.file content none) with
        | none => simp [hc] at h
        | some fs2 =>
          simp only [hc] at h
          obtain ⟨i1, i2, i3⟩ := ih _ st' h
          obtain ⟨hnone, hfs2, _⟩ := fsCreate_spec _ _ _ _ hc
          have hg2 : Grows dres.1 fs2 := grows_create _ _ _ _ hc
          refine ⟨?_, by rw [i2]; exact hfs1.2, ?_⟩
          · rw [← hfs1.1]; exact (hgd.trans hg2).trans i1
          · intro q hq
            simp only [List.mem_cons] at hq
            rcases hq with rfl | hq
            · refine ⟨fp, hm, i1 fp content ?_⟩
              rw [hfs2]; exact ⟨none, fsGet_append_new _ _ _ hnone⟩
            · exact i3 q hq

/-- **restore_files verifies what it writes.** If `restore_files` succeeds, every path of the fan-out
holds a file with exactly `info.size` bytes hashing to `info.hash`; files that existed are kept. -/
theorem restoreFiles_spec (hashOf : List β → H) (st st' : RSt β) (sourcePath : String) (m : Meta) (data : List β)
    (info : RFile H) (isTarget : Bool) (h : restoreFiles hashOf st sourcePath m data info isTarget = some st') :
    Grows st.fs st'.fs ∧ st'.ok = st.ok ∧
    ∀ p ∈ info.paths, ∃ fp d, manifestPathToFile p = some fp ∧ FileAt st'.fs fp d ∧
      d.length = info.size ∧ hashOf d = info.hash := by
  unfold restoreFiles at h
  cases hc : createFiles (data.take info.size) sourcePath isTarget info.paths st with
  | none => simp [hc] at h
  | some st1 =>
    simp only [hc] at h
    obtain ⟨c1, c2, c3⟩ := createFiles_spec _ _ _ _ _ _ hc
    split at h
    · cases h
    · rename_i hlen
      split at h
      · cases h
      · rename_i hhash
        have hl : (data.take info.size).length = info.size := by simp [List.length_take]; omega
        have hh : hashOf (data.take info.size) = info.hash := by simpa using hhash
        split at h
        · -- metadata of the source file is applied
          cases hsp : manifestPathToFile sourcePath with
          | none => simp [hsp] at h
          | some fp =>
            simp only [hsp] at h
            cases hsm : fsSetMeta st1.fs fp m with
            | none => simp [hsm] at h
            | some fs2 =>
              simp only [hsm, Option.map_some, Option.some.injEq] at h
              subst h
              have g2 := grows_setMeta _ _ _ _ hsm
              refine ⟨c1.trans g2, c2, ?_⟩
              intro p hp
              obtain ⟨fp', h1, h2⟩ := c3 p hp
              exact ⟨fp', _, h1, g2 _ _ h2, hl, hh⟩
        · simp only [Option.some.injEq] at h
          subst h
          refine ⟨c1, c2, ?_⟩
          intro p hp
          obtain ⟨fp', h1, h2⟩ := c3 p hp
          exact ⟨fp', _, h1, h2, hl, hh⟩

/-- What one archive entry does to the state: files persist, `ok` can only be cleared, and when the
entry carries the data of a planned file, every path of that file's fan-out is written and verified. -/
theorem processEntry_spec (hashOf : List β → H) (files : List (String × RFile H)) (isTarget : Bool)
    (st st' : RSt β) (seen seen' : List String) (e : Entry β)
    (h : processEntry hashOf files isTarget st seen e = some (st', seen')) :
    Grows st.fs st'.fs ∧ (st'.ok = true → st.ok = true) ∧
    (seen' = seen ∨ ∃ key info, seen' = seen ++ [key] ∧ mapGet files key = some info ∧
      ∀ p ∈ info.paths, ∃ fp d, manifestPathToFile p = some fp ∧ FileAt st'.fs fp d ∧
        d.length = info.size ∧ hashOf d = info.hash) := by
  unfold processEntry at h
  cases e with
  | other p => simp at h
  | dir p m =>
    simp only [] at h
    cases ht : tarPathToFile p with
    | none => simp [ht] at h
    | some fp =>
      simp only [ht] at h
      split at h
      · simp only [Option.some.injEq, Prod.mk.injEq] at h; obtain ⟨rfl, rfl⟩ := h
        exact ⟨Grows.refl _, id, Or.inl rfl⟩
      · split at h
        · simp only [Option.some.injEq, Prod.mk.injEq] at h; obtain ⟨rfl, rfl⟩ := h
          exact ⟨Grows.refl _, id, Or.inl rfl⟩
        · cases hc : fsCreate st.fs fp (.dir none) with
          | none => simp [hc] at h
          | some fs =>
            simp only [hc, Option.some.injEq, Prod.mk.injEq] at h; obtain ⟨rfl, rfl⟩ := h
            exact ⟨grows_create _ _ _ _ hc, id, Or.inl rfl⟩
  | symlink p m target =>
    simp only [] at h
    cases ht : tarPathToFile p with
    | none => simp [ht] at h
    | some fp =>
      simp only [ht] at h
      split at h
      · simp only [Option.some.injEq, Prod.mk.injEq] at h; obtain ⟨rfl, rfl⟩ := h
        exact ⟨Grows.refl _, id, Or.inl rfl⟩
      · cases hc : fsCreate st.fs fp (.symlink target m) with
        | none => simp [hc] at h
        | some fs =>
          simp only [hc, Option.some.injEq, Prod.mk.injEq] at h; obtain ⟨rfl, rfl⟩ := h
          exact ⟨grows_create _ _ _ _ hc, id, Or.inl rfl⟩
  | file p m data =>
    simp only [] at h
    cases ht : tarPathToFile p with
    | none => simp [ht] at h
    | some fp =>
      simp only [ht] at h
      cases hg : mapGet files ("/" ++ "/".intercalate fp) with
      | some info =>
        simp only [hg] at h
        cases hr : restoreFiles hashOf st ("/" ++ "/".intercalate fp) m data info isTarget with
        | none => simp [hr] at h
        | some st1 =>
          simp only [hr, Option.map_some, Option.some.injEq, Prod.mk.injEq] at h; obtain ⟨rfl, rfl⟩ := h
          obtain ⟨r1, r2, r3⟩ := restoreFiles_spec _ _ _ _ _ _ _ _ hr
          exact ⟨r1, by rw [r2]; exact id, Or.inr ⟨_, info, rfl, hg, r3⟩⟩
      | none =>
        simp only [hg] at h
        split at h
        · simp only [Option.some.injEq, Prod.mk.injEq] at h; obtain ⟨rfl, rfl⟩ := h
          exact ⟨Grows.refl _, id, Or.inl rfl⟩
        · split at h
          · simp only [Option.some.injEq, Prod.mk.injEq] at h; obtain ⟨rfl, rfl⟩ := h
            refine ⟨Grows.refl _, ?_, Or.inl rfl⟩
            intro hok; simp only [Bool.and_eq_true] at hok; exact hok.1
          · split at h
            · simp only [Option.some.injEq, Prod.mk.injEq] at h; obtain ⟨rfl, rfl⟩ := h
              exact ⟨Grows.refl _, (by intro hc; cases hc), Or.inl rfl⟩
            · simp only [Option.some.injEq, Prod.mk.injEq] at h; obtain ⟨rfl, rfl⟩ := h
              exact ⟨Grows.refl _, id, Or.inl rfl⟩

/-- Facts established for a set of plan keys: each has its whole fan-out written and verified. -/
def Written (hashOf : List β → H) (files : List (String × RFile H)) (fs : FS β) (keys : List String) : Prop :=
  ∀ key ∈ keys, ∃ info, mapGet files key = some info ∧
    ∀ p ∈ info.paths, ∃ fp d, manifestPathToFile p = some fp ∧ FileAt fs fp d ∧ d.length = info.size ∧ hashOf d = info.hash

theorem Written.grows {hashOf : List β → H} {files : List (String × RFile H)} {fs fs' : FS β} {keys : List String}
    (h : Written hashOf files fs keys) (g : Grows fs fs') : Written hashOf files fs' keys := by
  intro key hk
  obtain ⟨info, h1, h2⟩ := h key hk
  refine ⟨info, h1, ?_⟩
  intro p hp
  obtain ⟨fp, d, a, b, c, e⟩ := h2 p hp
  exact ⟨fp, d, a, g _ _ b, c, e⟩

theorem processEntries_spec (hashOf : List β → H) (files : List (String × RFile H)) (isTarget : Bool) :
    ∀ (es : List (Entry β)) (st st' : RSt β) (seen seen' : List String),
      processEntries hashOf files isTarget es st seen = some (st', seen') →
      Written hashOf files st.fs seen →
      Grows st.fs st'.fs ∧ (st'.ok = true → st.ok = true) ∧ Written hashOf files st'.fs seen' := by
  intro es
  induction es with
  | nil =>
    intro st st' seen seen' h hw
    simp only [processEntries, Option.some.injEq, Prod.mk.injEq] at h; obtain ⟨rfl, rfl⟩ := h
    exact ⟨Grows.refl _, id, hw⟩
  | cons e rest ih =>
    intro st st' seen seen' h hw
    simp only [processEntries] at h
    cases he : processEntry hashOf files isTarget st seen e with
    | none => simp [he] at h
    | some r =>
      obtain ⟨st1, seen1⟩ := r
      simp only [he] at h
      obtain ⟨e1, e2, e3⟩ := processEntry_spec _ _ _ _ _ _ _ _ he
      have hw1 : Written hashOf files st1.fs seen1 := by
        rcases e3 with rfl | ⟨key, info, rfl, hg, hall⟩
        · exact hw.grows e1
        · intro k hk
          simp only [List.mem_append, List.mem_singleton] at hk
          rcases hk with hk | rfl
          · exact (hw.grows e1) k hk
          · exact ⟨info, hg, hall⟩
      obtain ⟨i1, i2, i3⟩ := ih _ _ _ _ h hw1
      exact ⟨e1.trans i1, fun hh => e2 (i2 hh), i3⟩

theorem mem_mapGet (files : List (String × RFile H)) (f : String × RFile H) (hf : f ∈ files) :
    ∃ info, mapGet files f.1 = some info := by
  unfold mapGet
  cases hfind : files.find? (fun e => e.1 = f.1) with
  | none =>
    have := List.find?_eq_none.mp hfind f hf
    simp at this
  | some e => exact ⟨e.2, rfl⟩

/-- **One step.** If a step completes with `ok` still true, every file the plan assigned to this
step — with its whole fan-out — has been written and verified (this is where the missing-entry report
matters). -/
theorem processStep_spec (hashOf : List β → H) (b : Backup H β) (step : Step H) (isTarget : Bool) (st st' : RSt β)
    (h : processStep hashOf b step isTarget st = some st') :
    Grows st.fs st'.fs ∧ (st'.ok = true → st.ok = true ∧
      Written hashOf step.files st'.fs (step.files.map (·.1))) := by
  unfold processStep at h
  cases hp : processEntries hashOf step.files isTarget b.archive st [] with
  | none => simp [hp] at h
  | some r =>
    obtain ⟨st1, seen⟩ := r
    simp only [hp] at h
    split at h
    · cases h
    · simp only [Option.some.injEq] at h
      subst h
      obtain ⟨p1, p2, p3⟩ := processEntries_spec _ _ _ _ _ _ _ _ hp (by intro k hk; cases hk)
      refine ⟨p1, ?_⟩
      intro hok
      simp only [Bool.and_eq_true, List.all_eq_true] at hok
      refine ⟨p2 hok.1, ?_⟩
      intro key hk
      obtain ⟨f, hf, rfl⟩ := List.mem_map.mp hk
      have := hok.2 f hf
      exact p3 f.1 (by simpa using this)


theorem runSteps_spec (hashOf : List β → H) (group : List (Backup H β)) :
    ∀ (steps : List (Step H)) (first : Bool) (st st' : RSt β),
      runSteps hashOf group steps first st = some st' →
      Grows st.fs st'.fs ∧ (st'.ok = true → st.ok = true ∧
        ∀ s ∈ steps, Written hashOf s.files st'.fs (s.files.map (·.1))) := by
  intro steps
  induction steps with
  | nil =>
    intro first st st' h
    simp only [runSteps, Option.some.injEq] at h; subst h
    exact ⟨Grows.refl _, fun hok => ⟨hok, by intro s hs; cases hs⟩⟩
  | cons s rest ih =>
    intro first st st' h
    simp only [runSteps] at h
    cases hb : group[s.backup]? with
    | none => simp [hb] at h
    | some b =>
      simp only [hb] at h
      cases hp : processStep hashOf b s first st with
      | none => simp [hp] at h
      | some st1 =>
        simp only [hp] at h
        obtain ⟨p1, p2⟩ := processStep_spec _ _ _ _ _ _ hp
        obtain ⟨i1, i2⟩ := ih _ _ _ h
        refine ⟨p1.trans i1, ?_⟩
        intro hok
        obtain ⟨j1, j2⟩ := i2 hok
        obtain ⟨k1, k2⟩ := p2 j1
        refine ⟨k1, ?_⟩
        intro s' hs'
        simp only [List.mem_cons] at hs'
        rcases hs' with rfl | hs'
        · exact k2.grows i1
        · exact j2 s' hs'

theorem grows_applyMeta (pending : List String) :
    ∀ (l : List (FPath × Meta)) (fs fs' : FS β), applyMeta pending l fs = some fs' → Grows fs fs' := by
  intro l
  induction l with
  | nil => intro fs fs' h; simp only [applyMeta, Option.some.injEq] at h; subst h; exact Grows.refl _
  | cons x rest ih =>
    intro fs fs' h
    obtain ⟨fp, m⟩ := x
    simp only [applyMeta] at h
    split at h
    · exact ih _ _ h
    · cases hs : fsSetMeta fs fp m with
      | none => simp [hs] at h
      | some fs1 =>
        simp only [hs] at h
        exact (grows_setMeta _ _ _ _ hs).trans (ih _ _ h)

/-- **Execution is sound with respect to the plan.** If `restore` ends with status 0, the plan was
built without any problem and every file of every step of the plan — with all paths of its fan-out —
exists in the result with exactly the planned size and hash. -/
theorem exec_sound (hashOf : List β → H) (group : List (Backup H β)) (target : Nat) (fs : FS β)
    (h : restore hashOf group target = .done fs true) :
    ∃ p, plan group target = .ok p true ∧ ∀ s ∈ p.steps, Written hashOf s.files fs (s.files.map (·.1)) := by
  unfold restore at h
  cases hp : plan group target with
  | err => simp [hp] at h
  | ok p planOk =>
    simp only [hp] at h
    cases hr : runSteps hashOf group p.steps true
        { ok := planOk, pending := p.externFiles, missing := p.missingFiles } with
    | none => simp [hr] at h
    | some st =>
      simp only [hr] at h
      cases ha : applyMeta st.pending st.scheduled.reverse st.fs with
      | none => simp [ha] at h
      | some fs1 =>
        simp only [ha, RRes.done.injEq] at h
        obtain ⟨rfl, hok⟩ := h
        simp only [Bool.and_eq_true] at hok
        obtain ⟨r1, r2⟩ := runSteps_spec _ _ _ _ _ _ hr
        obtain ⟨q1, q2⟩ := r2 hok.1.1
        simp only at q1
        subst q1
        exact ⟨p, rfl, fun s hs => (q2 s hs).grows (grows_applyMeta _ _ _ _ ha)⟩

end Vsb.Restore
