import VsbModel.Model.SelfContained
set_option linter.unusedSimpArgs false
set_option linter.unusedVariables false

/-! The path spellings vsb writes are read back as the same components (converse of C11's confinement). -/
namespace Vsb.Restore

theorem splitGo_word (w : List Char) (hw : '/' ∉ w) (cur tail : List Char) :
    splitSlash.go cur (w ++ tail) = splitSlash.go (w.reverse ++ cur) tail := by
  induction w generalizing cur with
  | nil => rfl
  | cons c cs ih =>
    have hc : c ≠ '/' := by intro h; apply hw; simp [h]
    have hcs : '/' ∉ cs := by intro h; apply hw; simp [h]
    have : splitSlash.go cur ((c :: cs) ++ tail) = splitSlash.go (c :: cur) (cs ++ tail) := by
      simp only [List.cons_append]
      rw [splitSlash.go]
      intro heq; exact absurd heq hc
    rw [this, ih hcs]
    simp

theorem splitSlash_intercalate (ws : List (List Char)) (hne : ws ≠ []) (hw : ∀ w ∈ ws, '/' ∉ w) :
    splitSlash (List.intercalate ['/'] ws) = ws := by
  induction ws with
  | nil => exact absurd rfl hne
  | cons w rest ih =>
    cases rest with
    | nil =>
      simp only [List.intercalate, List.intersperse_singleton, List.flatten_cons, List.flatten_nil, List.append_nil]
      unfold splitSlash
      have := splitGo_word w (hw w (by simp)) [] []
      simp only [List.append_nil] at this
      rw [this]
      simp [splitSlash.go]
    | cons w2 rest' =>
      have ih' := ih (by simp) (fun x hx => hw x (List.mem_cons_of_mem _ hx))
      have hi : List.intercalate ['/'] (w :: w2 :: rest') = w ++ '/' :: List.intercalate ['/'] (w2 :: rest') := by
        simp [List.intercalate, List.intersperse]
      rw [hi]
      unfold splitSlash at ih' ⊢
      rw [splitGo_word w (hw w (by simp)) [] _]
      simp only [List.append_nil]
      rw [splitSlash.go]
      rw [ih']
      simp

/-- Normal components: what `vsb backup` archives (non-empty, not `.` or `..`, no `/`). -/
def NormalComps (fp : FPath) : Prop :=
  fp ≠ [] ∧ ∀ c ∈ fp, c.toList ≠ [] ∧ c.toList ≠ ['.'] ∧ c.toList ≠ ['.', '.'] ∧ '/' ∉ c.toList

theorem keptParts_intercalate (fp : FPath) (h : NormalComps fp) :
    keptParts (List.intercalate ['/'] (fp.map String.toList)) = fp.map String.toList := by
  unfold keptParts
  rw [splitSlash_intercalate _ (by simpa using h.1) (by
    intro w hw; obtain ⟨c, hc, rfl⟩ := List.mem_map.mp hw; exact (h.2 c hc).2.2.2)]
  rw [List.filter_eq_self]
  intro w hw
  obtain ⟨c, hc, rfl⟩ := List.mem_map.mp hw
  have := h.2 c hc
  simp [this.1, this.2.1]

theorem compsOf_intercalate (isAbs : Bool) (fp : FPath) (h : NormalComps fp) :
    compsOf isAbs (List.intercalate ['/'] (fp.map String.toList)) = some (isAbs, fp) := by
  unfold compsOf
  have hk := keptParts_intercalate fp h
  have hsplit := splitSlash_intercalate (fp.map String.toList) (by simpa using h.1) (by
    intro w hw; obtain ⟨c, hc, rfl⟩ := List.mem_map.mp hw; exact (h.2 c hc).2.2.2)
  have hhead : (splitSlash (List.intercalate ['/'] (fp.map String.toList))).head? ≠ some ['.'] := by
    rw [hsplit]
    cases fp with
    | nil => exact absurd rfl h.1
    | cons c cs =>
      simp only [List.map_cons, List.head?_cons, ne_eq, Option.some.injEq]
      exact (h.2 c (by simp)).2.1
  have hdd : (keptParts (List.intercalate ['/'] (fp.map String.toList))).any (· = ['.', '.']) = false := by
    rw [hk, List.any_eq_false]
    intro w hw
    obtain ⟨c, hc, rfl⟩ := List.mem_map.mp hw
    simpa using (h.2 c hc).2.2.1
  rw [hdd, hk]
  have : (!isAbs && decide ((splitSlash (List.intercalate ['/'] (fp.map String.toList))).head? = some ['.'])) = false := by
    simp [hhead]
  simp only [this, Bool.false_eq_true, if_false, List.map_map, Option.some.injEq, Prod.mk.injEq, true_and]
  rw [List.map_congr_left (g := id)]
  · simp
  · intro c _; simp

theorem components_rel (fp : FPath) (h : NormalComps fp) : components ("/".intercalate fp) = some (false, fp) := by
  obtain ⟨c, cs, rfl⟩ : ∃ c cs, fp = c :: cs := by
    cases fp with
    | nil => exact absurd rfl h.1
    | cons c cs => exact ⟨c, cs, rfl⟩
  have hl : ("/".intercalate (c :: cs)).toList = List.intercalate ['/'] ((c :: cs).map String.toList) := by
    rw [String.toList_intercalate]; rfl
  unfold components
  rw [hl]
  have hc := h.2 c (by simp)
  have hfirst : ∀ r, List.intercalate ['/'] ((c :: cs).map String.toList) ≠ '/' :: r := by
    intro r heq
    cases hct : c.toList with
    | nil => exact hc.1 hct
    | cons x xs =>
      have hx : x ≠ '/' := by intro hx; apply hc.2.2.2; rw [hct, hx]; simp
      cases cs with
      | nil => simp [List.intercalate, hct] at heq; exact hx heq.1
      | cons c2 cs' => simp [List.intercalate, List.intersperse, hct] at heq; exact hx heq.1
  split
  · rename_i r heq; exact absurd heq (hfirst r)
  · exact compsOf_intercalate false (c :: cs) h

theorem components_abs (fp : FPath) (h : NormalComps fp) : components (keyOf fp) = some (true, fp) := by
  have hl : (keyOf fp).toList = '/' :: List.intercalate ['/'] (fp.map String.toList) := by
    unfold keyOf
    rw [String.toList_append, String.toList_intercalate]; rfl
  unfold components
  rw [hl]
  exact compsOf_intercalate true fp h

/-- **path_roundtrip.** The archive spelling `a/b/c` and the manifest spelling `/a/b/c` of normal components are
both read back as exactly those components. -/
theorem path_roundtrip (fp : FPath) (h : NormalComps fp) :
    tarPathToFile ("/".intercalate fp) = some fp ∧ manifestPathToFile (keyOf fp) = some fp := by
  obtain ⟨c, cs, rfl⟩ : ∃ c cs, fp = c :: cs := by
    cases fp with
    | nil => exact absurd rfl h.1
    | cons c cs => exact ⟨c, cs, rfl⟩
  constructor
  · unfold tarPathToFile; rw [components_rel _ h]
  · unfold manifestPathToFile; rw [components_abs _ h]

end Vsb.Restore
