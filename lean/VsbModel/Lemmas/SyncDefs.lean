import VsbModel.Lemmas.Sync
set_option linter.unusedSimpArgs false

/-! Vocabulary of the C06 statements (moved here so that lemma files can use it). -/
namespace Vsb.Sync

/-- Backup `b` is listed in group `g` of `gs`. -/
def InGroups (gs : List Group) (g b : Nat) : Prop := ∃ e ∈ gs, e.1 = g ∧ b ∈ e.2
/-- Group `g` is listed in `gs`. -/
def HasGroup (gs : List Group) (g : Nat) : Prop := g ∈ gs.map (·.1)

/-- "In the retention window": fewer than `max` non-empty groups (of either side) are newer. -/
def InWindow (localGs cloudGs : List Group) (max g : Nat) : Prop :=
  newerNonEmpty (merged localGs cloudGs) g < max

theorem lookup_of_mem (m : BMap) (hm : Asc (keys m)) (g : Nat) (bs : List Nat) (h : (g, bs) ∈ m) :
    lookup m g = some bs := by
  induction m with
  | nil => cases h
  | cons e rest ih =>
    have hk := List.pairwise_cons.mp hm
    rw [lookup_cons]
    simp only [List.mem_cons] at h
    rcases h with rfl | h
    · simp
    · have : e.1 < g := hk.1 g (List.mem_map_of_mem (f := (·.1)) h)
      have hne : ¬ e.1 = g := by omega
      simp only [hne, if_false]
      exact ih hk.2 h

theorem mem_mapping_backups (gs : List Group) (g b : Nat) :
    b ∈ (lookup (mapping gs) g).getD [] ↔ InGroups gs g b := by
  have := mem_lookup_extendAll [] gs (by simp [keys, Asc]) g b
  simpa [lookup, InGroups, mapping, extendAll] using this

theorem mem_keys_mapping (gs : List Group) (g : Nat) : g ∈ keys (mapping gs) ↔ HasGroup gs g := by
  have := mem_keys_extendAll [] gs g
  simpa [keys, HasGroup, mapping, extendAll] using this

theorem mem_merged_backups (localGs cloudGs : List Group) (g b : Nat) :
    b ∈ (lookup (merged localGs cloudGs) g).getD [] ↔ InGroups localGs g b ∨ InGroups cloudGs g b := by
  have h1 := mem_lookup_extendAll (mapping localGs) cloudGs
    (asc_keys_extendAll [] localGs (by simp [keys, Asc])) g b
  rw [merged, h1, mem_mapping_backups]; rfl

theorem mem_keys_merged (localGs cloudGs : List Group) (g : Nat) :
    g ∈ keys (merged localGs cloudGs) ↔ HasGroup localGs g ∨ HasGroup cloudGs g := by
  rw [merged, mem_keys_extendAll, mem_keys_mapping]; rfl

end Vsb.Sync
